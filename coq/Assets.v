(* Assets.v — the LP each asset class emits (assets.py), function by function.
   Every builder takes the main grid, the asset's restricted grid (see Grid.v) and the
   asset's parameters and returns (c, l, u, rows, mapping), or None where the code raises. *)
From Coq Require Import QArith ZArith List Lia Bool String Arith DecimalString.
From EAO Require Import Num LP Mapping Grid.
Import ListNotations.
Open Scope Q_scope.

Record aprob := { ap_lp : lp; ap_map : list mrow }.

(* ---------- parameters in all accepted forms (assets.py:187-221 make_vector) ---------- *)
Inductive param :=
| PConst (v : Q)
| PKey (vals : vec)                      (* prices[key]: array over the full grid *)
| PDict (ivs : list ival)                (* start / end / values *)
| PDictS (starts : list Z) (vals : vec). (* start / values; ends implicit *)

Definition vmul (a b : vec) : vec := map (fun p => Qred (fst p * snd p)) (combine a b).
Definition vadd (a b : vec) : vec := map (fun p => Qred (fst p + snd p)) (combine a b).
Definition vsubq (a b : vec) : vec := map (fun p => Qred (fst p - snd p)) (combine a b).
Definition vneg (a : vec) : vec := map Qopp a.

Fixpoint fill (ov : list (option Q)) (dflt : option Q) : option vec :=
  match ov with
  | [] => Some []
  | o :: ov' =>
      match (match o with Some v => Some v | None => dflt end), fill ov' dflt with
      | Some v, Some r => Some (v :: r)
      | _, _ => None                      (* NaN left in the vector: OptimProblem asserts *)
      end
  end.

Definition ivals_of (p : param) : option (list ival) :=
  match p with
  | PDict ivs => Some ivs
  | PDictS starts vals => Some (combine (combine starts (ends_of starts)) vals)
  | _ => None
  end.

Definition mkvec (rg : rgrid) (p : param) (dflt : option Q) (conv : bool) : option vec :=
  let base :=
    match p with
    | PConst v => Some (repeat v (rg_T rg))
    | PKey vals => Some (pick 0 vals (rg_I rg))
    | _ => match ivals_of p with
           | Some ivs => match values_to_grid (rg_tp rg) ivs with
                         | Some ov => fill ov dflt | None => None end
           | None => None end
    end in
  option_map (fun v => if conv then vmul v (rg_dt rg) else v) base.

Definition all_b (f : Q -> bool) (v : vec) : bool := forallb f v.
Definition le0 (a : Q) := Qle_bool a 0.
Definition ge0 (a : Q) := Qle_bool 0 a.
Definition eq0 (a : Q) := Qeq_bool a 0.
Definition qmin0 (a : Q) : Q := if Qle_bool a 0 then a else 0.
Definition qmax0 (a : Q) : Q := if Qle_bool 0 a then a else 0.
Definition any_gt (a b : vec) : bool := existsb (fun p => negb (Qle_bool (fst p) (snd p))) (combine a b).

Definition mean (v : vec) : Q := Qred (qsumx v / inject_Z (Z.of_nat (List.length v))).

(* price on the asset's grid: restricted, or averaged over the minor steps of each major step
   (assets.py:709-716) *)
Definition price_vec (rg : rgrid) (pr : vec) : vec :=
  match rg_minor rg with
  | Some groups => map (fun grp => mean (pick 0 pr grp)) groups
  | None => pick 0 pr (rg_I rg)
  end.

Definition mk_rows (name : string) (node : option string) (ty vn : string) (off : nat) (fac : vec) (I : list nat) : list mrow :=
  map (fun p => Build_mrow (off + fst (fst p)) name node ty (snd (fst p)) (snd p) vn false)
      (combine (combine (seq 0 (List.length I)) I) fac).
Definition ones (n : nat) : vec := repeat 1 n.

(* ---------- extension of the mapping to the minor grid (assets.py:127-153) ---------- *)
Fixpoint index_of (x : nat) (l : list nat) : option nat :=
  match l with [] => None | a :: l' => if Nat.eqb a x then Some 0%nat else option_map S (index_of x l') end.
Definition extend_minor (gdt : vec) (rg : rgrid) (mp : list mrow) : option (list mrow) :=
  match rg_minor rg with
  | None => Some mp
  | Some groups =>
      fold_right (fun r acc =>
        match acc, index_of (m_step r) (rg_I rg) with
        | Some rest, Some im =>
            Some (map (fun t => Build_mrow (m_var r) (m_asset r) (m_node r) (m_type r) t
                                  (Qred (nth t gdt 0 / nth im (rg_dt rg) 0 * m_factor r)) (m_name r) (m_bool r))
                      (nth im groups []) ++ rest)
        | _, _ => None
        end) (Some []) mp
  end.

(* ---------- SimpleContract (assets.py:670-790) ---------- *)
Record contract_p := {
  cp_name : string; cp_node : string;
  cp_price : option vec;           (* prices[price], full grid; None = no price *)
  cp_min : param; cp_max : param; cp_extra : param }.

Definition simple_contract (g : grid) (rg : rgrid) (p : contract_p) : option aprob :=
  let T := rg_T rg in
  let pr0 := match cp_price p with Some v => v | None => repeat 0 (g_T g) end in
  if negb (Nat.eqb (List.length pr0) (g_T g)) then None else
  let pr := price_vec rg pr0 in
  match mkvec rg (cp_max p) None true, mkvec rg (cp_min p) None true, mkvec rg (cp_extra p) (Some 0) false with
  | Some maxc, Some minc, Some ec =>
      if any_gt minc maxc then None else
      let d := rg_disc rg in
      if all_b eq0 ec || all_b le0 maxc || all_b ge0 minc then
        let pr1 := if negb (all_b eq0 ec) then
                     let p1 := if all_b le0 maxc then vsubq pr ec else pr in
                     if all_b ge0 minc then vadd p1 ec else p1
                   else pr in
        match extend_minor (g_dt g) rg (mk_rows (cp_name p) (Some (cp_node p)) "d" "disp" 0 (ones T) (rg_I rg)) with
        | Some mp => Some {| ap_lp := {| lp_c := vmul pr1 d; lp_l := minc; lp_u := maxc; lp_rows := [] |}; ap_map := mp |}
        | None => None end
      else
        match extend_minor (g_dt g) rg (mk_rows (cp_name p) (Some (cp_node p)) "d" "disp_in" 0 (ones T) (rg_I rg) ++
                                         mk_rows (cp_name p) (Some (cp_node p)) "d" "disp_out" T (ones T) (rg_I rg)) with
        | Some mp =>
          Some {| ap_lp := {| lp_c := vmul (vsubq pr ec) d ++ vmul (vadd pr ec) d;
                              lp_l := map qmin0 minc ++ map qmax0 minc;
                              lp_u := map qmin0 maxc ++ map qmax0 maxc; lp_rows := [] |};
                  ap_map := mp |}
        | None => None end
  | _, _, _ => None
  end.

(* ---------- min / max take rows (assets.py:968-1004 define_restr) ---------- *)
(* take periods are (start, end, value) with explicit ends *)
Definition take := (Z * Z * Q)%type.
Definition dedup_nat (l : list nat) : list nat :=
  fold_right (fun a acc => if existsb (Nat.eqb a) acc then acc else a :: acc) [] (rev l).
Definition take_row (g : grid) (rg : rgrid) (mp : list mrow) (node : option string) (ty : rtype) (tk : take) : list crow :=
  let '(s, e, v) := tk in
  (* restricted time points inside [s, e) -> their main-grid step ids *)
  let steps := map snd (filter (fun p => in_window s e (fst p)) (combine (rg_tp rg) (rg_I rg))) in
  let rows := flat_map (fun t => filter (fun r => Nat.eqb (m_step r) t &&
                            match node with None => true | Some n => at_node n r end) mp) steps in
  match rows with
  | [] => []                                  (* interval outside the grid: no restriction *)
  | _ => let covered := qsumx (pick 0 (g_dt g) (rev (dedup_nat (map m_step rows)))) in
         [ {| r_a := map (fun r => (m_var r, m_factor r)) rows; r_t := ty;
              r_b := Qred (v / qz (e - s) (g_unit g) * covered) |} ]
  end.
Definition take_rows (g : grid) (rg : rgrid) (mp : list mrow) (node : option string) (ty : rtype) (tks : list take) : list crow :=
  flat_map (take_row g rg mp node ty) tks.

(* ---------- Transport (assets.py:849-964) ---------- *)
Record transport_p := {
  tp_name : string; tp_n1 : string; tp_n2 : string;
  tp_costs : option vec; tp_const : Q; tp_min : Q; tp_max : Q; tp_eff : Q }.

Definition transport (g : grid) (rg : rgrid) (p : transport_p) : option aprob :=
  let T := rg_T rg in
  let cts0 := match tp_costs p with Some v => v | None => repeat 0 (g_T g) end in
  if negb (Nat.eqb (List.length cts0) (g_T g)) then None else
  let cts := if Nat.eqb (List.length cts0) 1 then cts0 else price_vec rg cts0 in
  let maxc := vmul (repeat (tp_max p) T) (rg_dt rg) in
  let minc := vmul (repeat (tp_min p) T) (rg_dt rg) in
  let c := map (fun v => Qred (v + tp_const p)) cts in
  if (all_b le0 maxc || all_b ge0 minc) || all_b eq0 c then
    let c1 := if all_b le0 maxc then vneg c else c in
    match extend_minor (g_dt g) rg
            (mk_rows (tp_name p) (Some (tp_n1 p)) "d" "disp" 0 (repeat (-1) T) (rg_I rg) ++
             mk_rows (tp_name p) (Some (tp_n2 p)) "d" "disp" 0 (repeat (tp_eff p) T) (rg_I rg)) with
    | Some mp => Some {| ap_lp := {| lp_c := vmul c1 (rg_disc rg); lp_l := minc; lp_u := maxc; lp_rows := [] |}; ap_map := mp |}
    | None => None end
  else None.

(* ---------- Storage (assets.py:313-557), without time blocks ---------- *)
Record storage_p := {
  sp_name : string; sp_nodes : list string;
  sp_size : Q; sp_cap_in : Q; sp_cap_out : Q; sp_start : Q; sp_end : Q;
  sp_cost_in : Q; sp_cost_out : Q; sp_cost_store : Q; sp_eff : Q; sp_inflow : Q;
  sp_price : option vec; sp_no_simult : bool; sp_max_dur : option Q }.

(* what Storage.__init__ accepts (assets.py:294-295): start level <= size, end level within [0, size] *)
Definition storage_ctor_ok (p : storage_p) : bool :=
  Qle_bool (sp_start p) (sp_size p) && Qle_bool 0 (sp_end p) && Qle_bool (sp_end p) (sp_size p).

Fixpoint tails_sum (l : vec) : vec :=       (* [sum l[i:] for i]; the recursive result is shared (one call per element) *)
  match l with [] => [] | a :: l' => let r := tails_sum l' in Qred (a + hd 0 (r ++ [0])) :: r end.
Definition set_last (l : vec) (v : Q) : vec := match l with [] => [] | _ => removelast l ++ [v] end.
(* lower-triangular cumulative row i: columns off..off+i with coefficient k *)
Definition tril_row (off i : nat) (k : Q) : srow := map (fun j => ((off + j)%nat, k)) (seq 0 (S i)).

(* no simultaneous in/out: binary mode variable per step (assets.py:476-511) *)
Definition bool_rows (name vn : string) (off : nat) (I : list nat) : list mrow :=
  map (fun p => Build_mrow (off + fst p) name None "i" (snd p) 1 vn true) (combine (seq 0 (List.length I)) I).
Definition add_no_simult (name : string) (n : nat) (cp ct : vec) (I : list nat) (a : aprob) : aprob :=
  let P := ap_lp a in
  let nv0 := nvars P in
  let r_in := map (fun i => {| r_a := [(i, 1); ((nv0 + i)%nat, - nth i cp 0)]; r_t := RL; r_b := - nth i cp 0 |}) (seq 0 n) in
  let r_out := map (fun i => {| r_a := [((n + i)%nat, 1); ((nv0 + i)%nat, - nth i ct 0)]; r_t := RU; r_b := 0 |}) (seq 0 n) in
  {| ap_lp := Build_lp (lp_c P ++ repeat 0 n) (lp_l P ++ repeat 0 n) (lp_u P ++ repeat 1 n) (lp_rows P ++ r_in ++ r_out);
     ap_map := ap_map a ++ bool_rows name "bool_1" nv0 I |}.

(* maximum holding duration: binary "non-empty" indicator per step (assets.py:513-548) *)
Definition add_max_dur (name : string) (n : nat) (dt : vec) (md : Q) (I : list nat) (a : aprob) : aprob :=
  let P := ap_lp a in
  let m := nvars P in
  (* first n rows (upper level rows): append -b_i on the indicator, rhs 0 *)
  let rows1 := map (fun ir => let i := fst ir in let r := snd ir in
                      if Nat.ltb i n then {| r_a := r_a r ++ [((m + i)%nat, - r_b r)]; r_t := r_t r; r_b := 0 |} else r)
                   (combine (seq 0 (List.length (lp_rows P))) (lp_rows P)) in
  let win i :=
    let inw := map (fun v => Qle_bool v md) (cumsum (skipn i dt)) in
    match index_of 0%nat (map (fun b : bool => if b then 1%nat else 0%nat) inw) with   (* first step outside the window *)
    | None => []
    | Some k =>
        let cols := map (fun j => ((m + i + j)%nat, 1)) (filter (fun j => nth j inw false || Nat.eqb j k) (seq 0 (List.length inw))) in
        [ {| r_a := cols; r_t := RU; r_b := inject_Z (Z.of_nat (List.length cols)) - 1 |} ]
    end in
  {| ap_lp := Build_lp (lp_c P ++ repeat 0 n) (lp_l P ++ repeat 0 n) (lp_u P ++ repeat 1 n) (rows1 ++ flat_map win (seq 0 n));
     ap_map := ap_map a ++ bool_rows name "bool_2" m I |}.

(* named pieces of the storage problem (used by the proofs in StorageProofs.v) *)
Definition st_sep (p : storage_p) : bool :=
  negb (Qeq_bool (sp_eff p) 1) || negb (Qeq_bool (sp_cost_in p) 0) || negb (Qeq_bool (sp_cost_out p) 0) ||
  Nat.eqb (List.length (sp_nodes p)) 2.
Definition st_inflow (p : storage_p) (dt : vec) : vec := cumsum (map (fun d => Qred (sp_inflow p * d)) dt).
Definition st_arow (p : storage_p) (n i : nat) : srow :=
  if st_sep p then tril_row 0 i (- sp_eff p) ++ tril_row n i (-1) else tril_row 0 i (-1).
(* right-hand sides: assets.py:402-406 *)
Definition st_bup (p : storage_p) (n : nat) (dt : vec) (i : nat) : Q :=
  if Nat.eqb (S i) n then Qred (sp_end p - sp_start p - nth i (st_inflow p dt) 0)
  else Qred (sp_size p - sp_start p - nth i (st_inflow p dt) 0).
Definition st_blo (p : storage_p) (n : nat) (dt : vec) (i : nat) : Q :=
  if Nat.eqb (S i) n then Qred (sp_end p - sp_start p - nth i (st_inflow p dt) 0)
  else Qred (- sp_start p - nth i (st_inflow p dt) 0).
Definition st_rows (p : storage_p) (n : nat) (dt : vec) : list crow :=
  map (fun i => {| r_a := st_arow p n i; r_t := RU; r_b := st_bup p n dt i |}) (seq 0 n) ++
  map (fun i => {| r_a := st_arow p n i; r_t := RL; r_b := st_blo p n dt i |}) (seq 0 n).
Definition st_l (p : storage_p) (n : nat) (dt : vec) : vec :=
  let cp := map (fun d => Qred (sp_cap_in p * d)) dt in
  if st_sep p then vneg cp ++ repeat 0 n else vneg cp.
Definition st_u (p : storage_p) (n : nat) (dt : vec) : vec :=
  let ct := map (fun d => Qred (sp_cap_out p * d)) dt in
  if st_sep p then repeat 0 n ++ ct else ct.
Definition st_c (p : storage_p) (n : nat) (dt disc : vec) (price : option vec) : vec :=
  let cs := if Qeq_bool (sp_cost_store p) 0 then None
            else Some (tails_sum (vmul (map (fun d => Qred (sp_cost_store p * d)) dt) disc)) in
  if st_sep p then
    let c0 := repeat (- sp_cost_in p) n in
    let c1 := repeat (sp_cost_out p) n in
    let c0 := match price with Some q => vsubq c0 q | None => c0 end in
    let c1 := match price with Some q => vsubq c1 q | None => c1 end in
    let c0 := vmul c0 disc in let c1 := vmul c1 disc in
    let c0 := match cs with Some s => vsubq c0 (map (fun v => Qred (v * sp_eff p)) s) | None => c0 end in
    let c1 := match cs with Some s => vsubq c1 s | None => c1 end in
    c0 ++ c1
  else
    let c0 := repeat 0 n in
    let c0 := match price with Some q => vsubq c0 (vmul q disc) | None => c0 end in
    match cs with Some s => vsubq c0 s | None => c0 end.
Definition st_map (p : storage_p) (n : nat) (I : list nat) : list mrow :=
  let two_nodes := Nat.eqb (List.length (sp_nodes p)) 2 in
  let n0 := hd ""%string (sp_nodes p) in
  let n1 := nth 1 (sp_nodes p) n0 in
  if st_sep p then
    mk_rows (sp_name p) (Some n0) "d" "disp_in" 0 (ones n) I ++
    mk_rows (sp_name p) (Some (if two_nodes then n1 else n0)) "d" "disp_out" n (ones n) I
  else mk_rows (sp_name p) (Some n0) "d" "disp" 0 (ones n) I.

Definition storage (g : grid) (rg : rgrid) (p : storage_p) : option aprob :=
  let n := rg_T rg in
  if Nat.eqb n 0 then Some {| ap_lp := Build_lp [] [] [] []; ap_map := [] |} else
  let dt := rg_dt rg in
  let ct := map (fun d => Qred (sp_cap_out p * d)) dt in
  let cp := map (fun d => Qred (sp_cap_in p * d)) dt in
  let pr := match sp_price p with
            | Some v => if Nat.eqb (List.length v) (g_T g) then Some (Some (price_vec rg v)) else None
            | None => Some None end in
  match pr with None => None | Some price =>
  let a0 := {| ap_lp := Build_lp (st_c p n dt (rg_disc rg) price) (st_l p n dt) (st_u p n dt) (st_rows p n dt);
               ap_map := st_map p n (rg_I rg) |} in
  let a1 := if sp_no_simult p && st_sep p then add_no_simult (sp_name p) n cp ct (rg_I rg) a0 else a0 in
  let a2 := match sp_max_dur p with Some md => add_max_dur (sp_name p) n dt md (rg_I rg) a1 | None => a1 end in
  match extend_minor (g_dt g) rg (ap_map a2) with
  | Some mp' => Some {| ap_lp := ap_lp a2; ap_map := mp' |}
  | None => None end
  end.

(* ---------- OrderBook (assets.py:2704-2788); restricted grid = whole grid ---------- *)
Record order := { o_start : Z; o_end : Z; o_capa : Q; o_price : Q }.
Definition orderbook (name node : string) (full_exec : bool) (rg : rgrid) (orders : list order) : aprob :=
  let n := List.length orders in
  let sel o := filter (fun k => in_window (o_start o) (o_end o) (nth k (rg_tp rg) 0%Z)) (seq 0 (rg_T rg)) in
  let c := map (fun o => Qred (o_capa o * qsumx (map (fun k => nth k (rg_dt rg) 0 * nth k (rg_disc rg) 0) (sel o)) * o_price o)) orders in
  let mp := flat_map (fun io => let i := fst io in let o := snd io in
               map (fun k => Build_mrow i name (Some node) "d" (nth k (rg_I rg) 0%nat)
                                        (Qred (o_capa o * nth k (rg_dt rg) 0)) (NilEmpty.string_of_uint (Nat.to_uint i)) full_exec) (sel o))
            (combine (seq 0 n) orders) in
  {| ap_lp := Build_lp c (repeat 0 n) (repeat 1 n) []; ap_map := mp |}.

(* ---------- MultiCommodityContract: mapping copied per node with its factor (assets.py:2237-2246) ---------- *)
Definition multi_map (mp : list mrow) (nodes : list string) (factors : vec) : list mrow :=
  flat_map (fun nf => map (fun r => Build_mrow (m_var r) (m_asset r) (Some (fst nf)) (m_type r) (m_step r)
                                     (Qred (m_factor r * snd nf)) (m_name r) (m_bool r))
                          (filter is_d mp)) (combine nodes factors).
