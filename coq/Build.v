(* Build.v — entry points used by the correspondence check: asset parameters -> stand-alone
   problem exactly as <Asset>.setup_optim_problem returns it. *)
From Coq Require Import QArith ZArith List Lia Bool String Arith.
From EAO Require Import Num LP Mapping Dcf Grid Assets Periodic.
Import ListNotations.
Open Scope Q_scope.

Definition obind {A B} (o : option A) (f : A -> option B) : option B := match o with Some a => f a | None => None end.

Definition build_simple_contract (g : grid) (rg : option rgrid) (p : contract_p) (per : option (list Z * list Z)) : option aprob :=
  obind rg (fun rg => obind (simple_contract g rg p) (apply_periodic g per)).

Definition with_rows (a : aprob) (rows : list crow) : aprob :=
  {| ap_lp := add_rows (ap_lp a) rows; ap_map := ap_map a |}.

(* Contract (assets.py:1102-1151): SimpleContract + max take (U) + min take (L), then periodicity *)
Definition contract_core (g : grid) (rg : rgrid) (p : contract_p) (mx mn : list take) : option aprob :=
  obind (simple_contract g rg p) (fun a =>
    Some (with_rows a (take_rows g rg (ap_map a) None RU mx ++ take_rows g rg (ap_map a) None RL mn))).
Definition build_contract (g : grid) (rg : option rgrid) (p : contract_p) (mx mn : list take) (per : option (list Z * list Z)) : option aprob :=
  obind rg (fun rg => obind (contract_core g rg p mx mn) (apply_periodic g per)).

Definition build_multi (g : grid) (rg : option rgrid) (p : contract_p) (mx mn : list take) (per : option (list Z * list Z))
    (nodes : list string) (factors : vec) : option aprob :=
  obind (build_contract g rg p mx mn per) (fun a =>
    Some {| ap_lp := ap_lp a; ap_map := multi_map (ap_map a) nodes factors |}).

Definition build_transport (g : grid) (rg : option rgrid) (p : transport_p) (per : option (list Z * list Z)) : option aprob :=
  obind rg (fun rg => obind (transport g rg p) (apply_periodic g per)).

(* ExtendedTransport (assets.py:2340-2397): takes refer to the quantity leaving node 1: values negated,
   max take -> 'L', min take -> 'U', rows restricted to node 1 *)
Definition neg_takes (tks : list take) : list take := map (fun t => (fst t, - snd t)) tks.
Definition build_ext_transport (g : grid) (rg : option rgrid) (p : transport_p) (mx mn : list take) (per : option (list Z * list Z)) : option aprob :=
  obind rg (fun rg => obind (transport g rg p) (fun a =>
    apply_periodic g per
      (with_rows a (take_rows g rg (ap_map a) (Some (tp_n1 p)) RL (neg_takes mx) ++
                    take_rows g rg (ap_map a) (Some (tp_n1 p)) RU (neg_takes mn))))).

Definition build_storage (g : grid) (rg : option rgrid) (p : storage_p) (per : option (list Z * list Z)) : option aprob :=
  if negb (storage_ctor_ok p) then None else
  obind rg (fun rg => obind (storage g rg p) (fun a =>
    if Nat.eqb (rg_T rg) 0 then Some a else apply_periodic g per a)).

(* the builder refuses what Storage.__init__ refuses: an end level outside [0, size] never reaches the optimisation *)
Lemma build_storage_some_ctor_ok g rg p per a : build_storage g rg p per = Some a -> storage_ctor_ok p = true.
Proof. unfold build_storage. destruct (storage_ctor_ok p); [reflexivity | discriminate]. Qed.

Lemma build_storage_some_levels_ok g rg p per a : build_storage g rg p per = Some a ->
  sp_start p <= sp_size p /\ 0 <= sp_end p /\ sp_end p <= sp_size p.
Proof.
  intros H. apply build_storage_some_ctor_ok in H. unfold storage_ctor_ok in H.
  apply andb_true_iff in H. destruct H as [H H3]. apply andb_true_iff in H. destruct H as [H1 H2].
  repeat split; apply Qle_bool_iff; assumption.
Qed.

Definition build_orderbook (name node : string) (full_exec : bool) (rg : option rgrid) (orders : list order) : option aprob :=
  obind rg (fun rg => Some (orderbook name node full_exec rg orders)).

(* comparison with the implementation's stand-alone problem *)
From EAO Require Import Cert Corr GridProofs.
Definition asset_case (model : option aprob) (impl_ok : bool) (P : lp) (mp : list mrow) : list bool :=
  match model with
  | None => [negb impl_ok; true; true; true; true; true]      (* both reject *)
  | Some a => impl_ok :: lp_close (ap_lp a) P ++ [map_close (ap_map a) mp || map_close_perm (ap_map a) mp]
  end.

(* ---------- portfolios ---------- *)
From EAO Require Import Portfolio.
Fixpoint seq_opts {A} (l : list (option A)) : option (list A) :=
  match l with
  | [] => Some []
  | Some a :: r => option_map (cons a) (seq_opts r)
  | None :: _ => None
  end.
Definition build_portfolio (g : grid) (nodes : list string) (aps : list (option aprob)) : option aprob :=
  obind (seq_opts aps) (fun l => Some (portfolio nodes [] (g_I g) l)).

(* ---------- C07 ---------- *)
Fixpoint all_le (l u : vec) : bool :=
  match l, u with a :: l', b :: u' => Qle_bool a b && all_le l' u' | [], [] => true | _, _ => false end.
(* a variable without mapping row has zero cost and occurs in no constraint *)
Definition unmapped_ok (P : lp) (mp : list mrow) : bool :=
  forallb (fun v => existsb (fun r => Nat.eqb (m_var r) v) mp ||
                    (Qeq_bool (nth v (lp_c P) 0) 0 &&
                     forallb (fun r => forallb (fun e => negb (Nat.eqb (fst e) v) || Qeq_bool (snd e) 0) (r_a r)) (lp_rows P)))
          (seq 0 (nvars P)).
Fixpoint nodup_sn (l : list (nat * string)) : bool :=
  match l with [] => true | a :: r => negb (existsb (sn_eqb a) r) && nodup_sn r end.
Definition c07_case (T : nat) (nodes names : list string) (steps : list nat) (parts : list aprob)
    (P : lp) (mp : list mrow) (rec : list (nat * string)) : list bool :=
  let m := portfolio nodes [] steps parts in
  lp_close (ap_lp m) P ++
  [ map_close (ap_map m) mp;
    steps_nodes_eqb (nodal_map nodes [] steps (ap_map m)) rec;
    wf_lpb P; all_le (lp_l P) (lp_u P); wf_mapb (nvars P) T (lp_c P) names mp; unmapped_ok P mp; nodup_sn rec ].

(* ---------- C05 ---------- *)
From EAO Require Import StorageProofs.
(* reported fill level (Storage.fill_level, full grid) against the model's physical level at the asset's steps *)
Definition c05_level_case (rg : option rgrid) (p : storage_p) (x : vec) (reported : vec) : bool :=
  match rg with
  | None => true
  | Some rg =>
      match rg_minor rg with
      | Some _ => true
      | None =>
          let n := rg_T rg in
          vclose tol (map (fun t => level p n (rg_dt rg) x t) (seq 0 n)) (pick 0 reported (rg_I rg))
      end
  end.

(* ---------- C19 ---------- *)
Fixpoint list_eqb_nat (a b : list nat) : bool :=
  match a, b with [] , [] => true | x :: a', y :: b' => Nat.eqb x y && list_eqb_nat a' b' | _, _ => false end.
Fixpoint list_eqb_Z (a b : list Z) : bool :=
  match a, b with [] , [] => true | x :: a', y :: b' => Z.eqb x y && list_eqb_Z a' b' | _, _ => false end.
Definition c19_grid_case (g : grid) (tp : list Z) (dt Dt : vec) (I : list nat) : list bool :=
  [ list_eqb_Z (g_tp g) tp; vclose tol (g_dt g) dt; vclose tol (g_Dt g) Dt; list_eqb_nat (g_I g) I ].
Definition c19_window_case (r : option rgrid) (impl_ok : bool) (I : list nat) (tp : list Z) (dt Dt : vec)
    (minor : option (list (list nat))) : list bool :=
  match r with
  | None => [negb impl_ok; true; true; true; true]
  | Some r => [ impl_ok && list_eqb_nat (rg_I r) I; list_eqb_Z (rg_tp r) tp; vclose tol (rg_dt r) dt; vclose tol (rg_Dt r) Dt;
                match rg_minor r, minor with
                | None, None => true
                | Some a, Some b => list_eqb list_eqb_nat a b
                | _, _ => false end ]
  end.
(* a restricted grid restricted once more (GridProofs.restrict_rg): indices in the original grid and time points *)
Definition c19_nested_case (r : option rgrid) (s e : Z) (I : list nat) (tp : list Z) : list bool :=
  match r with
  | None => [false; false]
  | Some r => let r2 := GridProofs.restrict_rg r s e in [list_eqb_nat (rg_I r2) I; list_eqb_Z (rg_tp r2) tp]
  end.
Definition oq_close (a b : option Q) : bool :=
  match a, b with Some x, Some y => qclose tol x y | None, None => true | _, _ => false end.
Definition c19_ival_case (tp : list Z) (p : param) (impl : option (list (option Q))) : bool :=
  match ivals_of p with
  | None => false
  | Some ivs =>
      match values_to_grid tp ivs, impl with
      | None, None => true
      | Some a, Some b => list_eqb oq_close a b
      | _, _ => false
      end
  end.

(* ---------- scaled and structured assets ---------- *)
From EAO Require Import Scaled.
Definition build_scaled (name node0 : string) (minS maxS normS fixc : Q) (rg : option rgrid) (base : option aprob) : option aprob :=
  obind rg (fun rg => obind base (scaled name node0 minS maxS normS fixc (qsumx (rg_dt rg)))).
(* inner portfolio without nodal rows at the external nodes, then the wrapper's renaming *)
Definition build_struct (g : grid) (name : string) (inner_nodes ext : list string) (aps : list (option aprob)) : option aprob :=
  obind (seq_opts aps) (fun l => Some (struct_wrap name ext (portfolio inner_nodes ext (g_I g) l))).

(* ---------- C15 ---------- *)
Definition c15_case (steps : list nat) (xprev : vec) (P : lp) (mp : list mrow) (P2 : lp) (mp2 : list mrow) : list bool :=
  let m := fix_window steps xprev {| ap_lp := P; ap_map := mp |} in
  lp_close (ap_lp m) P2 ++ [map_close (ap_map m) mp2].

(* ---------- C09 ---------- *)
From EAO Require Import Rename.
Definition assoc (l : list (string * string)) (s : string) : string :=
  match find (fun p => String.eqb (fst p) s) l with Some p => snd p | None => s end.
Definition lp_same (P1 P2 : lp) : list bool :=
  [ list_eqb Qeq_bool (lp_c P1) (lp_c P2); list_eqb Qeq_bool (lp_l P1) (lp_l P2); list_eqb Qeq_bool (lp_u P1) (lp_u P2);
    rows_close (nvars P1) (lp_rows P1) (lp_rows P2) ].
Definition c09_case (la ln lv : list (string * string)) (P : lp) (mp : list mrow) (P2 : lp) (mp2 : list mrow) : list bool :=
  lp_same P P2 ++ [map_close (rename_map (assoc la) (assoc ln) (assoc lv) mp) mp2].

(* ---------- C17 ---------- *)
From EAO Require Import SLP.
From EAO Require Import SLPProofs.
Definition c17_case (P : lp) (fut : list bool) (cs : list vec) (P2 : lp) : list bool := lp_close (slp_lp P fut cs) P2.
Definition c17_map_case (mp : list mrow) (fut : list bool) (nS n : nat) (mp2 : list mrow) : bool :=
  map_close (slp_map mp fut nS n) mp2 || map_close_perm (slp_map mp fut nS n) mp2.

(* ---------- C07 / C14: joint mapping of a split set-up = Split.split_map of the interval problems ---------- *)
From EAO Require Import Split.
Definition split_part (I : list nat) (n : nat) (mp : list mrow) : list nat * aprob :=
  (I, {| ap_lp := Build_lp (repeat 0 n) [] [] []; ap_map := mp |}).
Definition c14_split_map_case (parts : list (list nat * aprob)) (joint : list mrow) : list bool :=
  [ forallb (fun Ia => forallb (fun r => Nat.ltb (m_step r) (List.length (fst Ia)) && Nat.ltb (m_var r) (nvars (ap_lp (snd Ia)))) (ap_map (snd Ia))) parts;
    map_close_perm (split_map parts 0) joint ].
