(* Cert.v — executable certificate checkers for what the native solver returns, with
   soundness theorems for all problems.  Nothing here trusts the solver: a returned
   point is checked for feasibility, and optimality is checked by weak duality with
   box bounds, which is sound for ANY multiplier vector y (wrong-signed components are
   projected to zero, reduced costs are absorbed by the finite box l <= x <= u). *)
From Coq Require Import QArith Qminmax Qabs List Lia Lqa Bool ZArith.
From EAO Require Import Num LP.
Import ListNotations.
Open Scope Q_scope.

(* ---------- primal feasibility ---------- *)
Definition check_primal (P : lp) (x : vec) : bool :=
  wf_lpb P && in_boxb 0 (lp_l P) (lp_u P) x && forallb (row_okb 0 x) (lp_rows P).

Theorem check_primal_sound P x : check_primal P x = true -> wf_lp P /\ feasible P x.
Proof.
  unfold check_primal. intros H. apply andb_prop in H. destruct H as [H H3].
  apply andb_prop in H. destruct H as [H1 H2]. split; [apply wf_lpb_spec; exact H1|].
  split; [apply in_boxb_0; exact H2|].
  apply Forall_forall. intros r Hr. apply row_okb_0. rewrite forallb_forall in H3. apply H3. exact Hr.
Qed.

(* residual form: what "feasible up to eps" means for a solver's floating point answer *)
Definition row_ok_eps (eps : Q) (x : vec) (r : crow) : Prop :=
  match r_t r with
  | RU => sdot (r_a r) x <= r_b r + eps
  | RL => r_b r - eps <= sdot (r_a r) x
  | RS | RN => r_b r - eps <= sdot (r_a r) x /\ sdot (r_a r) x <= r_b r + eps
  end.
Fixpoint in_box_eps (eps : Q) (l u x : vec) : Prop :=
  match l, u, x with
  | l0 :: l', u0 :: u', x0 :: x' => l0 - eps <= x0 /\ x0 <= u0 + eps /\ in_box_eps eps l' u' x'
  | [], [], [] => True
  | _, _, _ => False
  end.
Definition feasible_eps (eps : Q) (P : lp) (x : vec) : Prop :=
  in_box_eps eps (lp_l P) (lp_u P) x /\ Forall (row_ok_eps eps x) (lp_rows P).
Definition check_primal_eps (eps : Q) (P : lp) (x : vec) : bool :=
  wf_lpb P && in_boxb eps (lp_l P) (lp_u P) x && forallb (row_okb eps x) (lp_rows P).

Lemma in_boxb_eps eps l u x : in_boxb eps l u x = true -> in_box_eps eps l u x.
Proof.
  revert u x. induction l as [|l0 l IH]; intros [|u0 u] [|x0 x] H; simpl in *; try discriminate; auto.
  apply andb_prop in H. destruct H as [H H3]. apply andb_prop in H. destruct H as [H1 H2].
  apply Qle_bool_iff in H1. apply Qle_bool_iff in H2. repeat split; auto.
Qed.
Lemma row_okb_eps eps x r : row_okb eps x r = true -> row_ok_eps eps x r.
Proof.
  unfold row_okb, row_ok_eps. destruct (r_t r); intros H;
    try (apply andb_prop in H; destruct H as [H1 H2]; apply Qle_bool_iff in H1; apply Qle_bool_iff in H2;
         rewrite sdotx_spec in *; split; assumption);
    apply Qle_bool_iff in H; rewrite sdotx_spec in H; exact H.
Qed.
Theorem check_primal_eps_sound eps P x :
  check_primal_eps eps P x = true -> wf_lp P /\ feasible_eps eps P x.
Proof.
  unfold check_primal_eps. intros H. apply andb_prop in H. destruct H as [H H3].
  apply andb_prop in H. destruct H as [H1 H2]. split; [apply wf_lpb_spec; exact H1|].
  split; [apply in_boxb_eps; exact H2|].
  apply Forall_forall. intros r Hr. apply row_okb_eps. rewrite forallb_forall in H3. apply H3. exact Hr.
Qed.

(* ---------- weak duality with box bounds ---------- *)
Definition ysign (t : rtype) (y : Q) : Q :=
  match t with RU => Qmax 0 y | RL => Qmin 0 y | RS | RN => y end.

(* v[j] += k  *)
Fixpoint upd_add (j : nat) (k : Q) (v : vec) : vec :=
  match v, j with
  | [], _ => []
  | v0 :: v', O => Qred (v0 + k) :: v'
  | v0 :: v', S j' => v0 :: upd_add j' k v'
  end.
Lemma upd_add_length : forall v j k, length (upd_add j k v) = length v.
Proof. induction v as [|v0 v IH]; intros [|j] k; simpl; auto. Qed.
Lemma dot_upd_add : forall v j k x, (j < length v)%nat -> length x = length v ->
  dot (upd_add j k v) x == dot v x + k * nth j x 0.
Proof.
  induction v as [|v0 v IH]; intros j k [|x0 x] Hj Hx; simpl in Hj, Hx; try lia.
  destruct j as [|j]; cbn [upd_add dot nth].
  - rewrite Qred_correct. ring.
  - rewrite IH by lia. ring.
Qed.
(* v += k * r  for a sparse row r *)
Fixpoint axpy (k : Q) (r : srow) (v : vec) : vec :=
  match r with [] => v | (j, a) :: r' => axpy k r' (upd_add j (k * a) v) end.
Lemma axpy_length : forall r k v, length (axpy k r v) = length v.
Proof. induction r as [|[j a] r IH]; intros; simpl; auto. rewrite IH. apply upd_add_length. Qed.
Lemma dot_axpy : forall r k v x, srow_wf (length v) r -> length x = length v ->
  dot (axpy k r v) x == dot v x + k * sdot r x.
Proof.
  induction r as [|[j a] r IH]; intros k v x Hwf Hx; cbn [axpy].
  - rewrite sdot_nil. ring.
  - inversion Hwf as [|? ? Hj Hwf']; subst. simpl in Hj.
    rewrite IH; [| rewrite upd_add_length; exact Hwf' | rewrite upd_add_length; exact Hx].
    rewrite dot_upd_add by assumption. rewrite sdot_cons. ring.
Qed.

(* sum_i y_i a_i  and  sum_i y_i b_i  with projected multipliers *)
Fixpoint comb (rows : list crow) (y : vec) (v : vec) (s : Q) : vec * Q :=
  match rows, y with
  | r :: rows', y0 :: y' =>
      let k := ysign (r_t r) y0 in
      comb rows' y' (axpy k (r_a r) v) (Qred (s + k * r_b r))
  | _, _ => (v, s)
  end.

Lemma comb_length : forall rows y v s, length (fst (comb rows y v s)) = length v.
Proof.
  induction rows as [|r rows IH]; intros [|y0 y] v s; simpl; auto.
  rewrite IH. apply axpy_length.
Qed.

Lemma comb_bound : forall rows y v s x,
  length x = length v ->
  Forall (fun r => srow_wf (length v) (r_a r)) rows ->
  Forall (row_ok x) rows ->
  dot (fst (comb rows y v s)) x - snd (comb rows y v s) <= dot v x - s.
Proof.
  induction rows as [|r rows IH]; intros [|y0 y] v s x Hx Hwf Hok; cbn [comb fst snd]; try lra.
  inversion Hwf as [|? ? Hr Hwf']; subst. inversion Hok as [|? ? Hr1 Hok']; subst.
  eapply Qle_trans.
  - apply IH; [rewrite axpy_length; exact Hx | rewrite axpy_length; exact Hwf' | exact Hok'].
  - rewrite dot_axpy by assumption. rewrite Qred_correct.
    unfold row_ok in Hr1. unfold ysign. destruct (r_t r).
    + assert (0 <= Qmax 0 y0) by apply Q.le_max_l.
      assert (0 <= Qmax 0 y0 * (r_b r - sdot (r_a r) x)) by (apply Qmult_le_0_compat; lra). lra.
    + assert (Qmin 0 y0 <= 0) by apply Q.le_min_l.
      assert (0 <= (- Qmin 0 y0) * (sdot (r_a r) x - r_b r)) by (apply Qmult_le_0_compat; lra). lra.
    + rewrite Hr1. lra.
    + rewrite Hr1. lra.
Qed.

(* sup of d.x over the box *)
Fixpoint boxsup (d l u : vec) : Q :=
  match d, l, u with
  | d0 :: d', l0 :: l', u0 :: u' =>
      (if Qle_bool 0 d0 then d0 * u0 else d0 * l0) + boxsup d' l' u'
  | _, _, _ => 0
  end.
Fixpoint boxsupr (acc : Q) (d l u : vec) : Q :=
  match d, l, u with
  | d0 :: d', l0 :: l', u0 :: u' =>
      boxsupr (Qred (acc + (if Qle_bool 0 d0 then d0 * u0 else d0 * l0))) d' l' u'
  | _, _, _ => acc
  end.
Lemma boxsupr_spec : forall d l u acc, boxsupr acc d l u == acc + boxsup d l u.
Proof.
  induction d as [|d0 d IH]; intros [|l0 l] [|u0 u] acc; cbn [boxsupr boxsup]; try ring.
  rewrite IH, Qred_correct. ring.
Qed.

Lemma boxsup_ub : forall d l u x, in_box l u x -> length d = length x -> dot d x <= boxsup d l u.
Proof.
  induction d as [|d0 d IH]; intros l u x Hb Hl; destruct x as [|x0 x]; simpl in Hl; try (exfalso; lia).
  { cbn [dot boxsup]. lra. }
  destruct l as [|l0 l]; destruct u as [|u0 u]; simpl in Hb; try contradiction.
  destruct Hb as (H1 & H2 & H3).
  specialize (IH l u x H3 ltac:(lia)). cbn [dot boxsup].
  destruct (Qle_bool 0 d0) eqn:E.
  + apply Qle_bool_iff in E.
    assert (0 <= d0 * (u0 - x0)) by (apply Qmult_le_0_compat; lra). lra.
  + assert (Hd: d0 < 0). { destruct (Qlt_le_dec d0 0); auto. apply Qle_bool_iff in q. congruence. }
    assert (0 <= (-d0) * (x0 - l0)) by (apply Qmult_le_0_compat; lra). lra.
Qed.

Fixpoint vsub (a b : vec) : vec :=
  match a, b with a0 :: a', b0 :: b' => Qred (a0 - b0) :: vsub a' b' | _, _ => [] end.
Lemma vsub_length : forall a b, length a = length b -> length (vsub a b) = length a.
Proof. induction a; intros [|b0 b] H; simpl in *; try discriminate; auto. Qed.
Lemma dot_vsub : forall a b x, length a = length b -> dot (vsub a b) x == dot a x - dot b x.
Proof.
  induction a as [|a0 a IH]; intros [|b0 b] [|x0 x] H; cbn [vsub dot]; simpl in H; try discriminate; try ring.
  rewrite IH by lia. rewrite Qred_correct. ring.
Qed.

Definition objv (P : lp) : vec := map Qopp (lp_c P).
Lemma dot_objv P x : dot (objv P) x == value P x.
Proof.
  unfold value, objv. generalize (lp_c P). intros c. revert x.
  induction c as [|c0 c IH]; intros [|x0 x]; simpl; try ring. rewrite IH. ring.
Qed.

(* the bound: for every feasible x', value x' <= dual_bound y *)
Definition dual_bound (P : lp) (y : vec) : Q :=
  let '(v, s) := comb (lp_rows P) y (map (fun _ => 0) (lp_c P)) 0 in
  boxsupr s (vsub (objv P) v) (lp_l P) (lp_u P).

Lemma dot_zeros {A} (c : list A) x : dot (map (fun _ => 0) c) x == 0.
Proof. revert x. induction c; intros [|x0 x]; simpl; try reflexivity. rewrite IHc. ring. Qed.

Theorem weak_duality_box P y x : wf_lp P -> feasible P x -> value P x <= dual_bound P y.
Proof.
  intros W F. pose proof (feasible_length _ _ W F) as Lx.
  destruct W as (Hl & Hu & Hr). destruct F as [Hb Hrows]. unfold dual_bound.
  pose proof (comb_bound (lp_rows P) y (map (fun _ => 0) (lp_c P)) 0 x) as HB.
  pose proof (comb_length (lp_rows P) y (map (fun _ => 0) (lp_c P)) 0) as HL.
  rewrite map_length in HB, HL.
  specialize (HB Lx Hr Hrows). rewrite dot_zeros in HB.
  destruct (comb (lp_rows P) y (map (fun _ => 0) (lp_c P)) 0) as [v s]. cbn [fst snd] in *.
  rewrite boxsupr_spec.
  assert (Lo : length (objv P) = length v) by (unfold objv; rewrite map_length; unfold nvars in *; lia).
  assert (Hd : dot (vsub (objv P) v) x <= boxsup (vsub (objv P) v) (lp_l P) (lp_u P)).
  { apply boxsup_ub; [exact Hb|]. rewrite vsub_length by exact Lo. unfold objv. rewrite map_length.
    unfold nvars in Lx. lia. }
  rewrite dot_vsub in Hd by exact Lo. rewrite dot_objv in Hd. lra.
Qed.

(* ---------- optimality certificate ---------- *)
Definition check_opt (eps : Q) (P : lp) (x y : vec) : bool :=
  check_primal_eps eps P x && Qle_bool (dual_bound P y) (value P x + eps).

Theorem check_opt_sound eps P x y : check_opt eps P x y = true ->
  wf_lp P /\ feasible_eps eps P x /\ forall x', feasible P x' -> value P x' <= value P x + eps.
Proof.
  unfold check_opt. intros H. apply andb_prop in H. destruct H as [H1 H2].
  apply check_primal_eps_sound in H1. destruct H1 as [W F]. split; [exact W|]. split; [exact F|].
  intros x' F'. apply Qle_bool_iff in H2. pose proof (weak_duality_box P y x' W F'). lra.
Qed.

(* ---------- infeasibility certificate (Farkas with box) ---------- *)
(* if  sup over the box of (-v).x  <  -s  where v.x <= s is implied by the rows, no feasible x exists *)
Definition check_farkas (P : lp) (y : vec) : bool :=
  wf_lpb P &&
  let '(v, s) := comb (lp_rows P) y (map (fun _ => 0) (lp_c P)) 0 in
  negb (Qle_bool 0 (boxsupr s (vsub (map (fun _ => 0) (lp_c P)) v) (lp_l P) (lp_u P))).

Theorem check_farkas_sound P y : check_farkas P y = true -> forall x, ~ feasible P x.
Proof.
  unfold check_farkas. intros H x F. apply andb_prop in H. destruct H as [W H].
  apply wf_lpb_spec in W. pose proof (feasible_length _ _ W F) as Lx.
  destruct W as (Hl & Hu & Hr). destruct F as [Hb Hrows].
  pose proof (comb_bound (lp_rows P) y (map (fun _ => 0) (lp_c P)) 0 x) as HB.
  pose proof (comb_length (lp_rows P) y (map (fun _ => 0) (lp_c P)) 0) as HL.
  rewrite map_length in HB, HL. specialize (HB Lx Hr Hrows). rewrite dot_zeros in HB.
  destruct (comb (lp_rows P) y (map (fun _ => 0) (lp_c P)) 0) as [v s]. cbn [fst snd] in *.
  apply negb_true_iff in H.
  assert (Hneg : ~ 0 <= boxsupr s (vsub (map (fun _ => 0) (lp_c P)) v) (lp_l P) (lp_u P)).
  { intro Hc. apply Qle_bool_iff in Hc. congruence. }
  apply Hneg. rewrite boxsupr_spec.
  assert (Lo : length (map (fun _ : Q => 0) (lp_c P)) = length v) by (rewrite map_length; unfold nvars in *; lia).
  assert (Hd : dot (vsub (map (fun _ => 0) (lp_c P)) v) x <= boxsup (vsub (map (fun _ => 0) (lp_c P)) v) (lp_l P) (lp_u P)).
  { apply boxsup_ub; [exact Hb|]. rewrite vsub_length by exact Lo. rewrite map_length. unfold nvars in Lx. lia. }
  rewrite dot_vsub in Hd by exact Lo. rewrite dot_zeros in Hd. lra.
Qed.

(* ---------- right-hand-side sensitivity (nodal prices, C18) ---------- *)
(* change the right-hand side of row i by delta *)
Fixpoint bump_rhs (rows : list crow) (i : nat) (delta : Q) : list crow :=
  match rows, i with
  | [], _ => []
  | r :: rows', O => {| r_a := r_a r; r_t := r_t r; r_b := r_b r + delta |} :: rows'
  | r :: rows', S i' => r :: bump_rhs rows' i' delta
  end.
Definition lp_bump (P : lp) (i : nat) (delta : Q) : lp :=
  {| lp_c := lp_c P; lp_l := lp_l P; lp_u := lp_u P; lp_rows := bump_rhs (lp_rows P) i delta |}.

Lemma comb_s_indep : forall rows y v s1 s2,
  fst (comb rows y v s1) = fst (comb rows y v s2) /\
  snd (comb rows y v s1) - s1 == snd (comb rows y v s2) - s2.
Proof.
  induction rows as [|r rows IH]; intros [|y0 y] v s1 s2; cbn [comb fst snd]; try (split; [reflexivity|ring]).
  destruct (IH y (axpy (ysign (r_t r) y0) (r_a r) v) (Qred (s1 + ysign (r_t r) y0 * r_b r))
               (Qred (s2 + ysign (r_t r) y0 * r_b r))) as [E1 E2].
  split; [exact E1|].
  pose proof (Qred_correct (s1 + ysign (r_t r) y0 * r_b r)) as R1.
  pose proof (Qred_correct (s2 + ysign (r_t r) y0 * r_b r)) as R2. lra.
Qed.

Lemma comb_bump : forall rows y v s i delta,
  fst (comb (bump_rhs rows i delta) y v s) = fst (comb rows y v s) /\
  snd (comb (bump_rhs rows i delta) y v s) ==
    snd (comb rows y v s) + ysign (nth i (map r_t rows) RS) (nth i y 0) * (if Nat.ltb i (Nat.min (length rows) (length y)) then delta else 0).
Proof.
  induction rows as [|r rows IH]; intros [|y0 y] v s i delta.
  - destruct i; cbn; split; auto; ring.
  - destruct i; cbn; split; auto; ring.
  - destruct i; cbn [bump_rhs comb fst snd]; split; auto; cbn; ring.
  - destruct i as [|i]; cbn [bump_rhs comb r_a r_t r_b].
    + destruct (comb_s_indep rows y (axpy (ysign (r_t r) y0) (r_a r) v)
                  (Qred (s + ysign (r_t r) y0 * (r_b r + delta))) (Qred (s + ysign (r_t r) y0 * r_b r))) as [E1 E].
      split; [exact E1|].
      pose proof (Qred_correct (s + ysign (r_t r) y0 * (r_b r + delta))) as R1.
      pose proof (Qred_correct (s + ysign (r_t r) y0 * r_b r)) as R2.
      cbn [map nth length Nat.min Nat.ltb Nat.leb]. lra.
    + destruct (IH y (axpy (ysign (r_t r) y0) (r_a r) v) (Qred (s + ysign (r_t r) y0 * r_b r)) i delta) as [E1 E2].
      split; [exact E1|]. rewrite E2. cbn [map nth length]. rewrite <- Nat.succ_min_distr.
      change (Nat.ltb (S i) (S (Nat.min (length rows) (length y)))) with (Nat.ltb i (Nat.min (length rows) (length y))).
      reflexivity.
Qed.

Lemma bump_rhs_wf n rows i delta :
  Forall (fun r => srow_wf n (r_a r)) rows -> Forall (fun r => srow_wf n (r_a r)) (bump_rhs rows i delta).
Proof.
  revert i. induction rows as [|r rows IH]; intros i H; destruct i; simpl; auto; inversion H; subst; constructor; auto.
Qed.

Lemma dual_bound_bump P y i delta :
  dual_bound (lp_bump P i delta) y ==
  dual_bound P y + ysign (nth i (map r_t (lp_rows P)) RS) (nth i y 0) *
                   (if Nat.ltb i (Nat.min (length (lp_rows P)) (length y)) then delta else 0).
Proof.
  unfold dual_bound, lp_bump; cbn [lp_rows lp_c lp_l lp_u].
  destruct (comb_bump (lp_rows P) y (map (fun _ => 0) (lp_c P)) 0 i delta) as [E1 E2].
  destruct (comb (bump_rhs (lp_rows P) i delta) y (map (fun _ => 0) (lp_c P)) 0) as [v1 s1].
  destruct (comb (lp_rows P) y (map (fun _ => 0) (lp_c P)) 0) as [v2 s2].
  cbn [fst snd] in *. subst v1. rewrite !boxsupr_spec. rewrite E2.
  unfold objv; cbn [lp_c]. ring.
Qed.

(* C18: multipliers that certify optimality are supergradients of the optimal value with
   respect to the right-hand side of every row *)
Theorem supergradient eps P x y i delta :
  check_opt eps P x y = true ->
  (i < length (lp_rows P))%nat -> (i < length y)%nat ->
  forall x', feasible (lp_bump P i delta) x' ->
    value P x' <= value P x + eps + ysign (nth i (map r_t (lp_rows P)) RS) (nth i y 0) * delta.
Proof.
  intros H Hi Hy x' F'. unfold check_opt in H. apply andb_prop in H. destruct H as [H1 H2].
  apply check_primal_eps_sound in H1. destruct H1 as [W _]. apply Qle_bool_iff in H2.
  assert (W' : wf_lp (lp_bump P i delta)).
  { destruct W as (Hl & Hu & Hr). unfold wf_lp, lp_bump, nvars in *; cbn [lp_c lp_l lp_u lp_rows].
    repeat split; auto. apply bump_rhs_wf. exact Hr. }
  pose proof (weak_duality_box (lp_bump P i delta) y x' W' F') as HB.
  rewrite dual_bound_bump in HB.
  assert (E : Nat.ltb i (Nat.min (length (lp_rows P)) (length y)) = true) by (apply Nat.ltb_lt; lia).
  rewrite E in HB. change (value (lp_bump P i delta) x') with (value P x') in HB. lra.
Qed.
