(* Codec.v — C11: the value layer of eaopack/serialization.py (json_serialize_objects / json_deserialize_objects): dates, time stamps,
   numpy arrays (numbers, dates of any unit), date indices, lists and dictionaries of those.
   Instants are whole seconds (Z); the text form "%Y-%m-%d %H:%M:%S" of a wall-clock time and "%Y-%m-%d" of a day are represented by
   the leaves JTime / JDay (strftime / strptime are inverse to each other on them: trusted, exercised by the correspondence run).
   Theorems: loading what was saved gives the normal form of the value (date arrays become nanosecond arrays, everything else is
   unchanged), and saving the loaded value reproduces the saved text (idempotence) -- for every value, any nesting depth. *)
From Coq Require Import ZArith QArith List String Bool Lia.
Import ListNotations.
Open Scope Z_scope.

Inductive pv :=
| VNum (q : Q) | VStr (s : string) | VBool (b : bool) | VNone
| VDate (day : Z)                                        (* datetime.date *)
| VStamp (t : Z) (tz : option string)                    (* naive: wall-clock seconds; aware: UTC seconds + zone name *)
| VArr (l : list Q)                                      (* numeric numpy array *)
| VDateArr (per_tick_ns : Z) (ticks : list Z)            (* datetime64[unit] array: ticks of per_tick_ns nanoseconds *)
| VIndex (l : list Z) (tz : option string) (freq : option string)   (* pandas DatetimeIndex *)
| VList (l : list pv)
| VDict (d : list (string * pv)).

Inductive jv :=
| JNum (q : Q) | JInt (z : Z) | JStr (s : string) | JBool (b : bool) | JNull
| JTime (t : Z) | JDay (d : Z)
| JList (l : list jv) | JObj (d : list (string * jv)).

Definition jtz (tz : option string) : jv := match tz with Some z => JStr z | None => JNull end.
Definition ser_stamp (t : Z) (tz : option string) : jv :=
  JObj [("__class__", JStr "datetime"); ("__tz__", jtz tz); ("__value__", JTime t)]%string.

(* json_serialize_objects (after db4b252: date arrays are written as nanoseconds whatever their unit) *)
Fixpoint ser (v : pv) : jv :=
  match v with
  | VNum q => JNum q | VStr s => JStr s | VBool b => JBool b | VNone => JNull
  | VDate d => JObj [("__class__", JStr "date"); ("__value__", JDay d)]%string
  | VStamp t tz => ser_stamp t tz
  | VArr l => JObj [("__class__", JStr "np_array"); ("is_date", JBool false); ("np_list", JList (map JNum l))]%string
  | VDateArr k ticks => JObj [("__class__", JStr "np_array"); ("is_date", JBool true); ("np_list", JList (map (fun t => JInt (t * k)) ticks))]%string
  | VIndex l tz freq => JObj [("__class__", JStr "pd_DateTimeIndex"); ("__freq__", jtz freq); ("__value__", JList (map (fun t => ser_stamp t tz) l))]%string
  | VList l => JList (map ser l)
  | VDict d => JObj (map (fun kv => (fst kv, ser (snd kv))) d)
  end.

(* the form a date array had before the repair: units other than ns were written element-wise as datetime objects *)
Definition ser_datearr_old (k : Z) (ticks : list Z) : jv :=
  JObj [("__class__", JStr "np_array"); ("is_date", JBool true);
        ("np_list", JList (if Z.eqb k 1 then map (fun t => JInt t) ticks else map (fun t => ser_stamp (t * k / 1000000000) None) ticks))]%string.

Definition jget (k : string) (d : list (string * jv)) : option jv :=
  match find (fun kv => String.eqb (fst kv) k) d with Some kv => Some (snd kv) | None => None end.
Definition of_jtz (j : jv) : option string := match j with JStr z => Some z | _ => None end.
Definition stamp_of (j : jv) : option (Z * option string) :=
  match j with
  | JObj d => match jget "__class__" d, jget "__tz__" d, jget "__value__" d with
              | Some (JStr "datetime"%string), Some tz, Some (JTime t) => Some (t, of_jtz tz)
              | _, _, _ => None end
  | _ => None end.
Fixpoint all_some {A} (l : list (option A)) : option (list A) :=
  match l with [] => Some [] | Some a :: r => option_map (cons a) (all_some r) | None :: _ => None end.

(* json_deserialize_objects: objects with a known "__class__" become values, everything else stays a list / dictionary / scalar *)
Fixpoint deser (j : jv) : pv :=
  match j with
  | JNum q => VNum q | JInt z => VNum (inject_Z z) | JStr s => VStr s | JBool b => VBool b | JNull => VNone
  | JTime t => VStamp t None | JDay d => VDate d
  | JList l => VList (map deser l)
  | JObj d =>
      match jget "__class__" d with
      | Some (JStr "date"%string) => match jget "__value__" d with Some (JDay x) => VDate x | _ => VNone end
      | Some (JStr "datetime"%string) => match stamp_of (JObj d) with Some (t, tz) => VStamp t tz | None => VNone end
      | Some (JStr "np_array"%string) =>
          match jget "is_date" d, jget "np_list" d with
          | Some (JBool true), Some (JList l) =>
              VDateArr 1 (map (fun e => match e with JInt z => z | JObj _ => match stamp_of e with Some (t, _) => t * 1000000000 | None => 0 end | _ => 0 end) l)
          | _, Some (JList l) => VArr (map (fun e => match e with JNum q => q | JInt z => inject_Z z | _ => 0%Q end) l)
          | _, _ => VNone end
      | Some (JStr "pd_DateTimeIndex"%string) =>
          match jget "__freq__" d, jget "__value__" d with
          | Some fr, Some (JList l) =>
              match all_some (map stamp_of l) with
              | Some st => VIndex (map fst st) (match st with (_, tz) :: _ => tz | [] => None end) (of_jtz fr)
              | None => VNone end
          | _, _ => VNone end
      | _ => VDict (map (fun kv => (fst kv, deser (snd kv))) d)
      end
  end.

(* normal form: what a value is after one round trip *)
Fixpoint norm (v : pv) : pv :=
  match v with
  | VDateArr k ticks => VDateArr 1 (map (fun t => t * k) ticks)
  | VIndex l tz freq => VIndex l (match l with [] => None | _ => tz end) freq
  | VList l => VList (map norm l)
  | VDict d => VDict (map (fun kv => (fst kv, norm (snd kv))) d)
  | _ => v
  end.

(* ---------- induction over values with lists and dictionaries of values ---------- *)
Section pv_induction.
Variable P : pv -> Prop.
Hypothesis HNum : forall q, P (VNum q).
Hypothesis HStr : forall s, P (VStr s).
Hypothesis HBool : forall b, P (VBool b).
Hypothesis HNone : P VNone.
Hypothesis HDate : forall d, P (VDate d).
Hypothesis HStamp : forall t tz, P (VStamp t tz).
Hypothesis HArr : forall l, P (VArr l).
Hypothesis HDateArr : forall k l, P (VDateArr k l).
Hypothesis HIndex : forall l tz fr, P (VIndex l tz fr).
Hypothesis HList : forall l, Forall P l -> P (VList l).
Hypothesis HDict : forall d, Forall (fun kv => P (snd kv)) d -> P (VDict d).
Fixpoint pv_ind' (v : pv) : P v :=
  match v with
  | VNum q => HNum q | VStr s => HStr s | VBool b => HBool b | VNone => HNone | VDate d => HDate d | VStamp t tz => HStamp t tz
  | VArr l => HArr l | VDateArr k l => HDateArr k l | VIndex l tz fr => HIndex l tz fr
  | VList l => HList l ((fix go (l : list pv) : Forall P l := match l with [] => Forall_nil P | a :: r => Forall_cons a (pv_ind' a) (go r) end) l)
  | VDict d => HDict d ((fix go (d : list (string * pv)) : Forall (fun kv => P (snd kv)) d :=
                           match d with [] => Forall_nil _ | kv :: r => Forall_cons kv (pv_ind' (snd kv)) (go r) end) d)
  end.
End pv_induction.

(* values the serialiser is meant for: a user dictionary has no key "__class__" (that key marks the serialiser's own objects) *)
Fixpoint wf (v : pv) : Prop :=
  match v with
  | VList l => (fix go (l : list pv) : Prop := match l with [] => True | a :: r => wf a /\ go r end) l
  | VDict d => (fix go (d : list (string * pv)) : Prop := match d with [] => True | kv :: r => (fst kv <> "__class__"%string /\ wf (snd kv)) /\ go r end) d
  | _ => True
  end.
Lemma wf_list l : wf (VList l) <-> Forall wf l.
Proof. induction l as [|a l IH]; cbn [wf]; [split; constructor|]. cbn [wf] in IH. rewrite IH. split; [intros [A B]; constructor; assumption|intros H; inversion H; auto]. Qed.
Lemma wf_dict d : wf (VDict d) <-> Forall (fun kv => fst kv <> "__class__"%string /\ wf (snd kv)) d.
Proof. induction d as [|a d IH]; cbn [wf]; [split; constructor|]. cbn [wf] in IH. rewrite IH. split; [intros [A B]; constructor; assumption|intros H; inversion H; auto]. Qed.

Lemma jget_map_none (f : pv -> jv) k d : Forall (fun kv : string * pv => fst kv <> k) d -> jget k (map (fun kv => (fst kv, f (snd kv))) d) = None.
Proof.
  unfold jget. induction 1 as [|kv d Hk _ IH]; [reflexivity|]. cbn [map find fst].
  destruct (String.eqb_spec (fst kv) k) as [E|_]; [contradiction|]. exact IH.
Qed.
Lemma all_some_stamps tz l : all_some (map stamp_of (map (fun t => ser_stamp t tz) l)) = Some (map (fun t => (t, tz)) l).
Proof.
  induction l as [|t l IH]; [reflexivity|]. cbn [map all_some].
  assert (E : stamp_of (ser_stamp t tz) = Some (t, tz)) by (destruct tz; reflexivity). rewrite E, IH. reflexivity.
Qed.

(* loading what was saved gives the normal form of the value *)
Theorem deser_ser : forall v, wf v -> deser (ser v) = norm v.
Proof.
  induction v using pv_ind'; intros W; try reflexivity.
  - destruct tz; reflexivity.
  - cbn. rewrite map_map. f_equal. exact (map_id l).
  - cbn. rewrite map_map. reflexivity.
  - cbn [ser deser jget find fst snd String.eqb Ascii.eqb Bool.eqb]. cbn. rewrite all_some_stamps. rewrite map_map. cbn [fst].
    rewrite map_id. destruct l as [|t l]; [destruct fr; reflexivity|]. cbn [map]. destruct fr; reflexivity.
  - cbn [ser deser norm]. rewrite map_map. f_equal. apply wf_list in W. apply map_ext_in. intros a Ha.
    rewrite Forall_forall in H, W. apply H; [exact Ha|apply W; exact Ha].
  - cbn [ser deser norm]. apply wf_dict in W. rewrite jget_map_none by (eapply Forall_impl; [|exact W]; intros kv [A _]; exact A).
    rewrite map_map. f_equal. apply map_ext_in. intros kv Hkv. cbn [fst snd]. rewrite Forall_forall in H, W.
    rewrite (H kv Hkv) by (apply W; exact Hkv). reflexivity.
Qed.

(* the normal form is saved exactly as the value it came from *)
Theorem ser_norm : forall v, ser (norm v) = ser v.
Proof.
  induction v using pv_ind'; try reflexivity.
  - cbn [norm ser]. rewrite map_map. assert (E : map (fun x : Z => JInt (x * k * 1)) l = map (fun t : Z => JInt (t * k)) l)
      by (apply map_ext; intros t; rewrite Z.mul_1_r; reflexivity). rewrite E. reflexivity.
  - cbn [norm ser]. destruct l; reflexivity.
  - cbn [norm ser]. rewrite map_map. f_equal. apply map_ext_in. intros a Ha. rewrite Forall_forall in H. apply H. exact Ha.
  - cbn [norm ser]. rewrite map_map. f_equal. apply map_ext_in. intros kv Hkv. cbn [fst snd]. rewrite Forall_forall in H. rewrite (H kv Hkv). reflexivity.
Qed.

(* C11: saving the loaded object reproduces the same JSON *)
Theorem save_load_save : forall v, wf v -> ser (deser (ser v)) = ser v.
Proof. intros v W. rewrite deser_ser by exact W. apply ser_norm. Qed.

(* a second round trip changes nothing any more *)
Lemma norm_wf : forall v, wf v -> wf (norm v).
Proof.
  induction v using pv_ind'; intros W; try exact I.
  - cbn [norm]. apply wf_list. apply wf_list in W. apply Forall_map. induction H as [|a l Ha _ IH]; [constructor|]. inversion W; subst. constructor; auto.
  - cbn [norm]. apply wf_dict. apply wf_dict in W. apply Forall_map. induction H as [|kv d Hkv _ IH]; [constructor|].
    inversion W as [|? ? [Wk Wv] Wd]; subst. constructor; [cbn [fst snd]; split; auto|auto].
Qed.
Theorem load_is_stable : forall v, wf v -> deser (ser (deser (ser v))) = deser (ser v).
Proof. intros v W. rewrite (deser_ser v W). rewrite ser_norm. apply deser_ser. exact W. Qed.

(* the behaviour before the repair (db4b252): a date array in seconds is not reproduced *)
Example old_date_arrays_refuted :
  let k := 1000000000 in let ticks := [1609459200; 1609545600] in
  match deser (ser_datearr_old k ticks) with
  | VDateArr k' ticks' => ser_datearr_old k' ticks' <> ser_datearr_old k ticks
  | _ => False end.
Proof. cbv zeta. vm_compute. intros H. discriminate H. Qed.

(* ---------- executable comparison (correspondence run): dictionaries are compared as finite maps ---------- *)
Definition opt_str_eqb (a b : option string) : bool :=
  match a, b with Some x, Some y => String.eqb x y | None, None => true | _, _ => false end.
Definition list_eqb {A} (f : A -> A -> bool) : list A -> list A -> bool :=
  fix go (l1 l2 : list A) : bool := match l1, l2 with [] , [] => true | a :: r1, b :: r2 => f a b && go r1 r2 | _, _ => false end.
Fixpoint jv_eqb (a b : jv) : bool :=
  match a, b with
  | JNum p, JNum q => Qeq_bool p q | JNum p, JInt z => Qeq_bool p (inject_Z z) | JInt z, JNum q => Qeq_bool (inject_Z z) q
  | JInt x, JInt y => Z.eqb x y | JStr s, JStr t => String.eqb s t | JBool x, JBool y => Bool.eqb x y | JNull, JNull => true
  | JTime x, JTime y => Z.eqb x y | JDay x, JDay y => Z.eqb x y
  | JList l1, JList l2 => list_eqb jv_eqb l1 l2
  | JObj d1, JObj d2 =>
      Nat.eqb (List.length d1) (List.length d2) &&
      (fix go (d : list (string * jv)) : bool :=
         match d with [] => true | kv :: r => (match jget (fst kv) d2 with Some w => jv_eqb (snd kv) w | None => false end) && go r end) d1
  | _, _ => false
  end.
Definition pget (k : string) (d : list (string * pv)) : option pv :=
  match find (fun kv => String.eqb (fst kv) k) d with Some kv => Some (snd kv) | None => None end.
Fixpoint pv_eqb (a b : pv) : bool :=
  match a, b with
  | VNum p, VNum q => Qeq_bool p q | VStr s, VStr t => String.eqb s t | VBool x, VBool y => Bool.eqb x y | VNone, VNone => true
  | VDate x, VDate y => Z.eqb x y
  | VStamp x tx, VStamp y ty => Z.eqb x y && opt_str_eqb tx ty
  | VArr l1, VArr l2 => list_eqb Qeq_bool l1 l2
  | VDateArr k1 l1, VDateArr k2 l2 => list_eqb Z.eqb (map (fun t => t * k1) l1) (map (fun t => t * k2) l2)
  | VIndex l1 t1 f1, VIndex l2 t2 f2 => list_eqb Z.eqb l1 l2 && opt_str_eqb t1 t2 && opt_str_eqb f1 f2
  | VList l1, VList l2 => list_eqb pv_eqb l1 l2
  | VDict d1, VDict d2 =>
      Nat.eqb (List.length d1) (List.length d2) &&
      (fix go (d : list (string * pv)) : bool :=
         match d with [] => true | kv :: r => (match pget (fst kv) d2 with Some w => pv_eqb (snd kv) w | None => false end) && go r end) d1
  | _, _ => false
  end.
(* the model's text for v = the implementation's text;  the model's loading of the implementation's text = the implementation's loaded
   object = the normal form of v;  the implementation's second text = the model's *)
Definition codec_case (v : pv) (j1 : jv) (loaded : pv) (j2 : jv) : list bool :=
  [ jv_eqb (ser v) j1; pv_eqb (deser j1) loaded; pv_eqb (norm v) loaded; jv_eqb (ser loaded) j2; jv_eqb j1 j2 ].
