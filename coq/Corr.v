(* Corr.v — comparison helpers used ONLY by the correspondence check (generated case
   files); no theorem depends on them. *)
From Coq Require Import QArith Qabs List Lia Bool String Arith.
From EAO Require Import Num LP Cert Mapping.
Import ListNotations.
Open Scope Q_scope.

Definition tol : Q := 1 # 1000000000.

Definition to_dense (n : nat) (r : srow) : vec := axpy 1 r (repeat 0 n).
Definition srow_close (n : nat) (r1 r2 : srow) : bool :=
  srow_wfb n r1 && srow_wfb n r2 && vclose tol (to_dense n r1) (to_dense n r2).
Definition crow_close (n : nat) (r1 r2 : crow) : bool :=
  rtype_eqb (r_t r1) (r_t r2) && qclose tol (r_b r1) (r_b r2) && srow_close n (r_a r1) (r_a r2).

Fixpoint list_eqb {A} (eqb : A -> A -> bool) (l1 l2 : list A) : bool :=
  match l1, l2 with
  | [], [] => true
  | a :: l1', b :: l2' => eqb a b && list_eqb eqb l1' l2'
  | _, _ => false
  end.
Definition rows_close (n : nat) (r1 r2 : list crow) : bool := list_eqb (crow_close n) r1 r2.
(* modulo a permutation of the rows (harmless reordering) *)
Definition rows_close_perm (n : nat) (r1 r2 : list crow) : bool :=
  Nat.eqb (List.length r1) (List.length r2) &&
  forallb (fun a => existsb (crow_close n a) r2) r1 && forallb (fun b => existsb (fun a => crow_close n a b) r1) r2.

Definition opt_str_eqb (a b : option string) : bool :=
  match a, b with Some x, Some y => String.eqb x y | None, None => true | _, _ => false end.
Definition mrow_close (a b : mrow) : bool :=
  Nat.eqb (m_var a) (m_var b) && String.eqb (m_asset a) (m_asset b) && opt_str_eqb (m_node a) (m_node b) &&
  String.eqb (m_type a) (m_type b) && Nat.eqb (m_step a) (m_step b) && qclose tol (m_factor a) (m_factor b) &&
  String.eqb (m_name a) (m_name b) && Bool.eqb (m_bool a) (m_bool b).
Definition map_close (m1 m2 : list mrow) : bool := list_eqb mrow_close m1 m2.
Definition map_close_perm (m1 m2 : list mrow) : bool :=
  Nat.eqb (List.length m1) (List.length m2) &&
  forallb (fun a => existsb (mrow_close a) m2) m1 && forallb (fun b => existsb (fun a => mrow_close a b) m1) m2.

Definition lp_close (P1 P2 : lp) : list bool :=
  [ vclose tol (lp_c P1) (lp_c P2); vclose tol (lp_l P1) (lp_l P2); vclose tol (lp_u P1) (lp_u P2);
    rows_close (nvars P1) (lp_rows P1) (lp_rows P2) || rows_close_perm (nvars P1) (lp_rows P1) (lp_rows P2) ].

(* ---- C01 ---- *)
Definition steps_nodes_eqb (a b : list (nat * string)) : bool :=
  list_eqb (fun p q => Nat.eqb (fst p) (fst q) && String.eqb (snd p) (snd q)) a b.

Definition sn_eqb (p q : nat * string) : bool := Nat.eqb (fst p) (fst q) && String.eqb (snd p) (snd q).
Definition steps_nodes_perm (a b : list (nat * string)) : bool :=
  Nat.eqb (List.length a) (List.length b) &&
  forallb (fun p => existsb (sn_eqb p) b) a && forallb (fun q => existsb (fun p => sn_eqb p q) a) b.

(* table: list of (asset, node, values per step 0..T-1) *)
Definition disp_table_close (mp : list mrow) (x : vec) (tab : list (string * string * vec)) : bool :=
  forallb (fun e => let '(a, n, vals) := e in
     vclose tol (map (fun t => dispatch_out mp x a n t) (seq 0 (List.length vals))) vals) tab.

Definition c01_case (nvar : nat) (nodes skip : list string) (steps : list nat) (mp : list mrow)
   (impl_rows : list crow) (impl_rec : list (nat * string))
   (xr : vec) (tab_r : list (string * string * vec))
   (solved : bool) (x : vec) (eps : Q) : list bool :=
  let mrows := nodal_crows nodes skip steps mp in
  [ rows_close nvar mrows impl_rows || rows_close_perm nvar mrows impl_rows;
    steps_nodes_eqb (nodal_map nodes skip steps mp) impl_rec || steps_nodes_perm (nodal_map nodes skip steps mp) impl_rec;
    disp_table_close mp xr tab_r;
    negb solved || forallb (row_okb eps x) mrows ].

(* ---- C04 ---- *)
(* table: list of (asset, values per step 0..T-1) *)
From EAO Require Import Dcf.
Definition dcf_table_close (c x : vec) (mp : list mrow) (tab : list (string * vec)) : bool :=
  forallb (fun e => let '(a, vals) := e in
     vclose tol (map (fun t => dcf_asset c x mp a t) (seq 0 (List.length vals))) vals) tab.
Definition c04_case (T : nat) (c : vec) (assets : list string) (mp : list mrow) (xr : vec)
   (tab : list (string * vec)) : list bool :=
  [ wf_mapb (List.length c) T c assets mp; dcf_table_close c xr mp tab ].

(* ---- C03 / C18 ---- *)
Definition c03_case (P : lp) (x y : vec) (reported_value eps : Q) (bools : list nat) : list bool :=
  [ check_primal_eps eps P x;
    Qle_bool (Qabs (reported_value - value P x)) eps;
    check_opt eps P x y;
    forallb (fun j => let v := nth j x 0 in Qle_bool (Qabs v) eps || Qle_bool (Qabs (v - 1)) eps) bools ].
Definition c03_infeasible (P : lp) (y : vec) : bool := check_farkas P y.
