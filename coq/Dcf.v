(* Dcf.v — per-asset discounted cash flows (assets.py:95-118, io.py:55-56) and the
   accounting identity  sum_a sum_t dcf = value  (C04). *)
From Coq Require Import QArith List Lia Lqa Bool String Arith.
From EAO Require Import Num LP Mapping.
Import ListNotations.
Open Scope Q_scope.

(* first mapping row of every variable  (~mapping.index.duplicated(keep='first')) *)
Fixpoint firsts (seen : list nat) (l : list mrow) : list mrow :=
  match l with
  | [] => []
  | r :: l' => if existsb (Nat.eqb (m_var r)) seen then firsts seen l'
               else r :: firsts (m_var r :: seen) l'
  end.

Definition of_asset (a : string) (r : mrow) : bool := String.eqb (m_asset r) a.
Definition cf (c x : vec) (r : mrow) : Q := - nth (m_var r) c 0 * nth (m_var r) x 0.

(* Asset.dcf: dcf[time_step] += -c[i]*x[i] over the de-duplicated rows of the asset *)
Definition dcf_asset (c x : vec) (mp : list mrow) (a : string) (t : nat) : Q :=
  qsum (map (cf c x) (filter (fun r => Nat.eqb (m_step r) t) (firsts [] (filter (of_asset a) mp)))).
Definition dcf_total (c x : vec) (mp : list mrow) (a : string) (T : nat) : Q :=
  qsum (map (dcf_asset c x mp a) (seq 0 T)).

(* ---- well-formedness of a mapping with respect to a cost vector ---- *)
Definition var_asset_functional (mp : list mrow) : Prop :=
  forall r1 r2, In r1 mp -> In r2 mp -> m_var r1 = m_var r2 -> m_asset r1 = m_asset r2.
Definition wf_map (n T : nat) (c : vec) (assets : list string) (mp : list mrow) : Prop :=
  NoDup assets /\
  Forall (fun r => In (m_asset r) assets /\ (m_var r < n)%nat /\ (m_step r < T)%nat) mp /\
  var_asset_functional mp /\
  (forall i, (i < n)%nat -> ~ nth i c 0 == 0 -> exists r, In r mp /\ m_var r = i).

(* ---- lemmas ---- *)
Lemma indicator_sum (s T : nat) (k : Q) : (s < T)%nat ->
  qsum (map (fun t => if Nat.eqb s t then k else 0) (seq 0 T)) == k.
Proof.
  induction T as [|T IH]; intros H; [lia|].
  rewrite seq_S, map_app, qsum_app. cbn [map qsum]. simpl plus.
  destruct (Nat.eq_dec s T) as [->|Hne].
  - rewrite Nat.eqb_refl. rewrite qsum_zero; [ring|].
    intros t Ht. apply in_seq in Ht. destruct (Nat.eqb_spec T t); [lia|reflexivity].
  - rewrite IH by lia. destruct (Nat.eqb_spec s T); [contradiction|ring].
Qed.

Lemma sum_over_steps (f : mrow -> Q) (T : nat) (l : list mrow) :
  Forall (fun r => (m_step r < T)%nat) l ->
  qsum (map (fun t => qsum (map f (filter (fun r => Nat.eqb (m_step r) t) l))) (seq 0 T)) == qsum (map f l).
Proof.
  induction l as [|r l IH]; intros H.
  - cbn [filter map qsum]. apply qsum_zero. intros; reflexivity.
  - inversion H as [|? ? Hr H']; subst. specialize (IH H').
    cbn [map qsum]. rewrite <- IH, <- (indicator_sum (m_step r) T (f r) Hr), <- qsum_map_add.
    apply qsum_map_ext. intros t _. cbn [filter]. destruct (Nat.eqb (m_step r) t); cbn [map qsum]; ring.
Qed.

Lemma firsts_steps seen l P : Forall P l -> Forall P (firsts seen l).
Proof.
  revert seen. induction l as [|r l IH]; intros seen H; cbn [firsts]; [constructor|].
  inversion H; subst. destruct (existsb _ seen); [apply IH; assumption|constructor; [assumption|apply IH; assumption]].
Qed.

Lemma existsb_eqb_In v seen : existsb (Nat.eqb v) seen = true <-> In v seen.
Proof.
  rewrite existsb_exists. split.
  - intros (y & Hy & E). apply Nat.eqb_eq in E. subst. exact Hy.
  - intros H. exists v. split; [exact H|apply Nat.eqb_refl].
Qed.

(* de-duplication commutes with selecting one asset when variable -> asset is functional *)
Lemma firsts_filter a : forall l seen seen',
  (forall r1 r2, In r1 l -> In r2 l -> m_var r1 = m_var r2 -> m_asset r1 = m_asset r2) ->
  (forall r, In r l -> m_asset r = a -> (In (m_var r) seen <-> In (m_var r) seen')) ->
  firsts seen (filter (of_asset a) l) = filter (of_asset a) (firsts seen' l).
Proof.
  induction l as [|r l IH]; intros seen seen' Hf Hs; cbn [filter firsts]; [reflexivity|].
  assert (Hf' : forall r1 r2, In r1 l -> In r2 l -> m_var r1 = m_var r2 -> m_asset r1 = m_asset r2).
  { intros r1 r2 H1 H2. apply Hf; right; assumption. }
  unfold of_asset at 1. destruct (String.eqb_spec (m_asset r) a) as [Ea|Ea].
  - cbn [firsts].
    assert (Hb : existsb (Nat.eqb (m_var r)) seen = existsb (Nat.eqb (m_var r)) seen').
    { apply eq_true_iff_eq. rewrite !existsb_eqb_In. apply Hs; [left; reflexivity|exact Ea]. }
    rewrite Hb. destruct (existsb (Nat.eqb (m_var r)) seen') eqn:E.
    + apply IH; [exact Hf'|]. intros r' Hr' Ha. apply Hs; [right; exact Hr'|exact Ha].
    + cbn [filter]. unfold of_asset at 2. rewrite (proj2 (String.eqb_eq _ _) Ea). f_equal.
      apply IH; [exact Hf'|]. intros r' Hr' Ha. cbn [In].
      specialize (Hs r' (or_intror Hr') Ha). tauto.
  - destruct (existsb (Nat.eqb (m_var r)) seen') eqn:E.
    + apply IH; [exact Hf'|]. intros r' Hr' Ha. apply Hs; [right; exact Hr'|exact Ha].
    + cbn [filter]. unfold of_asset at 2.
      destruct (String.eqb_spec (m_asset r) a) as [Ea'|_]; [contradiction|].
      apply IH; [exact Hf'|]. intros r' Hr' Ha. cbn [In].
      specialize (Hs r' (or_intror Hr') Ha).
      assert (m_var r <> m_var r').
      { intro Ev. apply Ea. rewrite <- Ha. apply Hf; [left; reflexivity|right; exact Hr'|exact Ev]. }
      tauto.
Qed.

(* the variables of the de-duplicated rows: no duplicates, disjoint from seen, and they
   cover every variable of the mapping that is not in seen *)
Lemma firsts_vars : forall l seen,
  NoDup (map m_var (firsts seen l)) /\
  (forall v, In v (map m_var (firsts seen l)) -> ~ In v seen /\ In v (map m_var l)) /\
  (forall v, In v (map m_var l) -> ~ In v seen -> In v (map m_var (firsts seen l))).
Proof.
  induction l as [|r l IH]; intros seen; cbn [firsts map].
  - split; [constructor|]. split; [intros v []|intros v []].
  - destruct (existsb (Nat.eqb (m_var r)) seen) eqn:E.
    + destruct (IH seen) as (N & A & B). split; [exact N|]. split.
      * intros v Hv. destruct (A v Hv). split; [assumption|right; assumption].
      * intros v [Hv|Hv] Hn; [subst; apply existsb_eqb_In in E; contradiction|apply B; assumption].
    + destruct (IH (m_var r :: seen)) as (N & A & B). cbn [map]. split; [|split].
      * constructor; [|exact N]. intro Hin. destruct (A _ Hin) as [Hn _]. apply Hn. left. reflexivity.
      * intros v [Hv|Hv].
        -- subst. split; [|left; reflexivity]. intro Hin. apply existsb_eqb_In in Hin. congruence.
        -- destruct (A v Hv) as [Hn Hl]. split; [|right; exact Hl]. intro Hs. apply Hn. right. exact Hs.
      * intros v [Hv|Hv] Hn; [left; exact Hv|].
        destruct (Nat.eq_dec (m_var r) v) as [Ev|Ev]; [left; exact Ev|right].
        apply B; [exact Hv|]. intros [H|H]; [contradiction|apply Hn; exact H].
Qed.

(* sum of g over [0,n) restricted to a duplicate-free index list *)
Lemma sum_indicator_list (g : nat -> Q) (n : nat) (vs : list nat) :
  NoDup vs -> Forall (fun v => (v < n)%nat) vs ->
  qsum (map (fun i => if existsb (Nat.eqb i) vs then g i else 0) (seq 0 n)) == qsum (map g vs).
Proof.
  induction vs as [|v vs IH]; intros Hnd Hlt.
  - cbn [existsb map qsum]. apply qsum_zero. intros; reflexivity.
  - inversion Hnd as [|? ? Hni Hnd']; subst. inversion Hlt as [|? ? Hv Hlt']; subst.
    cbn [map qsum]. rewrite <- (IH Hnd' Hlt'), <- (indicator_sum v n (g v) Hv), <- qsum_map_add.
    apply qsum_map_ext. intros i _. cbn [existsb].
    destruct (Nat.eqb_spec i v) as [->|Hne].
    + rewrite Nat.eqb_refl. cbn [orb].
      destruct (existsb (Nat.eqb v) vs) eqn:E; [apply existsb_eqb_In in E; contradiction|ring].
    + destruct (Nat.eqb_spec v i); [congruence|]. cbn [orb]. ring.
Qed.

Lemma dot_as_sum : forall c x, List.length x = List.length c ->
  dot c x == qsum (map (fun i => nth i c 0 * nth i x 0) (seq 0 (List.length c))).
Proof.
  induction c as [|c0 c IH]; intros [|x0 x] H; simpl in H; try discriminate; [reflexivity|].
  cbn [dot List.length seq map qsum nth]. rewrite <- seq_shift, map_map. cbn [nth].
  rewrite IH by lia. reflexivity.
Qed.

(* ---- C04 ---- *)
Theorem value_accounting (P : lp) (x : vec) (T : nat) (assets : list string) (mp : list mrow) :
  List.length x = nvars P ->
  wf_map (nvars P) T (lp_c P) assets mp ->
  qsum (map (fun a => dcf_total (lp_c P) x mp a T) assets) == value P x.
Proof.
  intros Lx (Hnd & Hrows & Hfun & Hcov).
  set (c := lp_c P) in *. set (f := cf c x).
  (* 1. sum over steps *)
  assert (S1 : forall a, dcf_total c x mp a T == qsum (map f (firsts [] (filter (of_asset a) mp)))).
  { intro a. unfold dcf_total, dcf_asset. apply sum_over_steps. apply firsts_steps.
    apply Forall_forall. intros r Hr. apply filter_In in Hr. destruct Hr as [Hr _].
    rewrite Forall_forall in Hrows. apply Hrows in Hr. tauto. }
  erewrite qsum_map_ext; [|intros a _; apply S1].
  (* 2. de-duplication commutes with the asset filter *)
  assert (S2 : forall a, firsts [] (filter (of_asset a) mp) = filter (of_asset a) (firsts [] mp)).
  { intro a. apply firsts_filter; [exact Hfun|]. intros; tauto. }
  erewrite map_ext; [|intro a; rewrite S2; reflexivity].
  (* 3. sum over assets *)
  rewrite (split_by_assets assets f (firsts [] mp) Hnd).
  2:{ apply firsts_steps. eapply Forall_impl; [|exact Hrows]. simpl. tauto. }
  (* 4. de-duplicated rows enumerate the support of c *)
  destruct (firsts_vars mp []) as (N & A & B).
  unfold value. rewrite dot_as_sum by (unfold nvars in Lx; exact Lx).
  assert (E : qsum (map f (firsts [] mp)) == qsum (map (fun i => - nth i c 0 * nth i x 0) (map m_var (firsts [] mp)))).
  { rewrite map_map. apply qsum_map_ext. intros r _. reflexivity. }
  rewrite E. rewrite <- (sum_indicator_list _ (nvars P)); [|exact N|].
  2:{ apply Forall_forall. intros v Hv. destruct (A v Hv) as [_ Hin]. apply in_map_iff in Hin.
      destruct Hin as (r & <- & Hr). rewrite Forall_forall in Hrows. apply Hrows in Hr. tauto. }
  fold c. unfold nvars. fold c.
  rewrite <- (Qopp_involutive (qsum (map (fun i => if existsb _ _ then _ else 0) _))).
  apply Qopp_comp. rewrite <- (Qmult_1_l (qsum (map (fun i => nth i c 0 * nth i x 0) _))).
  setoid_replace (- qsum (map (fun i : nat => if existsb (Nat.eqb i) (map m_var (firsts [] mp)) then - nth i c 0 * nth i x 0 else 0) (seq 0 (List.length c))))
    with (qsum (map (fun i => nth i c 0 * nth i x 0) (seq 0 (List.length c)))); [ring|].
  setoid_replace (- qsum (map (fun i : nat => if existsb (Nat.eqb i) (map m_var (firsts [] mp)) then - nth i c 0 * nth i x 0 else 0) (seq 0 (List.length c))))
    with ((-1) * qsum (map (fun i : nat => if existsb (Nat.eqb i) (map m_var (firsts [] mp)) then - nth i c 0 * nth i x 0 else 0) (seq 0 (List.length c)))) by ring.
  rewrite <- qsum_map_scale. apply qsum_map_ext. intros i Hi. apply in_seq in Hi.
  destruct (existsb (Nat.eqb i) (map m_var (firsts [] mp))) eqn:Ei; [ring|].
  (* variable without mapping row: its cost is zero *)
  assert (Hz : nth i c 0 == 0).
  { destruct (Qeq_dec (nth i c 0) 0) as [Hz|Hnz]; [exact Hz|]. exfalso.
    destruct (Hcov i) as (r & Hr & Ev); [unfold nvars; fold c; lia|exact Hnz|].
    assert (In i (map m_var (firsts [] mp))).
    { apply B; [|intros []]. apply in_map_iff. exists r. split; assumption. }
    apply existsb_eqb_In in H. congruence. }
  rewrite Hz. ring.
Qed.

(* each asset's cash-flow total = minus the cost of its own variables times their values *)
Theorem asset_total (c x : vec) (T : nat) (mp : list mrow) (a : string) :
  Forall (fun r => (m_step r < T)%nat) mp ->
  dcf_total c x mp a T == - qsum (map (fun r => nth (m_var r) c 0 * nth (m_var r) x 0) (firsts [] (filter (of_asset a) mp))).
Proof.
  intros H. unfold dcf_total, dcf_asset. rewrite sum_over_steps.
  - setoid_replace (- qsum (map (fun r => nth (m_var r) c 0 * nth (m_var r) x 0) (firsts [] (filter (of_asset a) mp))))
      with ((-1) * qsum (map (fun r => nth (m_var r) c 0 * nth (m_var r) x 0) (firsts [] (filter (of_asset a) mp)))) by ring.
    rewrite <- qsum_map_scale. apply qsum_map_ext. intros r _. unfold cf. ring.
  - apply firsts_steps. apply Forall_forall. intros r Hr. apply filter_In in Hr.
    rewrite Forall_forall in H. apply H. tauto.
Qed.

(* executable well-formedness check of a mapping against a problem (used on the
   implementation's own problems: C07) *)
Definition wf_mapb (n T : nat) (c : vec) (assets : list string) (mp : list mrow) : bool :=
  forallb (fun r => existsb (String.eqb (m_asset r)) assets && Nat.ltb (m_var r) n && Nat.ltb (m_step r) T) mp &&
  forallb (fun r1 => forallb (fun r2 => negb (Nat.eqb (m_var r1) (m_var r2)) || String.eqb (m_asset r1) (m_asset r2)) mp) mp &&
  forallb (fun i => Qeq_bool (nth i c 0) 0 || existsb (fun r => Nat.eqb (m_var r) i) mp) (seq 0 n).

Lemma wf_mapb_sound n T c assets mp : NoDup assets -> wf_mapb n T c assets mp = true -> wf_map n T c assets mp.
Proof.
  intros Hnd H. unfold wf_mapb in H. apply andb_prop in H. destruct H as [H H3].
  apply andb_prop in H. destruct H as [H1 H2]. split; [exact Hnd|]. split; [|split].
  - apply Forall_forall. intros r Hr. rewrite forallb_forall in H1. specialize (H1 r Hr).
    apply andb_prop in H1. destruct H1 as [H1 Hc]. apply andb_prop in H1. destruct H1 as [Ha Hb].
    apply Nat.ltb_lt in Hb. apply Nat.ltb_lt in Hc. split; [|split; assumption].
    apply existsb_exists in Ha. destruct Ha as (y & Hy & E). apply String.eqb_eq in E. rewrite E. exact Hy.
  - intros r1 r2 Hr1 Hr2 Ev. rewrite forallb_forall in H2. specialize (H2 r1 Hr1).
    rewrite forallb_forall in H2. specialize (H2 r2 Hr2). apply orb_prop in H2. destruct H2 as [H2|H2].
    + apply negb_true_iff in H2. apply Nat.eqb_neq in H2. contradiction.
    + apply String.eqb_eq. exact H2.
  - intros i Hi Hnz. rewrite forallb_forall in H3. specialize (H3 i). rewrite in_seq in H3.
    specialize (H3 ltac:(lia)). apply orb_prop in H3. destruct H3 as [H3|H3].
    + apply Qeq_bool_iff in H3. contradiction.
    + apply existsb_exists in H3. destruct H3 as (r & Hr & E). apply Nat.eqb_eq in E. exists r. split; assumption.
Qed.
