(* Fix.v — C15: fixing a time window (portfolio.py:203-220). *)
From Coq Require Import QArith ZArith List Lia Lqa Bool String Arith.
From EAO Require Import Num LP Mapping Grid Assets Portfolio.
Import ListNotations.
Open Scope Q_scope.

Definition pin (steps : list nat) (mp : list mrow) (xprev b : vec) : vec :=
  map (fun vb => if in_fix steps mp (fst vb) then nth (fst vb) xprev 0 else snd vb) (combine (seq 0 (List.length b)) b).
Lemma fix_window_unfold steps xprev a :
  ap_lp (fix_window steps xprev a) =
  Build_lp (lp_c (ap_lp a)) (pin steps (ap_map a) xprev (lp_l (ap_lp a))) (pin steps (ap_map a) xprev (lp_u (ap_lp a))) (lp_rows (ap_lp a)).
Proof. reflexivity. Qed.

Lemma pin_length steps mp xprev b : List.length (pin steps mp xprev b) = List.length b.
Proof. unfold pin. rewrite map_length, combine_length, seq_length. lia. Qed.

Lemma pin_nth_gen steps mp xprev : forall b s v, (v < List.length b)%nat ->
  nth v (map (fun vb => if in_fix steps mp (fst vb) then nth (fst vb) xprev 0 else snd vb) (combine (seq s (List.length b)) b)) 0 =
  if in_fix steps mp (s + v) then nth (s + v) xprev 0 else nth v b 0.
Proof.
  induction b as [|b0 b IH]; intros s v Hv; simpl in Hv; [lia|].
  cbn [List.length seq combine map]. destruct v as [|v]; cbn [nth fst snd].
  - rewrite Nat.add_0_r. reflexivity.
  - rewrite (IH (S s) v) by lia. replace (S s + v)%nat with (s + S v)%nat by lia. reflexivity.
Qed.
Lemma pin_nth steps mp xprev b v : (v < List.length b)%nat ->
  nth v (pin steps mp xprev b) 0 = if in_fix steps mp v then nth v xprev 0 else nth v b 0.
Proof. intros Hv. unfold pin. rewrite (pin_nth_gen steps mp xprev b 0 v Hv). reflexivity. Qed.

(* exactly the variables having a mapping row at a step of the window are pinned to the previous value;
   every other bound, the costs, the rows and the mapping are untouched *)
Theorem fix_pins_exactly steps xprev a v : wf_lp (ap_lp a) -> (v < nvars (ap_lp a))%nat ->
  let P' := ap_lp (fix_window steps xprev a) in
  lp_c P' = lp_c (ap_lp a) /\ lp_rows P' = lp_rows (ap_lp a) /\ ap_map (fix_window steps xprev a) = ap_map a /\
  (in_fix steps (ap_map a) v = true -> nth v (lp_l P') 0 = nth v xprev 0 /\ nth v (lp_u P') 0 = nth v xprev 0) /\
  (in_fix steps (ap_map a) v = false -> nth v (lp_l P') 0 = nth v (lp_l (ap_lp a)) 0 /\ nth v (lp_u P') 0 = nth v (lp_u (ap_lp a)) 0).
Proof.
  intros (Hl & Hu & _) Hv. cbv zeta. rewrite fix_window_unfold. cbn [lp_c lp_rows lp_l lp_u].
  split; [reflexivity|]. split; [reflexivity|]. split; [reflexivity|].
  rewrite !pin_nth by lia. split; intros E; rewrite E; split; reflexivity.
Qed.

Lemma in_box_nth_inv : forall l u x, List.length l = List.length x -> List.length u = List.length x ->
  (forall j, (j < List.length x)%nat -> nth j l 0 <= nth j x 0 /\ nth j x 0 <= nth j u 0) -> in_box l u x.
Proof.
  induction l as [|l0 l IH]; intros [|u0 u] [|x0 x] Hl Hu H; simpl in Hl, Hu; try discriminate; cbn [in_box]; [exact I|].
  destruct (H 0%nat ltac:(simpl; lia)) as [A B]. cbn [nth] in A, B. repeat split; try assumption.
  apply IH; try lia. intros j Hj. apply (H (S j)). simpl. lia.
Qed.

(* in every feasible point of the rebuilt problem the variables of the window take their previous values *)
Theorem fix_feasible_pinned steps xprev a x v : wf_lp (ap_lp a) ->
  feasible (ap_lp (fix_window steps xprev a)) x -> (v < nvars (ap_lp a))%nat -> in_fix steps (ap_map a) v = true ->
  nth v x 0 == nth v xprev 0.
Proof.
  intros (Hl & Hu & _) [Hb _] Hv E. rewrite fix_window_unfold in Hb. cbn [lp_l lp_u] in Hb.
  pose proof (in_box_length _ _ _ Hb) as [L1 _]. rewrite pin_length in L1.
  destruct (in_box_nth _ _ _ Hb v ltac:(lia)) as [A B].
  rewrite pin_nth in A by lia. rewrite pin_nth in B by lia. rewrite E in A, B. lra.
Qed.

(* with unchanged costs the optimum is unchanged: the previous optimum stays feasible, and nothing new becomes feasible *)
Theorem fix_value_unchanged steps xprev a : wf_lp (ap_lp a) -> optimal (ap_lp a) xprev ->
  optimal (ap_lp (fix_window steps xprev a)) xprev /\
  (forall x, feasible (ap_lp (fix_window steps xprev a)) x -> feasible (ap_lp a) x).
Proof.
  intros W [[Hb Hr] Ho]. pose proof W as (Hl & Hu & _).
  pose proof (in_box_length _ _ _ Hb) as [L1 L2].
  assert (Sub : forall x, feasible (ap_lp (fix_window steps xprev a)) x -> feasible (ap_lp a) x).
  { intros x [Hbx Hrx]. rewrite fix_window_unfold in Hbx, Hrx. cbn [lp_l lp_u lp_rows] in Hbx, Hrx. split; [|exact Hrx].
    pose proof (in_box_length _ _ _ Hbx) as [M1 M2]. rewrite pin_length in M1, M2.
    apply in_box_nth_inv; try lia. intros j Hj.
    destruct (in_box_nth _ _ _ Hbx j Hj) as [A B]. rewrite pin_nth in A by lia. rewrite pin_nth in B by lia.
    destruct (in_fix steps (ap_map a) j); [|split; assumption].
    destruct (in_box_nth _ _ _ Hb j ltac:(lia)) as [C D]. split; lra. }
  split; [|exact Sub]. split.
  - rewrite fix_window_unfold. split; cbn [lp_l lp_u lp_rows]; [|exact Hr].
    apply in_box_nth_inv; rewrite ?pin_length; try lia. intros j Hj.
    rewrite !pin_nth by lia. destruct (in_fix steps (ap_map a) j); [split; lra|].
    apply (in_box_nth _ _ _ Hb j Hj).
  - intros x' F'. change (value (ap_lp (fix_window steps xprev a)) x') with (value (ap_lp a) x').
    change (value (ap_lp (fix_window steps xprev a)) xprev) with (value (ap_lp a) xprev). apply Ho. apply Sub. exact F'.
Qed.
