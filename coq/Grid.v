(* Grid.v — time grid over integer instants (seconds), restricted and coarse grids,
   interval data.  basic_classes.py:51-173, 204-217, 246-288.
   The calendar (pd.date_range, time zones) is an oracle: the harness evaluates it and hands
   the model the resulting instants; facts needed about them are explicit hypotheses. *)
From Coq Require Import QArith ZArith List Lia Lqa Bool Arith.
From EAO Require Import Num.
Import ListNotations.
Open Scope Q_scope.

Record grid := {
  g_pts   : list Z;   (* date_range(start, end, freq): T+1 instants; the last one closes the last step *)
  g_start : Z;        (* Timegrid.start *)
  g_end   : Z;        (* Timegrid.end   *)
  g_unit  : Z         (* seconds per main time unit *) }.

Definition g_T (g : grid) : nat := pred (List.length (g_pts g)).
Definition g_tp (g : grid) : list Z := removelast (g_pts g).           (* timepoints *)
Definition pt (g : grid) (i : nat) : Z := nth i (g_pts g) 0%Z.

Fixpoint diffs (l : list Z) : list Z :=
  match l with a :: ((b :: _) as l') => (b - a)%Z :: diffs l' | _ => [] end.
Definition qz (a b : Z) : Q := Qred (inject_Z a / inject_Z b).
(* basic_classes.py:158  dt = (timepoints[1:]-timepoints[0:-1]) / Timedelta(1, main_time_unit) *)
Definition g_dt (g : grid) : vec := map (fun d => qz d (g_unit g)) (diffs (g_pts g)).
(* basic_classes.py:159  Dt = cumsum(dt) *)
Definition g_Dt (g : grid) : vec := cumsum (g_dt g).
Definition g_I (g : grid) : list nat := seq 0 (g_T g).

(* ---------- restricted grid (same frequency): basic_classes.py:102-110 ---------- *)
Definition in_window (s e p : Z) : bool := (s <=? p)%Z && (p <? e)%Z.
Definition restrict_I (g : grid) (s e : Z) : list nat := filter (fun i => in_window s e (pt g i)) (g_I g).

Record rgrid := {
  rg_I    : list nat;          (* indices into the main grid (first minor index for coarse grids) *)
  rg_tp   : list Z;
  rg_dt   : vec;
  rg_Dt   : vec;
  rg_disc : vec;
  rg_minor: option (list (list nat))   (* I_minor_in_major for coarse grids *) }.
Definition rg_T (r : rgrid) : nat := List.length (rg_I r).

Definition pick {A} (d : A) (l : list A) (I : list nat) : list A := map (fun i => nth i l d) I.

Definition restrict (g : grid) (disc : vec) (s e : Z) : rgrid :=
  let I := restrict_I g s e in
  {| rg_I := I; rg_tp := pick 0%Z (g_pts g) I; rg_dt := pick 0 (g_dt g) I; rg_Dt := pick 0 (g_Dt g) I;
     rg_disc := pick 0 disc I; rg_minor := None |}.

(* ---------- coarse restricted grid: basic_classes.py:112-148 ----------
   cpts = date_range(start, end, freq_asset) (oracle).  Returns None where the code raises
   (an interval without minor point: min() of an empty array). *)
Fixpoint pairs {A} (l : list A) : list (A * A) :=
  match l with a :: ((b :: _) as l') => (a, b) :: pairs l' | _ => [] end.
Definition coarse_groups (g : grid) (cpts : list Z) : list (list nat) :=
  map (fun ab => filter (fun i => in_window (fst ab) (snd ab) (pt g i)) (g_I g)) (pairs cpts).
(* coarse intervals without any point of the reference grid are skipped (basic_classes.py:133) *)
Definition coarse_groups_in (g : grid) (cpts : list Z) : list (list nat) :=
  filter (fun grp => match grp with [] => false | _ => true end) (coarse_groups g cpts).
Definition coarse (g : grid) (disc : vec) (cpts : list Z) : option rgrid :=
  let gs := coarse_groups_in g cpts in
  let I := map (fun grp => hd 0%nat grp) gs in
  Some {| rg_I := I; rg_tp := pick 0%Z (g_pts g) I;
          rg_dt := map (fun grp => qsumx (pick 0 (g_dt g) grp)) gs;
          rg_Dt := pick 0 (g_Dt g) I; rg_disc := pick 0 disc I; rg_minor := Some gs |}.

(* ---------- interval data: basic_classes.py:246-288 ---------- *)
(* intervals (start, end, value); end = None is Timestamp.max *)
Definition ival := (Z * option Z * Q)%type.
Definition in_ival (iv : ival) (p : Z) : bool :=
  let '(s, e, _) := iv in (s <=? p)%Z && match e with Some e' => (p <? e')%Z | None => true end.
(* implicit ends (basic_classes.py:269-275) *)
Fixpoint implicit_ends (starts : list Z) : list (option Z) :=
  match starts with
  | [] => []
  | [a] => [None]                                 (* placeholder, fixed up below *)
  | a :: ((b :: _) as l') => Some b :: implicit_ends l'
  end.
Definition ends_of (starts : list Z) : list (option Z) :=
  match rev starts with
  | [] => []
  | [a] => [None]                                            (* one start: valid for ever *)
  | last :: prev :: _ => removelast (implicit_ends starts) ++ [Some (last + 2 * (last - prev))%Z]
  end.

(* one assignment pass; None = ValueError('Overlapping time intervals') *)
Fixpoint assign (tp : list Z) (cur : list (option Q)) (iv : ival) : option (list (option Q)) :=
  match tp, cur with
  | p :: tp', c :: cur' =>
      match assign tp' cur' iv with
      | None => None
      | Some rest =>
          if in_ival iv p then (match c with Some _ => None | None => Some (Some (snd iv) :: rest) end)
          else Some (c :: rest)
      end
  | _, _ => Some []
  end.
Fixpoint values_to_grid_from (tp : list Z) (cur : list (option Q)) (ivs : list ival) : option (list (option Q)) :=
  match ivs with
  | [] => Some cur
  | iv :: ivs' => match assign tp cur iv with None => None | Some cur' => values_to_grid_from tp cur' ivs' end
  end.
Definition values_to_grid (tp : list Z) (ivs : list ival) : option (list (option Q)) :=
  values_to_grid_from tp (map (fun _ => None) tp) ivs.

(* ================= theorems (C19, C08) ================= *)
Definition increasing (l : list Z) : Prop := forall i j, (i < j < List.length l)%nat -> (nth i l 0 < nth j l 0)%Z.

Lemma diffs_length l : List.length (diffs l) = pred (List.length l).
Proof.
  induction l as [|a [|b l] IH]; simpl in *; auto.
Qed.
Lemma diffs_nth : forall l i, (S i < List.length l)%nat -> nth i (diffs l) 0%Z = (nth (S i) l 0 - nth i l 0)%Z.
Proof.
  induction l as [|a [|b l] IH]; intros i H; simpl in H; try lia.
  destruct i as [|i]; [reflexivity|]. change (diffs (a :: b :: l)) with ((b - a)%Z :: diffs (b :: l)).
  cbn [nth]. rewrite IH by (simpl; lia). reflexivity.
Qed.

Lemma g_dt_length g : List.length (g_dt g) = g_T g.
Proof. unfold g_dt, g_T. rewrite map_length. apply diffs_length. Qed.

(* each step length equals the real elapsed time to the next point, in main time units *)
Theorem dt_elapsed g i : (i < g_T g)%nat -> (0 < g_unit g)%Z ->
  nth i (g_dt g) 0 * inject_Z (g_unit g) == inject_Z (pt g (S i) - pt g i).
Proof.
  intros Hi Hu. unfold g_dt, g_T, pt in *.
  assert (E : nth i (map (fun d => qz d (g_unit g)) (diffs (g_pts g))) 0 = qz (nth i (diffs (g_pts g)) 0%Z) (g_unit g)).
  { rewrite <- (map_nth (fun d => qz d (g_unit g))). apply nth_indep. rewrite map_length, diffs_length. lia. }
  rewrite E. rewrite diffs_nth by lia. unfold qz. rewrite Qred_correct.
  field. intro Hc. assert (g_unit g = 0)%Z.
  { unfold Qeq, inject_Z in Hc. simpl in Hc. lia. } lia.
Qed.

Theorem dt_positive g i : increasing (g_pts g) -> (i < g_T g)%nat -> (0 < g_unit g)%Z -> 0 < nth i (g_dt g) 0.
Proof.
  intros Hinc Hi Hu. pose proof (dt_elapsed g i Hi Hu) as E.
  assert (0 < inject_Z (pt g (S i) - pt g i)).
  { unfold pt. specialize (Hinc i (S i)). unfold g_T in Hi.
    assert (nth i (g_pts g) 0 < nth (S i) (g_pts g) 0)%Z by (apply Hinc; lia).
    unfold Qlt, inject_Z; simpl. lia. }
  assert (0 < inject_Z (g_unit g)) by (unfold Qlt, inject_Z; simpl; lia).
  rewrite <- E in H. destruct (Qlt_le_dec 0 (nth i (g_dt g) 0)) as [Hp|Hn]; [exact Hp|].
  exfalso. assert (nth i (g_dt g) 0 * inject_Z (g_unit g) <= 0 * inject_Z (g_unit g)) by (apply Qmult_le_compat_r; lra).
  lra.
Qed.

(* cumulative time: Dt_i = sum of the first i+1 steps *)
Theorem Dt_spec g i : (i < g_T g)%nat -> nth i (g_Dt g) 0 == qsum (firstn (S i) (g_dt g)).
Proof.
  intros Hi. unfold g_Dt, cumsum. rewrite cumsum_from_nth by (rewrite g_dt_length; exact Hi). ring.
Qed.

(* a restricted grid is the index-consistent subset of points in [s, e): C19 / C08 *)
Theorem restrict_spec g s e i :
  In i (restrict_I g s e) <-> (i < g_T g)%nat /\ (s <= pt g i)%Z /\ (pt g i < e)%Z.
Proof.
  unfold restrict_I, g_I, in_window. rewrite filter_In, in_seq.
  rewrite andb_true_iff, Z.leb_le, Z.ltb_lt. split; intros; repeat split; try tauto; lia.
Qed.

Lemma filter_seq_sorted (p : nat -> bool) a n : forall i j,
  (i < j < List.length (filter p (seq a n)))%nat ->
  (nth i (filter p (seq a n)) 0 < nth j (filter p (seq a n)) 0)%nat.
Proof.
  revert a. induction n as [|n IH]; intros a i j H; cbn [seq filter] in *; [simpl in H; lia|].
  destruct (p a) eqn:E.
  - cbn [List.length] in H. destruct i as [|i]; destruct j as [|j]; try lia; cbn [nth].
    + assert (In (nth j (filter p (seq (S a) n)) 0%nat) (filter p (seq (S a) n))) by (apply nth_In; lia).
      apply filter_In in H0. destruct H0 as [H0 _]. apply in_seq in H0. lia.
    + apply IH. lia.
  - apply IH. exact H.
Qed.

Theorem restrict_sorted g s e : forall i j, (i < j < List.length (restrict_I g s e))%nat ->
  (nth i (restrict_I g s e) 0 < nth j (restrict_I g s e) 0)%nat.
Proof. apply filter_seq_sorted. Qed.

Lemma nth_map_in {A B} (f : A -> B) l k d d' : (k < List.length l)%nat -> nth k (map f l) d = f (nth k l d').
Proof. revert k; induction l as [|a l IH]; intros [|k] H; simpl in *; try lia; auto. apply IH; lia. Qed.

(* the restricted arrays are the sub-arrays *)
Theorem restrict_arrays g disc s e k : (k < List.length (restrict_I g s e))%nat ->
  let r := restrict g disc s e in
  let i := nth k (restrict_I g s e) 0%nat in
  nth k (rg_dt r) 0 = nth i (g_dt g) 0 /\ nth k (rg_Dt r) 0 = nth i (g_Dt g) 0 /\
  nth k (rg_tp r) 0%Z = pt g i /\ nth k (rg_disc r) 0 = nth i disc 0.
Proof.
  intros Hk r i. subst r i. unfold restrict, pick, pt; cbn [rg_dt rg_Dt rg_tp rg_disc].
  repeat split; (erewrite nth_map_in by exact Hk); reflexivity.
Qed.

(* empty window: nothing selected when the window lies outside the horizon *)
Theorem restrict_outside g s e :
  (forall i, (i < g_T g)%nat -> (pt g i < s)%Z \/ (e <= pt g i)%Z) -> restrict_I g s e = [].
Proof.
  intros H. destruct (restrict_I g s e) as [|i l] eqn:E; [reflexivity|].
  assert (Hi : In i (restrict_I g s e)) by (rewrite E; left; reflexivity).
  apply restrict_spec in Hi. destruct Hi as (Hi & A & B). destruct (H i Hi); lia.
Qed.
