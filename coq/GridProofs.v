(* GridProofs.v — interval data (values_to_grid) and coarse grids: specifications. *)
From Coq Require Import QArith ZArith List Lia Lqa Bool Arith.
From EAO Require Import Num Grid.
Import ListNotations.
Open Scope Q_scope.

(* one assignment pass *)
Lemma assign_spec iv : forall tp cur cur', List.length cur = List.length tp ->
  assign tp cur iv = Some cur' ->
  List.length cur' = List.length tp /\
  forall k, (k < List.length tp)%nat ->
    if in_ival iv (nth k tp 0%Z) then nth k cur None = None /\ nth k cur' None = Some (snd iv)
    else nth k cur' None = nth k cur None.
Proof.
  induction tp as [|p tp IH]; intros cur cur' Hl H; destruct cur as [|c cur]; simpl in Hl; try discriminate.
  - cbn [assign] in H. inversion H. split; [reflexivity|]. intros k Hk. simpl in Hk. lia.
  - cbn [assign] in H. destruct (assign tp cur iv) as [rest|] eqn:E; [|discriminate].
    destruct (IH cur rest ltac:(lia) E) as [Lr Hr].
    destruct (in_ival iv p) eqn:Ein.
    + destruct c as [v|]; [discriminate|]. inversion H; subst. split; [simpl; lia|].
      intros [|k] Hk; cbn [nth].
      * rewrite Ein. split; reflexivity.
      * apply Hr. simpl in Hk. lia.
    + inversion H; subst. split; [simpl; lia|].
      intros [|k] Hk; cbn [nth].
      * rewrite Ein. reflexivity.
      * apply Hr. simpl in Hk. lia.
Qed.

Lemma assign_overlap iv : forall tp cur, List.length cur = List.length tp ->
  (exists k, (k < List.length tp)%nat /\ in_ival iv (nth k tp 0%Z) = true /\ nth k cur None <> None) ->
  assign tp cur iv = None.
Proof.
  induction tp as [|p tp IH]; intros cur Hl (k & Hk & Hin & Hc); destruct cur as [|c cur]; simpl in Hl; try discriminate.
  - simpl in Hk. lia.
  - cbn [assign]. destruct k as [|k]; cbn [nth] in Hin, Hc.
    + destruct (assign tp cur iv); [|reflexivity]. rewrite Hin. destruct c; [reflexivity|contradiction].
    + rewrite (IH cur ltac:(lia)); [reflexivity|]. exists k. simpl in Hk. repeat split; [lia|exact Hin|exact Hc].
Qed.

Definition containing (ivs : list ival) (p : Z) : list ival := filter (fun iv => in_ival iv p) ivs.

(* C19: every grid point gets the value of the UNIQUE interval [start_i, end_i) containing it,
   points outside all intervals stay undefined *)
Lemma vtg_from_spec : forall ivs tp cur res, List.length cur = List.length tp ->
  values_to_grid_from tp cur ivs = Some res ->
  List.length res = List.length tp /\
  forall k, (k < List.length tp)%nat ->
    match nth k cur None with
    | Some c => containing ivs (nth k tp 0%Z) = [] /\ nth k res None = Some c
    | None => (containing ivs (nth k tp 0%Z) = [] /\ nth k res None = None) \/
              (exists iv, containing ivs (nth k tp 0%Z) = [iv] /\ nth k res None = Some (snd iv))
    end.
Proof.
  induction ivs as [|iv ivs IH]; intros tp cur res Hl H; cbn [values_to_grid_from] in H.
  - inversion H; subst. split; [exact Hl|]. intros k Hk. cbn [containing filter].
    destruct (nth k res None); [split; reflexivity|left; split; reflexivity].
  - destruct (assign tp cur iv) as [cur'|] eqn:E; [|discriminate].
    destruct (assign_spec iv tp cur cur' Hl E) as [Lc Hc].
    destruct (IH tp cur' res Lc H) as [Lr Hr]. split; [exact Lr|].
    intros k Hk. specialize (Hc k Hk). specialize (Hr k Hk). unfold containing in *. cbn [filter].
    destruct (in_ival iv (nth k tp 0%Z)) eqn:Ein.
    + destruct Hc as [Hc1 Hc2]. rewrite Hc1. rewrite Hc2 in Hr. destruct Hr as [Hr1 Hr2].
      right. exists iv. rewrite Hr1. split; [reflexivity|exact Hr2].
    + rewrite Hc in Hr. exact Hr.
Qed.

Theorem values_to_grid_spec tp ivs res :
  values_to_grid tp ivs = Some res ->
  List.length res = List.length tp /\
  forall k, (k < List.length tp)%nat ->
    (containing ivs (nth k tp 0%Z) = [] /\ nth k res None = None) \/
    (exists iv, containing ivs (nth k tp 0%Z) = [iv] /\ nth k res None = Some (snd iv)).
Proof.
  unfold values_to_grid. intros H.
  destruct (vtg_from_spec ivs tp (map (fun _ => None) tp) res ltac:(apply map_length) H) as [L Hk].
  split; [exact L|]. intros k Hlt. specialize (Hk k Hlt).
  assert (E : nth k (map (fun _ : Z => @None Q) tp) None = None).
  { clear. revert k. induction tp as [|a tp IH]; intros [|k]; cbn; auto. }
  rewrite E in Hk. exact Hk.
Qed.

(* overlapping intervals (two intervals containing the same grid point) are rejected *)
Lemma vtg_from_overlap : forall ivs tp cur, List.length cur = List.length tp ->
  (exists k, (k < List.length tp)%nat /\
     ((nth k cur None <> None /\ containing ivs (nth k tp 0%Z) <> []) \/
      (2 <= List.length (containing ivs (nth k tp 0%Z)))%nat)) ->
  values_to_grid_from tp cur ivs = None.
Proof.
  induction ivs as [|iv ivs IH]; intros tp cur Hl (k & Hk & Hc).
  - cbn [containing filter] in Hc. destruct Hc as [[_ Hc]|Hc]; [contradiction|simpl in Hc; lia].
  - cbn [values_to_grid_from]. destruct (assign tp cur iv) as [cur'|] eqn:E; [|reflexivity].
    destruct (assign_spec iv tp cur cur' Hl E) as [Lc Hs]. specialize (Hs k Hk).
    apply IH; [exact Lc|]. exists k. split; [exact Hk|].
    unfold containing in *. cbn [filter] in Hc.
    destruct (in_ival iv (nth k tp 0%Z)) eqn:Ein.
    + destruct Hs as [Hs1 Hs2]. destruct Hc as [[Hc _]|Hc]; [contradiction|].
      left. split; [rewrite Hs2; discriminate|].
      cbn [List.length] in Hc. destruct (filter _ ivs); [simpl in Hc; lia|discriminate].
    + rewrite Hs. exact Hc.
Qed.

Theorem values_to_grid_overlap tp ivs k :
  (k < List.length tp)%nat -> (2 <= List.length (containing ivs (nth k tp 0%Z)))%nat ->
  values_to_grid tp ivs = None.
Proof.
  intros Hk H. unfold values_to_grid. apply vtg_from_overlap; [apply map_length|].
  exists k. split; [exact Hk|]. right. exact H.
Qed.

(* ---- coarse grids partition the fine steps without loss ---- *)
(* if the coarse points are increasing, start at or before the first selected fine point and
   reach beyond the last one, every fine step of the window lies in exactly one group *)
Lemma in_window_pairs : forall (cpts : list Z) (p : Z),
  (forall i j, (i < j < List.length cpts)%nat -> (nth i cpts 0 < nth j cpts 0)%Z) ->
  (nth 0 cpts 0 <= p)%Z -> (p < last cpts 0)%Z ->
  exists ab, In ab (pairs cpts) /\ in_window (fst ab) (snd ab) p = true.
Proof.
  induction cpts as [|a [|b l] IH]; intros p Hinc H0 Hl; cbn [nth last] in *; try lia.
  destruct (Z_lt_ge_dec p b) as [Hlt|Hge].
  - exists (a, b). split; [left; reflexivity|]. unfold in_window; cbn [fst snd].
    apply andb_true_iff. split; [apply Z.leb_le; lia|apply Z.ltb_lt; lia].
  - destruct (IH p) as (ab & Hin & Hw).
    + intros i j Hij. specialize (Hinc (S i) (S j)). cbn [nth List.length] in *. apply Hinc. lia.
    + cbn [nth]. lia.
    + exact Hl.
    + exists ab. split; [right; exact Hin|exact Hw].
Qed.

Theorem coarse_covers g cpts i :
  (forall i j, (i < j < List.length cpts)%nat -> (nth i cpts 0 < nth j cpts 0)%Z) ->
  (i < g_T g)%nat -> (nth 0 cpts 0 <= pt g i)%Z -> (pt g i < last cpts 0)%Z ->
  exists grp, In grp (coarse_groups g cpts) /\ In i grp.
Proof.
  intros Hinc Hi H0 Hl. destruct (in_window_pairs cpts (pt g i) Hinc H0 Hl) as (ab & Hin & Hw).
  exists (filter (fun k => in_window (fst ab) (snd ab) (pt g k)) (g_I g)). split.
  - unfold coarse_groups. apply in_map_iff. exists ab. split; [reflexivity|exact Hin].
  - apply filter_In. split; [unfold g_I; apply in_seq; lia|exact Hw].
Qed.

(* the step length of a coarse step is the sum of its fine steps *)
Theorem coarse_dt_sum g disc cpts r k :
  coarse g disc cpts = Some r -> (k < List.length (coarse_groups_in g cpts))%nat ->
  nth k (rg_dt r) 0 == qsum (pick 0 (g_dt g) (nth k (coarse_groups_in g cpts) [])).
Proof.
  unfold coarse. intros H Hk. inversion H; subst; cbn [rg_dt].
  erewrite nth_map_in by exact Hk. apply qsumx_spec.
Qed.
(* a group that contains a fine step is kept *)
Lemma coarse_groups_in_keep g cpts grp i : In grp (coarse_groups g cpts) -> In i grp -> In grp (coarse_groups_in g cpts).
Proof. intros H Hi. unfold coarse_groups_in. apply filter_In. split; [exact H|]. destruct grp; [destruct Hi|reflexivity]. Qed.

(* ---------- a restricted grid restricted once more (basic_classes.py:102-110 with a restricted grid as reference) ---------- *)
Fixpoint fmask {A} (keep : list bool) (l : list A) : list A :=
  match keep, l with
  | k :: keep', a :: l' => if k then a :: fmask keep' l' else fmask keep' l'
  | _, _ => []
  end.
Definition restrict_rg (r : rgrid) (s e : Z) : rgrid :=
  let keep := map (in_window s e) (rg_tp r) in
  {| rg_I := fmask keep (rg_I r); rg_tp := fmask keep (rg_tp r); rg_dt := fmask keep (rg_dt r); rg_Dt := fmask keep (rg_Dt r);
     rg_disc := fmask keep (rg_disc r); rg_minor := None |}.

Lemma fmask_map {A B} (f : nat -> bool) (k : nat -> B) (h : nat -> A) (q : A -> bool) :
  (forall i, q (h i) = f i) -> forall I, fmask (map q (map h I)) (map k I) = map k (filter f I).
Proof.
  intros Hq. induction I as [|i I IH]; [reflexivity|]. cbn [map fmask filter]. rewrite Hq. destruct (f i); cbn [map]; rewrite IH; reflexivity.
Qed.

Lemma filter_filter {A} (p q : A -> bool) l : filter q (filter p l) = filter (fun x => p x && q x) l.
Proof.
  induction l as [|a l IH]; [reflexivity|]. cbn [filter]. destruct (p a); cbn [filter andb]; [destruct (q a)|]; rewrite IH; reflexivity.
Qed.

Lemma in_window_meet s1 e1 s2 e2 p : in_window s1 e1 p && in_window s2 e2 p = in_window (Z.max s1 s2) (Z.min e1 e2) p.
Proof.
  unfold in_window.
  destruct (Z.leb_spec s1 p); destruct (Z.ltb_spec p e1); destruct (Z.leb_spec s2 p); destruct (Z.ltb_spec p e2);
  destruct (Z.leb_spec (Z.max s1 s2) p); destruct (Z.ltb_spec p (Z.min e1 e2)); cbn; try reflexivity; lia.
Qed.

(* restricting in two steps is restricting to the intersection of the windows: same indices IN THE ORIGINAL GRID, same points,
   step lengths, cumulated times and discount factors *)
Theorem restrict_twice g disc s1 e1 s2 e2 :
  restrict_rg (restrict g disc s1 e1) s2 e2 = restrict g disc (Z.max s1 s2) (Z.min e1 e2).
Proof.
  unfold restrict_rg, restrict. cbn [rg_I rg_tp rg_dt rg_Dt rg_disc]. unfold pick.
  assert (EI : restrict_I g (Z.max s1 s2) (Z.min e1 e2) = filter (fun i => in_window s2 e2 (pt g i)) (restrict_I g s1 e1)).
  { unfold restrict_I. rewrite filter_filter. apply filter_ext. intros i. symmetry. apply in_window_meet. }
  rewrite EI. set (I := restrict_I g s1 e1). set (f := fun i => in_window s2 e2 (pt g i)).
  assert (M : forall {B} (k : nat -> B), fmask (map (in_window s2 e2) (map (fun i => nth i (g_pts g) 0%Z) I)) (map k I) = map k (filter f I)).
  { intros B k. apply fmask_map. intros i. reflexivity. }
  f_equal.
  - rewrite <- (map_id I) at 2. rewrite (M _ (fun i => i)). rewrite map_id. reflexivity.
  - apply M.
  - apply M.
  - apply M.
  - apply M.
Qed.

(* ---------- a horizon that begins earlier (C08): the restricted grid of a window that lies behind the added points keeps its
   points and step lengths; its indices are shifted by the number of added points ---------- *)
Definition prepend (pre : list Z) (g : grid) : grid :=
  {| g_pts := pre ++ g_pts g; g_start := hd (g_start g) pre; g_end := g_end g; g_unit := g_unit g |}.

Lemma filter_seq_shift (f : nat -> bool) (k : nat) : forall n a,
  filter f (seq (k + a) n) = map (Nat.add k) (filter (fun i => f (k + i)%nat) (seq a n)).
Proof.
  induction n as [|n IH]; intros a; [reflexivity|]. cbn [seq filter]. rewrite <- Nat.add_succ_r, IH.
  destruct (f (k + a)%nat); reflexivity.
Qed.

Lemma filter_none {A} (f : A -> bool) l : (forall x, In x l -> f x = false) -> filter f l = [].
Proof.
  induction l as [|a l IH]; intros H; [reflexivity|]. cbn [filter]. rewrite (H a (or_introl eq_refl)). apply IH. intros x Hx. apply H. right. exact Hx.
Qed.

Theorem restrict_I_prepend pre g s e :
  g_pts g <> [] -> (forall p, In p pre -> (p < s)%Z) ->
  restrict_I (prepend pre g) s e = map (Nat.add (List.length pre)) (restrict_I g s e).
Proof.
  intros Hne Hpre. unfold restrict_I, g_I, g_T, prepend. cbn [g_pts]. set (k := List.length pre).
  assert (L : pred (List.length (pre ++ g_pts g)) = (k + pred (List.length (g_pts g)))%nat).
  { rewrite app_length. fold k. destruct (g_pts g); [contradiction|]. cbn [List.length]. lia. }
  rewrite L. rewrite seq_app, filter_app.
  assert (E1 : filter (fun i => in_window s e (pt {| g_pts := pre ++ g_pts g; g_start := hd (g_start g) pre; g_end := g_end g; g_unit := g_unit g |} i)) (seq 0 k) = []).
  { apply filter_none. intros i Hi. apply in_seq in Hi. unfold pt. cbn [g_pts]. rewrite app_nth1 by (fold k; lia).
    unfold in_window. assert (nth i pre 0%Z < s)%Z by (apply Hpre; apply nth_In; fold k; lia).
    destruct (Z.leb_spec s (nth i pre 0%Z)); [lia|reflexivity]. }
  rewrite E1. cbn [app]. replace (0 + k)%nat with (k + 0)%nat by lia. rewrite filter_seq_shift. f_equal.
  apply filter_ext. intros i. unfold pt. cbn [g_pts]. rewrite app_nth2 by (fold k; lia). fold k. replace (k + i - k)%nat with i by lia. reflexivity.
Qed.

(* ... and the points (hence step lengths as differences of consecutive points inside the old horizon) picked at these indices are the old ones *)
Theorem restrict_tp_prepend pre g s e :
  g_pts g <> [] -> (forall p, In p pre -> (p < s)%Z) ->
  pick 0%Z (g_pts (prepend pre g)) (restrict_I (prepend pre g) s e) = pick 0%Z (g_pts g) (restrict_I g s e).
Proof.
  intros Hne Hpre. rewrite (restrict_I_prepend pre g s e Hne Hpre). unfold pick, prepend. cbn [g_pts]. rewrite map_map. apply map_ext.
  intros i. rewrite app_nth2 by lia. f_equal. lia.
Qed.
