(* GridProofs.v — interval data (values_to_grid) and coarse grids: specifications. *)
From Coq Require Import QArith ZArith List Lia Lqa Bool Arith.
From EAO Require Import Num Grid.
Import ListNotations.
Open Scope Q_scope.

(* one assignment pass *)
Lemma assign_spec iv : forall tp cur cur', List.length cur = List.length tp ->
  assign tp cur iv = Some cur' ->
  List.length cur' = List.length tp /\
  forall k, (k < List.length tp)%nat ->
    if in_ival iv (nth k tp 0%Z) then nth k cur None = None /\ nth k cur' None = Some (snd iv)
    else nth k cur' None = nth k cur None.
Proof.
  induction tp as [|p tp IH]; intros cur cur' Hl H; destruct cur as [|c cur]; simpl in Hl; try discriminate.
  - cbn [assign] in H. inversion H. split; [reflexivity|]. intros k Hk. simpl in Hk. lia.
  - cbn [assign] in H. destruct (assign tp cur iv) as [rest|] eqn:E; [|discriminate].
    destruct (IH cur rest ltac:(lia) E) as [Lr Hr].
    destruct (in_ival iv p) eqn:Ein.
    + destruct c as [v|]; [discriminate|]. inversion H; subst. split; [simpl; lia|].
      intros [|k] Hk; cbn [nth].
      * rewrite Ein. split; reflexivity.
      * apply Hr. simpl in Hk. lia.
    + inversion H; subst. split; [simpl; lia|].
      intros [|k] Hk; cbn [nth].
      * rewrite Ein. reflexivity.
      * apply Hr. simpl in Hk. lia.
Qed.

Lemma assign_overlap iv : forall tp cur, List.length cur = List.length tp ->
  (exists k, (k < List.length tp)%nat /\ in_ival iv (nth k tp 0%Z) = true /\ nth k cur None <> None) ->
  assign tp cur iv = None.
Proof.
  induction tp as [|p tp IH]; intros cur Hl (k & Hk & Hin & Hc); destruct cur as [|c cur]; simpl in Hl; try discriminate.
  - simpl in Hk. lia.
  - cbn [assign]. destruct k as [|k]; cbn [nth] in Hin, Hc.
    + destruct (assign tp cur iv); [|reflexivity]. rewrite Hin. destruct c; [reflexivity|contradiction].
    + rewrite (IH cur ltac:(lia)); [reflexivity|]. exists k. simpl in Hk. repeat split; [lia|exact Hin|exact Hc].
Qed.

Definition containing (ivs : list ival) (p : Z) : list ival := filter (fun iv => in_ival iv p) ivs.

(* C19: every grid point gets the value of the UNIQUE interval [start_i, end_i) containing it,
   points outside all intervals stay undefined *)
Lemma vtg_from_spec : forall ivs tp cur res, List.length cur = List.length tp ->
  values_to_grid_from tp cur ivs = Some res ->
  List.length res = List.length tp /\
  forall k, (k < List.length tp)%nat ->
    match nth k cur None with
    | Some c => containing ivs (nth k tp 0%Z) = [] /\ nth k res None = Some c
    | None => (containing ivs (nth k tp 0%Z) = [] /\ nth k res None = None) \/
              (exists iv, containing ivs (nth k tp 0%Z) = [iv] /\ nth k res None = Some (snd iv))
    end.
Proof.
  induction ivs as [|iv ivs IH]; intros tp cur res Hl H; cbn [values_to_grid_from] in H.
  - inversion H; subst. split; [exact Hl|]. intros k Hk. cbn [containing filter].
    destruct (nth k res None); [split; reflexivity|left; split; reflexivity].
  - destruct (assign tp cur iv) as [cur'|] eqn:E; [|discriminate].
    destruct (assign_spec iv tp cur cur' Hl E) as [Lc Hc].
    destruct (IH tp cur' res Lc H) as [Lr Hr]. split; [exact Lr|].
    intros k Hk. specialize (Hc k Hk). specialize (Hr k Hk). unfold containing in *. cbn [filter].
    destruct (in_ival iv (nth k tp 0%Z)) eqn:Ein.
    + destruct Hc as [Hc1 Hc2]. rewrite Hc1. rewrite Hc2 in Hr. destruct Hr as [Hr1 Hr2].
      right. exists iv. rewrite Hr1. split; [reflexivity|exact Hr2].
    + rewrite Hc in Hr. exact Hr.
Qed.

Theorem values_to_grid_spec tp ivs res :
  values_to_grid tp ivs = Some res ->
  List.length res = List.length tp /\
  forall k, (k < List.length tp)%nat ->
    (containing ivs (nth k tp 0%Z) = [] /\ nth k res None = None) \/
    (exists iv, containing ivs (nth k tp 0%Z) = [iv] /\ nth k res None = Some (snd iv)).
Proof.
  unfold values_to_grid. intros H.
  destruct (vtg_from_spec ivs tp (map (fun _ => None) tp) res ltac:(apply map_length) H) as [L Hk].
  split; [exact L|]. intros k Hlt. specialize (Hk k Hlt).
  assert (E : nth k (map (fun _ : Z => @None Q) tp) None = None).
  { clear. revert k. induction tp as [|a tp IH]; intros [|k]; cbn; auto. }
  rewrite E in Hk. exact Hk.
Qed.

(* overlapping intervals (two intervals containing the same grid point) are rejected *)
Lemma vtg_from_overlap : forall ivs tp cur, List.length cur = List.length tp ->
  (exists k, (k < List.length tp)%nat /\
     ((nth k cur None <> None /\ containing ivs (nth k tp 0%Z) <> []) \/
      (2 <= List.length (containing ivs (nth k tp 0%Z)))%nat)) ->
  values_to_grid_from tp cur ivs = None.
Proof.
  induction ivs as [|iv ivs IH]; intros tp cur Hl (k & Hk & Hc).
  - cbn [containing filter] in Hc. destruct Hc as [[_ Hc]|Hc]; [contradiction|simpl in Hc; lia].
  - cbn [values_to_grid_from]. destruct (assign tp cur iv) as [cur'|] eqn:E; [|reflexivity].
    destruct (assign_spec iv tp cur cur' Hl E) as [Lc Hs]. specialize (Hs k Hk).
    apply IH; [exact Lc|]. exists k. split; [exact Hk|].
    unfold containing in *. cbn [filter] in Hc.
    destruct (in_ival iv (nth k tp 0%Z)) eqn:Ein.
    + destruct Hs as [Hs1 Hs2]. destruct Hc as [[Hc _]|Hc]; [contradiction|].
      left. split; [rewrite Hs2; discriminate|].
      cbn [List.length] in Hc. destruct (filter _ ivs); [simpl in Hc; lia|discriminate].
    + rewrite Hs. exact Hc.
Qed.

Theorem values_to_grid_overlap tp ivs k :
  (k < List.length tp)%nat -> (2 <= List.length (containing ivs (nth k tp 0%Z)))%nat ->
  values_to_grid tp ivs = None.
Proof.
  intros Hk H. unfold values_to_grid. apply vtg_from_overlap; [apply map_length|].
  exists k. split; [exact Hk|]. right. exact H.
Qed.

(* ---- coarse grids partition the fine steps without loss ---- *)
(* if the coarse points are increasing, start at or before the first selected fine point and
   reach beyond the last one, every fine step of the window lies in exactly one group *)
Lemma in_window_pairs : forall (cpts : list Z) (p : Z),
  (forall i j, (i < j < List.length cpts)%nat -> (nth i cpts 0 < nth j cpts 0)%Z) ->
  (nth 0 cpts 0 <= p)%Z -> (p < last cpts 0)%Z ->
  exists ab, In ab (pairs cpts) /\ in_window (fst ab) (snd ab) p = true.
Proof.
  induction cpts as [|a [|b l] IH]; intros p Hinc H0 Hl; cbn [nth last] in *; try lia.
  destruct (Z_lt_ge_dec p b) as [Hlt|Hge].
  - exists (a, b). split; [left; reflexivity|]. unfold in_window; cbn [fst snd].
    apply andb_true_iff. split; [apply Z.leb_le; lia|apply Z.ltb_lt; lia].
  - destruct (IH p) as (ab & Hin & Hw).
    + intros i j Hij. specialize (Hinc (S i) (S j)). cbn [nth List.length] in *. apply Hinc. lia.
    + cbn [nth]. lia.
    + exact Hl.
    + exists ab. split; [right; exact Hin|exact Hw].
Qed.

Theorem coarse_covers g cpts i :
  (forall i j, (i < j < List.length cpts)%nat -> (nth i cpts 0 < nth j cpts 0)%Z) ->
  (i < g_T g)%nat -> (nth 0 cpts 0 <= pt g i)%Z -> (pt g i < last cpts 0)%Z ->
  exists grp, In grp (coarse_groups g cpts) /\ In i grp.
Proof.
  intros Hinc Hi H0 Hl. destruct (in_window_pairs cpts (pt g i) Hinc H0 Hl) as (ab & Hin & Hw).
  exists (filter (fun k => in_window (fst ab) (snd ab) (pt g k)) (g_I g)). split.
  - unfold coarse_groups. apply in_map_iff. exists ab. split; [reflexivity|exact Hin].
  - apply filter_In. split; [unfold g_I; apply in_seq; lia|exact Hw].
Qed.

(* the step length of a coarse step is the sum of its fine steps *)
Theorem coarse_dt_sum g disc cpts r k :
  coarse g disc cpts = Some r -> (k < List.length (coarse_groups_in g cpts))%nat ->
  nth k (rg_dt r) 0 == qsum (pick 0 (g_dt g) (nth k (coarse_groups_in g cpts) [])).
Proof.
  unfold coarse. intros H Hk. inversion H; subst; cbn [rg_dt].
  erewrite nth_map_in by exact Hk. apply qsumx_spec.
Qed.
(* a group that contains a fine step is kept *)
Lemma coarse_groups_in_keep g cpts grp i : In grp (coarse_groups g cpts) -> In i grp -> In grp (coarse_groups_in g cpts).
Proof. intros H Hi. unfold coarse_groups_in. apply filter_In. split; [exact H|]. destruct grp; [destruct Hi|reflexivity]. Qed.
