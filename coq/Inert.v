(* Inert.v — C08 / C20: elements without any step inside the horizon leave the problem unchanged. *)
From Coq Require Import QArith ZArith List Lia Lqa Bool String Arith.
From EAO Require Import Num LP Mapping Grid Assets Portfolio.
Import ListNotations.
Open Scope Q_scope.

Lemma sshift_0 r : sshift 0 r = r.
Proof. unfold sshift. induction r as [|[j a] r IH]; cbn [map]; [reflexivity|]. rewrite IH. reflexivity. Qed.
Lemma shift_row_0 r : shift_row 0 r = r.
Proof. destruct r as [a t b]. unfold shift_row; cbn [r_a r_t r_b]. rewrite sshift_0. reflexivity. Qed.
Lemma map_shift_row_0 rows : map (shift_row 0) rows = rows.
Proof. induction rows as [|r rows IH]; cbn [map]; [reflexivity|]. rewrite shift_row_0, IH. reflexivity. Qed.
Lemma shift_mrow_0 r : shift_mrow 0 r = r.
Proof. destruct r. reflexivity. Qed.
Lemma map_shift_mrow_0 mp : map (shift_mrow 0) mp = mp.
Proof. induction mp as [|r mp IH]; cbn [map]; [reflexivity|]. rewrite shift_mrow_0, IH. reflexivity. Qed.

Lemma assemble_empty_head rest : assemble (ap_empty :: rest) = assemble rest.
Proof.
  cbn [assemble]. destruct (assemble rest) as [[c l u rows] mp].
  unfold ap_empty, lp_sum, nvars; cbn [ap_lp ap_map lp_c lp_l lp_u lp_rows List.length app].
  rewrite map_shift_row_0, map_shift_mrow_0. reflexivity.
Qed.

(* an asset without variables and rows (what an asset whose window misses the horizon produces) can be
   inserted anywhere in the portfolio without changing the assembled problem *)
Theorem assemble_empty_anywhere l1 l2 : assemble (l1 ++ ap_empty :: l2) = assemble (l1 ++ l2).
Proof.
  induction l1 as [|a l1 IH]; cbn [app].
  - apply assemble_empty_head.
  - cbn [assemble]. rewrite IH. reflexivity.
Qed.

Theorem portfolio_empty_anywhere nodes skip steps l1 l2 :
  portfolio nodes skip steps (l1 ++ ap_empty :: l2) = portfolio nodes skip steps (l1 ++ l2).
Proof. unfold portfolio. rewrite assemble_empty_anywhere. reflexivity. Qed.

(* ---- orders ---- *)
Lemma combine_snoc {A B} (l1 : list A) (l2 : list B) a b : List.length l1 = List.length l2 ->
  combine (l1 ++ [a]) (l2 ++ [b]) = combine l1 l2 ++ [(a, b)].
Proof.
  revert l2. induction l1 as [|x l1 IH]; intros [|y l2] H; simpl in H; try discriminate; cbn [app combine]; [reflexivity|].
  rewrite IH by lia. reflexivity.
Qed.

Definition order_outside_grid (rg : rgrid) (o : order) : Prop :=
  forall k, (k < rg_T rg)%nat -> in_window (o_start o) (o_end o) (nth k (rg_tp rg) 0%Z) = false.

Lemma sel_outside rg o : order_outside_grid rg o ->
  filter (fun k => in_window (o_start o) (o_end o) (nth k (rg_tp rg) 0%Z)) (seq 0 (rg_T rg)) = [].
Proof.
  intros H.
  assert (G : forall l, (forall k, In k l -> (k < rg_T rg)%nat) ->
              filter (fun k => in_window (o_start o) (o_end o) (nth k (rg_tp rg) 0%Z)) l = []).
  { induction l as [|k l IH]; intros Hl; cbn [filter]; [reflexivity|].
    rewrite H by (apply Hl; left; reflexivity). apply IH. intros j Hj. apply Hl. right. exact Hj. }
  apply G. intros k Hk. apply in_seq in Hk. lia.
Qed.

(* an order without any grid point in [start, end), appended to an order book: one more variable in
   [0,1] with zero cost, no mapping row (hence in no nodal row), everything else unchanged *)
Theorem order_outside_append name node fe rg orders o :
  order_outside_grid rg o ->
  let a := orderbook name node fe rg orders in
  let a' := orderbook name node fe rg (orders ++ [o]) in
  ap_map a' = ap_map a /\
  lp_c (ap_lp a') = lp_c (ap_lp a) ++ [Qred (o_capa o * 0 * o_price o)] /\
  lp_l (ap_lp a') = lp_l (ap_lp a) ++ [0] /\ lp_u (ap_lp a') = lp_u (ap_lp a) ++ [1] /\
  lp_rows (ap_lp a') = lp_rows (ap_lp a).
Proof.
  intros H. cbv zeta. unfold orderbook. cbn [ap_map ap_lp lp_c lp_l lp_u lp_rows].
  rewrite app_length. cbn [List.length]. rewrite Nat.add_1_r.
  repeat split.
  - rewrite seq_S. cbn [Nat.add]. rewrite combine_snoc by (rewrite seq_length; reflexivity).
    rewrite flat_map_app. cbn [flat_map fst snd]. rewrite (sel_outside rg o H). cbn [map app]. rewrite app_nil_r. reflexivity.
  - rewrite map_app. cbn [map]. rewrite (sel_outside rg o H). reflexivity.
  - rewrite <- (Nat.add_1_r (List.length orders)). rewrite repeat_app. reflexivity.
  - rewrite <- (Nat.add_1_r (List.length orders)). rewrite repeat_app. reflexivity.
Qed.

(* ---- a free variable with zero cost changes neither the optimum nor the optimal points of the rest ---- *)
Definition free_var (c0 : Q) : lp := Build_lp [c0] [0] [1] [].
Lemma free_var_wf c0 : wf_lp (free_var c0).
Proof. unfold wf_lp, free_var, nvars; cbn. repeat split; auto. Qed.
Lemma free_var_optimal c0 v : c0 == 0 -> 0 <= v -> v <= 1 -> optimal (free_var c0) [v].
Proof.
  intros Hc H0 H1. split.
  - split; [cbn; tauto|constructor].
  - intros x' [Hb _]. destruct x' as [|w [|? ?]]; cbn in Hb; try tauto.
    unfold value, free_var; cbn [lp_c dot]. rewrite Hc. lra.
Qed.
Theorem free_variable_inert P x c0 v : wf_lp P -> c0 == 0 -> 0 <= v -> v <= 1 ->
  optimal P x -> optimal (lp_sum P (free_var c0)) (x ++ [v]) /\ value (lp_sum P (free_var c0)) (x ++ [v]) == value P x.
Proof.
  intros W Hc H0 H1 O. split.
  - apply lp_sum_optimal; [exact W|apply free_var_wf|exact O|apply free_var_optimal; assumption].
  - rewrite lp_sum_value by (apply feasible_length; [exact W|apply O]).
    unfold value at 2, free_var; cbn [lp_c dot]. rewrite Hc. lra.
Qed.
