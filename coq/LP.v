(* LP.v — the optimisation problem EAO assembles: (c, l, u, A, b, cType) with sparse rows.
   optimization.py:22-68 (OptimProblem), row classes as in optimization.py:243-297. *)
From Coq Require Import QArith Qminmax Qabs List Lia Lqa Bool ZArith.
From EAO Require Import Num.
Import ListNotations.
Open Scope Q_scope.

Inductive rtype := RU | RL | RS | RN.      (* cType letters 'U' 'L' 'S' 'N' *)
Definition rtype_eqb (a b : rtype) : bool :=
  match a, b with RU, RU | RL, RL | RS, RS | RN, RN => true | _, _ => false end.

Record crow := { r_a : srow; r_t : rtype; r_b : Q }.
Record lp := { lp_c : vec; lp_l : vec; lp_u : vec; lp_rows : list crow }.

Definition nvars (P : lp) : nat := length (lp_c P).

Definition row_ok (x : vec) (r : crow) : Prop :=
  match r_t r with
  | RU => sdot (r_a r) x <= r_b r
  | RL => r_b r <= sdot (r_a r) x
  | RS | RN => sdot (r_a r) x == r_b r
  end.

Fixpoint in_box (l u x : vec) : Prop :=
  match l, u, x with
  | l0 :: l', u0 :: u', x0 :: x' => l0 <= x0 /\ x0 <= u0 /\ in_box l' u' x'
  | [], [], [] => True
  | _, _, _ => False
  end.

Definition wf_lp (P : lp) : Prop :=
  length (lp_l P) = nvars P /\ length (lp_u P) = nvars P /\
  Forall (fun r => srow_wf (nvars P) (r_a r)) (lp_rows P).

Definition feasible (P : lp) (x : vec) : Prop :=
  in_box (lp_l P) (lp_u P) x /\ Forall (row_ok x) (lp_rows P).

(* EAO maximises  -c.x  (optimization.py:301) *)
Definition value (P : lp) (x : vec) : Q := - dot (lp_c P) x.
Definition optimal (P : lp) (x : vec) : Prop :=
  feasible P x /\ forall x', feasible P x' -> value P x' <= value P x.

Lemma in_box_length l u x : in_box l u x -> length l = length x /\ length u = length x.
Proof.
  revert u x. induction l as [|l0 l IH]; intros [|u0 u] [|x0 x] H; simpl in *; try contradiction; auto.
  destruct H as (_ & _ & H). destruct (IH _ _ H). split; congruence.
Qed.

Lemma in_box_nth l u x : in_box l u x -> forall j, (j < length x)%nat ->
  nth j l 0 <= nth j x 0 /\ nth j x 0 <= nth j u 0.
Proof.
  revert u x. induction l as [|l0 l IH]; intros [|u0 u] [|x0 x] H j Hj; simpl in *; try contradiction; try lia.
  destruct H as (H1 & H2 & H3). destruct j as [|j]; [split; assumption|]. apply (IH _ _ H3). lia.
Qed.

Lemma in_box_app l1 u1 x1 l2 u2 x2 :
  in_box l1 u1 x1 -> in_box l2 u2 x2 -> in_box (l1 ++ l2) (u1 ++ u2) (x1 ++ x2).
Proof.
  revert u1 x1. induction l1 as [|a l1 IH]; intros [|b u1] [|c x1] H1 H2; simpl in *; try contradiction; auto.
  destruct H1 as (? & ? & ?). repeat split; auto.
Qed.

Lemma in_box_app_inv l1 u1 x1 l2 u2 x2 : length l1 = length x1 -> length u1 = length x1 ->
  in_box (l1 ++ l2) (u1 ++ u2) (x1 ++ x2) -> in_box l1 u1 x1 /\ in_box l2 u2 x2.
Proof.
  revert u1 x1. induction l1 as [|a l1 IH]; intros [|b u1] [|c x1] Hl Hu H; simpl in *; try discriminate; auto.
  destruct H as (? & ? & H). destruct (IH u1 x1) as [A B]; auto.
Qed.

(* executable counterparts *)
Definition row_okb (eps : Q) (x : vec) (r : crow) : bool :=
  let s := sdotx (r_a r) x in
  match r_t r with
  | RU => Qle_bool s (r_b r + eps)
  | RL => Qle_bool (r_b r - eps) s
  | RS | RN => Qle_bool s (r_b r + eps) && Qle_bool (r_b r - eps) s
  end.
Fixpoint in_boxb (eps : Q) (l u x : vec) : bool :=
  match l, u, x with
  | l0 :: l', u0 :: u', x0 :: x' => Qle_bool (l0 - eps) x0 && Qle_bool x0 (u0 + eps) && in_boxb eps l' u' x'
  | [], [], [] => true
  | _, _, _ => false
  end.

Lemma in_boxb_0 l u x : in_boxb 0 l u x = true -> in_box l u x.
Proof.
  revert u x. induction l as [|l0 l IH]; intros [|u0 u] [|x0 x] H; simpl in *; try discriminate; auto.
  apply andb_prop in H. destruct H as [H H3]. apply andb_prop in H. destruct H as [H1 H2].
  apply Qle_bool_iff in H1. apply Qle_bool_iff in H2. repeat split; try lra. apply IH. exact H3.
Qed.
Lemma row_okb_0 x r : row_okb 0 x r = true -> row_ok x r.
Proof.
  unfold row_okb, row_ok. destruct (r_t r); intros H;
    try (apply andb_prop in H; destruct H as [H1 H2]; apply Qle_bool_iff in H1; apply Qle_bool_iff in H2;
         rewrite sdotx_spec in *; lra);
    apply Qle_bool_iff in H; rewrite sdotx_spec in H; lra.
Qed.

Definition wf_lpb (P : lp) : bool :=
  Nat.eqb (length (lp_l P)) (nvars P) && Nat.eqb (length (lp_u P)) (nvars P) &&
  forallb (fun r => srow_wfb (nvars P) (r_a r)) (lp_rows P).
Lemma wf_lpb_spec P : wf_lpb P = true -> wf_lp P.
Proof.
  unfold wf_lpb, wf_lp. intros H. apply andb_prop in H. destruct H as [H H3].
  apply andb_prop in H. destruct H as [H1 H2]. apply Nat.eqb_eq in H1. apply Nat.eqb_eq in H2.
  repeat split; auto. rewrite forallb_forall in H3. apply Forall_forall. intros r Hr.
  apply srow_wfb_spec. apply H3. exact Hr.
Qed.

(* ---- generic lemmas reused by several properties ---- *)

(* direct sum of two problems over disjoint variable blocks *)
Definition shift_row (off : nat) (r : crow) : crow :=
  {| r_a := sshift off (r_a r); r_t := r_t r; r_b := r_b r |}.
Definition lp_sum (P1 P2 : lp) : lp :=
  {| lp_c := lp_c P1 ++ lp_c P2; lp_l := lp_l P1 ++ lp_l P2; lp_u := lp_u P1 ++ lp_u P2;
     lp_rows := lp_rows P1 ++ map (shift_row (nvars P1)) (lp_rows P2) |}.

Lemma row_ok_shift x1 x2 r : row_ok (x1 ++ x2) (shift_row (length x1) r) <-> row_ok x2 r.
Proof. unfold row_ok, shift_row; cbn [r_a r_t r_b]. destruct (r_t r); rewrite sdot_sshift; tauto. Qed.

Lemma row_ok_app_l x1 x2 r : srow_wf (length x1) (r_a r) -> (row_ok (x1 ++ x2) r <-> row_ok x1 r).
Proof. intros H. unfold row_ok. destruct (r_t r); rewrite sdot_app_l by exact H; tauto. Qed.

Lemma feasible_length P x : wf_lp P -> feasible P x -> length x = nvars P.
Proof. intros (Hl & _ & _) [Hb _]. apply in_box_length in Hb. destruct Hb. congruence. Qed.

Theorem lp_sum_feasible P1 P2 x1 x2 : wf_lp P1 -> wf_lp P2 ->
  length x1 = nvars P1 ->
  (feasible (lp_sum P1 P2) (x1 ++ x2) <-> feasible P1 x1 /\ feasible P2 x2).
Proof.
  intros (Hl1 & Hu1 & Hr1) (Hl2 & Hu2 & Hr2) Hx1. unfold feasible, lp_sum; simpl. split.
  - intros [Hb Hr]. apply in_box_app_inv in Hb; try congruence. destruct Hb as [Hb1 Hb2].
    apply Forall_app in Hr. destruct Hr as [Hra Hrb]. repeat split; auto.
    + rewrite Forall_forall in *. intros r Hin. apply (row_ok_app_l x1 x2); [rewrite Hx1; apply Hr1; exact Hin|].
      apply Hra. exact Hin.
    + rewrite Forall_forall in *. intros r Hin. apply (row_ok_shift x1 x2). rewrite Hx1.
      apply Hrb. apply in_map. exact Hin.
  - intros [[Hb1 Hra] [Hb2 Hrb]]. split; [apply in_box_app; assumption|].
    apply Forall_app. split.
    + rewrite Forall_forall in *. intros r Hin. apply (row_ok_app_l x1 x2); [rewrite Hx1; apply Hr1; exact Hin|].
      apply Hra. exact Hin.
    + rewrite Forall_forall in *. intros r Hin. apply in_map_iff in Hin. destruct Hin as (r0 & <- & Hin).
      rewrite <- Hx1. apply (row_ok_shift x1 x2). apply Hrb. exact Hin.
Qed.

Lemma lp_sum_value P1 P2 x1 x2 : length x1 = nvars P1 ->
  value (lp_sum P1 P2) (x1 ++ x2) == value P1 x1 + value P2 x2.
Proof. intros H. unfold value, lp_sum; simpl. rewrite dot_app by (unfold nvars in H; lia). ring. Qed.

Lemma split_at {A} (n : nat) (x : list A) : (n <= length x)%nat ->
  exists x1 x2, x = x1 ++ x2 /\ length x1 = n.
Proof.
  intros H. exists (firstn n x), (skipn n x). split; [symmetry; apply firstn_skipn|].
  rewrite firstn_length. lia.
Qed.

Lemma lp_sum_wf P1 P2 : wf_lp P1 -> wf_lp P2 -> wf_lp (lp_sum P1 P2).
Proof.
  intros (Hl1 & Hu1 & Hr1) (Hl2 & Hu2 & Hr2). unfold wf_lp, lp_sum, nvars in *; simpl.
  rewrite !app_length. repeat split; try lia.
  apply Forall_app. split.
  - eapply Forall_impl; [|exact Hr1]. intros r H. unfold srow_wf in *. eapply Forall_impl; [|exact H].
    simpl. intros; lia.
  - rewrite Forall_map. eapply Forall_impl; [|exact Hr2]. intros r H. unfold srow_wf, shift_row, sshift in *; simpl.
    rewrite Forall_map. eapply Forall_impl; [|exact H]. simpl. intros; lia.
Qed.

(* block-separable problems: the optimum of the sum is the sum of the optima, and a
   concatenation of optimal points is optimal (used for split optimisation, C14) *)
Theorem lp_sum_optimal P1 P2 x1 x2 : wf_lp P1 -> wf_lp P2 ->
  optimal P1 x1 -> optimal P2 x2 -> optimal (lp_sum P1 P2) (x1 ++ x2).
Proof.
  intros W1 W2 [F1 O1] [F2 O2].
  assert (L1 : length x1 = nvars P1) by (apply feasible_length; assumption).
  split; [apply lp_sum_feasible; auto|].
  intros x' F'.
  assert (L' : length x' = nvars (lp_sum P1 P2)) by (apply feasible_length; [apply lp_sum_wf|]; assumption).
  destruct (split_at (nvars P1) x') as (y1 & y2 & -> & Ly1).
  { rewrite L'. unfold nvars, lp_sum; simpl. rewrite app_length. lia. }
  apply lp_sum_feasible in F'; auto. destruct F' as [G1 G2].
  rewrite !lp_sum_value by assumption.
  specialize (O1 _ G1). specialize (O2 _ G2). lra.
Qed.

Theorem lp_sum_optimal_inv P1 P2 x1 x2 : wf_lp P1 -> wf_lp P2 -> length x1 = nvars P1 ->
  optimal (lp_sum P1 P2) (x1 ++ x2) -> optimal P1 x1 /\ optimal P2 x2.
Proof.
  intros W1 W2 L1 [F O]. apply lp_sum_feasible in F; auto. destruct F as [F1 F2]. split; split; auto.
  - intros y1 G1. assert (Ly : length y1 = nvars P1) by (apply feasible_length; assumption).
    specialize (O (y1 ++ x2)). rewrite !lp_sum_value in O by assumption.
    assert (feasible (lp_sum P1 P2) (y1 ++ x2)) by (apply lp_sum_feasible; auto). specialize (O H). lra.
  - intros y2 G2. specialize (O (x1 ++ y2)). rewrite !lp_sum_value in O by assumption.
    assert (feasible (lp_sum P1 P2) (x1 ++ y2)) by (apply lp_sum_feasible; auto). specialize (O H). lra.
Qed.

(* adding rows can only shrink the feasible set: optimum does not increase *)
Definition add_rows (P : lp) (rs : list crow) : lp :=
  {| lp_c := lp_c P; lp_l := lp_l P; lp_u := lp_u P; lp_rows := lp_rows P ++ rs |}.
Lemma add_rows_feasible P rs x : feasible (add_rows P rs) x <-> feasible P x /\ Forall (row_ok x) rs.
Proof. unfold feasible, add_rows; simpl. rewrite Forall_app. tauto. Qed.
Lemma add_rows_value P rs x : value (add_rows P rs) x = value P x.
Proof. reflexivity. Qed.
Theorem add_rows_le P rs x xr : optimal P x -> feasible (add_rows P rs) xr -> value (add_rows P rs) xr <= value P x.
Proof. intros [_ O] F. apply add_rows_feasible in F. rewrite add_rows_value. apply O. tauto. Qed.
