(* Mapping.v — the variable mapping (one row per variable x node; optimization.py:49) and
   what portfolio.py / io.py / assets.py compute from it:
     nodal restriction rows   portfolio.py:135-201 (create_nodal_restr)
     dispatch output          io.py:62-75
     per-asset DCF            assets.py:95-118 (Asset.dcf), io.py:55-56 *)
From Coq Require Import QArith List Lia Lqa Bool String Arith.
From EAO Require Import Num LP.
Import ListNotations.
Open Scope Q_scope.

Record mrow := {
  m_var   : nat;            (* index of the mapping row = variable *)
  m_asset : string;
  m_node  : option string;  (* NaN node = None *)
  m_type  : string;         (* 'd' dispatch, 'i' internal, others (e.g. 'size') *)
  m_step  : nat;            (* time_step *)
  m_factor: Q;              (* disp_factor, NaN/absent = 1 (portfolio.py:129-132) *)
  m_name  : string;         (* var_name *)
  m_bool  : bool }.

Definition is_d (r : mrow) : bool := String.eqb (m_type r) "d".
Definition at_node (n : string) (r : mrow) : bool :=
  match m_node r with Some n' => String.eqb n n' | None => false end.
Definition sel (n : string) (t : nat) (r : mrow) : bool := is_d r && at_node n r && Nat.eqb (m_step r) t.

(* portfolio.py:135-162 : one row per (node, step) that has at least one dispatch row;
   entries (variable, disp_factor); duplicates are summed by the sparse constructor *)
Definition nodal_row (mp : list mrow) (n : string) (t : nat) : srow :=
  map (fun r => (m_var r, m_factor r)) (filter (sel n t) mp).
Definition nodal_rows (nodes skip : list string) (steps : list nat) (mp : list mrow)
  : list (nat * string * srow) :=
  flat_map (fun n => if existsb (String.eqb n) skip then [] else
     flat_map (fun t => match nodal_row mp n t with [] => [] | r => [(t, n, r)] end) steps) nodes.
Definition nodal_crows (nodes skip : list string) (steps : list nat) (mp : list mrow) : list crow :=
  map (fun e => {| r_a := snd e; r_t := RN; r_b := 0 |}) (nodal_rows nodes skip steps mp).

(* io.py:62-75 : dispatch of asset a at node n and step t *)
Definition dispatch_out (mp : list mrow) (x : vec) (a n : string) (t : nat) : Q :=
  qsum (map (fun r => nth (m_var r) x 0 * m_factor r)
       (filter (fun r => String.eqb (m_asset r) a && sel n t r) mp)).

Lemma sdot_nodal_row mp n t x :
  sdot (nodal_row mp n t) x == qsum (map (fun r => nth (m_var r) x 0 * m_factor r) (filter (sel n t) mp)).
Proof.
  unfold sdot, nodal_row. rewrite map_map. apply qsum_map_ext. intros r _. simpl. ring.
Qed.

(* sum over assets of a per-asset sum = sum over all rows, when every row's asset occurs
   exactly once in the asset list (portfolio.py:38 asserts uniqueness) *)
Lemma split_by_assets (assets : list string) (f : mrow -> Q) (l : list mrow) :
  NoDup assets -> Forall (fun r => In (m_asset r) assets) l ->
  qsum (map (fun a => qsum (map f (filter (fun r => String.eqb (m_asset r) a) l))) assets)
  == qsum (map f l).
Proof.
  intros Hnd. induction l as [|r l IH]; intros HF.
  - simpl. apply qsum_zero. intros; reflexivity.
  - inversion HF as [|? ? Hin HF']; subst. specialize (IH HF').
    cbn [map qsum]. rewrite <- IH. clear IH HF HF'.
    induction assets as [|a assets IHa]; [inversion Hin|].
    inversion Hnd as [|? ? Hni Hnd']; subst. cbn [map qsum filter].
    destruct (String.eqb (m_asset r) a) eqn:E.
    + apply String.eqb_eq in E. subst a. cbn [map qsum].
      assert (Hrest: qsum (map (fun a => qsum (map f (filter (fun r0 => String.eqb (m_asset r0) a) (r :: l)))) assets)
                  == qsum (map (fun a => qsum (map f (filter (fun r0 => String.eqb (m_asset r0) a) l))) assets)).
      { apply qsum_map_ext. intros b Hb. cbn [filter].
        destruct (String.eqb (m_asset r) b) eqn:E2; [|reflexivity].
        apply String.eqb_eq in E2. subst b. contradiction. }
      rewrite Hrest. ring.
    + destruct Hin as [Hin|Hin]. { subst a. rewrite String.eqb_refl in E. discriminate. }
      rewrite (IHa Hnd' Hin). ring.
Qed.

Lemma filter_filter {A} (p q : A -> bool) l : filter p (filter q l) = filter (fun r => p r && q r) l.
Proof.
  induction l as [|a l IH]; simpl; auto.
  destruct (q a) eqn:Eq; simpl; destruct (p a); simpl; rewrite ?IH; auto.
Qed.

(* ---- C01: nodal balance of the reported dispatch ---- *)
Theorem nodal_balance_thm (assets nodes skip : list string) (steps : list nat) (mp : list mrow) (x : vec) :
  NoDup assets ->
  Forall (fun r => In (m_asset r) assets) mp ->
  Forall (row_ok x) (nodal_crows nodes skip steps mp) ->
  forall n t, In n nodes -> existsb (String.eqb n) skip = false -> In t steps ->
  qsum (map (fun a => dispatch_out mp x a n t) assets) == 0.
Proof.
  intros Hnd Hin Hrows n t Hn Hskip Ht.
  unfold dispatch_out.
  assert (E: forall a, filter (fun r => String.eqb (m_asset r) a && sel n t r) mp
                      = filter (fun r => String.eqb (m_asset r) a) (filter (sel n t) mp)).
  { intro a. rewrite filter_filter. reflexivity. }
  erewrite map_ext; [| intro a; rewrite E; reflexivity].
  rewrite (split_by_assets assets (fun r => nth (m_var r) x 0 * m_factor r) (filter (sel n t) mp) Hnd).
  2:{ rewrite Forall_forall in *. intros r Hr. apply filter_In in Hr. apply Hin. tauto. }
  rewrite <- sdot_nodal_row.
  destruct (nodal_row mp n t) as [|e row] eqn:Er; [reflexivity|].
  rewrite Forall_forall in Hrows.
  specialize (Hrows {| r_a := e :: row; r_t := RN; r_b := 0 |}). unfold row_ok in Hrows. simpl in Hrows.
  apply Hrows. unfold nodal_crows.
  apply in_map_iff. exists (t, n, e :: row). split; [reflexivity|].
  unfold nodal_rows. apply in_flat_map. exists n. split; auto. rewrite Hskip.
  apply in_flat_map. exists t. split; auto. rewrite Er. left. reflexivity.
Qed.

(* residual form: a solver's x satisfies the nodal rows only up to eps; then the
   reported dispatch balances up to the same eps (the conclusion IS the row) *)
Theorem nodal_balance_eps (assets nodes skip : list string) (steps : list nat) (mp : list mrow) (x : vec) eps :
  NoDup assets ->
  Forall (fun r => In (m_asset r) assets) mp ->
  Forall (fun r => - eps <= sdot (r_a r) x /\ sdot (r_a r) x <= eps) (nodal_crows nodes skip steps mp) ->
  0 <= eps ->
  forall n t, In n nodes -> existsb (String.eqb n) skip = false -> In t steps ->
  - eps <= qsum (map (fun a => dispatch_out mp x a n t) assets) /\
  qsum (map (fun a => dispatch_out mp x a n t) assets) <= eps.
Proof.
  intros Hnd Hin Hrows Heps n t Hn Hskip Ht.
  unfold dispatch_out.
  assert (E: forall a, filter (fun r => String.eqb (m_asset r) a && sel n t r) mp
                      = filter (fun r => String.eqb (m_asset r) a) (filter (sel n t) mp)).
  { intro a. rewrite filter_filter. reflexivity. }
  erewrite map_ext; [| intro a; rewrite E; reflexivity].
  rewrite (split_by_assets assets (fun r => nth (m_var r) x 0 * m_factor r) (filter (sel n t) mp) Hnd).
  2:{ rewrite Forall_forall in *. intros r Hr. apply filter_In in Hr. apply Hin. tauto. }
  rewrite <- sdot_nodal_row.
  destruct (nodal_row mp n t) as [|e row] eqn:Er; [rewrite sdot_nil; lra|].
  rewrite Forall_forall in Hrows.
  specialize (Hrows {| r_a := e :: row; r_t := RN; r_b := 0 |}). simpl in Hrows.
  apply Hrows. unfold nodal_crows.
  apply in_map_iff. exists (t, n, e :: row). split; [reflexivity|].
  unfold nodal_rows. apply in_flat_map. exists n. split; auto. rewrite Hskip.
  apply in_flat_map. exists t. split; auto. rewrite Er. left. reflexivity.
Qed.

(* the (step, node) record per nodal row: portfolio.py:160 *)
Definition nodal_map (nodes skip : list string) (steps : list nat) (mp : list mrow) : list (nat * string) :=
  map fst (nodal_rows nodes skip steps mp).
