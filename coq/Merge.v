(* Merge.v — C13: periodic merge of variables (optimization.py:75-193) and minor-grid weights of coarse assets
   (assets.py:127-153), as relations between the merged problem and the fine problem with equalities. *)
From Coq Require Import QArith ZArith List Lia Lqa Bool String Arith.
From EAO Require Import Num LP Mapping Dcf Grid Assets Periodic.
Import ListNotations.
Open Scope Q_scope.

(* the fine point represented by a merged point: every variable takes the value of its leader *)
Definition expand (lead : list nat) (x' : vec) : vec :=
  map (fun v => nth (newpos lead (ld lead v)) x' 0) (seq 0 (List.length lead)).

Lemma expand_length lead x' : List.length (expand lead x') = List.length lead.
Proof. unfold expand. rewrite map_length, seq_length. reflexivity. Qed.
Lemma nth_map_seq (f : nat -> Q) n v : (v < n)%nat -> nth v (map f (seq 0 n)) 0 = f v.
Proof.
  intros H. rewrite (nth_indep _ 0 (f 0%nat)) by (rewrite map_length, seq_length; exact H).
  rewrite map_nth, seq_nth by exact H. reflexivity.
Qed.
Lemma expand_nth lead x' v : (v < List.length lead)%nat -> nth v (expand lead x') 0 = nth (newpos lead (ld lead v)) x' 0.
Proof. intros H. unfold expand. apply (nth_map_seq (fun v => nth (newpos lead (ld lead v)) x' 0)). exact H. Qed.

(* the expanded point satisfies the equalities: members of a group carry the same value *)
Theorem expand_equalities lead x' v w : (v < List.length lead)%nat -> (w < List.length lead)%nat ->
  ld lead v = ld lead w -> nth v (expand lead x') 0 = nth w (expand lead x') 0.
Proof. intros Hv Hw E. rewrite !expand_nth by assumption. rewrite E. reflexivity. Qed.

(* a merged row evaluates on the merged point as the fine row on the expanded point: "summed columns" *)
Theorem merge_row_sdot lead (r : srow) x' : srow_wf (List.length lead) r ->
  sdot (map (fun e => (newpos lead (ld lead (fst e)), snd e)) r) x' == sdot r (expand lead x').
Proof.
  intros H. unfold sdot. rewrite map_map. apply qsum_map_ext. intros [j a] Hin. cbn [fst snd].
  unfold srow_wf in H. rewrite Forall_forall in H. specialize (H _ Hin). cbn [fst] in H.
  rewrite expand_nth by exact H. reflexivity.
Qed.
Theorem merge_rows_ok lead (P : lp) x' : wf_lp P -> nvars P = List.length lead ->
  (Forall (row_ok x') (lp_rows (merge_lp lead P)) <-> Forall (row_ok (expand lead x')) (lp_rows P)).
Proof.
  intros (_ & _ & Hr) Hn. unfold merge_lp; cbn [lp_rows]. rewrite Forall_map. rewrite !Forall_forall.
  split; intros H r Hin; specialize (H r Hin); rewrite Forall_forall in Hr; specialize (Hr r Hin); rewrite Hn in Hr;
    unfold row_ok in *; cbn [r_t r_a r_b] in *; destruct (r_t r); rewrite ?merge_row_sdot in * by exact Hr; exact H.
Qed.

(* summing over groups of a key: every element is counted once, under its own key *)
Lemma qsum_group_by (key : nat -> nat) (f : nat -> Q) (keys L : list nat) :
  NoDup keys -> (forall w, In w L -> In (key w) keys) ->
  qsum (map (fun k => qsum (map f (filter (fun w => Nat.eqb (key w) k) L))) keys) == qsum (map f L).
Proof.
  intros Hnd. induction L as [|w L IH]; intros Hin.
  - cbn [filter map qsum]. apply qsum_zero. intros; reflexivity.
  - cbn [map qsum]. rewrite <- IH by (intros w' Hw'; apply Hin; right; exact Hw').
    assert (Hk : In (key w) keys) by (apply Hin; left; reflexivity).
    clear IH Hin. revert Hk. induction keys as [|k keys IHk]; intros Hk; [destruct Hk|].
    inversion Hnd as [|? ? Hni Hnd']; subst. cbn [map qsum filter].
    destruct (Nat.eqb_spec (key w) k) as [E|E].
    + cbn [map qsum].
      assert (R : qsum (map (fun k0 => qsum (map f (filter (fun w0 => Nat.eqb (key w0) k0) (w :: L)))) keys)
               == qsum (map (fun k0 => qsum (map f (filter (fun w0 => Nat.eqb (key w0) k0) L))) keys)).
      { apply qsum_map_ext. intros k0 Hk0. cbn [filter].
        destruct (Nat.eqb_spec (key w) k0) as [E2|_]; [|reflexivity]. subst. contradiction. }
      rewrite R. ring.
    + destruct Hk as [Hk|Hk]; [symmetry in Hk; contradiction|].
      rewrite (IHk Hnd' Hk). ring.
Qed.

Lemma kept_nodup lead : NoDup (kept lead).
Proof. unfold kept. apply NoDup_filter. apply seq_NoDup. Qed.

(* the leader map is idempotent and stays inside the variables: what lead_of produces (checked per instance) *)
Definition lead_ok (lead : list nat) : Prop :=
  forall v, (v < List.length lead)%nat -> (ld lead v < List.length lead)%nat /\ ld lead (ld lead v) = ld lead v.
Definition lead_okb (lead : list nat) : bool :=
  forallb (fun v => Nat.ltb (ld lead v) (List.length lead) && Nat.eqb (ld lead (ld lead v)) (ld lead v)) (seq 0 (List.length lead)).
Lemma lead_okb_sound lead : lead_okb lead = true -> lead_ok lead.
Proof.
  unfold lead_okb, lead_ok. rewrite forallb_forall. intros H v Hv. specialize (H v ltac:(apply in_seq; lia)).
  apply andb_prop in H. destruct H as [A B]. apply Nat.ltb_lt in A. apply Nat.eqb_eq in B. split; assumption.
Qed.

Lemma dot_as_sum' c x : List.length x = List.length c ->
  dot c x == qsum (map (fun i => nth i c 0 * nth i x 0) (seq 0 (List.length c))).
Proof. apply dot_as_sum. Qed.

Lemma qsum_seq_front' (F : nat -> Q) n : qsum (map F (seq 0 (S n))) == F 0%nat + qsum (map (fun k => F (S k)) (seq 0 n)).
Proof. cbn [seq map qsum]. rewrite <- seq_shift, map_map. reflexivity. Qed.
Lemma map_nth_seq (ks : list nat) : map (fun p => nth p ks 0%nat) (seq 0 (List.length ks)) = ks.
Proof.
  induction ks as [|k ks IH]; cbn [List.length seq map nth]; [reflexivity|]. f_equal.
  rewrite <- seq_shift, map_map. cbn [nth]. exact IH.
Qed.
Lemma qsum_map_scale' {A} (f : A -> Q) k l : qsum (map (fun a => f a * k) l) == qsum (map f l) * k.
Proof. induction l as [|a l IH]; cbn [map qsum]; [ring| rewrite IH; ring]. Qed.

(* "summed costs": the merged objective on the merged point equals the fine objective on the expanded point *)
Lemma filter_lt_prefix : forall (l : list nat) v, (forall i j, (i < j < List.length l)%nat -> (nth i l 0 < nth j l 0)%nat) ->
  forall k, (k < List.length l)%nat -> v = nth k l 0%nat -> List.length (filter (fun w => Nat.ltb w v) l) = k.
Proof.
  induction l as [|a l IH]; intros v Hs k Hk Hv; simpl in Hk; [lia|].
  destruct k as [|k]; cbn [nth] in Hv; subst v.
  - cbn [filter]. rewrite Nat.ltb_irrefl.
    assert (E : filter (fun w => Nat.ltb w a) l = []).
    { clear IH Hk. assert (G : forall j, (j < List.length l)%nat -> (a < nth j l 0)%nat).
      { intros j Hj. apply (Hs 0%nat (S j)). simpl. lia. }
      clear Hs. induction l as [|b l IHl]; cbn [filter]; [reflexivity|].
      assert (a < b)%nat by (apply (G 0%nat); simpl; lia).
      destruct (Nat.ltb_spec b a); [lia|]. apply IHl. intros j Hj. apply (G (S j)). simpl. lia. }
    rewrite E. reflexivity.
  - cbn [filter]. assert (a < nth k l 0)%nat by (apply (Hs 0%nat (S k)); simpl; lia).
    destruct (Nat.ltb_spec a (nth k l 0%nat)); [|lia]. cbn [List.length]. f_equal.
    apply (IH (nth k l 0%nat)); [|lia|reflexivity].
    intros i j Hij. apply (Hs (S i) (S j)). simpl. lia.
Qed.

Lemma kept_sorted lead : forall i j, (i < j < List.length (kept lead))%nat -> (nth i (kept lead) 0 < nth j (kept lead) 0)%nat.
Proof. unfold kept. apply filter_seq_sorted. Qed.

Theorem merge_value lead (P : lp) x' : nvars P = List.length lead -> lead_ok lead ->
  List.length x' = List.length (kept lead) ->
  value (merge_lp lead P) x' == value P (expand lead x').
Proof.
  intros Hn Hok Lx. unfold value. apply Qopp_comp.
  rewrite (dot_as_sum (lp_c P) (expand lead x')) by (rewrite expand_length; unfold nvars in Hn; lia).
  unfold nvars in Hn. rewrite Hn.
  (* right side: group the fine sum by leader *)
  rewrite <- (qsum_group_by (ld lead) (fun i => nth i (lp_c P) 0 * nth i (expand lead x') 0) (kept lead) (seq 0 (List.length lead))).
  2:{ apply kept_nodup. }
  2:{ intros w Hw. apply in_seq in Hw. unfold kept. apply filter_In. destruct (Hok w ltac:(lia)) as [A B].
      split; [apply in_seq; lia|]. apply Nat.eqb_eq. exact B. }
  (* left side: dot over the kept variables *)
  unfold merge_lp; cbn [lp_c].
  assert (G : forall (ks : list nat) (xs : vec) (off : nat), List.length xs = List.length ks ->
     dot (map (fun v => qsumx (pick 0 (lp_c P) (group lead v))) ks) xs ==
     qsum (map (fun k => qsumx (pick 0 (lp_c P) (group lead (nth k ks 0%nat))) * nth k xs 0) (seq 0 (List.length ks)))).
  { induction ks as [|k ks IHk]; intros xs off L; destruct xs as [|x0 xs]; simpl in L; try discriminate; [reflexivity|].
    cbn [map dot List.length]. rewrite qsum_seq_front'. cbn [nth]. rewrite (IHk xs off) by lia. reflexivity. }
  rewrite (G (kept lead) x' 0%nat Lx). clear G.
  (* re-index by position in kept *)
  assert (R : qsum (map (fun k => qsum (map (fun i => nth i (lp_c P) 0 * nth i (expand lead x') 0)
                 (filter (fun w => Nat.eqb (ld lead w) k) (seq 0 (List.length lead))))) (kept lead))
           == qsum (map (fun p => qsum (map (fun i => nth i (lp_c P) 0 * nth i (expand lead x') 0)
                 (filter (fun w => Nat.eqb (ld lead w) (nth p (kept lead) 0%nat)) (seq 0 (List.length lead))))) (seq 0 (List.length (kept lead))))).
  { clear. generalize (kept lead) as ks. intro ks.
    set (F := fun k => qsum (map (fun i => nth i (lp_c P) 0 * nth i (expand lead x') 0)
                 (filter (fun w => Nat.eqb (ld lead w) k) (seq 0 (List.length lead))))).
    transitivity (qsum (map F (map (fun p => nth p ks 0%nat) (seq 0 (List.length ks))))).
    - rewrite map_nth_seq. reflexivity.
    - rewrite map_map. reflexivity. }
  rewrite R. apply qsum_map_ext. intros p Hp. apply in_seq in Hp.
  rewrite qsumx_spec. unfold pick, group. rewrite <- qsum_map_scale'.
  apply qsum_map_ext. intros w Hw. apply filter_In in Hw. destruct Hw as [Hw1 Hw2]. apply in_seq in Hw1. apply Nat.eqb_eq in Hw2.
  rewrite expand_nth by lia. rewrite Hw2.
  assert (E : newpos lead (nth p (kept lead) 0%nat) = p).
  { unfold newpos. apply (filter_lt_prefix (kept lead) _ (kept_sorted lead) p); [lia|reflexivity]. }
  rewrite E. ring.
Qed.

(* "averaged bounds": the limits of a merged variable are the means of the limits of its group *)
Theorem merged_bounds_are_means lead (P : lp) k : (k < List.length (kept lead))%nat ->
  nth k (lp_l (merge_lp lead P)) 0 = mean (pick 0 (lp_l P) (group lead (nth k (kept lead) 0%nat))) /\
  nth k (lp_u (merge_lp lead P)) 0 = mean (pick 0 (lp_u P) (group lead (nth k (kept lead) 0%nat))) /\
  nth k (lp_c (merge_lp lead P)) 0 == qsum (pick 0 (lp_c P) (group lead (nth k (kept lead) 0%nat))).
Proof.
  intros Hk. unfold merge_lp; cbn [lp_l lp_u lp_c].
  rewrite !(nth_map_in _ (kept lead) k 0 0%nat Hk). split; [reflexivity|]. split; [reflexivity|apply qsumx_spec].
Qed.

(* ---------- coarse assets: one variable per coarse step, mapped to every minor step with weight dt_minor / dt_major ---------- *)
Lemma extend_minor_row gdt rg r groups im :
  rg_minor rg = Some groups -> index_of (m_step r) (rg_I rg) = Some im ->
  extend_minor gdt rg [r] =
  Some (map (fun t => Build_mrow (m_var r) (m_asset r) (m_node r) (m_type r) t
                        (Qred (nth t gdt 0 / nth im (rg_dt rg) 0 * m_factor r)) (m_name r) (m_bool r)) (nth im groups [])).
Proof. intros Hm Hi. unfold extend_minor. rewrite Hm. cbn [fold_right]. rewrite Hi. rewrite app_nil_r. reflexivity. Qed.

(* the volume of the coarse step is distributed without loss, at a constant rate *)
Theorem minor_weights (gdt : vec) (grp : list nat) (dtM f : Q) :
  ~ dtM == 0 -> dtM == qsum (pick 0 gdt grp) ->
  qsum (map (fun t => nth t gdt 0 / dtM * f) grp) == f /\
  (forall t, ~ nth t gdt 0 == 0 -> (nth t gdt 0 / dtM * f) / nth t gdt 0 == f / dtM).
Proof.
  intros Hnz Hsum. split.
  - assert (E : qsum (map (fun t => nth t gdt 0 / dtM * f) grp) == (f / dtM) * qsum (pick 0 gdt grp)).
    { unfold pick. rewrite <- qsum_map_scale. apply qsum_map_ext. intros t _. field. exact Hnz. }
    rewrite E, <- Hsum. field. exact Hnz.
  - intros t Ht. field. split; assumption.
Qed.
