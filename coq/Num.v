(* Num.v — rational vectors, sums, sparse rows.  Executable definitions normalise with
   Qred so that evaluation inside Coq (vm_compute) stays fast; every definition has a
   characterising lemma (== the plain mathematical expression) and later proofs use
   only those. *)
From Coq Require Import QArith Qminmax Qabs List Lia Lqa Bool ZArith.
Import ListNotations.
Open Scope Q_scope.

Definition vec := list Q.

(* plain sum (specification) *)
Fixpoint qsum (l : list Q) : Q := match l with [] => 0 | a :: l' => a + qsum l' end.

(* executable, reducing sum *)
Fixpoint qsumr (acc : Q) (l : list Q) : Q :=
  match l with [] => acc | a :: l' => qsumr (Qred (acc + a)) l' end.
Definition qsumx (l : list Q) : Q := qsumr 0 l.

Lemma qsumr_spec : forall l acc, qsumr acc l == acc + qsum l.
Proof.
  induction l as [|a l IH]; intros acc; cbn [qsumr qsum]; [ring|].
  rewrite IH, Qred_correct. ring.
Qed.
Lemma qsumx_spec l : qsumx l == qsum l.
Proof. unfold qsumx. rewrite qsumr_spec. ring. Qed.

Lemma qsum_app l1 l2 : qsum (l1 ++ l2) == qsum l1 + qsum l2.
Proof. induction l1 as [|a l1 IH]; simpl; [ring| rewrite IH; ring]. Qed.

Lemma qsum_map_ext {A} (f g : A -> Q) l :
  (forall a, In a l -> f a == g a) -> qsum (map f l) == qsum (map g l).
Proof.
  induction l as [|a l IH]; intros H; simpl; [reflexivity|].
  rewrite (H a) by (left; reflexivity). rewrite IH; [reflexivity|].
  intros b Hb. apply H. right. exact Hb.
Qed.

Lemma qsum_map_scale {A} (f : A -> Q) k l : qsum (map (fun a => k * f a) l) == k * qsum (map f l).
Proof. induction l as [|a l IH]; simpl; [ring| rewrite IH; ring]. Qed.

Lemma qsum_map_add {A} (f g : A -> Q) l :
  qsum (map (fun a => f a + g a) l) == qsum (map f l) + qsum (map g l).
Proof. induction l as [|a l IH]; simpl; [ring| rewrite IH; ring]. Qed.

Lemma qsum_zero {A} (f : A -> Q) l : (forall a, In a l -> f a == 0) -> qsum (map f l) == 0.
Proof.
  induction l as [|a l IH]; intros H; simpl; [reflexivity|].
  rewrite (H a) by (left; reflexivity). rewrite IH; [ring|]. intros b Hb; apply H; right; exact Hb.
Qed.

Lemma qsum_nonneg l : Forall (fun a => 0 <= a) l -> 0 <= qsum l.
Proof. induction 1; simpl; lra. Qed.

(* dense dot product *)
Fixpoint dot (a x : vec) : Q :=
  match a, x with a0 :: a', x0 :: x' => a0 * x0 + dot a' x' | _, _ => 0 end.
Fixpoint dotr (acc : Q) (a x : vec) : Q :=
  match a, x with a0 :: a', x0 :: x' => dotr (Qred (acc + a0 * x0)) a' x' | _, _ => acc end.
Definition dotx (a x : vec) : Q := dotr 0 a x.
Lemma dotr_spec : forall a x acc, dotr acc a x == acc + dot a x.
Proof.
  induction a as [|a0 a IH]; intros [|x0 x] acc; cbn [dotr dot]; try ring.
  rewrite IH, Qred_correct. ring.
Qed.
Lemma dotx_spec a x : dotx a x == dot a x.
Proof. unfold dotx. rewrite dotr_spec. ring. Qed.

Lemma dot_nil_r a : dot a [] == 0.
Proof. destruct a; reflexivity. Qed.

Lemma dot_app a1 a2 x1 x2 : length a1 = length x1 ->
  dot (a1 ++ a2) (x1 ++ x2) == dot a1 x1 + dot a2 x2.
Proof.
  revert x1. induction a1 as [|a a1 IH]; intros [|x x1] H; simpl in *; try discriminate; [ring|].
  rewrite IH by lia. ring.
Qed.

(* sparse rows: list of (column, coefficient); duplicated columns add (scipy COO semantics) *)
Definition srow := list (nat * Q).
Definition sdot (r : srow) (x : vec) : Q := qsum (map (fun e => snd e * nth (fst e) x 0) r).
Definition sdotx (r : srow) (x : vec) : Q := qsumx (map (fun e => snd e * nth (fst e) x 0) r).
Lemma sdotx_spec r x : sdotx r x == sdot r x.
Proof. apply qsumx_spec. Qed.

Lemma sdot_app r1 r2 x : sdot (r1 ++ r2) x == sdot r1 x + sdot r2 x.
Proof. unfold sdot. rewrite map_app, qsum_app. reflexivity. Qed.
Lemma sdot_cons j a r x : sdot ((j, a) :: r) x == a * nth j x 0 + sdot r x.
Proof. reflexivity. Qed.
Lemma sdot_nil x : sdot [] x == 0.
Proof. reflexivity. Qed.

Definition srow_wf (n : nat) (r : srow) : Prop := Forall (fun e => (fst e < n)%nat) r.
Definition srow_wfb (n : nat) (r : srow) : bool := forallb (fun e => Nat.ltb (fst e) n) r.
Lemma srow_wfb_spec n r : srow_wfb n r = true <-> srow_wf n r.
Proof.
  unfold srow_wfb, srow_wf. rewrite forallb_forall, Forall_forall.
  split; intros H e He; specialize (H e He); apply Nat.ltb_lt; exact H.
Qed.

(* shift all columns of a sparse row by an offset (embedding an asset's row in a portfolio) *)
Definition sshift (off : nat) (r : srow) : srow := map (fun e => (off + fst e, snd e)%nat) r.
Lemma nth_app_shift {A} (l1 l2 : list A) j d : nth (length l1 + j) (l1 ++ l2) d = nth j l2 d.
Proof. rewrite app_nth2 by lia. f_equal. lia. Qed.
Lemma sdot_sshift r x1 x2 : sdot (sshift (length x1) r) (x1 ++ x2) == sdot r x2.
Proof.
  unfold sdot, sshift. rewrite map_map. apply qsum_map_ext. intros [j a] _. simpl.
  rewrite nth_app_shift. reflexivity.
Qed.
Lemma sdot_app_l r x1 x2 : srow_wf (length x1) r -> sdot r (x1 ++ x2) == sdot r x1.
Proof.
  unfold sdot, srow_wf. intros H. apply qsum_map_ext. intros [j a] Hin. simpl.
  rewrite Forall_forall in H. specialize (H _ Hin). simpl in H.
  rewrite app_nth1 by exact H. reflexivity.
Qed.

(* scale a sparse row *)
Definition sscale (k : Q) (r : srow) : srow := map (fun e => (fst e, k * snd e)) r.
Lemma sdot_sscale k r x : sdot (sscale k r) x == k * sdot r x.
Proof.
  unfold sdot, sscale. rewrite map_map. simpl.
  rewrite <- qsum_map_scale. apply qsum_map_ext. intros [j a] _. simpl. ring.
Qed.

(* closeness used only by the correspondence check (never by theorems) *)
Definition qclose (tol a b : Q) : bool :=
  Qle_bool (Qabs (a - b)) (tol * (1 + Qabs a + Qabs b)).
Fixpoint vclose (tol : Q) (a b : vec) : bool :=
  match a, b with
  | [], [] => true
  | a0 :: a', b0 :: b' => qclose tol a0 b0 && vclose tol a' b'
  | _, _ => false
  end.

(* cumulative sums *)
Fixpoint cumsum_from (acc : Q) (l : vec) : vec :=
  match l with [] => [] | a :: l' => let s := Qred (acc + a) in s :: cumsum_from s l' end.
Definition cumsum (l : vec) : vec := cumsum_from 0 l.
Lemma cumsum_from_length l : forall acc, length (cumsum_from acc l) = length l.
Proof. induction l; intros; simpl; auto. Qed.
Lemma cumsum_from_nth : forall l acc i, (i < length l)%nat ->
  nth i (cumsum_from acc l) 0 == acc + qsum (firstn (S i) l).
Proof.
  induction l as [|a l IH]; intros acc i Hi; simpl in Hi; [lia|].
  destruct i as [|i]; cbn [cumsum_from nth firstn qsum].
  - rewrite Qred_correct. destruct l; cbn [firstn qsum]; ring.
  - rewrite IH by lia. rewrite Qred_correct. cbn [firstn qsum]. ring.
Qed.

Definition vscale (k : Q) (a : vec) : vec := map (fun v => k * v) a.
Lemma dot_vscale : forall k a x, dot (vscale k a) x == k * dot a x.
Proof.
  induction a as [|a0 a IH]; intros x; destruct x as [|x0 x]; simpl; try ring.
  rewrite IH. ring.
Qed.
Lemma dot_vscale_r : forall k a x, dot a (vscale k x) == k * dot a x.
Proof.
  induction a as [|a0 a IH]; intros x; destruct x as [|x0 x]; simpl; try ring.
  rewrite IH. ring.
Qed.

Lemma nth_repeat_q (v : Q) n j : (j < n)%nat -> nth j (repeat v n) 0 = v.
Proof. revert j. induction n as [|n IH]; intros [|j] H; cbn [repeat nth]; try lia; auto. apply IH. lia. Qed.
