(* OrderBook.v — C20: what the order book problem (assets.py:2743-2788) means. *)
From Coq Require Import QArith ZArith List Lia Lqa Bool String Arith DecimalString.
From EAO Require Import Num LP Mapping Grid Assets.
Import ListNotations.
Open Scope Q_scope.

Definition ob_sel (rg : rgrid) (o : order) : list nat :=
  filter (fun k => in_window (o_start o) (o_end o) (nth k (rg_tp rg) 0%Z)) (seq 0 (rg_T rg)).

Lemma orderbook_c name node fe rg orders :
  lp_c (ap_lp (orderbook name node fe rg orders)) =
  map (fun o => Qred (o_capa o * qsumx (map (fun k => nth k (rg_dt rg) 0 * nth k (rg_disc rg) 0) (ob_sel rg o)) * o_price o)) orders.
Proof. reflexivity. Qed.


(* every order is executed at a fraction between 0 and 1 *)
Theorem order_bounds name node fe rg orders x :
  feasible (ap_lp (orderbook name node fe rg orders)) x ->
  List.length x = List.length orders /\
  forall i, (i < List.length orders)%nat -> 0 <= nth i x 0 /\ nth i x 0 <= 1.
Proof.
  intros [Hb _]. unfold orderbook in Hb. cbn [ap_lp lp_l lp_u] in Hb.
  pose proof (in_box_length _ _ _ Hb) as [Hl _]. rewrite repeat_length in Hl. split; [lia|].
  intros i Hi. destruct (in_box_nth _ _ _ Hb i ltac:(lia)) as [A B].
  rewrite nth_repeat_q in A by exact Hi. rewrite nth_repeat_q in B by exact Hi. split; assumption.
Qed.

(* payment: fraction x capacity x price x covered duration, discounted per step *)
Theorem order_cost name node fe rg orders i :
  (i < List.length orders)%nat ->
  let o := nth i orders (Build_order 0 0 0 0) in
  nth i (lp_c (ap_lp (orderbook name node fe rg orders))) 0 ==
  o_capa o * o_price o * qsum (map (fun k => nth k (rg_dt rg) 0 * nth k (rg_disc rg) 0) (ob_sel rg o)).
Proof.
  intros Hi o. rewrite orderbook_c.
  rewrite (nth_map_in _ orders i 0 (Build_order 0 0 0 0) Hi). fold o.
  rewrite Qred_correct, qsumx_spec. ring.
Qed.

(* mapping rows of a list of (variable, order) pairs *)
Definition ob_rows (name node : string) (fe : bool) (rg : rgrid) (io : nat * order) : list mrow :=
  map (fun k => Build_mrow (fst io) name (Some node) "d" (nth k (rg_I rg) 0%nat)
                           (Qred (o_capa (snd io) * nth k (rg_dt rg) 0)) (NilEmpty.string_of_uint (Nat.to_uint (fst io))) fe)
      (ob_sel rg (snd io)).
Lemma orderbook_map name node fe rg orders :
  ap_map (orderbook name node fe rg orders) = flat_map (ob_rows name node fe rg) (combine (seq 0 (List.length orders)) orders).
Proof. reflexivity. Qed.

(* every row: dispatch at the book's node, carrying the full-execution flag *)
Theorem full_exec_flag name node fe rg orders :
  Forall (fun r => m_bool r = fe /\ m_asset r = name /\ m_node r = Some node /\ is_d r = true /\ (m_var r < List.length orders)%nat)
         (ap_map (orderbook name node fe rg orders)).
Proof.
  rewrite orderbook_map. apply Forall_forall. intros r Hr. apply in_flat_map in Hr. destruct Hr as ([i o] & Hio & Hr).
  unfold ob_rows in Hr. apply in_map_iff in Hr. destruct Hr as (k & <- & _). cbn.
  repeat split. apply in_combine_l in Hio. apply in_seq in Hio. lia.
Qed.

Lemma filter_flat_map {A B} (F : B -> bool) (h : A -> list B) l :
  filter F (flat_map h l) = flat_map (fun e => filter F (h e)) l.
Proof. induction l as [|a l IH]; cbn [flat_map]; [reflexivity|]. rewrite filter_app, IH. reflexivity. Qed.
Lemma qsum_flat_map {A B} (gq : B -> Q) (h : A -> list B) l :
  qsum (map gq (flat_map h l)) == qsum (map (fun e => qsum (map gq (h e))) l).
Proof. induction l as [|a l IH]; cbn [flat_map map qsum]; [reflexivity|]. rewrite map_app, qsum_app, IH. reflexivity. Qed.
Lemma filter_map_comm {A B} (F : B -> bool) (mk : A -> B) l : filter F (map mk l) = map mk (filter (fun a => F (mk a)) l).
Proof. induction l as [|a l IH]; cbn [map filter]; [reflexivity|]. destruct (F (mk a)); cbn [map]; rewrite IH; reflexivity. Qed.

(* delivery: at every step the book delivers  sum over orders covering the step of  fraction x capacity x step length *)
Theorem order_delivery name node fe rg orders x t :
  dispatch_out (ap_map (orderbook name node fe rg orders)) x name node t ==
  qsum (map (fun io => nth (fst io) x 0 *
                       qsum (map (fun k => o_capa (snd io) * nth k (rg_dt rg) 0)
                                 (filter (fun k => Nat.eqb (nth k (rg_I rg) 0%nat) t) (ob_sel rg (snd io)))))
            (combine (seq 0 (List.length orders)) orders)).
Proof.
  unfold dispatch_out. rewrite orderbook_map, filter_flat_map, qsum_flat_map.
  apply qsum_map_ext. intros [i o] _. cbn [fst snd]. unfold ob_rows. cbn [fst snd].
  rewrite filter_map_comm, map_map. cbn [m_var m_factor].
  assert (E : forall k, (String.eqb name name && sel node t
      (Build_mrow i name (Some node) "d" (nth k (rg_I rg) 0%nat) (Qred (o_capa o * nth k (rg_dt rg) 0))
                  (NilEmpty.string_of_uint (Nat.to_uint i)) fe)) = Nat.eqb (nth k (rg_I rg) 0%nat) t).
  { intro k. rewrite String.eqb_refl. unfold sel, is_d, at_node. cbn [m_type m_node m_step].
    rewrite !String.eqb_refl. cbn [andb]. reflexivity. }
  erewrite filter_ext by (intro k; cbn [m_asset]; apply E).
  rewrite <- qsum_map_scale. apply qsum_map_ext. intros k _. rewrite Qred_correct. ring.
Qed.
