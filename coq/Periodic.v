(* Periodic.v — OptimProblem.__make_periodic__ (optimization.py:75-193): variables at the same
   position of every period within a duration are joined into one variable. *)
From Coq Require Import QArith ZArith List Lia Bool String Arith.
From EAO Require Import Num LP Mapping Dcf Grid Assets.
Import ListNotations.
Open Scope Q_scope.

(* "gave a bit space ... deleting now superfluous (early) start"  optimization.py:106-107 *)
Definition drop_early (tp0 : Z) (l : list Z) : list Z :=
  match l with a :: ((b :: _) as r) => if (b <=? tp0)%Z then r else l | _ => l end.

(* optimization.py:116-143: duration number and position within the period for every step *)
Fixpoint labels (tp periods durations : list Z) (i_dur i_per i_sub cur_dur : nat) : option (list (nat * nat)) :=
  match tp with
  | [] => Some []
  | p :: tp' =>
    match nth_error durations i_dur with
    | None => None
    | Some d =>
      let i_dur' := if (d <=? p)%Z then S i_dur else i_dur in
      let cur' := if (d <=? p)%Z then S i_dur else cur_dur in
      match nth_error periods i_per with
      | None => None
      | Some q =>
        let i_per' := if (q <=? p)%Z then S i_per else i_per in
        let i_sub' := if (q <=? p)%Z then 0%nat else i_sub in
        option_map (cons (cur', i_sub')) (labels tp' periods durations i_dur' i_per' (S i_sub') cur')
      end
    end
  end.

Definition all_equal (l : list Z) : bool := match l with [] => true | a :: r => forallb (Z.eqb a) r end.

Definition lab_of (lab : list (nat * nat)) (r : mrow) : nat * nat := nth (m_step r) lab (0%nat, 0%nat).
Definition pkey_eqb (lab : list (nat * nat)) (r1 r2 : mrow) : bool :=
  String.eqb (m_asset r1) (m_asset r2) &&
  match m_node r1, m_node r2 with Some a, Some b => String.eqb a b | _, _ => false end &&
  String.eqb (m_type r1) (m_type r2) && String.eqb (m_name r1) (m_name r2) &&
  Nat.eqb (fst (lab_of lab r1)) (fst (lab_of lab r2)) && Nat.eqb (snd (lab_of lab r1)) (snd (lab_of lab r2)).

(* leader of every variable: the first variable (in mapping order, first rows only) with the same key *)
Definition lead_of (n : nat) (lab : list (nat * nat)) (mp : list mrow) : list nat :=
  let fr := firsts [] mp in
  map (fun v => match find (fun r => Nat.eqb (m_var r) v) fr with
                | Some r => match find (fun r' => pkey_eqb lab r' r) fr with Some r' => m_var r' | None => v end
                | None => v end) (seq 0 n).

(* ---- generic merge of variables along a leader map ---- *)
Definition ld (lead : list nat) (v : nat) : nat := nth v lead v.
Definition kept (lead : list nat) : list nat := filter (fun v => Nat.eqb (ld lead v) v) (seq 0 (List.length lead)).
Definition newpos (lead : list nat) (v : nat) : nat := List.length (filter (fun w => Nat.ltb w v) (kept lead)).
Definition group (lead : list nat) (v : nat) : list nat := filter (fun w => Nat.eqb (ld lead w) v) (seq 0 (List.length lead)).
Definition merge_lp (lead : list nat) (P : lp) : lp :=
  {| lp_c := map (fun v => qsumx (pick 0 (lp_c P) (group lead v))) (kept lead);
     lp_l := map (fun v => mean (pick 0 (lp_l P) (group lead v))) (kept lead);
     lp_u := map (fun v => mean (pick 0 (lp_u P) (group lead v))) (kept lead);
     lp_rows := map (fun r => {| r_a := map (fun e => (newpos lead (ld lead (fst e)), snd e)) (r_a r);
                                 r_t := r_t r; r_b := r_b r |}) (lp_rows P) |}.
Definition merge_map (lead : list nat) (mp : list mrow) : list mrow :=
  map (fun r => Build_mrow (newpos lead (ld lead (m_var r))) (m_asset r) (m_node r) (m_type r) (m_step r)
                           (m_factor r) (m_name r) (m_bool r)) mp.

(* 'periodicity cannot be imposed where disp factors are not identical' (optimization.py:181) *)
Definition factors_ok (lab : list (nat * nat)) (mp : list mrow) : bool :=
  let fr := firsts [] mp in
  forallb (fun r => forallb (fun r' => negb (pkey_eqb lab r' r) || Qeq_bool (m_factor r') (m_factor r)) fr) fr.

Definition apply_periodic (g : grid) (per : option (list Z * list Z)) (a : aprob) : option aprob :=
  match per with
  | None => Some a
  | Some (periods, durations) =>
      let tp := g_tp g in
      let periods' := drop_early (hd 0%Z tp) periods in
      let durations' := drop_early (hd 0%Z tp) durations in
      if negb (all_equal (diffs periods')) then None else
      match labels tp periods' durations' 0 0 0 0 with
      | None => None
      | Some lab =>
          if negb (factors_ok lab (ap_map a)) then None else
          let lead := lead_of (nvars (ap_lp a)) lab (ap_map a) in
          Some {| ap_lp := merge_lp lead (ap_lp a); ap_map := merge_map lead (ap_map a) |}
      end
  end.
