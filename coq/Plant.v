(* Plant.v — CHPAsset / Plant (assets.py:1372-2021): unit commitment with on, start and shutdown binaries, capacity,
   start / shutdown ramp profiles (for the virtual dispatch; profiles given in the frequency of the grid), ramp, start and
   shutdown definition, minimum run time and down time, heat share, fuel mapping.
   Durations are handed over in grid steps (the harness applies the documented rounding up); not modelled: separate heat
   profiles, profiles in another frequency than the grid's (interpolation). *)
From Coq Require Import QArith ZArith List Lia Bool String Arith.
From EAO Require Import Num LP Mapping Grid Assets Periodic Build.
Import ListNotations.
Open Scope Q_scope.

Record plant_p := {
  pl_heat : option string; pl_fuel : option string;
  pl_ramp : option Q; pl_last : Q;
  pl_start_costs : param; pl_running : param;
  pl_R : nat; pl_tar : nat; pl_D : nat; pl_toff : nat;
  pl_mincap_nonzero : bool;                (* np.any(self.min_cap != 0.) *)
  pl_cf : param; pl_share : option param;
  pl_start_fuel : param; pl_eff : param; pl_cons : param;
  (* start / shutdown ramp profiles (lower, upper bounds per step after the start / before turning off), and the nominal
     step length in main time units they are multiplied with *)
  pl_sr_lo : vec; pl_sr_hi : vec; pl_sd_lo : vec; pl_sd_hi : vec; pl_conv : Q }.

Definition any_b_zero (v : vec) : bool := existsb (fun a => Qeq_bool a 0) v.
Definition any_nz (v : vec) : bool := existsb (fun a => negb (Qeq_bool a 0)) v.
Definition qnth (v : vec) (i : nat) : Q := nth i v 0.
Definition bool_mrows (name vn : string) (off : nat) (I : list nat) : list mrow :=
  map (fun p => Build_mrow (off + fst p) name None "i" (snd p) 1 vn true) (combine (seq 0 (List.length I)) I).


(* the unit-commitment rows as stand-alone definitions (PlantRows.v proves what they mean) *)
Definition pl_rows_start (on_idx start_idx T tar : nat) : list crow :=
  map (fun i => {| r_a := [((on_idx + i + 1)%nat, 1); ((on_idx + i)%nat, -1); ((start_idx + i + 1)%nat, -1)]; r_t := RU; r_b := 0 |}) (seq 0 (T - 1)%nat) ++
  (if Nat.eqb tar 0 then [ {| r_a := [(on_idx, 1); (start_idx, -1)]; r_t := RS; r_b := 0 |} ] else []).
Definition pl_rows_rt (on_idx start_idx T R : nat) : list crow :=
  flat_map (fun t => flat_map (fun i => if Nat.leb i t then [ {| r_a := [((on_idx + t)%nat, 1); ((start_idx + t - i)%nat, -1)]; r_t := RL; r_b := 0 |} ] else [])
                              (seq 1 (R - 1)%nat)) (seq 0 T).
Definition pl_rows_dt (on_idx T D toff : nat) : list crow :=
  flat_map (fun t => flat_map (fun i => if Nat.leb i t then
       [ {| r_a := [((on_idx + t)%nat, 1); ((on_idx + t - i)%nat, -1)] ++ (if Nat.ltb i t then [((on_idx + t - i - 1)%nat, 1)] else []);
            r_t := RU; r_b := if negb (Nat.ltb i t) && Nat.eqb toff 0 then 0 else 1 |} ] else [])
                              (seq 1 (D - 1)%nat)) (seq 0 T).

(* start and shutdown flags defined together (assets.py:1885-1925) *)
Definition pl_rows_startshut (on_idx start_idx shut_idx T tar : nat) : list crow :=
  map (fun t => {| r_a := [((on_idx + t + 1)%nat, 1); ((on_idx + t)%nat, -1); ((start_idx + t + 1)%nat, -1); ((shut_idx + t + 1)%nat, 1)]; r_t := RS; r_b := 0 |}) (seq 0 (T - 1)%nat) ++
  (if Nat.eqb tar 0 then [ {| r_a := [(on_idx, 1); (start_idx, -1)]; r_t := RS; r_b := 0 |} ]
   else [ {| r_a := [(on_idx, 1); (shut_idx, 1)]; r_t := RS; r_b := 1 |} ]) ++
  map (fun t => {| r_a := [((start_idx + t)%nat, 1); ((shut_idx + t)%nat, 1)]; r_t := RU; r_b := 1 |}) (seq 0 T).
(* profile terms of the capacity row of step i: (minimum or maximum capacity - profile value) on the start flag j steps back
   and on the shutdown flag j+1 steps ahead *)
Definition pl_profile_terms (start_idx shut_idx T i : nat) (cap : Q) (sr sd : vec) : srow :=
  flat_map (fun j => if Nat.leb j i then [((start_idx + i - j)%nat, Qred (cap - nth j sr 0))] else []) (seq 0 (List.length sr)) ++
  flat_map (fun j => if Nat.ltb (i + j + 1) T then [((shut_idx + i + j + 1)%nat, Qred (cap - nth j sd 0))] else []) (seq 0 (List.length sd)).

(* release terms of the ramp rows of step t: the shutdown flags of the next steps (lower row), the start flags of the last steps (upper row) *)
Definition ramp_shut_terms (shut_idx T t Dn : nat) (coef : Q) : srow :=
  flat_map (fun i => if Nat.ltb (t + i) T then [((shut_idx + t + i)%nat, coef)] else []) (seq 0 Dn).
Definition ramp_start_terms (start_idx t S : nat) (coef : Q) : srow :=
  flat_map (fun i => if Nat.leb i t then [((start_idx + t - i)%nat, coef)] else []) (seq 0 S).

Definition plant (g : grid) (rg : rgrid) (cp : contract_p) (mx mn : list take) (p : plant_p) : option aprob :=
  obind (contract_core g rg cp mx mn) (fun base =>
  let P := ap_lp base in
  let T := rg_T rg in
  let n := nvars P in
  let I := rg_I rg in
  let dt0 := hd 0 (rg_dt rg) in
  let sc_o := mkvec rg (pl_start_costs p) (Some 0) false in
  let rc_o := mkvec rg (pl_running p) (Some 0) true in
  let cf_o := mkvec rg (pl_cf p) (Some 1) false in
  let sh_o := match pl_share p with Some s => option_map Some (mkvec rg s (Some 1) false) | None => Some None end in
  let sf_o := mkvec rg (pl_start_fuel p) (Some 0) false in
  let ef_o := mkvec rg (pl_eff p) (Some 1) false in
  let co_o := mkvec rg (pl_cons p) (Some 0) true in
  match sc_o, rc_o, cf_o, sh_o, sf_o, ef_o, co_o with
  | Some sc, Some rc, Some cf, Some sh, Some sf, Some ef, Some co =>
    if negb (Nat.eqb n T) then None else
    let has_heat := match pl_heat p with Some _ => true | None => false end in
    let has_fuel := match pl_fuel p with Some _ => true | None => false end in
    if has_heat && any_b_zero cf then None else
    if has_fuel && any_b_zero ef then None else
    let conv := pl_conv p in
    let sr_lo := map (fun v => Qred (v * conv)) (pl_sr_lo p) in let sr_hi := map (fun v => Qred (v * conv)) (pl_sr_hi p) in
    let sd_lo := map (fun v => Qred (v * conv)) (pl_sd_lo p) in let sd_hi := map (fun v => Qred (v * conv)) (pl_sd_hi p) in
    let S := List.length sr_lo in let Dn := List.length sd_lo in
    if negb (Nat.eqb (List.length sr_hi) S && Nat.eqb (List.length sd_hi) Dn) then None else
    let R := (pl_R p + S + Dn)%nat in
    let inc_shut := Nat.ltb 0 S || Nat.ltb 0 Dn in
    let inc_start0 := Nat.ltb 1 R || any_nz sc || inc_shut in
    let inc_on0 := inc_start0 || Nat.ltb 1 (pl_D p) || pl_mincap_nonzero p in
    let inc_start := if has_fuel then inc_start0 || any_nz sf else inc_start0 in
    let inc_on := if has_fuel then inc_on0 || inc_start || any_nz co else inc_on0 in
    let minc := lp_l P in let maxc := lp_u P in
    if negb (forallb ge0 minc && forallb ge0 maxc) then None else
    let heat_idx := n in
    let nd := if has_heat then (2 * n)%nat else n in
    let on_idx := nd in
    let start_idx := (nd + T)%nat in
    let inc_start := inc_on && inc_start in
    let shut_idx := (nd + T + T)%nat in
    if inc_shut && (match pl_ramp p with Some _ => true | None => false end) && Nat.ltb T Dn then None else
    (* costs *)
    let c0 := lp_c P in
    let c1 := if has_heat then c0 ++ vmul cf c0 else c0 in
    let c2 := if inc_on then c1 ++ rc else c1 in
    let c3 := if inc_start then c2 ++ sc else c2 in
    let c3 := if inc_shut then c3 ++ repeat 0 T else c3 in
    (* bounds *)
    let l0 := if inc_on then repeat 0 n else minc in
    let l1 := if has_heat then repeat 0 (2 * n) else l0 in
    let u1 := if has_heat then maxc ++ (match sh with Some s => vmul s maxc | None => map (fun pq => Qred (fst pq / snd pq)) (combine maxc cf) end) else maxc in
    let on_l := map (fun t => if (Nat.ltb 0 (pl_tar p)) && Nat.ltb t (R - pl_tar p)%nat && inc_start && Nat.ltb 1 R then 1 else 0) (seq 0 T) in
    let on_u := map (fun t => if Nat.ltb 1 (pl_D p) && (Nat.ltb 0 (pl_toff p)) && Nat.ltb t (pl_D p - pl_toff p)%nat then 0 else 1) (seq 0 T) in
    let l2 := if inc_on then l1 ++ on_l else l1 in
    let u2 := if inc_on then u1 ++ on_u else u1 in
    let l3 := if inc_start then l2 ++ repeat 0 T else l2 in
    let u3 := if inc_start then u2 ++ (if inc_shut && negb (Nat.eqb (pl_tar p) 0) then 0 :: repeat 1 (T - 1) else repeat 1 T) else u2 in
    let l3 := if inc_shut then l3 ++ repeat 0 T else l3 in
    let u3 := if inc_shut then u3 ++ (if Nat.eqb (pl_tar p) 0 then 0 :: repeat 1 (T - 1) else repeat 1 T) else u3 in
    (* virtual dispatch of step i as a sparse row with sign k *)
    let vrow (i : nat) (k : Q) (cfi : Q) : srow := (i, k) :: (if has_heat then [((heat_idx + i)%nat, Qred (k * cfi))] else []) in
    let I0 := hd 0%nat I in
    let onpos (i : nat) : nat := (on_idx + (nth i I 0%nat - I0))%nat in
    (* base rows, columns duplicated for heat *)
    let rows_base := map (fun r => {| r_a := r_a r ++ (if has_heat then map (fun e => ((heat_idx + fst e)%nat, Qred (qnth cf (fst e) * snd e))) (r_a r) else []);
                                       r_t := r_t r; r_b := r_b r |}) (lp_rows P) in
    let cap0 := if Nat.ltb 0 (pl_tar p) then (S - pl_tar p)%nat else 0%nat in
    let rows_lo := map (fun i => {| r_a := vrow i 1 (qnth cf i) ++ (if inc_on then [(onpos i, - qnth minc i)] else []) ++
                                            pl_profile_terms start_idx shut_idx T i (qnth minc i) sr_lo sd_lo; r_t := RL; r_b := 0 |}) (seq cap0 (n - cap0)) in
    let rows_up := map (fun i => {| r_a := vrow i 1 (qnth cf i) ++ (if inc_on then [(onpos i, - qnth maxc i)] else []) ++
                                            pl_profile_terms start_idx shut_idx T i (qnth maxc i) sr_hi sd_hi; r_t := RU;
                                     r_b := if inc_on then 0 else qnth maxc i |}) (seq cap0 (n - cap0)) in
    (* a unit that is still inside its start profile at the first step *)
    let rows_inprofile := if Nat.ltb 0 (pl_tar p) && Nat.ltb (pl_tar p) S then
        flat_map (fun i => [ {| r_a := vrow i 1 (qnth cf i); r_t := RU; r_b := nth (pl_tar p + i) sr_hi 0 |};
                             {| r_a := vrow i 1 (qnth cf i); r_t := RL; r_b := nth (pl_tar p + i) sr_lo 0 |} ]) (seq 0 (S - pl_tar p))
      else [] in
    let rows_ramp := match pl_ramp p with
      | None => []
      | Some rmp0 =>
        let rmp := Qred (rmp0 * dt0) in
        let last := Qred (pl_last p * dt0) in
        flat_map (fun t =>
           [ {| r_a := vrow t 1 (qnth cf t) ++ vrow (t - 1)%nat (-1) (qnth cf (t - 1)%nat) ++ (if inc_on then [((on_idx + t - 1)%nat, rmp)] else []) ++
                       ramp_shut_terms shut_idx T t Dn (Qred (qnth maxc (t - 1)%nat - rmp));
                r_t := RL; r_b := if inc_on then 0 else - rmp |};
             {| r_a := vrow t 1 (qnth cf t) ++ vrow (t - 1)%nat (-1) (qnth cf (t - 1)%nat) ++ (if inc_on then [((on_idx + t)%nat, - rmp)] else []) ++
                       ramp_start_terms start_idx t S (Qred (rmp - qnth maxc t));
                r_t := RU; r_b := if inc_on then 0 else rmp |} ]) (seq 1 (T - 1)%nat) ++
        [ {| r_a := vrow 0%nat 1 (qnth cf 0%nat) ++ map (fun i => ((shut_idx + i)%nat, Qred (last - rmp))) (seq 0 Dn);
             r_t := RL; r_b := if Nat.eqb (pl_tar p) 0 then last else Qred (last - rmp) |};
          {| r_a := vrow 0%nat 1 (qnth cf 0%nat) ++ (if inc_on then [(on_idx, - rmp)] else []); r_t := RU;
             r_b := if inc_on then (if Nat.ltb 0 (pl_tar p) && Nat.ltb (pl_tar p) S then Qred (last + qnth maxc 0%nat - rmp) else last) else Qred (last + rmp) |} ]
      end in
    let rows_start := if inc_start then (if inc_shut then pl_rows_startshut on_idx start_idx shut_idx T (pl_tar p)
                                          else pl_rows_start on_idx start_idx T (pl_tar p)) else [] in
    let rows_rt := if inc_start && Nat.ltb 1 R then pl_rows_rt on_idx start_idx T R else [] in
    let rows_dt := if Nat.ltb 1 (pl_D p) then pl_rows_dt on_idx T (pl_D p) (pl_toff p) else [] in
    let rows_heat := match has_heat, sh with
      | true, Some s => map (fun i => {| r_a := [((heat_idx + i)%nat, 1); (i, - qnth s i)]; r_t := RU; r_b := 0 |}) (seq 0 n)
      | _, _ => [] end in
    (* mapping *)
    let mp_power := ap_map base in
    let mp_heat := match pl_heat p with Some hn => map (fun r => Build_mrow (heat_idx + m_var r) (m_asset r) (Some hn) (m_type r) (m_step r) (m_factor r) (m_name r) (m_bool r)) mp_power | None => [] end in
    let mp_on := if inc_on then bool_mrows (cp_name cp) "bool_on" on_idx I else [] in
    let mp_start := if inc_start then bool_mrows (cp_name cp) "bool_start" start_idx I else [] in
    let mp_shut := if inc_shut then bool_mrows (cp_name cp) "bool_shutdown" shut_idx I else [] in
    let mp_fuel := match pl_fuel p with
      | None => []
      | Some fn =>
        map (fun r => Build_mrow (m_var r) (m_asset r) (Some fn) (m_type r) (m_step r) (Qred (-1 / qnth ef (m_var r))) (m_name r) (m_bool r)) mp_power ++
        map (fun r => Build_mrow (m_var r) (m_asset r) (Some fn) (m_type r) (m_step r) (Qred (- qnth cf (m_var r - heat_idx)%nat / qnth ef (m_var r - heat_idx)%nat)) (m_name r) (m_bool r)) mp_heat ++
        map (fun r => Build_mrow (m_var r) (m_asset r) (Some fn) "d" (m_step r) (- qnth co (m_var r - on_idx)%nat) (m_name r) (m_bool r)) mp_on ++
        map (fun r => Build_mrow (m_var r) (m_asset r) (Some fn) "d" (m_step r) (- qnth sf (m_var r - start_idx)%nat) (m_name r) (m_bool r)) mp_start
      end in
    Some {| ap_lp := Build_lp c3 l3 u3 (rows_base ++ rows_lo ++ rows_up ++ rows_inprofile ++ rows_ramp ++ rows_start ++ rows_rt ++ rows_dt ++ rows_heat);
            ap_map := mp_power ++ mp_heat ++ mp_on ++ mp_start ++ mp_shut ++ mp_fuel |}
  | _, _, _, _, _, _, _ => None
  end).

Definition build_plant (g : grid) (rg : option rgrid) (cp : contract_p) (mx mn : list take) (p : plant_p) : option aprob :=
  obind rg (fun rg => if Nat.eqb (rg_T rg) 0 then None else plant g rg cp mx mn p).
