(* PlantProfiles.v — C06: what the start / shutdown ramp profile terms of the capacity rows of Plant.v mean
   (assets.py:1700-1712): in a step that lies j steps after a flagged start (j+1 steps before a flagged shutdown) the
   virtual output is bounded by the j-th profile value instead of minimum / maximum capacity; without any flag in reach
   the ordinary capacity bounds apply. *)
From Coq Require Import QArith ZArith List Lia Lqa Bool String Arith.
From EAO Require Import Num LP Mapping Grid Assets Periodic Build Plant.
Import ListNotations.
Open Scope Q_scope.

Lemma sdot_flat_map_if (c : nat -> bool) (k : nat -> nat) (v : nat -> Q) l x :
  sdot (flat_map (fun j => if c j then [(k j, v j)] else []) l) x ==
  qsum (map (fun j => if c j then v j * nth (k j) x 0 else 0) l).
Proof.
  induction l as [|a l IH]; cbn [flat_map map qsum]; [reflexivity|].
  rewrite sdot_app, IH. destruct (c a); [rewrite sdot_cons, sdot_nil; ring|rewrite sdot_nil; ring].
Qed.

Lemma qsum_single (F : nat -> Q) n j0 : (j0 < n)%nat -> (forall j, (j < n)%nat -> j <> j0 -> F j == 0) ->
  qsum (map F (seq 0 n)) == F j0.
Proof.
  intros Hj H. assert (G : forall m s, (s <= j0 < s + m)%nat -> (forall j, (s <= j < s + m)%nat -> j <> j0 -> F j == 0) ->
                       qsum (map F (seq s m)) == F j0).
  { induction m as [|m IH]; intros s Hs Hz; [lia|]. cbn [seq map qsum].
    destruct (Nat.eq_dec s j0) as [->|Hne].
    - assert (Z : qsum (map F (seq (S j0) m)) == 0).
      { apply qsum_zero. intros j Hin. apply in_seq in Hin. apply Hz; lia. }
      rewrite Z. ring.
    - rewrite (Hz s) by lia. rewrite (IH (S s)); [ring|lia|]. intros j Hj2 Hn. apply Hz; lia. }
  apply (G n 0%nat); [lia|]. intros j Hj2 Hn. apply H; lia.
Qed.

(* the profile terms of the capacity row of step i, evaluated *)
Definition start_terms (start_idx i : nat) (cap : Q) (sr : vec) (x : vec) : Q :=
  qsum (map (fun j => if Nat.leb j i then Qred (cap - nth j sr 0) * nth (start_idx + i - j) x 0 else 0) (seq 0 (List.length sr))).
Definition shut_terms (shut_idx T i : nat) (cap : Q) (sd : vec) (x : vec) : Q :=
  qsum (map (fun j => if Nat.ltb (i + j + 1) T then Qred (cap - nth j sd 0) * nth (shut_idx + i + j + 1) x 0 else 0) (seq 0 (List.length sd))).

Lemma profile_terms_sdot start_idx shut_idx T i cap sr sd x :
  sdot (pl_profile_terms start_idx shut_idx T i cap sr sd) x == start_terms start_idx i cap sr x + shut_terms shut_idx T i cap sd x.
Proof.
  unfold pl_profile_terms, start_terms, shut_terms. rewrite sdot_app.
  rewrite (sdot_flat_map_if (fun j => Nat.leb j i) (fun j => (start_idx + i - j)%nat) (fun j => Qred (cap - nth j sr 0))).
  rewrite (sdot_flat_map_if (fun j => Nat.ltb (i + j + 1) T) (fun j => (shut_idx + i + j + 1)%nat) (fun j => Qred (cap - nth j sd 0))).
  reflexivity.
Qed.

(* no start flag within reach behind, no shutdown flag within reach ahead: the profile terms vanish *)
Lemma start_terms_none start_idx i cap sr x :
  (forall j, (j < List.length sr)%nat -> (j <= i)%nat -> nth (start_idx + i - j) x 0 == 0) -> start_terms start_idx i cap sr x == 0.
Proof.
  intros H. unfold start_terms. apply qsum_zero. intros j Hj. apply in_seq in Hj.
  destruct (Nat.leb_spec j i); [rewrite H by lia; ring|reflexivity].
Qed.
Lemma shut_terms_none shut_idx T i cap sd x :
  (forall j, (j < List.length sd)%nat -> (i + j + 1 < T)%nat -> nth (shut_idx + i + j + 1) x 0 == 0) -> shut_terms shut_idx T i cap sd x == 0.
Proof.
  intros H. unfold shut_terms. apply qsum_zero. intros j Hj. apply in_seq in Hj.
  destruct (Nat.ltb_spec (i + j + 1) T); [rewrite H by lia; ring|reflexivity].
Qed.
(* exactly one start flag within reach, j0 steps back *)
Lemma start_terms_one start_idx i cap sr x j0 :
  (j0 < List.length sr)%nat -> (j0 <= i)%nat -> nth (start_idx + i - j0) x 0 == 1 ->
  (forall j, (j < List.length sr)%nat -> (j <= i)%nat -> j <> j0 -> nth (start_idx + i - j) x 0 == 0) ->
  start_terms start_idx i cap sr x == cap - nth j0 sr 0.
Proof.
  intros H1 H2 H3 H4. unfold start_terms. rewrite (qsum_single _ _ j0 H1).
  - destruct (Nat.leb_spec j0 i); [|lia]. rewrite H3, Qred_correct. ring.
  - intros j Hj Hn. destruct (Nat.leb_spec j i); [rewrite H4 by lia; ring|reflexivity].
Qed.
Lemma shut_terms_one shut_idx T i cap sd x j0 :
  (j0 < List.length sd)%nat -> (i + j0 + 1 < T)%nat -> nth (shut_idx + i + j0 + 1) x 0 == 1 ->
  (forall j, (j < List.length sd)%nat -> (i + j + 1 < T)%nat -> j <> j0 -> nth (shut_idx + i + j + 1) x 0 == 0) ->
  shut_terms shut_idx T i cap sd x == cap - nth j0 sd 0.
Proof.
  intros H1 H2 H3 H4. unfold shut_terms. rewrite (qsum_single _ _ j0 H1).
  - destruct (Nat.ltb_spec (i + j0 + 1) T); [|lia]. rewrite H3, Qred_correct. ring.
  - intros j Hj Hn. destruct (Nat.ltb_spec (i + j + 1) T); [rewrite H4 by lia; ring|reflexivity].
Qed.

(* ---------- the capacity rows with profiles: v = virtual output of step i, on = its on flag ---------- *)
Section CapacityRow.
Variables (start_idx shut_idx T i : nat) (minc maxc : Q) (sr_lo sr_hi sd_lo sd_hi : vec) (x : vec) (v on : Q).
(* the two rows of step i as Plant.v emits them (row shapes: vrow evaluates to v, the on entry to - cap * on) *)
Hypothesis Hlo : 0 <= v - minc * on + sdot (pl_profile_terms start_idx shut_idx T i minc sr_lo sd_lo) x.
Hypothesis Hup : v - maxc * on + sdot (pl_profile_terms start_idx shut_idx T i maxc sr_hi sd_hi) x <= 0.
Hypothesis Lsr : List.length sr_hi = List.length sr_lo.
Hypothesis Lsd : List.length sd_hi = List.length sd_lo.
Let S := List.length sr_lo.
Let Dn := List.length sd_lo.
Let startflag (j : nat) : Q := nth (start_idx + i - j) x 0.
Let shutflag (j : nat) : Q := nth (shut_idx + i + j + 1) x 0.

(* no flag in reach: ordinary capacity bounds (zero output when off) *)
Theorem capacity_outside_profiles :
  (forall j, (j < S)%nat -> (j <= i)%nat -> startflag j == 0) ->
  (forall j, (j < Dn)%nat -> (i + j + 1 < T)%nat -> shutflag j == 0) ->
  minc * on <= v /\ v <= maxc * on.
Proof.
  intros Hs Hd. rewrite profile_terms_sdot in Hlo, Hup.
  rewrite start_terms_none, shut_terms_none in Hlo by (unfold S, Dn in *; auto).
  rewrite start_terms_none, shut_terms_none in Hup by (rewrite ?Lsr, ?Lsd; unfold S, Dn in *; auto).
  split; lra.
Qed.

(* the unit is on and was started j0 steps ago (no other flag in reach): the j0-th start profile values bound the output *)
Theorem start_profile_bounds j0 :
  on == 1 -> (j0 < S)%nat -> (j0 <= i)%nat -> startflag j0 == 1 ->
  (forall j, (j < S)%nat -> (j <= i)%nat -> j <> j0 -> startflag j == 0) ->
  (forall j, (j < Dn)%nat -> (i + j + 1 < T)%nat -> shutflag j == 0) ->
  nth j0 sr_lo 0 <= v /\ v <= nth j0 sr_hi 0.
Proof.
  intros Hon H1 H2 H3 H4 Hd. rewrite profile_terms_sdot in Hlo, Hup.
  rewrite (start_terms_one _ _ _ _ _ j0), shut_terms_none in Hlo by (unfold S, Dn in *; auto).
  rewrite (start_terms_one _ _ _ _ _ j0), shut_terms_none in Hup by (rewrite ?Lsr, ?Lsd; unfold S, Dn in *; auto).
  rewrite Hon in Hlo, Hup. split; lra.
Qed.

(* the unit is on and turns off j0+1 steps later (no other flag in reach): the j0-th shutdown profile values bound the output *)
Theorem shutdown_profile_bounds j0 :
  on == 1 -> (j0 < Dn)%nat -> (i + j0 + 1 < T)%nat -> shutflag j0 == 1 ->
  (forall j, (j < Dn)%nat -> (i + j + 1 < T)%nat -> j <> j0 -> shutflag j == 0) ->
  (forall j, (j < S)%nat -> (j <= i)%nat -> startflag j == 0) ->
  nth j0 sd_lo 0 <= v /\ v <= nth j0 sd_hi 0.
Proof.
  intros Hon H1 H2 H3 H4 Hs. rewrite profile_terms_sdot in Hlo, Hup.
  rewrite start_terms_none, (shut_terms_one _ _ _ _ _ _ j0) in Hlo by (unfold S, Dn in *; auto).
  rewrite start_terms_none, (shut_terms_one _ _ _ _ _ _ j0) in Hup by (rewrite ?Lsr, ?Lsd; unfold S, Dn in *; auto).
  rewrite Hon in Hlo, Hup. split; lra.
Qed.
End CapacityRow.

(* ---------- start and shutdown flags defined together: with binary on-flags the two flags are exactly the transitions ---------- *)
Theorem startshut_flags_exact on_t on_prev st sh :
  on_t - on_prev - st + sh == 0 -> st + sh <= 1 -> 0 <= st -> 0 <= sh ->
  (on_t == 0 \/ on_t == 1) -> (on_prev == 0 \/ on_prev == 1) -> (st == 0 \/ st == 1) -> (sh == 0 \/ sh == 1) ->
  (st == 1 <-> (on_prev == 0 /\ on_t == 1)) /\ (sh == 1 <-> (on_prev == 1 /\ on_t == 0)).
Proof.
  intros E O S0 H0 [A|A] [B|B] [C|C] [D|D]; rewrite A, B, C, D in *; split; split; intros; try lra; try (destruct H; lra).
Qed.

(* row shape: the capacity row of step i of Plant.v evaluates to  v - cap * on + profile terms *)
Lemma cap_row_shape (vr : srow) (onp : nat) (cap : Q) (terms : srow) x :
  sdot (vr ++ [(onp, - cap)] ++ terms) x == sdot vr x - cap * nth onp x 0 + sdot terms x.
Proof. rewrite !sdot_app, sdot_cons, sdot_nil. ring. Qed.

(* ---------- ramp rows and their release during profiles (assets.py:1797-1827) ---------- *)
(* lower row of step t:   v_t - v_{t-1} + ramp*on_{t-1} + sum_{i < Dn, t+i < T} (maxc_{t-1} - ramp) * shut_{t+i}  >=  0
   upper row of step t:   v_t - v_{t-1} - ramp*on_t     + sum_{i < S,  i <= t}   (ramp - maxc_t)     * start_{t-i} <=  0 *)
Lemma ramp_shut_sdot shut_idx T t Dn coef x :
  sdot (ramp_shut_terms shut_idx T t Dn coef) x ==
  qsum (map (fun i => if Nat.ltb (t + i) T then coef * nth (shut_idx + t + i) x 0 else 0) (seq 0 Dn)).
Proof. unfold ramp_shut_terms. apply (sdot_flat_map_if (fun i => Nat.ltb (t + i) T) (fun i => (shut_idx + t + i)%nat) (fun _ => coef)). Qed.
Lemma ramp_start_sdot start_idx t S coef x :
  sdot (ramp_start_terms start_idx t S coef) x ==
  qsum (map (fun i => if Nat.leb i t then coef * nth (start_idx + t - i) x 0 else 0) (seq 0 S)).
Proof. unfold ramp_start_terms. apply (sdot_flat_map_if (fun i => Nat.leb i t) (fun i => (start_idx + t - i)%nat) (fun _ => coef)). Qed.

(* no shutdown flag within reach: the output falls by at most the ramp (and not at all below a unit that was off) *)
Theorem ramp_down_applies shut_idx T t Dn rmp maxc_prev x v_t v_prev on_prev :
  0 <= v_t - v_prev + rmp * on_prev + sdot (ramp_shut_terms shut_idx T t Dn (maxc_prev - rmp)) x ->
  (forall i, (i < Dn)%nat -> (t + i < T)%nat -> nth (shut_idx + t + i) x 0 == 0) ->
  v_prev - v_t <= rmp * on_prev.
Proof.
  intros H Hz. rewrite ramp_shut_sdot in H.
  assert (Z : qsum (map (fun i => if Nat.ltb (t + i) T then (maxc_prev - rmp) * nth (shut_idx + t + i) x 0 else 0) (seq 0 Dn)) == 0).
  { apply qsum_zero. intros i Hi. apply in_seq in Hi. destruct (Nat.ltb_spec (t + i) T); [rewrite Hz by lia; ring|reflexivity]. }
  rewrite Z in H. lra.
Qed.
(* a shutdown flag within reach (the unit is on its shutdown profile, or turns off in this step): the row only says that the output does not
   fall by more than the previous maximum capacity -- no restriction for outputs within [0, max capacity]: the profile takes precedence *)
Theorem ramp_down_released shut_idx T t Dn rmp maxc_prev x v_t v_prev on_prev i0 :
  (i0 < Dn)%nat -> (t + i0 < T)%nat -> nth (shut_idx + t + i0) x 0 == 1 ->
  (forall i, (i < Dn)%nat -> (t + i < T)%nat -> i <> i0 -> nth (shut_idx + t + i) x 0 == 0) ->
  on_prev == 1 -> 0 <= v_t -> v_prev <= maxc_prev ->
  0 <= v_t - v_prev + rmp * on_prev + sdot (ramp_shut_terms shut_idx T t Dn (maxc_prev - rmp)) x.
Proof.
  intros H1 H2 H3 H4 Hon Hv Hp. rewrite ramp_shut_sdot. rewrite (qsum_single _ _ i0 H1).
  - destruct (Nat.ltb_spec (t + i0) T); [|lia]. rewrite H3, Hon. lra.
  - intros i Hi Hn. destruct (Nat.ltb_spec (t + i) T); [rewrite H4 by lia; ring|reflexivity].
Qed.
(* no start flag within reach: the output rises by at most the ramp while on *)
Theorem ramp_up_applies start_idx t S rmp maxc_t x v_t v_prev on_t :
  v_t - v_prev - rmp * on_t + sdot (ramp_start_terms start_idx t S (rmp - maxc_t)) x <= 0 ->
  (forall i, (i < S)%nat -> (i <= t)%nat -> nth (start_idx + t - i) x 0 == 0) ->
  v_t - v_prev <= rmp * on_t.
Proof.
  intros H Hz. rewrite ramp_start_sdot in H.
  assert (Z : qsum (map (fun i => if Nat.leb i t then (rmp - maxc_t) * nth (start_idx + t - i) x 0 else 0) (seq 0 S)) == 0).
  { apply qsum_zero. intros i Hi. apply in_seq in Hi. destruct (Nat.leb_spec i t); [rewrite Hz by lia; ring|reflexivity]. }
  rewrite Z in H. lra.
Qed.
(* within a start profile the row is implied by 0 <= v_{t-1} and v_t <= max capacity *)
Theorem ramp_up_released start_idx t S rmp maxc_t x v_t v_prev on_t i0 :
  (i0 < S)%nat -> (i0 <= t)%nat -> nth (start_idx + t - i0) x 0 == 1 ->
  (forall i, (i < S)%nat -> (i <= t)%nat -> i <> i0 -> nth (start_idx + t - i) x 0 == 0) ->
  on_t == 1 -> 0 <= v_prev -> v_t <= maxc_t ->
  v_t - v_prev - rmp * on_t + sdot (ramp_start_terms start_idx t S (rmp - maxc_t)) x <= 0.
Proof.
  intros H1 H2 H3 H4 Hon Hp Hv. rewrite ramp_start_sdot. rewrite (qsum_single _ _ i0 H1).
  - destruct (Nat.leb_spec i0 t); [|lia]. rewrite H3, Hon. lra.
  - intros i Hi Hn. destruct (Nat.leb_spec i t); [rewrite H4 by lia; ring|reflexivity].
Qed.
