(* PlantProofs.v — C06: what the unit-commitment rows of Plant.v (assets.py:1610-2021) mean.
   on, st : nat -> Q are the values of the on / start variables per step; T steps; durations in steps.
   The rows are written as the inequalities Plant.v emits; the lemmas *_row_shape at the end tie them to the sparse rows. *)
From Coq Require Import QArith Qabs ZArith List Lia Lqa Bool Arith.
From EAO Require Import Num LP.
Import ListNotations.
Open Scope Q_scope.

Definition binary (f : nat -> Q) (T : nat) : Prop := forall t, (t < T)%nat -> f t == 0 \/ f t == 1.

(* ---------- start definition rows (assets.py:1872-1889) and minimum run time rows (1927-1942) ---------- *)
Definition start_rows (T tar : nat) (on st : nat -> Q) : Prop :=
  (forall i, (S i < T)%nat -> on (S i) - on i - st (S i) <= 0) /\ (tar = 0%nat -> (0 < T)%nat -> on 0%nat - st 0%nat == 0).
Definition runtime_rows (T R : nat) (on st : nat -> Q) : Prop :=
  forall t i, (t < T)%nat -> (1 <= i < R)%nat -> (i <= t)%nat -> 0 <= on t - st (t - i)%nat.
(* the unit is switched on at step s (off before; for s = 0: declared off before the horizon) *)
Definition switch_on (tar : nat) (on : nat -> Q) (s : nat) : Prop :=
  on s == 1 /\ match s with O => tar = 0%nat | S s' => on s' == 0 end.
(* specification: every run begun inside the horizon lasts at least R steps or reaches the end *)
Definition runtime_spec (T R tar : nat) (on : nat -> Q) : Prop :=
  forall s, (s < T)%nat -> switch_on tar on s -> forall k, (k < R)%nat -> (s + k < T)%nat -> on (s + k)%nat == 1.

(* start flags set exactly at off-to-on transitions *)
Definition st_min (tar : nat) (on : nat -> Q) (t : nat) : Q :=
  match t with
  | O => if Nat.eqb tar 0 then on 0%nat else 0
  | S t' => if Qeq_dec (on t') 0 then (if Qeq_dec (on t) 1 then 1 else 0) else 0
  end.

Lemma st_min_binary T tar on : binary on T -> binary (st_min tar on) T.
Proof.
  intros Hb t Ht. destruct t as [|t]; cbn [st_min].
  - destruct (Nat.eqb tar 0); [apply Hb; exact Ht|left; reflexivity].
  - destruct (Qeq_dec (on t) 0); [destruct (Qeq_dec (on (S t)) 1); [right|left]; reflexivity|left; reflexivity].
Qed.

Lemma rows_imply_runtime_spec T R tar on st : binary on T -> start_rows T tar on st -> runtime_rows T R on st -> runtime_spec T R tar on.
Proof.
  intros Hb [Hst Hst0] Hrt s Hs_lt [Hon Hprev] k Hk Hsk.
  assert (Hst1 : 1 <= st s).
  { destruct s as [|s'].
    - specialize (Hst0 Hprev ltac:(lia)). lra.
    - specialize (Hst s' Hs_lt). lra. }
  destruct k as [|k]; [rewrite Nat.add_0_r; exact Hon|].
  specialize (Hrt (s + S k)%nat (S k) Hsk ltac:(lia) ltac:(lia)).
  replace (s + S k - S k)%nat with s in Hrt by lia.
  destruct (Hb (s + S k)%nat Hsk) as [H0|H1]; [lra|exact H1].
Qed.

Lemma runtime_spec_min_rows T R tar on : binary on T -> runtime_spec T R tar on ->
  start_rows T tar on (st_min tar on) /\ runtime_rows T R on (st_min tar on).
Proof.
  intros Hb Hspec. split; [split|].
  - intros i Hi. cbn [st_min].
    destruct (Hb i ltac:(lia)) as [A|A]; destruct (Hb (S i) Hi) as [B|B];
      destruct (Qeq_dec (on i) 0) as [E0|E0]; destruct (Qeq_dec (on (S i)) 1) as [E1|E1]; lra.
  - intros Ht0 HT. cbn [st_min]. subst tar. cbn. lra.
  - intros t i Ht Hi Hit.
    assert (Hst : st_min tar on (t - i)%nat == 0 \/ (st_min tar on (t - i)%nat == 1 /\ switch_on tar on (t - i)%nat)).
    { destruct (t - i)%nat as [|s'] eqn:Es; cbn [st_min].
      - destruct (Nat.eqb_spec tar 0) as [E|E]; [|left; reflexivity].
        destruct (Hb 0%nat ltac:(lia)) as [A|A]; [left; exact A|right; split; [exact A|split; [exact A|exact E]]].
      - destruct (Qeq_dec (on s') 0) as [E0|E0]; [|left; reflexivity].
        destruct (Qeq_dec (on (S s')) 1) as [E1|E1]; [|left; reflexivity].
        right. split; [reflexivity|split; assumption]. }
    destruct Hst as [Z|[O Sw]].
    + rewrite Z. destruct (Hb t Ht) as [A|A]; lra.
    + rewrite O. specialize (Hspec (t - i)%nat ltac:(lia) Sw i ltac:(lia) ltac:(lia)).
      replace (t - i + i)%nat with t in Hspec by lia. lra.
Qed.

(* C06: an on/off pattern admits start flags satisfying the rows iff it respects the minimum run time *)
Theorem runtime_exact T R tar on : binary on T ->
  ((exists st, binary st T /\ start_rows T tar on st /\ runtime_rows T R on st) <-> runtime_spec T R tar on).
Proof.
  intros Hb. split.
  - intros (st & _ & Hs & Hr). exact (rows_imply_runtime_spec T R tar on st Hb Hs Hr).
  - intros Hspec. exists (st_min tar on). split; [apply st_min_binary; exact Hb|]. apply runtime_spec_min_rows; assumption.
Qed.

(* start flags dominate the off-to-on transitions, and the flags set exactly at the transitions satisfy every row as well: with
   positive start costs / start fuel an optimal solution therefore flags (and charges) a start exactly at the transitions *)
Theorem start_flags T R tar on st : binary on T -> start_rows T tar on st -> runtime_rows T R on st ->
  (forall i, (S i < T)%nat -> on (S i) - on i <= st (S i)) /\
  (tar = 0%nat -> (0 < T)%nat -> st 0%nat == on 0%nat) /\
  start_rows T tar on (st_min tar on) /\ runtime_rows T R on (st_min tar on) /\
  (forall t, (t < T)%nat -> 0 <= st t -> st_min tar on t <= st t \/ (t = 0%nat /\ tar <> 0%nat)).
Proof.
  intros Hb Hs Hr. pose proof Hs as [H1 H0].
  destruct (runtime_spec_min_rows T R tar on Hb (rows_imply_runtime_spec T R tar on st Hb Hs Hr)) as [M1 M2].
  split; [|split; [|split; [exact M1|split; [exact M2|]]]].
  - intros i Hi. specialize (H1 i Hi). lra.
  - intros E HT. specialize (H0 E HT). lra.
  - intros t Ht Hnn. destruct t as [|t]; cbn [st_min].
    + destruct (Nat.eqb_spec tar 0) as [E|E]; [left; specialize (H0 E Ht); lra|right; split; [reflexivity|exact E]].
    + left. specialize (H1 t Ht).
      destruct (Qeq_dec (on t) 0) as [E0|E0]; [|exact Hnn]. destruct (Qeq_dec (on (S t)) 1) as [E1|E1]; [lra|exact Hnn].
Qed.

(* ---------- minimum down time rows (assets.py:1944-1966) ---------- *)
Definition downtime_rows (T D toff : nat) (on : nat -> Q) : Prop :=
  forall t i, (t < T)%nat -> (1 <= i < D)%nat -> (i <= t)%nat ->
    on t - on (t - i)%nat + (if Nat.ltb i t then on (t - i - 1)%nat else 0) <= (if negb (Nat.ltb i t) && Nat.eqb toff 0 then 0 else 1).
(* switched off at s (for s = 0: declared running before the horizon, i.e. not declared off) *)
Definition switch_off (toff : nat) (on : nat -> Q) (s : nat) : Prop :=
  on s == 0 /\ match s with O => toff = 0%nat | S s' => on s' == 1 end.
Definition downtime_spec (T D toff : nat) (on : nat -> Q) : Prop :=
  forall s, (s < T)%nat -> switch_off toff on s -> forall k, (k < D)%nat -> (s + k < T)%nat -> on (s + k)%nat == 0.

Theorem downtime_exact T D toff on : binary on T -> (downtime_rows T D toff on <-> downtime_spec T D toff on).
Proof.
  intros Hb. split.
  - intros Hr s Hs [Hoff Hprev] k Hk Hsk.
    destruct k as [|k]; [rewrite Nat.add_0_r; exact Hoff|].
    specialize (Hr (s + S k)%nat (S k) Hsk ltac:(lia) ltac:(lia)).
    replace (s + S k - S k)%nat with s in Hr by lia.
    destruct s as [|s'].
    + cbn [Nat.add] in Hr. rewrite Nat.ltb_irrefl in Hr. cbn [negb andb] in Hr. subst toff. cbn in Hr.
      destruct (Hb (S k) ltac:(lia)) as [A|A]; [exact A|lra].
    + assert (E : Nat.ltb (S k) (S s' + S k) = true) by (apply Nat.ltb_lt; lia). rewrite E in Hr. cbn [negb andb] in Hr.
      cbn [Nat.sub] in Hr. rewrite ?Nat.sub_0_r in Hr.
      destruct (Hb (S s' + S k)%nat Hsk) as [A|A]; [exact A|lra].
  - intros Hspec t i Ht Hi Hit.
    destruct (Nat.ltb_spec i t) as [Hlt|Hge]; cbn [negb andb].
    + (* s = t - i > 0 *)
      assert (Hs : (t - i = S (t - i - 1))%nat) by lia.
      destruct (Hb (t - i)%nat ltac:(lia)) as [A|A]; destruct (Hb (t - i - 1)%nat ltac:(lia)) as [B|B]; destruct (Hb t Ht) as [Cc|Cc]; try lra.
      exfalso. assert (Sw : switch_off toff on (t - i)%nat) by (rewrite Hs; split; [rewrite <- Hs; exact A|exact B]).
      specialize (Hspec (t - i)%nat ltac:(lia) Sw i ltac:(lia) ltac:(lia)). replace (t - i + i)%nat with t in Hspec by lia. lra.
    + assert (t = i) by lia. subst i. rewrite Nat.sub_diag.
      destruct (Nat.eqb_spec toff 0) as [E|E].
      * destruct (Hb 0%nat ltac:(lia)) as [A|A]; destruct (Hb t Ht) as [Cc|Cc]; try lra.
        exfalso. assert (Sw : switch_off toff on 0%nat) by (split; [exact A|exact E]).
        specialize (Hspec 0%nat ltac:(lia) Sw t ltac:(lia) ltac:(lia)). cbn [Nat.add] in Hspec. lra.
      * destruct (Hb 0%nat ltac:(lia)) as [A|A]; destruct (Hb t Ht) as [Cc|Cc]; lra.
Qed.

(* ---------- capacity rows (assets.py:1660-1719): off => zero output; on => min <= virtual output <= max ---------- *)
Theorem capacity_when_on_off (p h cf mn mx on : Q) :
  0 <= p -> 0 <= h -> 0 <= cf -> (on == 0 \/ on == 1) ->
  0 <= p + cf * h - mn * on -> p + cf * h - mx * on <= 0 ->
  (on == 0 -> p == 0 /\ cf * h == 0) /\ (on == 1 -> mn <= p + cf * h /\ p + cf * h <= mx).
Proof.
  intros Hp Hh Hc Hon L U. assert (0 <= cf * h) by (apply Qmult_le_0_compat; assumption). split.
  - intros E. rewrite E in U. split; lra.
  - intros E. rewrite E in L, U. lra.
Qed.

(* ---------- ramp rows (assets.py:1778-1860) ---------- *)
Theorem ramp_between_steps (v0 v1 on0 on1 r : Q) :
  0 <= r -> (on0 == 0 \/ on0 == 1) -> (on1 == 0 \/ on1 == 1) ->
  0 <= v1 - v0 + r * on0 -> v1 - v0 - r * on1 <= 0 -> Qabs (v1 - v0) <= r.
Proof.
  intros Hr H0 H1 L U. apply Qabs_Qle_condition.
  destruct H0 as [E0|E0]; destruct H1 as [E1|E1]; rewrite E0 in L; rewrite E1 in U; split; lra.
Qed.
(* first step relative to the last dispatch: running before (tar > 0): |v0 - last| <= ramp; off before: last <= v0 <= last + ramp *)
Theorem first_step_ramp (v0 last on0 r : Q) (running_before : bool) :
  0 <= r -> (on0 == 0 \/ on0 == 1) ->
  (if running_before then last - r else last) <= v0 -> v0 - r * on0 <= last ->
  (if running_before then Qabs (v0 - last) <= r else last <= v0 /\ v0 <= last + r).
Proof.
  intros Hr H0 L U. destruct running_before.
  - apply Qabs_Qle_condition. destruct H0 as [E|E]; rewrite E in U; split; lra.
  - destruct H0 as [E|E]; rewrite E in U; split; lra.
Qed.

(* ---------- heat share (assets.py:1971-1982) ---------- *)
Theorem heat_share (p h share : Q) : h - share * p <= 0 -> h <= share * p.
Proof. intros H. lra. Qed.

(* ---------- fuel (assets.py:1984-2021): the mapping rows at the fuel node carry these factors ---------- *)
Theorem fuel_balance (p h cf eff cons sf on st : Q) : ~ eff == 0 ->
  (-1 / eff) * p + (- cf / eff) * h + (- cons) * on + (- sf) * st == - ((p + cf * h) / eff + cons * on + sf * st).
Proof. intros He. field. exact He. Qed.

(* ---------- row shapes: the sparse rows Plant.v emits evaluate to the expressions used above ---------- *)
Lemma start_row_shape on_idx start_idx i x :
  sdot [((on_idx + i + 1)%nat, 1); ((on_idx + i)%nat, -1); ((start_idx + i + 1)%nat, -1)] x ==
  nth (on_idx + i + 1) x 0 - nth (on_idx + i) x 0 - nth (start_idx + i + 1) x 0.
Proof. rewrite !sdot_cons, sdot_nil. ring. Qed.
Lemma runtime_row_shape on_idx start_idx t i x :
  sdot [((on_idx + t)%nat, 1); ((start_idx + t - i)%nat, -1)] x == nth (on_idx + t) x 0 - nth (start_idx + t - i) x 0.
Proof. rewrite !sdot_cons, sdot_nil. ring. Qed.
Lemma downtime_row_shape on_idx t i x :
  sdot ([((on_idx + t)%nat, 1); ((on_idx + t - i)%nat, -1)] ++ [((on_idx + t - i - 1)%nat, 1)]) x ==
  nth (on_idx + t) x 0 - nth (on_idx + t - i) x 0 + nth (on_idx + t - i - 1) x 0.
Proof. rewrite sdot_app, !sdot_cons, sdot_nil. ring. Qed.
