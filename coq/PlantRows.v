(* PlantRows.v — C06: the rows Plant.v emits ARE the inequalities PlantProofs.v reasons about. *)
From Coq Require Import QArith ZArith List Lia Lqa Bool String Arith.
From EAO Require Import Num LP Mapping Grid Assets Periodic Build Plant PlantProofs.
Import ListNotations.
Open Scope Q_scope.

Definition var_at (x : vec) (off t : nat) : Q := nth (off + t) x 0.

Theorem start_rows_meaning x on_idx start_idx T tar : (0 < T)%nat ->
  (Forall (row_ok x) (pl_rows_start on_idx start_idx T tar) <-> start_rows T tar (var_at x on_idx) (var_at x start_idx)).
Proof.
  intros HT. unfold pl_rows_start, start_rows, var_at. rewrite Forall_app, Forall_map, Forall_forall. split.
  - intros [H1 H2]. split.
    + intros i Hi. specialize (H1 i ltac:(apply in_seq; lia)). unfold row_ok in H1; cbn [r_t r_a r_b] in H1.
      rewrite start_row_shape in H1. replace (on_idx + i + 1)%nat with (on_idx + S i)%nat in H1 by lia.
      replace (start_idx + i + 1)%nat with (start_idx + S i)%nat in H1 by lia. exact H1.
    + intros E _. subst tar. cbn [Nat.eqb] in H2. inversion H2 as [|? ? Hr _]; subst. unfold row_ok in Hr; cbn [r_t r_a r_b] in Hr.
      rewrite !sdot_cons, sdot_nil in Hr. rewrite !Nat.add_0_r. lra.
  - intros [H1 H2]. split.
    + intros i Hi. apply in_seq in Hi. unfold row_ok; cbn [r_t r_a r_b]. rewrite start_row_shape.
      replace (on_idx + i + 1)%nat with (on_idx + S i)%nat by lia. replace (start_idx + i + 1)%nat with (start_idx + S i)%nat by lia.
      apply H1. lia.
    + destruct (Nat.eqb_spec tar 0) as [E|E]; [|constructor]. constructor; [|constructor].
      unfold row_ok; cbn [r_t r_a r_b]. rewrite !sdot_cons, sdot_nil.
      specialize (H2 E HT). rewrite !Nat.add_0_r in H2. lra.
Qed.

Lemma in_rt_rows r on_idx start_idx T R :
  In r (pl_rows_rt on_idx start_idx T R) <->
  exists t i, (t < T)%nat /\ (1 <= i < R)%nat /\ (i <= t)%nat /\
              r = {| r_a := [((on_idx + t)%nat, 1); ((start_idx + t - i)%nat, -1)]; r_t := RL; r_b := 0 |}.
Proof.
  unfold pl_rows_rt. rewrite in_flat_map. split.
  - intros (t & Ht & Hin). apply in_seq in Ht. apply in_flat_map in Hin. destruct Hin as (i & Hi & Hin). apply in_seq in Hi.
    destruct (Nat.leb_spec i t) as [L|L]; [|destruct Hin]. destruct Hin as [<-|[]]. exists t, i. repeat split; lia.
  - intros (t & i & Ht & Hi & Hit & ->). exists t. split; [apply in_seq; lia|]. apply in_flat_map. exists i. split; [apply in_seq; lia|].
    destruct (Nat.leb_spec i t) as [L|L]; [left; reflexivity|lia].
Qed.

Theorem runtime_rows_meaning x on_idx start_idx T R :
  Forall (row_ok x) (pl_rows_rt on_idx start_idx T R) <-> runtime_rows T R (var_at x on_idx) (var_at x start_idx).
Proof.
  unfold runtime_rows, var_at. rewrite Forall_forall. split.
  - intros H t i Ht Hi Hit.
    specialize (H {| r_a := [((on_idx + t)%nat, 1); ((start_idx + t - i)%nat, -1)]; r_t := RL; r_b := 0 |}).
    assert (Hin : In {| r_a := [((on_idx + t)%nat, 1); ((start_idx + t - i)%nat, -1)]; r_t := RL; r_b := 0 |} (pl_rows_rt on_idx start_idx T R))
      by (apply in_rt_rows; exists t, i; repeat split; lia || reflexivity).
    specialize (H Hin). unfold row_ok in H; cbn [r_t r_a r_b] in H. rewrite runtime_row_shape in H.
    replace (start_idx + t - i)%nat with (start_idx + (t - i))%nat in H by lia. exact H.
  - intros H r Hin. apply in_rt_rows in Hin. destruct Hin as (t & i & Ht & Hi & Hit & ->).
    unfold row_ok; cbn [r_t r_a r_b]. rewrite runtime_row_shape. replace (start_idx + t - i)%nat with (start_idx + (t - i))%nat by lia.
    apply H; assumption.
Qed.

Definition dt_row (on_idx toff t i : nat) : crow :=
  {| r_a := [((on_idx + t)%nat, 1); ((on_idx + t - i)%nat, -1)] ++ (if Nat.ltb i t then [((on_idx + t - i - 1)%nat, 1)] else []);
     r_t := RU; r_b := if negb (Nat.ltb i t) && Nat.eqb toff 0 then 0 else 1 |}.
Lemma in_dt_rows r on_idx T D toff :
  In r (pl_rows_dt on_idx T D toff) <-> exists t i, (t < T)%nat /\ (1 <= i < D)%nat /\ (i <= t)%nat /\ r = dt_row on_idx toff t i.
Proof.
  unfold pl_rows_dt. rewrite in_flat_map. split.
  - intros (t & Ht & Hin). apply in_seq in Ht. apply in_flat_map in Hin. destruct Hin as (i & Hi & Hin). apply in_seq in Hi.
    destruct (Nat.leb_spec i t) as [L|L]; [|destruct Hin]. destruct Hin as [<-|[]]. exists t, i. repeat split; lia.
  - intros (t & i & Ht & Hi & Hit & ->). exists t. split; [apply in_seq; lia|]. apply in_flat_map. exists i. split; [apply in_seq; lia|].
    destruct (Nat.leb_spec i t) as [L|L]; [left; reflexivity|lia].
Qed.
Lemma dt_row_ok x on_idx toff t i : (i <= t)%nat ->
  (row_ok x (dt_row on_idx toff t i) <->
   var_at x on_idx t - var_at x on_idx (t - i) + (if Nat.ltb i t then var_at x on_idx (t - i - 1) else 0) <=
   (if negb (Nat.ltb i t) && Nat.eqb toff 0 then 0 else 1)).
Proof.
  intros Hit. unfold row_ok, dt_row, var_at; cbn [r_t r_a r_b].
  destruct (Nat.ltb_spec i t) as [L|L].
  - rewrite downtime_row_shape. replace (on_idx + t - i)%nat with (on_idx + (t - i))%nat by lia.
    replace (on_idx + (t - i) - 1)%nat with (on_idx + (t - i - 1))%nat by lia. tauto.
  - rewrite app_nil_r, !sdot_cons, sdot_nil. replace (on_idx + t - i)%nat with (on_idx + (t - i))%nat by lia.
    split; intros H; lra.
Qed.
Theorem downtime_rows_meaning x on_idx T D toff :
  Forall (row_ok x) (pl_rows_dt on_idx T D toff) <-> downtime_rows T D toff (var_at x on_idx).
Proof.
  unfold downtime_rows. rewrite Forall_forall. split.
  - intros H t i Ht Hi Hit. apply (dt_row_ok x on_idx toff t i Hit). apply H. apply in_dt_rows. exists t, i. repeat split; lia || reflexivity.
  - intros H r Hin. apply in_dt_rows in Hin. destruct Hin as (t & i & Ht & Hi & Hit & ->). apply dt_row_ok; [exact Hit|]. apply H; assumption.
Qed.

(* C06, for the rows of the model builder: a point whose on-variables are binary satisfies the down-time rows of Plant.v iff its
   on/off pattern respects the minimum down time; and it can be completed by start flags satisfying the start and run-time rows
   of Plant.v iff the pattern respects the minimum run time *)
Theorem plant_downtime_rows_exact x on_idx T D toff : binary (var_at x on_idx) T ->
  (Forall (row_ok x) (pl_rows_dt on_idx T D toff) <-> downtime_spec T D toff (var_at x on_idx)).
Proof. intros Hb. rewrite downtime_rows_meaning. apply downtime_exact. exact Hb. Qed.

Theorem plant_runtime_rows_sound x on_idx start_idx T R tar : (0 < T)%nat -> binary (var_at x on_idx) T ->
  Forall (row_ok x) (pl_rows_start on_idx start_idx T tar) -> Forall (row_ok x) (pl_rows_rt on_idx start_idx T R) ->
  runtime_spec T R tar (var_at x on_idx).
Proof.
  intros HT Hb H1 H2. apply start_rows_meaning in H1; [|exact HT]. apply runtime_rows_meaning in H2.
  exact (rows_imply_runtime_spec T R tar _ _ Hb H1 H2).
Qed.
