(* Portfolio.v — Portfolio.setup_optim_problem (portfolio.py:48-221): concatenation of the asset
   problems over disjoint variable blocks, embedding of the asset rows, nodal rows;
   fix_time_window; the structured-asset wrapper. *)
From Coq Require Import QArith ZArith List Lia Lqa Bool String Arith.
From EAO Require Import Num LP Mapping Dcf Grid Assets.
Import ListNotations.
Open Scope Q_scope.

Definition shift_mrow (off : nat) (r : mrow) : mrow :=
  Build_mrow (off + m_var r) (m_asset r) (m_node r) (m_type r) (m_step r) (m_factor r) (m_name r) (m_bool r).

Definition ap_empty : aprob := {| ap_lp := Build_lp [] [] [] []; ap_map := [] |}.

(* portfolio.py:83-124 — variables, bounds, costs concatenated in asset order; asset rows embedded at
   the asset's offset; mapping index = offset + local index *)
Fixpoint assemble (aps : list aprob) : aprob :=
  match aps with
  | [] => ap_empty
  | a :: rest =>
      let r := assemble rest in
      {| ap_lp := lp_sum (ap_lp a) (ap_lp r);
         ap_map := ap_map a ++ map (shift_mrow (nvars (ap_lp a))) (ap_map r) |}
  end.

Definition dedup_str (l : list string) : list string :=
  rev (fold_left (fun acc a => if existsb (String.eqb a) acc then acc else a :: acc) l []).

(* the complete portfolio problem *)
Definition portfolio (nodes skip : list string) (steps : list nat) (aps : list aprob) : aprob :=
  let a := assemble aps in
  {| ap_lp := add_rows (ap_lp a) (nodal_crows nodes skip steps (ap_map a)); ap_map := ap_map a |}.

(* fix_time_window (portfolio.py:203-220): variables having a mapping row at a step in the window
   get l = u = x_prev *)
Definition in_fix (steps : list nat) (mp : list mrow) (v : nat) : bool :=
  existsb (fun r => Nat.eqb (m_var r) v && existsb (Nat.eqb (m_step r)) steps) mp.
Definition fix_window (steps : list nat) (xprev : vec) (a : aprob) : aprob :=
  let P := ap_lp a in
  let f (b : vec) := map (fun vb => if in_fix steps (ap_map a) (fst vb) then nth (fst vb) xprev 0 else snd vb)
                         (combine (seq 0 (List.length b)) b) in
  {| ap_lp := Build_lp (lp_c P) (f (lp_l P)) (f (lp_u P)) (lp_rows P); ap_map := ap_map a |}.

(* StructuredAsset (portfolio.py:381-401): inner portfolio without nodal rows at the external nodes,
   all variables assigned to the wrapper, inner nodes renamed and made internal *)
Definition struct_wrap (name : string) (ext : list string) (a : aprob) : aprob :=
  {| ap_lp := ap_lp a;
     ap_map := map (fun r =>
        let internal := match m_node r with Some n => negb (existsb (String.eqb n) ext) | None => false end in
        Build_mrow (m_var r) name
          (match m_node r with Some n => if internal then Some (name ++ "_internal_" ++ n)%string else Some n | None => None end)
          (if internal then "i"%string else m_type r) (m_step r) (m_factor r)
          (m_name r ++ "__" ++ m_asset r)%string (m_bool r)) (ap_map a) |}.

(* ================= C07: the mapping is a faithful description ================= *)
Definition wf_asset (T : nat) (name : string) (a : aprob) : Prop :=
  wf_lp (ap_lp a) /\
  Forall (fun r => m_asset r = name /\ (m_var r < nvars (ap_lp a))%nat /\ (m_step r < T)%nat) (ap_map a) /\
  (forall i, (i < nvars (ap_lp a))%nat -> ~ nth i (lp_c (ap_lp a)) 0 == 0 -> exists r, In r (ap_map a) /\ m_var r = i).

Lemma assemble_wf_lp aps : Forall (fun a => wf_lp (ap_lp a)) aps -> wf_lp (ap_lp (assemble aps)).
Proof.
  induction 1 as [|a rest Ha _ IH]; cbn [assemble ap_lp].
  - unfold wf_lp, nvars; simpl. repeat split; auto.
  - apply lp_sum_wf; assumption.
Qed.

(* cost and bounds of the assembled problem are exactly the assets' own vectors, in asset order *)
Lemma assemble_c aps : lp_c (ap_lp (assemble aps)) = List.concat (map (fun a => lp_c (ap_lp a)) aps).
Proof. induction aps as [|a rest IH]; cbn [assemble ap_lp lp_sum lp_c map List.concat]; [reflexivity|]. rewrite IH. reflexivity. Qed.
Lemma assemble_l aps : lp_l (ap_lp (assemble aps)) = List.concat (map (fun a => lp_l (ap_lp a)) aps).
Proof. induction aps as [|a rest IH]; cbn [assemble ap_lp lp_sum lp_l map List.concat]; [reflexivity|]. rewrite IH. reflexivity. Qed.
Lemma assemble_u aps : lp_u (ap_lp (assemble aps)) = List.concat (map (fun a => lp_u (ap_lp a)) aps).
Proof. induction aps as [|a rest IH]; cbn [assemble ap_lp lp_sum lp_u map List.concat]; [reflexivity|]. rewrite IH. reflexivity. Qed.

Theorem assemble_wf_map T names aps :
  NoDup names -> Forall2 (wf_asset T) names aps ->
  wf_map (nvars (ap_lp (assemble aps))) T (lp_c (ap_lp (assemble aps))) names (ap_map (assemble aps)).
Proof.
  intros Hnd H. induction H as [|nm a names rest Ha Hrest IH].
  - split; [constructor|]. split; [constructor|]. split; [intros r1 r2 []|].
    intros i Hi. cbn in Hi. lia.
  - inversion Hnd as [|? ? Hnotin Hnd']; subst. specialize (IH Hnd').
    destruct IH as (_ & IHrows & IHfun & IHcov).
    destruct Ha as (Wa & Rows_a & Cov_a).
    set (na := nvars (ap_lp a)) in *.
    assert (Hn : nvars (ap_lp (assemble (a :: rest))) = (na + nvars (ap_lp (assemble rest)))%nat).
    { cbn [assemble ap_lp]. unfold nvars, lp_sum; cbn [lp_c]. rewrite app_length. reflexivity. }
    rewrite Hn. split; [exact Hnd|]. split; [|split].
    + (* rows *)
      cbn [assemble ap_map]. apply Forall_app. split.
      * eapply Forall_impl; [|exact Rows_a]. intros r (E & V & S). rewrite E. repeat split; [left; reflexivity|fold na in V; lia|exact S].
      * rewrite Forall_map. eapply Forall_impl; [|exact IHrows]. intros r (E & V & S).
        cbn [shift_mrow m_asset m_var m_step]. repeat split; [right; exact E|lia|exact S].
    + (* a variable belongs to one asset *)
      intros r1 r2 H1 H2 Ev. cbn [assemble ap_map] in H1, H2.
      apply in_app_or in H1. apply in_app_or in H2.
      rewrite Forall_forall in Rows_a, IHrows.
      destruct H1 as [H1|H1]; destruct H2 as [H2|H2].
      * destruct (Rows_a _ H1) as (E1 & _). destruct (Rows_a _ H2) as (E2 & _). congruence.
      * apply in_map_iff in H2. destruct H2 as (r2' & <- & H2). cbn [shift_mrow m_var] in Ev.
        destruct (Rows_a _ H1) as (_ & V1 & _). fold na in V1. lia.
      * apply in_map_iff in H1. destruct H1 as (r1' & <- & H1). cbn [shift_mrow m_var] in Ev.
        destruct (Rows_a _ H2) as (_ & V2 & _). fold na in V2. lia.
      * apply in_map_iff in H1. destruct H1 as (r1' & <- & H1).
        apply in_map_iff in H2. destruct H2 as (r2' & <- & H2). cbn [shift_mrow m_var m_asset] in *.
        apply IHfun; [assumption|assumption|lia].
    + (* every variable with non-zero cost has a mapping row *)
      intros i Hi Hnz. cbn [assemble ap_lp lp_sum lp_c] in Hnz.
      destruct (Nat.lt_ge_cases i na) as [Hlt|Hge].
      * rewrite app_nth1 in Hnz by exact Hlt. destruct (Cov_a i Hlt Hnz) as (r & Hr & Ev).
        exists r. split; [|exact Ev]. cbn [assemble ap_map]. apply in_or_app. left. exact Hr.
      * rewrite app_nth2 in Hnz by exact Hge. fold na in Hnz.
        destruct (IHcov (i - na)%nat ltac:(lia) Hnz) as (r & Hr & Ev).
        exists (shift_mrow na r). split; [|cbn [shift_mrow m_var]; lia].
        cbn [assemble ap_map]. apply in_or_app. right. apply in_map. exact Hr.
Qed.

(* every mapping row of asset k points to the variable with the cost and bounds the asset computed *)
Theorem assemble_row_points a rest r :
  wf_lp (ap_lp a) -> In r (ap_map a) -> (m_var r < nvars (ap_lp a))%nat ->
  In r (ap_map (assemble (a :: rest))) /\
  nth (m_var r) (lp_c (ap_lp (assemble (a :: rest)))) 0 = nth (m_var r) (lp_c (ap_lp a)) 0 /\
  nth (m_var r) (lp_l (ap_lp (assemble (a :: rest)))) 0 = nth (m_var r) (lp_l (ap_lp a)) 0 /\
  nth (m_var r) (lp_u (ap_lp (assemble (a :: rest)))) 0 = nth (m_var r) (lp_u (ap_lp a)) 0.
Proof.
  intros (Hl & Hu & _) Hr Hv. cbn [assemble ap_lp ap_map lp_sum lp_c lp_l lp_u].
  split; [apply in_or_app; left; exact Hr|].
  unfold nvars in *. repeat split; apply app_nth1; lia.
Qed.
Theorem assemble_row_points_shift a rest r :
  wf_lp (ap_lp a) -> In r (ap_map (assemble rest)) ->
  In (shift_mrow (nvars (ap_lp a)) r) (ap_map (assemble (a :: rest))) /\
  nth (m_var (shift_mrow (nvars (ap_lp a)) r)) (lp_c (ap_lp (assemble (a :: rest)))) 0 = nth (m_var r) (lp_c (ap_lp (assemble rest))) 0 /\
  nth (m_var (shift_mrow (nvars (ap_lp a)) r)) (lp_l (ap_lp (assemble (a :: rest)))) 0 = nth (m_var r) (lp_l (ap_lp (assemble rest))) 0 /\
  nth (m_var (shift_mrow (nvars (ap_lp a)) r)) (lp_u (ap_lp (assemble (a :: rest)))) 0 = nth (m_var r) (lp_u (ap_lp (assemble rest))) 0.
Proof.
  intros (Hl & Hu & _) Hr. cbn [assemble ap_lp ap_map lp_sum lp_c lp_l lp_u shift_mrow m_var].
  split; [apply in_or_app; right; apply (in_map (shift_mrow (nvars (ap_lp a)))); exact Hr|].
  unfold nvars in *. repeat split.
  - apply nth_app_shift.
  - rewrite <- Hl. apply nth_app_shift.
  - rewrite <- Hu. apply nth_app_shift.
Qed.

(* exactly one nodal row per (node, step) that has dispatch *)
Lemma nodal_map_in nodes skip steps mp t n :
  In (t, n) (nodal_map nodes skip steps mp) <->
  In n nodes /\ existsb (String.eqb n) skip = false /\ In t steps /\ exists r, In r mp /\ sel n t r = true.
Proof.
  unfold nodal_map, nodal_rows. rewrite in_map_iff. split.
  - intros ([[t' n'] row] & E & Hin). simpl in E. inversion E; subst. clear E.
    apply in_flat_map in Hin. destruct Hin as (n0 & Hn0 & Hin).
    destruct (existsb (String.eqb n0) skip) eqn:Es; [destruct Hin|].
    apply in_flat_map in Hin. destruct Hin as (t0 & Ht0 & Hin).
    destruct (nodal_row mp n0 t0) as [|e row'] eqn:Er; [destruct Hin|].
    destruct Hin as [Hin|[]]. inversion Hin; subst.
    repeat split; auto.
    unfold nodal_row in Er. destruct (filter (sel n t) mp) as [|r l] eqn:Ef; [discriminate|].
    exists r. assert (In r (filter (sel n t) mp)) by (rewrite Ef; left; reflexivity).
    apply filter_In in H. exact H.
  - intros (Hn & Hs & Ht & r & Hr & Hsel).
    destruct (nodal_row mp n t) as [|e row] eqn:Er.
    + exfalso. unfold nodal_row in Er. assert (In r (filter (sel n t) mp)) by (apply filter_In; split; assumption).
      destruct (filter (sel n t) mp); [destruct H|discriminate].
    + exists (t, n, e :: row). split; [reflexivity|].
      apply in_flat_map. exists n. split; [exact Hn|]. rewrite Hs.
      apply in_flat_map. exists t. split; [exact Ht|]. rewrite Er. left. reflexivity.
Qed.

Lemma NoDup_app_intro {A} (l1 l2 : list A) :
  NoDup l1 -> NoDup l2 -> (forall b, In b l1 -> In b l2 -> False) -> NoDup (l1 ++ l2).
Proof.
  induction l1 as [|a l1 IH]; intros H1 H2 Hd; cbn [app]; [exact H2|].
  inversion H1 as [|? ? Hni H1']; subst. constructor.
  - intro Hin. apply in_app_or in Hin. destruct Hin as [Hin|Hin]; [contradiction|].
    apply (Hd a); [left; reflexivity|exact Hin].
  - apply IH; [exact H1'|exact H2|]. intros b Hb1 Hb2. apply (Hd b); [right; exact Hb1|exact Hb2].
Qed.

Lemma NoDup_flat_map {A B} (f : A -> list B) (l : list A) :
  NoDup l -> (forall a, In a l -> NoDup (f a)) ->
  (forall a1 a2 b, In a1 l -> In a2 l -> In b (f a1) -> In b (f a2) -> a1 = a2) ->
  NoDup (flat_map f l).
Proof.
  induction l as [|a l IH]; intros Hnd Hf Hdis; cbn [flat_map]; [constructor|].
  inversion Hnd as [|? ? Hni Hnd']; subst.
  apply NoDup_app_intro; [apply Hf; left; reflexivity| |].
  - apply IH; [exact Hnd'| |].
    + intros a0 H0. apply Hf. right. exact H0.
    + intros a1 a2 b H1 H2. apply Hdis; right; assumption.
  - intros b Hb Hb'. apply in_flat_map in Hb'. destruct Hb' as (a' & Ha' & Hb').
    assert (a = a') by (apply (Hdis a a' b); [left; reflexivity|right; exact Ha'|exact Hb|exact Hb']).
    subst. contradiction.
Qed.

Theorem nodal_map_nodup nodes skip steps mp :
  NoDup nodes -> NoDup steps -> NoDup (nodal_map nodes skip steps mp).
Proof.
  intros Hn Ht. unfold nodal_map, nodal_rows.
  assert (E : forall l : list (nat * string * srow), map fst l = map fst l) by reflexivity.
  rewrite flat_map_concat_map, concat_map, map_map, <- flat_map_concat_map.
  apply NoDup_flat_map; [exact Hn| |].
  - intros n _. destruct (existsb (String.eqb n) skip); [constructor|].
    rewrite flat_map_concat_map, concat_map, map_map, <- flat_map_concat_map.
    apply NoDup_flat_map; [exact Ht| |].
    + intros t _. destruct (nodal_row mp n t); cbn; repeat constructor. intros [].
    + intros t1 t2 b _ _ H1 H2. destruct (nodal_row mp n t1); [destruct H1|]. destruct (nodal_row mp n t2); [destruct H2|].
      cbn in H1, H2. destruct H1 as [<-|[]]. destruct H2 as [H2|[]]. inversion H2. reflexivity.
  - intros n1 n2 b _ _ H1 H2.
    destruct (existsb (String.eqb n1) skip); [destruct H1|]. destruct (existsb (String.eqb n2) skip); [destruct H2|].
    apply in_map_iff in H1. destruct H1 as ([[t1 m1] r1] & <- & H1).
    apply in_map_iff in H2. destruct H2 as ([[t2 m2] r2] & E2 & H2). cbn [fst] in E2.
    apply in_flat_map in H1. destruct H1 as (s1 & _ & H1). destruct (nodal_row mp n1 s1); [destruct H1|].
    destruct H1 as [H1|[]]. inversion H1; subst.
    apply in_flat_map in H2. destruct H2 as (s2 & _ & H2). destruct (nodal_row mp n2 s2); [destruct H2|].
    destruct H2 as [H2|[]]. inversion H2; subst. inversion E2. reflexivity.
Qed.
