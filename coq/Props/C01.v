(* C01 — Nodal balance: flows at every node and time step net to zero.
   This file contains only the property theorems; proofs live in Mapping.v. *)
From Coq Require Import QArith List String Bool.
From EAO Require Import Num LP Mapping.
Import ListNotations.
Open Scope Q_scope.

(* For EVERY mapping, node list, step list and point x: if x satisfies the nodal rows the
   portfolio assembles (portfolio.py:135-201) then the dispatch table that io.extract_output
   reports (io.py:62-75, factors applied) sums to zero at every non-skipped node and every
   step.  Asset names are unique (asserted by Portfolio.__init__) and every mapping row
   belongs to an asset of the portfolio. *)
Theorem C01_nodal_balance :
  forall (assets nodes skip : list string) (steps : list nat) (mp : list mrow) (x : vec),
  NoDup assets ->
  Forall (fun r => In (m_asset r) assets) mp ->
  Forall (row_ok x) (nodal_crows nodes skip steps mp) ->
  forall n t, In n nodes -> existsb (String.eqb n) skip = false -> In t steps ->
  qsum (map (fun a => dispatch_out mp x a n t) assets) == 0.
Proof. exact nodal_balance_thm. Qed.
Print Assumptions C01_nodal_balance.

(* residual form, applied to what a floating-point solver returns *)
Theorem C01_nodal_balance_eps :
  forall (assets nodes skip : list string) (steps : list nat) (mp : list mrow) (x : vec) (eps : Q),
  NoDup assets ->
  Forall (fun r => In (m_asset r) assets) mp ->
  Forall (fun r => - eps <= sdot (r_a r) x /\ sdot (r_a r) x <= eps) (nodal_crows nodes skip steps mp) ->
  0 <= eps ->
  forall n t, In n nodes -> existsb (String.eqb n) skip = false -> In t steps ->
  - eps <= qsum (map (fun a => dispatch_out mp x a n t) assets) /\
  qsum (map (fun a => dispatch_out mp x a n t) assets) <= eps.
Proof. exact nodal_balance_eps. Qed.
Print Assumptions C01_nodal_balance_eps.

(* non-vacuity: a two-node portfolio with a transport (efficiency 1/2) and a
   two-commodity contract; x satisfies all nodal rows *)
Definition ex_map : list mrow :=
  [ Build_mrow 0 "mkt" (Some "A") "d" 0 1 "disp" false;
    Build_mrow 1 "tr" (Some "A") "d" 0 (-1) "disp" false;
    Build_mrow 1 "tr" (Some "B") "d" 0 (1#2) "disp" false;
    Build_mrow 2 "mc" (Some "B") "d" 0 1 "disp" false;
    Build_mrow 2 "mc" (Some "A") "d" 0 (1#4) "disp" false ]%string.
Definition ex_x : vec := [9#2; 4; -2].
Example C01_nonvacuous :
  NoDup ["mkt"; "tr"; "mc"]%string /\
  Forall (fun r => In (m_asset r) ["mkt"; "tr"; "mc"]%string) ex_map /\
  Forall (row_ok ex_x) (nodal_crows ["A"; "B"]%string [] [0%nat] ex_map) /\
  List.length (nodal_crows ["A"; "B"]%string [] [0%nat] ex_map) = 2%nat.
Proof.
  split; [repeat constructor; simpl; intuition discriminate|].
  split; [repeat constructor; simpl; tauto|].
  split; [|reflexivity].
  set (rows := nodal_crows _ _ _ _). vm_compute in rows. subst rows.
  repeat constructor; vm_compute; reflexivity.
Qed.
