(* C02 — the assembled LP means what the asset documentation says (reference equivalence).
   FULL STATEMENT (kept visible): for every portfolio of contracts, transports, storages and multi-commodity contracts the
   optimum of the assembled problem equals the optimum of the textbook formulation, and the returned dispatch is feasible there.
   PROVED HERE (for every size, all inputs): the building blocks of that equivalence --
     * the in/out split of a contract step represents exactly the flows in [min, max] and its cost is the true cost
       price*f + spread*|f| whenever one side is zero, never less (so optima coincide);
     * per-step limits are rate x step length;
     * a transport delivers at node 2 what leaves node 1 times the efficiency;
     * the storage level obeys the recursion of the statement (bounds: C05) and the holding-cost coefficients (tail sums)
       charge exactly cost x step length x discount on (level - baseline);
     * take rows are prorated (covered / period);
     * the portfolio problem is the direct sum of the asset blocks coupled only by the nodal rows, value additive.
   NOT PROVED (hence "partial"): the composition of these blocks into one statement "optimum = reference optimum" for an
   arbitrary portfolio, and the discount factor itself (an irrational power: oracle).  That composition is decided per instance
   by the check: the independent formulation harness/ref.py is solved next to EAO and EAO's dispatch is checked inside it. *)
From Coq Require Import QArith Qabs ZArith List String Bool.
From EAO Require Import Num LP Mapping Grid Assets StorageProofs Portfolio Ref.
Import ListNotations.
Open Scope Q_scope.

Theorem C02_split_range :
  forall a b f, a <= b ->
  (a <= f /\ f <= b) <->
  (exists i o, f == i + o /\ qmin0 a <= i /\ i <= qmin0 b /\ qmax0 a <= o /\ o <= qmax0 b /\ (i == 0 \/ o == 0)).
Proof. exact split_range. Qed.
Print Assumptions C02_split_range.

Theorem C02_split_cost :
  forall pr ec i o, i <= 0 -> 0 <= o ->
  (pr - ec) * i + (pr + ec) * o == pr * (i + o) + ec * (o - i) /\
  (0 <= ec -> pr * (i + o) + ec * Qabs (i + o) <= (pr - ec) * i + (pr + ec) * o) /\
  ((i == 0 \/ o == 0) -> (pr - ec) * i + (pr + ec) * o == pr * (i + o) + ec * Qabs (i + o)).
Proof. exact split_cost. Qed.
Print Assumptions C02_split_cost.

Theorem C02_contract_limits :
  forall rg v t, (t < rg_T rg)%nat -> List.length (rg_dt rg) = rg_T rg ->
  exists bound, mkvec rg (PConst v) None true = Some bound /\ nth t bound 0 == v * nth t (rg_dt rg) 0.
Proof. exact contract_limits. Qed.
Print Assumptions C02_contract_limits.

Theorem C02_transport_flows :
  forall name n1 n2 vn eff (I : list nat) x t, String.eqb n1 n2 = false ->
  let mp := mk_rows name (Some n1) "d" vn 0 (repeat (-1) (List.length I)) I ++
            mk_rows name (Some n2) "d" vn 0 (repeat eff (List.length I)) I in
  let flow := qsum (map (fun k => if Nat.eqb (nth k I 0%nat) t then nth k x 0 else 0) (seq 0 (List.length I))) in
  dispatch_out mp x name n1 t == - flow /\ dispatch_out mp x name n2 t == eff * flow.
Proof. exact transport_flows. Qed.
Print Assumptions C02_transport_flows.

Theorem C02_storage_recursion :
  forall p n dt x t, (S t < List.length dt)%nat ->
  level p n dt x 0 == sp_start p + net p n x 0 + sp_inflow p * nth 0 dt 0 /\
  level p n dt x (S t) == level p n dt x t + net p n x (S t) + sp_inflow p * nth (S t) dt 0.
Proof. exact storage_recursion. Qed.
Print Assumptions C02_storage_recursion.

Theorem C02_holding_cost :
  forall w v, List.length w = List.length v -> dot (tails_sum w) v == dot w (prefix_from 0 v).
Proof. exact holding_cost_abel. Qed.
Print Assumptions C02_holding_cost.

Theorem C02_take_prorated :
  forall g rg mp node ty s e v r, In r (take_row g rg mp node ty (s, e, v)) ->
  exists steps, r_b r == v / qz (e - s) (g_unit g) * qsum (pick 0 (g_dt g) steps) /\ r_t r = ty.
Proof.
  intros g rg mp node ty s e v r. unfold take_row. destruct (flat_map _ _) as [|r0 rows] eqn:E; [intros []|].
  intros [<-|[]]. cbn [r_b r_t]. eexists. split; [|reflexivity]. rewrite Qred_correct, qsumx_spec. reflexivity.
Qed.
Print Assumptions C02_take_prorated.

Theorem C02_portfolio_blocks :
  forall nodes skip steps aps xs,
  Forall (fun a => wf_lp (ap_lp a)) aps ->
  Forall2 (fun a x => List.length x = nvars (ap_lp a)) aps xs ->
  (feasible (ap_lp (portfolio nodes skip steps aps)) (List.concat xs) <->
     Forall2 (fun a x => feasible (ap_lp a) x) aps xs /\
     Forall (row_ok (List.concat xs)) (nodal_crows nodes skip steps (ap_map (assemble aps)))) /\
  value (ap_lp (portfolio nodes skip steps aps)) (List.concat xs) == qsum (map (fun ax => value (ap_lp (fst ax)) (snd ax)) (combine aps xs)).
Proof. exact portfolio_blocks. Qed.
Print Assumptions C02_portfolio_blocks.

(* non-vacuity *)
Example C02_nonvacuous :
  (exists i o, 3 == i + o /\ qmin0 (-2) <= i /\ i <= qmin0 5 /\ qmax0 (-2) <= o /\ o <= qmax0 5) /\
  dot (tails_sum [1; 2; 3]) [1; -1; 2] == dot [1; 2; 3] (prefix_from 0 [1; -1; 2]) /\
  dispatch_out (mk_rows "tr"%string (Some "A"%string) "d"%string "disp"%string 0 (repeat (-1) 2) [0;1]%nat ++
                mk_rows "tr"%string (Some "B"%string) "d"%string "disp"%string 0 (repeat (1#2) 2) [0;1]%nat)
               [4; 6] "tr"%string "B"%string 1 == 3.
Proof.
  split; [exists 0, 3; vm_compute; intuition discriminate|]. split; vm_compute; reflexivity.
Qed.
