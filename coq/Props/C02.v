(* C02 — the assembled LP means what the asset documentation says (reference equivalence).
   FULL STATEMENT (kept visible): for every portfolio of contracts, transports, storages and multi-commodity contracts the
   optimum of the assembled problem equals the optimum of the textbook formulation, and the returned dispatch is feasible there.
   PROVED HERE (for every size, all inputs):
   (1) the composition (Reference.v): for ANY list of asset problems each of which realises a textbook object (admissible states,
       discounted cost, flows into nodes) the assembled portfolio problem and the textbook program -- all assets admissible,
       flows balanced at every node and step, cost additive -- have the same optimum; an optimal point of the assembled problem
       decodes to an optimal state of the textbook program with exactly the reported flows, and its value is minus the textbook
       cost (C02_lp_to_reference, C02_reference_to_lp, C02_optimum_is_reference_optimum);
   (2) the instances: the model builders of Transport, Storage (one or two variables per step, charging efficiency, in / out /
       holding costs, inflow, start / end level, two nodes) and SimpleContract (one variable per step, or the in/out split with a
       non-negative spread) on a fine grid realise the textbook transport / storage / contract (C02_transport_unit,
       C02_storage_unit, C02_contract_unit), and so does Contract = SimpleContract + min / max take rows
       (C02_contract_takes_unit), so (1) applies to every portfolio built from them;
   (3) the building blocks used above and for the classes not covered by (2): in/out split, limits = rate x step length,
       transport flows, level recursion, holding cost by Abel summation, take prorating, portfolio = direct sum + nodal rows.
   MultiCommodityContract = that problem delivering into several nodes with factors (C02_multi_unit).
   ExtendedTransport = Transport + take rows on the quantity leaving node 1 (C02_ext_transport_unit).
   NOT PROVED (hence still "partial"): instances for
   coarse / periodic asset grids and the binary options of the storage; the discount factor itself (an irrational power: the
   builders receive it as data, the oracle compares it); and everything rests on the correspondence of the model builders with
   assets.py.  For those classes the composition is decided per instance by the check: the independent formulation
   harness/ref.py is solved next to EAO and EAO's dispatch is checked inside it. *)
From Coq Require Import QArith Qabs ZArith List String Bool Lia Lqa.
From EAO Require Import Num LP Mapping Grid Assets StorageProofs Portfolio Ref Reference RefCoarse RefCorr.
Import ListNotations.
Open Scope Q_scope.

Theorem C02_split_range :
  forall a b f, a <= b ->
  (a <= f /\ f <= b) <->
  (exists i o, f == i + o /\ qmin0 a <= i /\ i <= qmin0 b /\ qmax0 a <= o /\ o <= qmax0 b /\ (i == 0 \/ o == 0)).
Proof. exact split_range. Qed.
Print Assumptions C02_split_range.

Theorem C02_split_cost :
  forall pr ec i o, i <= 0 -> 0 <= o ->
  (pr - ec) * i + (pr + ec) * o == pr * (i + o) + ec * (o - i) /\
  (0 <= ec -> pr * (i + o) + ec * Qabs (i + o) <= (pr - ec) * i + (pr + ec) * o) /\
  ((i == 0 \/ o == 0) -> (pr - ec) * i + (pr + ec) * o == pr * (i + o) + ec * Qabs (i + o)).
Proof. exact split_cost. Qed.
Print Assumptions C02_split_cost.

Theorem C02_contract_limits :
  forall rg v t, (t < rg_T rg)%nat -> List.length (rg_dt rg) = rg_T rg ->
  exists bound, mkvec rg (PConst v) None true = Some bound /\ nth t bound 0 == v * nth t (rg_dt rg) 0.
Proof. exact contract_limits. Qed.
Print Assumptions C02_contract_limits.

Theorem C02_transport_flows :
  forall name n1 n2 vn eff (I : list nat) x t, String.eqb n1 n2 = false ->
  let mp := mk_rows name (Some n1) "d" vn 0 (repeat (-1) (List.length I)) I ++
            mk_rows name (Some n2) "d" vn 0 (repeat eff (List.length I)) I in
  let flow := qsum (map (fun k => if Nat.eqb (nth k I 0%nat) t then nth k x 0 else 0) (seq 0 (List.length I))) in
  dispatch_out mp x name n1 t == - flow /\ dispatch_out mp x name n2 t == eff * flow.
Proof. exact transport_flows. Qed.
Print Assumptions C02_transport_flows.

Theorem C02_storage_recursion :
  forall p n dt x t, (S t < List.length dt)%nat ->
  level p n dt x 0 == sp_start p + net p n x 0 + sp_inflow p * nth 0 dt 0 /\
  level p n dt x (S t) == level p n dt x t + net p n x (S t) + sp_inflow p * nth (S t) dt 0.
Proof. exact storage_recursion. Qed.
Print Assumptions C02_storage_recursion.

Theorem C02_holding_cost :
  forall w v, List.length w = List.length v -> dot (tails_sum w) v == dot w (prefix_from 0 v).
Proof. exact holding_cost_abel. Qed.
Print Assumptions C02_holding_cost.

Theorem C02_take_prorated :
  forall g rg mp node ty s e v r, In r (take_row g rg mp node ty (s, e, v)) ->
  exists steps, r_b r == v / qz (e - s) (g_unit g) * qsum (pick 0 (g_dt g) steps) /\ r_t r = ty.
Proof.
  intros g rg mp node ty s e v r. unfold take_row. destruct (flat_map _ _) as [|r0 rows] eqn:E; [intros []|].
  intros [<-|[]]. cbn [r_b r_t]. eexists. split; [|reflexivity]. rewrite Qred_correct, qsumx_spec. reflexivity.
Qed.
Print Assumptions C02_take_prorated.

Theorem C02_portfolio_blocks :
  forall nodes skip steps aps xs,
  Forall (fun a => wf_lp (ap_lp a)) aps ->
  Forall2 (fun a x => List.length x = nvars (ap_lp a)) aps xs ->
  (feasible (ap_lp (portfolio nodes skip steps aps)) (List.concat xs) <->
     Forall2 (fun a x => feasible (ap_lp a) x) aps xs /\
     Forall (row_ok (List.concat xs)) (nodal_crows nodes skip steps (ap_map (assemble aps)))) /\
  value (ap_lp (portfolio nodes skip steps aps)) (List.concat xs) == qsum (map (fun ax => value (ap_lp (fst ax)) (snd ax)) (combine aps xs)).
Proof. exact portfolio_blocks. Qed.
Print Assumptions C02_portfolio_blocks.

(* ---------- the composition: assembled problem = textbook program ---------- *)
Theorem C02_lp_to_reference :
  forall nodes skip steps (us : list unit_) (xs : list vec),
  Forall u_ok us -> NoDup (map u_name us) ->
  Forall2 (fun u x => List.length x = nvars (ap_lp (u_prob u))) us xs ->
  feasible (ap_lp (portfolio nodes skip steps (map u_prob us))) (List.concat xs) ->
  let ys := map (fun ux => u_dec (fst ux) (snd ux)) (combine us xs) in
  ref_feasible nodes skip steps us ys /\
  ref_cost us ys <= dot (lp_c (ap_lp (portfolio nodes skip steps (map u_prob us)))) (List.concat xs) /\
  (forall n t, Forall2 Qeq (map (fun nm => dispatch_out (ap_map (portfolio nodes skip steps (map u_prob us))) (List.concat xs) nm n t) (map u_name us))
                           (map (fun uy => tb_flow (u_tb (fst uy)) (snd uy) n t) (combine us ys))).
Proof. exact lp_to_reference. Qed.
Print Assumptions C02_lp_to_reference.

Theorem C02_reference_to_lp :
  forall nodes skip steps (us : list unit_) (ys : list vec),
  Forall u_ok us -> NoDup (map u_name us) ->
  ref_feasible nodes skip steps us ys ->
  exists xs, Forall2 (fun u x => List.length x = nvars (ap_lp (u_prob u))) us xs /\
    feasible (ap_lp (portfolio nodes skip steps (map u_prob us))) (List.concat xs) /\
    dot (lp_c (ap_lp (portfolio nodes skip steps (map u_prob us)))) (List.concat xs) == ref_cost us ys.
Proof. exact reference_to_lp. Qed.
Print Assumptions C02_reference_to_lp.

Theorem C02_optimum_is_reference_optimum :
  forall nodes skip steps (us : list unit_) (xs : list vec),
  Forall u_ok us -> NoDup (map u_name us) ->
  Forall2 (fun u x => List.length x = nvars (ap_lp (u_prob u))) us xs ->
  optimal (ap_lp (portfolio nodes skip steps (map u_prob us))) (List.concat xs) ->
  let ys := map (fun ux => u_dec (fst ux) (snd ux)) (combine us xs) in
  ref_optimal nodes skip steps us ys /\
  value (ap_lp (portfolio nodes skip steps (map u_prob us))) (List.concat xs) == - ref_cost us ys.
Proof. exact optimum_is_reference_optimum. Qed.
Print Assumptions C02_optimum_is_reference_optimum.

(* every point of the right length splits into asset blocks, so the three theorems above speak about every x *)
Theorem C02_every_point_is_blocks :
  forall (us : list unit_) (x : vec), List.length x = nvars (ap_lp (assemble (map u_prob us))) ->
  exists xs, x = List.concat xs /\ Forall2 (fun u x => List.length x = nvars (ap_lp (u_prob u))) us xs.
Proof. exact split_blocks. Qed.
Print Assumptions C02_every_point_is_blocks.

(* ---------- the instances ---------- *)
Theorem C02_transport_unit :
  forall g rg p a, transport g rg p = Some a -> rg_minor rg = None ->
  List.length (rg_dt rg) = rg_T rg -> List.length (rg_disc rg) = rg_T rg ->
  List.length (transport_costs g rg p) = rg_T rg -> String.eqb (tp_n1 p) (tp_n2 p) = false ->
  u_ok {| u_name := tp_name p; u_prob := a; u_dec := fun x => x;
          u_tb := tb_transport rg (tp_n1 p) (tp_n2 p) (transport_costs g rg p) (tp_min p) (tp_max p) (tp_eff p) |}.
Proof. exact transport_unit_ok. Qed.
Print Assumptions C02_transport_unit.

Theorem C02_storage_unit :
  forall g rg p a, storage g rg p = Some a -> rg_minor rg = None -> sp_no_simult p = false -> sp_max_dur p = None ->
  rg_T rg <> 0%nat -> List.length (rg_dt rg) = rg_T rg -> List.length (rg_disc rg) = rg_T rg ->
  match sp_price p with Some v => List.length v = g_T g | None => True end ->
  u_ok {| u_name := sp_name p; u_prob := a; u_dec := fun x => x; u_tb := tb_storage rg p |}.
Proof. exact storage_unit_ok. Qed.
Print Assumptions C02_storage_unit.

Theorem C02_contract_unit :
  forall g rg p a maxc minc ec, simple_contract g rg p = Some a -> rg_minor rg = None ->
  mkvec rg (cp_max p) None true = Some maxc -> mkvec rg (cp_min p) None true = Some minc ->
  mkvec rg (cp_extra p) (Some 0) false = Some ec ->
  List.length maxc = rg_T rg -> List.length minc = rg_T rg -> List.length ec = rg_T rg -> List.length (rg_disc rg) = rg_T rg ->
  (forall t, (t < rg_T rg)%nat -> 0 <= nth t ec 0) -> (forall t, (t < rg_T rg)%nat -> 0 <= nth t (rg_disc rg) 0) ->
  u_ok {| u_name := cp_name p; u_prob := a;
          u_dec := if all_b eq0 ec || all_b le0 maxc || all_b ge0 minc then fun x => x else dec_split (rg_T rg);
          u_tb := tb_contract rg (cp_node p) (pick 0 match cp_price p with Some v => v | None => repeat 0 (g_T g) end (rg_I rg)) ec minc maxc |}.
Proof. exact contract_unit_ok. Qed.
Print Assumptions C02_contract_unit.

(* Contract = SimpleContract + max / min take rows: the textbook contract with, for every take period that has a step inside the
   asset's grid, the volume of those steps bounded by the right-hand side of the emitted row (the prorated value, C02_take_prorated) *)
Theorem C02_contract_takes_unit :
  forall g rg p a maxc minc ec, simple_contract g rg p = Some a -> rg_minor rg = None ->
  mkvec rg (cp_max p) None true = Some maxc -> mkvec rg (cp_min p) None true = Some minc ->
  mkvec rg (cp_extra p) (Some 0) false = Some ec ->
  List.length maxc = rg_T rg -> List.length minc = rg_T rg -> List.length ec = rg_T rg -> List.length (rg_disc rg) = rg_T rg ->
  (forall t, (t < rg_T rg)%nat -> 0 <= nth t ec 0) -> (forall t, (t < rg_T rg)%nat -> 0 <= nth t (rg_disc rg) 0) ->
  forall mx mn : list take,
  u_ok {| u_name := cp_name p;
          u_prob := {| ap_lp := add_rows (ap_lp a) (take_all_rows g rg a mx mn); ap_map := ap_map a |};
          u_dec := if all_b eq0 ec || all_b le0 maxc || all_b ge0 minc then fun x => x else dec_split (rg_T rg);
          u_tb := tb_contract_takes g rg p a maxc minc ec mx mn |}.
Proof. exact contract_takes_unit_ok. Qed.
Print Assumptions C02_contract_takes_unit.

(* MultiCommodityContract: the same problem, its dispatch delivered into several nodes with factors *)
Theorem C02_multi_unit :
  forall (u : unit_) node0 nodes factors,
  u_ok u -> Forall (fun r => is_d r = true /\ m_node r = Some node0) (ap_map (u_prob u)) ->
  u_ok {| u_name := u_name u; u_prob := {| ap_lp := ap_lp (u_prob u); ap_map := multi_map (ap_map (u_prob u)) nodes factors |};
          u_dec := u_dec u; u_tb := tb_multi (u_tb u) node0 nodes factors |}.
Proof. exact multi_unit_ok. Qed.
Print Assumptions C02_multi_unit.

(* ExtendedTransport = Transport + take rows on the quantity leaving node 1 *)
Theorem C02_ext_transport_unit :
  forall g rg p a, transport g rg p = Some a -> rg_minor rg = None ->
  List.length (rg_dt rg) = rg_T rg -> List.length (rg_disc rg) = rg_T rg ->
  List.length (transport_costs g rg p) = rg_T rg -> String.eqb (tp_n1 p) (tp_n2 p) = false ->
  forall mx mn : list take,
  u_ok {| u_name := tp_name p; u_prob := {| ap_lp := add_rows (ap_lp a) (ext_rows g rg p a mx mn); ap_map := ap_map a |};
          u_dec := fun x => x; u_tb := tb_ext_transport g rg p a mx mn |}.
Proof. exact ext_transport_unit_ok. Qed.
Print Assumptions C02_ext_transport_unit.

(* assets on a coarser frequency.  Generic step: a unit whose mapping is extended to the minor steps of a coarse grid realises the
   textbook object with the same admissible states and cost, its flows spread over the minor steps in proportion to their length *)
Theorem C02_coarse_unit :
  forall u gdt rg groups mp',
  u_ok u -> rg_minor rg = Some groups -> NoDup (rg_I rg) -> extend_minor gdt rg (ap_map (u_prob u)) = Some mp' ->
  u_ok {| u_name := u_name u; u_prob := {| ap_lp := ap_lp (u_prob u); ap_map := mp' |}; u_dec := u_dec u;
          u_tb := tb_coarse (u_tb u) gdt rg groups |}.
Proof. exact coarse_unit_ok. Qed.
Print Assumptions C02_coarse_unit.

(* instances: the model builders of SimpleContract, Transport and Storage on a coarse grid ARE the builders on the same steps read as
   a fine grid, with the prices averaged over the minor steps (scattered back onto the grid), and the mapping extended *)
Theorem C02_coarse_contract_builder :
  forall g rg p a groups,
  rg_minor rg = Some groups -> NoDup (rg_I rg) -> (forall i, In i (rg_I rg) -> (i < g_T g)%nat) -> List.length groups = rg_T rg ->
  simple_contract g rg p = Some a ->
  exists a0, simple_contract g (fine_rg rg) (fine_contract_p g rg p) = Some a0 /\
             ap_lp a0 = ap_lp a /\ extend_minor (g_dt g) rg (ap_map a0) = Some (ap_map a).
Proof. exact simple_contract_coarse. Qed.
Print Assumptions C02_coarse_contract_builder.

Theorem C02_coarse_transport_builder :
  forall g rg p a groups,
  rg_minor rg = Some groups -> NoDup (rg_I rg) -> (forall i, In i (rg_I rg) -> (i < g_T g)%nat) -> List.length groups = rg_T rg ->
  g_T g <> 1%nat -> transport g rg p = Some a ->
  exists a0, transport g (fine_rg rg) (fine_transport_p g rg p) = Some a0 /\
             ap_lp a0 = ap_lp a /\ extend_minor (g_dt g) rg (ap_map a0) = Some (ap_map a).
Proof. exact transport_coarse. Qed.
Print Assumptions C02_coarse_transport_builder.

Theorem C02_coarse_storage_builder :
  forall g rg p a groups,
  rg_minor rg = Some groups -> NoDup (rg_I rg) -> (forall i, In i (rg_I rg) -> (i < g_T g)%nat) -> List.length groups = rg_T rg ->
  storage g rg p = Some a ->
  exists a0, storage g (fine_rg rg) (fine_storage_p g rg p) = Some a0 /\
             ap_lp a0 = ap_lp a /\ extend_minor (g_dt g) rg (ap_map a0) = Some (ap_map a).
Proof. exact storage_coarse. Qed.
Print Assumptions C02_coarse_storage_builder.

(* the unit the check builds for an asset on a coarse grid carries exactly the problem of the model builder *)
Theorem C02_coarse_unit_is_builder :
  (forall g rg p un a, mk_unit_c g (USimple rg p) = Some un -> unit_hyps_c g (USimple rg p) = true -> simple_contract g rg p = Some a ->
     ap_lp (u_prob un) = ap_lp a /\ ap_map (u_prob un) = ap_map a) /\
  (forall g rg p un a, mk_unit_c g (UTransport rg p) = Some un -> unit_hyps_c g (UTransport rg p) = true -> transport g rg p = Some a ->
     ap_lp (u_prob un) = ap_lp a /\ ap_map (u_prob un) = ap_map a) /\
  (forall g rg p un a, mk_unit_c g (UStorage rg p) = Some un -> unit_hyps_c g (UStorage rg p) = true -> storage g rg p = Some a ->
     ap_lp (u_prob un) = ap_lp a /\ ap_map (u_prob un) = ap_map a).
Proof. exact (conj mk_unit_c_simple_is_builder (conj mk_unit_c_transport_is_builder mk_unit_c_storage_is_builder)). Qed.
Print Assumptions C02_coarse_unit_is_builder.

(* the boolean test the check evaluates on every generated portfolio (RefCorr.unit_hyps_c, names distinct) is enough for the
   composition theorems to apply to the model of that portfolio (fine and coarse assets) *)
Theorem C02_generated_portfolio_under_theorems :
  forall g us units,
  seq_units (map (mk_unit_c g) us) = Some units -> forallb (unit_hyps_c g) us = true -> nodup_b (map u_name units) = true ->
  Forall u_ok units /\ NoDup (map u_name units).
Proof. exact c02_hyps_sound. Qed.
Print Assumptions C02_generated_portfolio_under_theorems.

(* non-vacuity of the composition: a two-node portfolio -- market with a spread (in/out split), storage with charging
   efficiency and holding cost, transport, fixed load -- whose units satisfy u_ok, with a feasible point *)
Definition exg : grid := Build_grid [0; 3600; 7200]%Z 0%Z 7200%Z 3600%Z.
Definition exrg : rgrid := restrict exg [1; 9#10] 0%Z 7200%Z.
Definition ex_mkt : contract_p := Build_contract_p "mkt" "A" (Some [10; 20]) (PConst (-5)) (PConst 5) (PConst 1).
Definition ex_load : contract_p := Build_contract_p "load" "B" None (PConst (-1)) (PConst (-1)) (PConst 0).
Definition ex_sto : storage_p := Build_storage_p "sto" ["A"]%string 4 2 2 0 0 0 0 (1#10) (1#2) 0 None false None.
Definition ex_tr : transport_p := Build_transport_p "tr" "A" "B" None 0 0 3 (1#2).
Definition getp (o : option aprob) : aprob := match o with Some a => a | None => ap_empty end.
Definition ex_units : list unit_ :=
  [ {| u_name := "mkt"; u_prob := getp (simple_contract exg exrg ex_mkt); u_dec := dec_split 2;
       u_tb := tb_contract exrg "A" [10; 20] [1; 1] [-5; -5] [5; 5] |};
    {| u_name := "sto"; u_prob := getp (storage exg exrg ex_sto); u_dec := fun x => x; u_tb := tb_storage exrg ex_sto |};
    {| u_name := "tr"; u_prob := getp (transport exg exrg ex_tr); u_dec := fun x => x;
       u_tb := tb_transport exrg "A" "B" (transport_costs exg exrg ex_tr) 0 3 (1#2) |};
    {| u_name := "load"; u_prob := getp (simple_contract exg exrg ex_load); u_dec := fun x => x;
       u_tb := tb_contract exrg "B" [0; 0] [0; 0] [-1; -1] [-1; -1] |} ]%string.
Example C02_composition_nonvacuous :
  Forall u_ok ex_units /\ NoDup (map u_name ex_units) /\
  feasible (ap_lp (portfolio ["A"; "B"]%string [] [0; 1]%nat (map u_prob ex_units)))
           (List.concat [[0; 0; 4; 1]; [-2; 0; 0; 1]; [2; 2]; [-1; -1]]).
Proof.
  split; [|split].
  - unfold ex_units. repeat (apply Forall_cons); [| | | |apply Forall_nil].
    + apply (C02_contract_unit exg exrg ex_mkt _ [5; 5] [-5; -5] [1; 1]); try reflexivity.
      * intros [|[|t]] H; cbn; try lra; vm_compute in H; lia.
      * intros [|[|t]] H; cbn; try lra; vm_compute in H; lia.
    + apply (C02_storage_unit exg exrg ex_sto); try reflexivity; try exact I. discriminate.
    + apply (C02_transport_unit exg exrg ex_tr); reflexivity.
    + apply (C02_contract_unit exg exrg ex_load _ [-1; -1] [-1; -1] [0; 0]); try reflexivity.
      * intros [|[|t]] H; cbn; try lra; vm_compute in H; lia.
      * intros [|[|t]] H; cbn; try lra; vm_compute in H; lia.
  - cbn. repeat constructor; cbn; intuition discriminate.
  - split.
    + apply in_boxb_0. vm_compute. reflexivity.
    + set (rows := lp_rows _). vm_compute in rows. subst rows. repeat (apply Forall_cons; [apply row_okb_0; vm_compute; reflexivity|]). apply Forall_nil.
Qed.

(* non-vacuity of the coarse instances: a contract and a storage on 2-hourly steps of an hourly grid pass the boolean test,
   the units exist, and the extended mapping spreads a coarse flow of 3 over the two hours in equal parts *)
Definition exg4 : grid := Build_grid [0; 3600; 7200; 10800; 14400]%Z 0%Z 14400%Z 3600%Z.
Definition exrg4 : rgrid := match coarse exg4 [1; 1; 1; 1] [0; 7200; 14400]%Z with Some r => r | None => exrg end.
Definition ex_cc : contract_p := Build_contract_p "cc" "A" (Some [10; 20; 30; 50]) (PConst (-5)) (PConst 5) (PConst 0).
Definition ex_cs : storage_p := Build_storage_p "cs" ["A"]%string 4 2 2 0 0 0 0 (1#10) 1 0 (Some [1; 3; 2; 2]) false None.
Example C02_coarse_nonvacuous :
  forallb (unit_hyps_c exg4) [USimple exrg4 ex_cc; UStorage exrg4 ex_cs] = true /\
  (exists un, mk_unit_c exg4 (USimple exrg4 ex_cc) = Some un /\ u_ok un /\
              lp_c (ap_lp (u_prob un)) = [15; 40] /\
              tb_flow (u_tb un) [3; -2] "A" 1 == 3 # 2 /\ tb_flow (u_tb un) [3; -2] "A" 2 == -1) /\
  (exists un, mk_unit_c exg4 (UStorage exrg4 ex_cs) = Some un /\ u_ok un).
Proof.
  split; [vm_compute; reflexivity|]. split.
  - destruct (mk_unit_c exg4 (USimple exrg4 ex_cc)) as [un|] eqn:E; [|vm_compute in E; discriminate].
    exists un. split; [reflexivity|]. split; [apply (mk_unit_c_ok exg4 _ un E); vm_compute; reflexivity|].
    vm_compute in E. inversion E; subst un. split; [reflexivity|]. split; vm_compute; reflexivity.
  - destruct (mk_unit_c exg4 (UStorage exrg4 ex_cs)) as [un|] eqn:E; [|vm_compute in E; discriminate].
    exists un. split; [reflexivity|]. apply (mk_unit_c_ok exg4 _ un E). vm_compute. reflexivity.
Qed.

(* non-vacuity *)
Example C02_nonvacuous :
  (exists i o, 3 == i + o /\ qmin0 (-2) <= i /\ i <= qmin0 5 /\ qmax0 (-2) <= o /\ o <= qmax0 5) /\
  dot (tails_sum [1; 2; 3]) [1; -1; 2] == dot [1; 2; 3] (prefix_from 0 [1; -1; 2]) /\
  dispatch_out (mk_rows "tr"%string (Some "A"%string) "d"%string "disp"%string 0 (repeat (-1) 2) [0;1]%nat ++
                mk_rows "tr"%string (Some "B"%string) "d"%string "disp"%string 0 (repeat (1#2) 2) [0;1]%nat)
               [4; 6] "tr"%string "B"%string 1 == 3.
Proof.
  split; [exists 0, 3; vm_compute; intuition discriminate|]. split; vm_compute; reflexivity.
Qed.
