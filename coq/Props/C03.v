(* C03 — the optimiser returns a feasible, optimal point of the assembled problem.
   The native solver cannot be proved; what is proved, for all problems, is the
   soundness of the executable certificate checkers that every solver answer must pass. *)
From Coq Require Import QArith List Bool.
From EAO Require Import Num LP Cert.
Import ListNotations.
Open Scope Q_scope.

Theorem C03_primal_check_sound :
  forall eps P x, check_primal_eps eps P x = true -> wf_lp P /\ feasible_eps eps P x.
Proof. exact check_primal_eps_sound. Qed.
Print Assumptions C03_primal_check_sound.

(* weak duality with box bounds: sound for EVERY multiplier vector y *)
Theorem C03_weak_duality :
  forall P y x, wf_lp P -> feasible P x -> value P x <= dual_bound P y.
Proof. exact weak_duality_box. Qed.
Print Assumptions C03_weak_duality.

Theorem C03_optimality_check_sound :
  forall eps P x y, check_opt eps P x y = true ->
  wf_lp P /\ feasible_eps eps P x /\ forall x', feasible P x' -> value P x' <= value P x + eps.
Proof. exact check_opt_sound. Qed.
Print Assumptions C03_optimality_check_sound.

Theorem C03_infeasibility_check_sound :
  forall P y, check_farkas P y = true -> forall x, ~ feasible P x.
Proof. exact check_farkas_sound. Qed.
Print Assumptions C03_infeasibility_check_sound.

(* non-vacuity: max x0 + x1  s.t.  x0 + 2 x1 <= 4,  0 <= x <= 3 ;  optimum (3, 1/2), y = 1/2 *)
Definition exP : lp := Build_lp [-1; -1] [0; 0] [3; 3] [Build_crow [(0%nat, 1); (1%nat, 2)] RU 4].
Example C03_nonvacuous : check_opt 0 exP [3; 1#2] [1#2] = true /\ check_farkas
  (Build_lp [0] [0] [1] [Build_crow [(0%nat, 1)] RL 2]) [-1] = true.
Proof. split; vm_compute; reflexivity. Qed.
