(* C03 — the optimiser returns a feasible, optimal point of the assembled problem.
   The native solver cannot be proved; what is proved, for all problems, is the
   soundness of the executable certificate checkers that every solver answer must pass. *)
From Coq Require Import QArith List Bool.
From EAO Require Import Num LP Cert Mapping Dcf Translate.
Import ListNotations.
Open Scope Q_scope.

Theorem C03_primal_check_sound :
  forall eps P x, check_primal_eps eps P x = true -> wf_lp P /\ feasible_eps eps P x.
Proof. exact check_primal_eps_sound. Qed.
Print Assumptions C03_primal_check_sound.

(* weak duality with box bounds: sound for EVERY multiplier vector y *)
Theorem C03_weak_duality :
  forall P y x, wf_lp P -> feasible P x -> value P x <= dual_bound P y.
Proof. exact weak_duality_box. Qed.
Print Assumptions C03_weak_duality.

Theorem C03_optimality_check_sound :
  forall eps P x y, check_opt eps P x y = true ->
  wf_lp P /\ feasible_eps eps P x /\ forall x', feasible P x' -> value P x' <= value P x + eps.
Proof. exact check_opt_sound. Qed.
Print Assumptions C03_optimality_check_sound.

Theorem C03_infeasibility_check_sound :
  forall P y, check_farkas P y = true -> forall x, ~ feasible P x.
Proof. exact check_farkas_sound. Qed.
Print Assumptions C03_infeasibility_check_sound.

(* what optimize() hands to the solver -- bounds as two vector constraints, rows grouped by class -- has exactly the feasible
   points of the assembled problem (the groups are compared with what cvxpy receives on every instance) *)
Theorem C03_translation_equivalent : forall P x, sat P x <-> feasible P x.
Proof. exact translate_equiv. Qed.
Print Assumptions C03_translation_equivalent.
(* a variable is declared boolean iff the first mapping row of that variable carries the flag *)
Theorem C03_boolean_variables :
  forall mp v, In v (bool_vars mp) <-> exists r, In r (firsts [] mp) /\ m_var r = v /\ m_bool r = true.
Proof. exact bool_vars_spec. Qed.
Print Assumptions C03_boolean_variables.

(* non-vacuity: max x0 + x1  s.t.  x0 + 2 x1 <= 4,  0 <= x <= 3 ;  optimum (3, 1/2), y = 1/2 *)
Definition exP : lp := Build_lp [-1; -1] [0; 0] [3; 3] [Build_crow [(0%nat, 1); (1%nat, 2)] RU 4].
Example C03_nonvacuous : check_opt 0 exP [3; 1#2] [1#2] = true /\ check_farkas
  (Build_lp [0] [0] [1] [Build_crow [(0%nat, 1)] RL 2]) [-1] = true.
Proof. split; vm_compute; reflexivity. Qed.
