(* C04 — Value accounting: reported value = sum of per-asset discounted cash flows. *)
From Coq Require Import QArith List String Bool.
From EAO Require Import Num LP Mapping Dcf.
Import ListNotations.
Open Scope Q_scope.

(* For EVERY problem, mapping and point x (any size): if the mapping is well formed with
   respect to the cost vector -- asset names unique, every row points to an existing
   variable / an asset of the portfolio / a step on the grid, a variable belongs to one
   asset only, and every variable with non-zero cost has a mapping row -- then the DCF
   table (Asset.dcf per asset and step: first mapping row per variable, -c_i x_i booked at
   the row's step) sums to the value -c.x.  This covers monolithic and split problems,
   periodic / coarse / scaled / structured assets and order books alike: they only differ
   in the (c, mapping) pair, whose well-formedness is checked on the implementation's
   own problem by the executable wf_mapb (sound by wf_mapb_sound). *)
Theorem C04_value_accounting :
  forall (P : lp) (x : vec) (T : nat) (assets : list string) (mp : list mrow),
  List.length x = nvars P ->
  wf_map (nvars P) T (lp_c P) assets mp ->
  qsum (map (fun a => dcf_total (lp_c P) x mp a T) assets) == value P x.
Proof. exact value_accounting. Qed.
Print Assumptions C04_value_accounting.

Theorem C04_asset_total :
  forall (c x : vec) (T : nat) (mp : list mrow) (a : string),
  Forall (fun r => (m_step r < T)%nat) mp ->
  dcf_total c x mp a T ==
  - qsum (map (fun r => nth (m_var r) c 0 * nth (m_var r) x 0) (firsts [] (filter (of_asset a) mp))).
Proof. exact asset_total. Qed.
Print Assumptions C04_asset_total.

Theorem C04_wf_check_sound :
  forall n T c assets mp, NoDup assets -> wf_mapb n T c assets mp = true -> wf_map n T c assets mp.
Proof. exact wf_mapb_sound. Qed.
Print Assumptions C04_wf_check_sound.

(* non-vacuity: transport with two rows per variable, a variable without mapping row and zero cost *)
Definition ex_c : vec := [2; -3; 0; 5].
Definition ex_mp : list mrow :=
  [ Build_mrow 0 "a" (Some "A") "d" 0 1 "disp" false;
    Build_mrow 1 "tr" (Some "A") "d" 1 (-1) "disp" false;
    Build_mrow 1 "tr" (Some "B") "d" 1 (1#2) "disp" false;
    Build_mrow 3 "a" (Some "A") "d" 1 1 "disp" false ]%string.
Example C04_nonvacuous :
  wf_map 4 2 ex_c ["a"; "tr"]%string ex_mp /\
  qsum (map (fun a => dcf_total ex_c [1; 2; 7; -1] ex_mp a 2) ["a"; "tr"]%string) == 9.
Proof.
  split; [apply wf_mapb_sound; [repeat constructor; simpl; intuition discriminate|vm_compute; reflexivity]|].
  vm_compute. reflexivity.
Qed.
