(* C05 — Storage physics: level within [0, size], ends at end level, rates within rate x dt. *)
From Coq Require Import QArith List String Bool.
From EAO Require Import Num LP Mapping Grid Assets StorageProofs StorageBlocks StorageDur Build.
Import ListNotations.
Open Scope Q_scope.

(* For EVERY storage (size, rates, efficiency, start/end level, inflow, costs, one or two nodes,
   window, any grid with any step lengths) and EVERY feasible point of the problem the builder
   returns (no MIP option): the physical level  start + eff*charged - discharged + accumulated
   inflow  stays in [0, size] at every step before the last and equals the end level at the last
   active step; charge and discharge stay within rate x step length. *)
Theorem C05_storage_physics :
  forall g rg p a x,
  storage g rg p = Some a -> sp_no_simult p = false -> sp_max_dur p = None -> rg_T rg <> 0%nat ->
  List.length (rg_dt rg) = rg_T rg ->
  feasible (ap_lp a) x ->
  forall t, (t < rg_T rg)%nat ->
    ((S t = rg_T rg -> level p (rg_T rg) (rg_dt rg) x t == sp_end p) /\
     (S t <> rg_T rg -> 0 <= level p (rg_T rg) (rg_dt rg) x t /\ level p (rg_T rg) (rg_dt rg) x t <= sp_size p)) /\
    (if st_sep p then
      (- (sp_cap_in p * nth t (rg_dt rg) 0) <= nth t x 0 /\ nth t x 0 <= 0) /\
      (0 <= nth (rg_T rg + t) x 0 /\ nth (rg_T rg + t) x 0 <= sp_cap_out p * nth t (rg_dt rg) 0)
    else - (sp_cap_in p * nth t (rg_dt rg) 0) <= nth t x 0 /\ nth t x 0 <= sp_cap_out p * nth t (rg_dt rg) 0).
Proof. exact storage_feasible_physics. Qed.
Print Assumptions C05_storage_physics.

(* A storage the constructor accepts has its end level within [0, size] (repo fix efdd1c0; before it an end level
   above the size was accepted and the last level row forced the level above the size): then the level is within
   [0, size] at EVERY step, the last one included. *)
Theorem C05_level_within_size_at_every_step :
  forall g rg p a x,
  storage_ctor_ok p = true ->
  storage g rg p = Some a -> sp_no_simult p = false -> sp_max_dur p = None -> rg_T rg <> 0%nat ->
  List.length (rg_dt rg) = rg_T rg ->
  feasible (ap_lp a) x ->
  forall t, (t < rg_T rg)%nat ->
    0 <= level p (rg_T rg) (rg_dt rg) x t /\ level p (rg_T rg) (rg_dt rg) x t <= sp_size p.
Proof. exact storage_feasible_level_everywhere. Qed.
Print Assumptions C05_level_within_size_at_every_step.

(* the model's storage builder (compared with the implementation case by case) yields a problem only for such a storage *)
Theorem C05_builder_refuses_end_level_outside_size :
  forall g rg p per a, build_storage g rg p per = Some a ->
  sp_start p <= sp_size p /\ 0 <= sp_end p /\ sp_end p <= sp_size p.
Proof. exact build_storage_some_levels_ok. Qed.
Print Assumptions C05_builder_refuses_end_level_outside_size.

(* the same statement on the emitted rows, for any n and any step lengths *)
Theorem C05_level_rows :
  forall p n dt x, n = List.length dt -> Forall (row_ok x) (st_rows p n dt) ->
  forall t, (t < n)%nat ->
    (S t = n -> level p n dt x t == sp_end p) /\
    (S t <> n -> 0 <= level p n dt x t /\ level p n dt x t <= sp_size p).
Proof. exact storage_physics. Qed.
Print Assumptions C05_level_rows.

(* Time blocks (assets.py:413-446): block-diagonal level rows for ANY list of block boundaries (every list forms blocks:
   StorageBlocks.blocks_coherent_any), any n and step lengths.  With start level = end level and no inflow (where the
   implementation's rows are right; the other cases are known findings) the physical level of the WHOLE history is within
   [0, size] inside every block and back at the end level at the last step of every block. *)
Theorem C05_time_blocks :
  forall p n dt x aa, n = List.length dt ->
  sp_inflow p == 0 -> sp_start p == sp_end p ->
  Forall (row_ok x) (st_block_rows p n dt aa) ->
  forall t, (t < n)%nat ->
    (blk_last aa t = true -> level p n dt x t == sp_end p) /\
    (blk_last aa t = false -> 0 <= level p n dt x t /\ level p n dt x t <= sp_size p).
Proof. exact block_physics_any. Qed.
Print Assumptions C05_time_blocks.

(* ... and without "start level = end level" the statement is FALSE of the faithful model (known finding of the unchanged tree,
   reported as KNOWN-FINDING by the check with the replay on the implementation): a point that satisfies all rows and bounds
   and whose level is below zero. *)
Theorem C05_time_blocks_start_differs_from_end_refuted :
  exists p n dt aa x t, n = List.length dt /\ blocks_coherent aa n = true /\ sp_inflow p == 0 /\ storage_ctor_ok p = true /\
    Forall (row_ok x) (st_block_rows p n dt aa) /\ in_box (st_l p n dt) (st_u p n dt) x /\ (t < n)%nat /\
    level p n dt x t < 0.
Proof. exact blocks_start_ne_end_refuted. Qed.
Print Assumptions C05_time_blocks_start_differs_from_end_refuted.

(* Maximum holding duration (assets.py:513-548), for the problem the builder returns, any grid and step lengths: with start level 0
   and no inflow (the other cases are known findings) and binary "non-empty" indicators, every window of steps  i .. i+k  whose
   accumulated duration exceeds the maximum (md_js: the steps within the duration plus the first one beyond) contains a step at
   which the physical level is not above zero - the level is never non-zero for longer than the duration. *)
Theorem C05_holding_duration :
  forall g rg p a md,
  storage g rg p = Some a -> sp_no_simult p = false -> sp_max_dur p = Some md -> rg_T rg <> 0%nat ->
  List.length (rg_dt rg) = rg_T rg -> sp_start p == 0 -> sp_inflow p == 0 ->
  exists m, forall x,
    Forall (row_ok x) (lp_rows (ap_lp a)) ->
    (forall t, (t < rg_T rg)%nat -> nth (m + t) x 0 == 0 \/ nth (m + t) x 0 == 1) ->
    forall i js, (i < rg_T rg)%nat -> md_js (rg_dt rg) md i = Some js ->
      exists j, In j js /\ (i + j < rg_T rg)%nat /\ level p (rg_T rg) (rg_dt rg) x (i + j) <= 0.
Proof. exact storage_holding_duration. Qed.
Print Assumptions C05_holding_duration.

(* with an end level >= 0 (what the constructor accepts) the level is exactly zero there: the storage is empty at some step of every
   such window *)
Theorem C05_holding_duration_level_zero :
  forall g rg p a md,
  storage g rg p = Some a -> sp_no_simult p = false -> sp_max_dur p = Some md -> rg_T rg <> 0%nat ->
  List.length (rg_dt rg) = rg_T rg -> sp_start p == 0 -> sp_inflow p == 0 -> 0 <= sp_end p ->
  exists m, forall x,
    Forall (row_ok x) (lp_rows (ap_lp a)) ->
    (forall t, (t < rg_T rg)%nat -> nth (m + t) x 0 == 0 \/ nth (m + t) x 0 == 1) ->
    forall i js, (i < rg_T rg)%nat -> md_js (rg_dt rg) md i = Some js ->
      exists j, In j js /\ (i + j < rg_T rg)%nat /\ level p (rg_T rg) (rg_dt rg) x (i + j) == 0.
Proof. exact storage_holding_duration_zero. Qed.
Print Assumptions C05_holding_duration_level_zero.

(* ... and with a start level above zero the statement is FALSE of the faithful model (known finding of the unchanged tree,
   reported as KNOWN-FINDING by the check): all rows satisfied, indicators binary, level above zero at every step of a window. *)
Theorem C05_holding_duration_with_start_level_refuted :
  exists p n m dt md x i js, n = List.length dt /\ sp_inflow p == 0 /\ storage_ctor_ok p = true /\ sp_max_dur p = Some md /\
    Forall (row_ok x) (md_rows1 m n (st_rows p n dt) ++ flat_map (md_win m dt md) (seq 0 n)) /\
    (forall t, (t < n)%nat -> nth (m + t) x 0 == 0 \/ nth (m + t) x 0 == 1) /\
    (i < n)%nat /\ md_js dt md i = Some js /\ forall j, In j js -> 0 < level p n dt x (i + j).
Proof. exact holding_duration_start_level_refuted. Qed.
Print Assumptions C05_holding_duration_with_start_level_refuted.

(* no simultaneous charge and discharge when the mode variable is binary *)
Theorem C05_no_simultaneous :
  forall name n cp ct I a x i, (i < n)%nat ->
  Forall (row_ok x) (lp_rows (ap_lp (add_no_simult name n cp ct I a))) ->
  nth i x 0 <= 0 -> 0 <= nth (n + i) x 0 ->
  (nth (nvars (ap_lp a) + i) x 0 == 0 \/ nth (nvars (ap_lp a) + i) x 0 == 1) ->
  nth i x 0 == 0 \/ nth (n + i) x 0 == 0.
Proof. exact no_simult_exclusive. Qed.
Print Assumptions C05_no_simultaneous.

(* non-vacuity: efficiency 1/2, inflow 1/4 per unit, steps of different length; a feasible schedule *)
Definition exp : storage_p :=
  Build_storage_p "s" ["n"]%string 4 2 2 1 1 0 0 0 (1#2) (1#4) None false None.
Example C05_nonvacuous :
  let dt := [1; 2; 1] in
  let x := [-2; 0; 0; 0; 1; (1#1)] in
  Forall (row_ok x) (st_rows exp 3 dt) /\ in_box (st_l exp 3 dt) (st_u exp 3 dt) x /\
  level exp 3 dt x 0 == 9#4 /\ level exp 3 dt x 2 == 1.
Proof.
  cbv zeta. split; [|split; [|split]].
  - set (r := st_rows _ _ _). vm_compute in r. subst r. repeat constructor; vm_compute; intuition discriminate.
  - vm_compute. intuition discriminate.
  - vm_compute. reflexivity.
  - vm_compute. reflexivity.
Qed.
Example C05_ctor_nonvacuous : storage_ctor_ok exp = true /\
  storage_ctor_ok (Build_storage_p "s" ["n"]%string 4 2 2 3 (9#2) 0 0 0 1 0 None false None) = false.
Proof. split; vm_compute; reflexivity. Qed.
(* blocks [0,2) [2,4): charge 1, discharge 1 in each block; level 2,1,2,1 with start = end = 1 *)
Example C05_blocks_nonvacuous :
  let p := Build_storage_p "s" ["n"]%string 4 2 2 1 1 0 0 0 1 0 None false None in
  let x := [-1; 1; -1; 1] in
  blocks_coherent [0; 2; 4]%nat 4 = true /\ Forall (row_ok x) (st_block_rows p 4 [1; 1; 1; 1] [0; 2; 4]%nat) /\
  level p 4 [1; 1; 1; 1] x 2 == 2 /\ blk_last [0; 2; 4]%nat 1 = true.
Proof.
  cbv zeta. split; [|split; [|split]].
  - vm_compute. reflexivity.
  - set (r := st_block_rows _ _ _ _). vm_compute in r. subst r. repeat constructor; vm_compute; intuition discriminate.
  - vm_compute. reflexivity.
  - vm_compute. reflexivity.
Qed.
(* holding duration 1 on steps of length 1: every window is two consecutive steps; three steps of length 1, 1/2, 1: the window of
   the first step reaches the third *)
Example C05_duration_nonvacuous :
  md_js [1; 1; 1] 1 0 = Some [0; 1]%nat /\ md_js [1; 1; 1] 1 2 = None /\ md_js [1; (1#2); 1] (3#2) 0 = Some [0; 1; 2]%nat /\
  (* charge 1, discharge 1, rest; indicators 1, 0, 0: all rows of the problem with holding duration 1 are satisfied *)
  let p := Build_storage_p "s" ["n"]%string 4 2 2 0 0 0 0 0 1 0 None false (Some 1) in
  Forall (row_ok [-1; 1; 0; 1; 0; 0]) (md_rows1 3 3 (st_rows p 3 [1; 1; 1]) ++ flat_map (md_win 3 [1; 1; 1] 1) (seq 0 3)).
Proof.
  split; [vm_compute; reflexivity|]. split; [vm_compute; reflexivity|]. split; [vm_compute; reflexivity|].
  cbv zeta. set (r := _ ++ _). vm_compute in r. subst r. repeat constructor; vm_compute; intuition discriminate.
Qed.
