(* C06 — Plant/CHP unit commitment: run time, down time, ramps, starts, heat and fuel.
   Model: Plant.v (CHPAsset / Plant incl. start / shutdown ramp profiles given in the frequency of the grid), compared with the
   implementation per instance.
   Theorems (any number of steps T, any durations): the rows are stated as the inequalities Plant.v emits (row shapes proved in
   PlantProofs.v / PlantProfiles.v).  Profiles in another frequency than the grid's: Ramp.v (interpolation / time-weighted averaging), see the end of this file.
   Partial: separate heat profiles and the interplay
   "initial obligations by bounds" are covered by the correspondence of the model builder and by the implementation oracle only. *)
From Coq Require Import QArith Qabs ZArith List Bool Lqa.
From EAO Require Import Num LP Plant PlantProofs PlantRows PlantProfiles Ramp.
Import ListNotations.
Open Scope Q_scope.

(* the on/off patterns that admit start flags satisfying the start and run-time rows are EXACTLY those in which every run
   begun inside the horizon (or at its first step when declared off before) lasts at least R steps or reaches the end *)
Theorem C06_min_runtime_exact :
  forall T R tar on, binary on T ->
  ((exists st, binary st T /\ start_rows T tar on st /\ runtime_rows T R on st) <-> runtime_spec T R tar on).
Proof. exact runtime_exact. Qed.
Print Assumptions C06_min_runtime_exact.

(* ... and the down-time rows hold EXACTLY for the patterns in which every stop (incl. a stop at the first step of a unit
   declared running) lasts at least D steps or reaches the end *)
Theorem C06_min_downtime_exact :
  forall T D toff on, binary on T -> (downtime_rows T D toff on <-> downtime_spec T D toff on).
Proof. exact downtime_exact. Qed.
Print Assumptions C06_min_downtime_exact.

Theorem C06_capacity_when_on_off :
  forall (p h cf mn mx on : Q), 0 <= p -> 0 <= h -> 0 <= cf -> (on == 0 \/ on == 1) ->
  0 <= p + cf * h - mn * on -> p + cf * h - mx * on <= 0 ->
  (on == 0 -> p == 0 /\ cf * h == 0) /\ (on == 1 -> mn <= p + cf * h /\ p + cf * h <= mx).
Proof. exact capacity_when_on_off. Qed.
Print Assumptions C06_capacity_when_on_off.

Theorem C06_ramp_between_steps :
  forall (v0 v1 on0 on1 r : Q), 0 <= r -> (on0 == 0 \/ on0 == 1) -> (on1 == 0 \/ on1 == 1) ->
  0 <= v1 - v0 + r * on0 -> v1 - v0 - r * on1 <= 0 -> Qabs (v1 - v0) <= r.
Proof. exact ramp_between_steps. Qed.
Print Assumptions C06_ramp_between_steps.

Theorem C06_first_step_ramp :
  forall (v0 last on0 r : Q) (running_before : bool), 0 <= r -> (on0 == 0 \/ on0 == 1) ->
  (if running_before then last - r else last) <= v0 -> v0 - r * on0 <= last ->
  (if running_before then Qabs (v0 - last) <= r else last <= v0 /\ v0 <= last + r).
Proof. exact first_step_ramp. Qed.
Print Assumptions C06_first_step_ramp.

(* start flags dominate the transitions (equal the first state for a unit declared off); replacing them by the flags set exactly
   at the off-to-on transitions keeps all rows satisfied and never raises a flag: with positive start costs or start fuel an
   optimal solution charges a start exactly at the transitions *)
Theorem C06_start_flags :
  forall T R tar on st, binary on T -> start_rows T tar on st -> runtime_rows T R on st ->
  (forall i, (S i < T)%nat -> on (S i) - on i <= st (S i)) /\
  (tar = 0%nat -> (0 < T)%nat -> st 0%nat == on 0%nat) /\
  start_rows T tar on (st_min tar on) /\ runtime_rows T R on (st_min tar on) /\
  (forall t, (t < T)%nat -> 0 <= st t -> st_min tar on t <= st t \/ (t = 0%nat /\ tar <> 0%nat)).
Proof. exact start_flags. Qed.
Print Assumptions C06_start_flags.

Theorem C06_heat_share : forall (p h share : Q), h - share * p <= 0 -> h <= share * p.
Proof. exact heat_share. Qed.
Print Assumptions C06_heat_share.

Theorem C06_fuel_balance :
  forall (p h cf eff cons sf on st : Q), ~ eff == 0 ->
  (-1 / eff) * p + (- cf / eff) * h + (- cons) * on + (- sf) * st == - ((p + cf * h) / eff + cons * on + sf * st).
Proof. exact fuel_balance. Qed.
Print Assumptions C06_fuel_balance.

(* the same statements for the ROWS THE MODEL BUILDER EMITS (Plant.pl_rows_dt / pl_rows_start / pl_rows_rt): a point whose on
   variables are binary satisfies the down-time rows iff its pattern respects the minimum down time; if it satisfies the start
   and run-time rows its pattern respects the minimum run time *)
Theorem C06_plant_downtime_rows_exact :
  forall x on_idx T D toff, binary (var_at x on_idx) T ->
  (Forall (row_ok x) (pl_rows_dt on_idx T D toff) <-> downtime_spec T D toff (var_at x on_idx)).
Proof. exact plant_downtime_rows_exact. Qed.
Print Assumptions C06_plant_downtime_rows_exact.
Theorem C06_plant_runtime_rows_sound :
  forall x on_idx start_idx T R tar, (0 < T)%nat -> binary (var_at x on_idx) T ->
  Forall (row_ok x) (pl_rows_start on_idx start_idx T tar) -> Forall (row_ok x) (pl_rows_rt on_idx start_idx T R) ->
  runtime_spec T R tar (var_at x on_idx).
Proof. exact plant_runtime_rows_sound. Qed.
Print Assumptions C06_plant_runtime_rows_sound.

(* ---------- start / shutdown ramp profiles take precedence (capacity rows of Plant.v with their profile terms) ---------- *)
(* the capacity rows of step i:  0 <= v - min_cap*on + terms_lo,  v - max_cap*on + terms_hi <= 0  (row shape: C06_cap_row_shape) *)
Theorem C06_cap_row_shape :
  forall (vr : srow) (onp : nat) (cap : Q) (terms : srow) x,
  sdot (vr ++ [(onp, - cap)] ++ terms) x == sdot vr x - cap * nth onp x 0 + sdot terms x.
Proof. exact cap_row_shape. Qed.
Print Assumptions C06_cap_row_shape.

(* no start flag within reach behind step i and no shutdown flag within reach ahead: ordinary capacity bounds *)
Theorem C06_capacity_outside_profiles :
  forall start_idx shut_idx T i minc maxc sr_lo sr_hi sd_lo sd_hi x v on,
  0 <= v - minc * on + sdot (pl_profile_terms start_idx shut_idx T i minc sr_lo sd_lo) x ->
  v - maxc * on + sdot (pl_profile_terms start_idx shut_idx T i maxc sr_hi sd_hi) x <= 0 ->
  List.length sr_hi = List.length sr_lo -> List.length sd_hi = List.length sd_lo ->
  (forall j, (j < List.length sr_lo)%nat -> (j <= i)%nat -> nth (start_idx + i - j) x 0 == 0) ->
  (forall j, (j < List.length sd_lo)%nat -> (i + j + 1 < T)%nat -> nth (shut_idx + i + j + 1) x 0 == 0) ->
  minc * on <= v /\ v <= maxc * on.
Proof. exact capacity_outside_profiles. Qed.
Print Assumptions C06_capacity_outside_profiles.

(* on, started j0 steps ago, no other flag within reach: the j0-th values of the start profile bound the output *)
Theorem C06_start_profile_bounds :
  forall start_idx shut_idx T i minc maxc sr_lo sr_hi sd_lo sd_hi x v on,
  0 <= v - minc * on + sdot (pl_profile_terms start_idx shut_idx T i minc sr_lo sd_lo) x ->
  v - maxc * on + sdot (pl_profile_terms start_idx shut_idx T i maxc sr_hi sd_hi) x <= 0 ->
  List.length sr_hi = List.length sr_lo -> List.length sd_hi = List.length sd_lo ->
  forall j0, on == 1 -> (j0 < List.length sr_lo)%nat -> (j0 <= i)%nat -> nth (start_idx + i - j0) x 0 == 1 ->
  (forall j, (j < List.length sr_lo)%nat -> (j <= i)%nat -> j <> j0 -> nth (start_idx + i - j) x 0 == 0) ->
  (forall j, (j < List.length sd_lo)%nat -> (i + j + 1 < T)%nat -> nth (shut_idx + i + j + 1) x 0 == 0) ->
  nth j0 sr_lo 0 <= v /\ v <= nth j0 sr_hi 0.
Proof. exact start_profile_bounds. Qed.
Print Assumptions C06_start_profile_bounds.

(* on, turning off j0+1 steps later, no other flag within reach: the j0-th values of the shutdown profile bound the output *)
Theorem C06_shutdown_profile_bounds :
  forall start_idx shut_idx T i minc maxc sr_lo sr_hi sd_lo sd_hi x v on,
  0 <= v - minc * on + sdot (pl_profile_terms start_idx shut_idx T i minc sr_lo sd_lo) x ->
  v - maxc * on + sdot (pl_profile_terms start_idx shut_idx T i maxc sr_hi sd_hi) x <= 0 ->
  List.length sr_hi = List.length sr_lo -> List.length sd_hi = List.length sd_lo ->
  forall j0, on == 1 -> (j0 < List.length sd_lo)%nat -> (i + j0 + 1 < T)%nat -> nth (shut_idx + i + j0 + 1) x 0 == 1 ->
  (forall j, (j < List.length sd_lo)%nat -> (i + j + 1 < T)%nat -> j <> j0 -> nth (shut_idx + i + j + 1) x 0 == 0) ->
  (forall j, (j < List.length sr_lo)%nat -> (j <= i)%nat -> nth (start_idx + i - j) x 0 == 0) ->
  nth j0 sd_lo 0 <= v /\ v <= nth j0 sd_hi 0.
Proof. exact shutdown_profile_bounds. Qed.
Print Assumptions C06_shutdown_profile_bounds.

(* the ramp rows with their release terms (Plant.ramp_shut_terms / ramp_start_terms): without a flag in reach the ramp applies, with a
   flag in reach the row follows from 0 <= output <= maximum capacity, i.e. the profile takes precedence *)
Theorem C06_ramp_down_applies :
  forall shut_idx T t Dn rmp maxc_prev x v_t v_prev on_prev,
  0 <= v_t - v_prev + rmp * on_prev + sdot (ramp_shut_terms shut_idx T t Dn (maxc_prev - rmp)) x ->
  (forall i, (i < Dn)%nat -> (t + i < T)%nat -> nth (shut_idx + t + i) x 0 == 0) ->
  v_prev - v_t <= rmp * on_prev.
Proof. exact ramp_down_applies. Qed.
Print Assumptions C06_ramp_down_applies.
Theorem C06_ramp_down_released :
  forall shut_idx T t Dn rmp maxc_prev x v_t v_prev on_prev i0,
  (i0 < Dn)%nat -> (t + i0 < T)%nat -> nth (shut_idx + t + i0) x 0 == 1 ->
  (forall i, (i < Dn)%nat -> (t + i < T)%nat -> i <> i0 -> nth (shut_idx + t + i) x 0 == 0) ->
  on_prev == 1 -> 0 <= v_t -> v_prev <= maxc_prev ->
  0 <= v_t - v_prev + rmp * on_prev + sdot (ramp_shut_terms shut_idx T t Dn (maxc_prev - rmp)) x.
Proof. exact ramp_down_released. Qed.
Print Assumptions C06_ramp_down_released.
Theorem C06_ramp_up_applies :
  forall start_idx t S rmp maxc_t x v_t v_prev on_t,
  v_t - v_prev - rmp * on_t + sdot (ramp_start_terms start_idx t S (rmp - maxc_t)) x <= 0 ->
  (forall i, (i < S)%nat -> (i <= t)%nat -> nth (start_idx + t - i) x 0 == 0) ->
  v_t - v_prev <= rmp * on_t.
Proof. exact ramp_up_applies. Qed.
Print Assumptions C06_ramp_up_applies.
Theorem C06_ramp_up_released :
  forall start_idx t S rmp maxc_t x v_t v_prev on_t i0,
  (i0 < S)%nat -> (i0 <= t)%nat -> nth (start_idx + t - i0) x 0 == 1 ->
  (forall i, (i < S)%nat -> (i <= t)%nat -> i <> i0 -> nth (start_idx + t - i) x 0 == 0) ->
  on_t == 1 -> 0 <= v_prev -> v_t <= maxc_t ->
  v_t - v_prev - rmp * on_t + sdot (ramp_start_terms start_idx t S (rmp - maxc_t)) x <= 0.
Proof. exact ramp_up_released. Qed.
Print Assumptions C06_ramp_up_released.

(* start and shutdown flags defined together (and kept apart in every step): they are exactly the transitions *)
Theorem C06_start_shutdown_flags_exact :
  forall on_t on_prev st sh : Q,
  on_t - on_prev - st + sh == 0 -> st + sh <= 1 -> 0 <= st -> 0 <= sh ->
  (on_t == 0 \/ on_t == 1) -> (on_prev == 0 \/ on_prev == 1) -> (st == 0 \/ st == 1) -> (sh == 0 \/ sh == 1) ->
  (st == 1 <-> (on_prev == 0 /\ on_t == 1)) /\ (sh == 1 <-> (on_prev == 1 /\ on_t == 0)).
Proof. exact startshut_flags_exact. Qed.
Print Assumptions C06_start_shutdown_flags_exact.
(* without the row  st + sh <= 1  both flags can be set while the unit stays on (the defect repaired in /repo, e2b7e16) *)
Example C06_flags_without_separation_refuted :
  exists on_t on_prev st sh : Q, on_t - on_prev - st + sh == 0 /\ on_t == 1 /\ on_prev == 1 /\ st == 1 /\ sh == 1.
Proof. exists 1, 1, 1, 1. repeat split; reflexivity. Qed.

(* non-vacuity of the profile theorems: step 3, started at step 2 (one step ago), profile [1/2; 1] .. [3/4; 3/2], capacity 2 .. 4 *)
Example C06_profiles_nonvacuous :
  let x := [0; 0; 0; (5#4);  0; 0; 1; 0;  0; 0; 0; 0] in
  let v := nth 3 x 0 in
  0 <= v - 2 * 1 + sdot (pl_profile_terms 4 8 4 3 2 [1#2; 1] []) x /\
  v - 4 * 1 + sdot (pl_profile_terms 4 8 4 3 4 [3#4; 3#2] []) x <= 0 /\ nth (4 + 3 - 1) x 0 == 1.
Proof. cbv zeta. split; [|split]; vm_compute; intuition discriminate. Qed.

(* non-vacuity: T = 5, minimum run time 3, off before: the pattern 0 1 1 1 0 is admissible, 0 1 1 0 0 is not *)
Definition pat (l : list Q) : nat -> Q := fun t => nth t l 0.
Example C06_nonvacuous :
  runtime_spec 5 3 0 (pat [0; 1; 1; 1; 0]) /\ ~ runtime_spec 5 3 0 (pat [0; 1; 1; 0; 0]).
Proof.
  split.
  - intros s Hs [Hon Hprev] k Hk Hsk. destruct s as [|[|[|[|[|s]]]]]; cbn in Hon, Hprev; try (exfalso; Lia.lia);
      try (exfalso; unfold Qeq in *; cbn in *; discriminate);
      destruct k as [|[|[|k]]]; cbn; try reflexivity; exfalso; Lia.lia.
  - intros H. specialize (H 1%nat ltac:(Lia.lia)). cbn in H.
    assert (Sw : switch_on 0 (pat [0; 1; 1; 0; 0]) 1) by (split; cbn; reflexivity).
    specialize (H Sw 2%nat ltac:(Lia.lia) ltac:(Lia.lia)). cbn in H. unfold Qeq in H. cbn in H. discriminate.
Qed.

(* start / shutdown ramp profiles given in another frequency than the grid's (CHPAsset._convert_ramp, modelled in Ramp.v and compared
   with the implementation per instance): whatever the ratio of the two frequencies - interpolation when the grid is finer,
   time-weighted averages when the profile is finer - every value of the converted profile lies within the range of the given
   profile, and the converted profile covers the same time (ceil(n / ct) grid steps for n profile steps; ct = grid step in
   profile steps) *)
Theorem C06_profile_conversion_within :
  forall lo hi ramp ct, ramp <> [] -> Ramp.within lo hi ramp -> Ramp.within lo hi (Ramp.convert_ramp ramp ct).
Proof. exact Ramp.convert_ramp_within. Qed.
Print Assumptions C06_profile_conversion_within.
Theorem C06_profile_conversion_length :
  forall ramp ct, List.length (Ramp.convert_ramp ramp ct) = Ramp.ceil_nat (Ramp.qnat (List.length ramp) / ct).
Proof. exact Ramp.convert_ramp_length. Qed.
Print Assumptions C06_profile_conversion_length.
(* where the grid is k times finer than the profile (ct = 1/k) the interpolated profile takes the given value i exactly at the end of
   profile step i, i.e. at grid step (i+1) k (index (i+1) k - 1) *)
Theorem C06_profile_conversion_exact_at_knots :
  forall ramp (k : nat) i, (0 < k)%nat -> (i < List.length ramp)%nat ->
  nth (S i * k - 1) (Ramp.convert_fine ramp (/ Ramp.qnat k)) 0 == nth i ramp 0.
Proof. exact Ramp.convert_fine_at_knots. Qed.
Print Assumptions C06_profile_conversion_exact_at_knots.
(* where a grid step is exactly m profile steps long (ct = m) grid step i carries the plain mean of the m profile values it covers
   (the profile padded with its last value) *)
Theorem C06_profile_conversion_exact_means :
  forall ramp (m : nat) i, (0 < m)%nat -> (i < Ramp.ceil_nat (Ramp.qnat (List.length ramp) / Ramp.qnat m))%nat ->
  nth i (Ramp.convert_coarse ramp (Ramp.qnat m)) 0 ==
  qsum (map (fun j => nth j (ramp ++ repeat (last ramp 0) m) (last ramp 0)) (seq (i * m) m)) / Ramp.qnat m.
Proof. exact Ramp.convert_coarse_exact_means. Qed.
Print Assumptions C06_profile_conversion_exact_means.
Example C06_profile_conversion_nonvacuous :
  Ramp.convert_ramp [1; 3; 4] (1#2) = [1; 1; 2; 3; 7 # 2; 4] /\ Ramp.convert_ramp [1; 3; 4; 8; 2] (3#2) = [5 # 3; 11 # 3; 6; 2] /\
  Ramp.convert_ramp [1; 3; 4] 1 = [1; 3; 4] /\ Ramp.within 1 4 [1; 3; 4].
Proof. repeat split; try (vm_compute; reflexivity). repeat constructor; cbn; lra. Qed.
