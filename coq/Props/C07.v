(* C07 — the variable mapping is a faithful description of the assembled problem. *)
From Coq Require Import QArith List String Bool.
From EAO Require Import Num LP Mapping Dcf Assets Portfolio Split.
Import ListNotations.
Open Scope Q_scope.

(* For EVERY list of asset problems (any number of assets, any sizes): *)

(* one entry per variable in c, l, u and every row within the variables *)
Theorem C07_assembled_wf :
  forall aps, Forall (fun a => wf_lp (ap_lp a)) aps -> wf_lp (ap_lp (assemble aps)).
Proof. exact assemble_wf_lp. Qed.
Print Assumptions C07_assembled_wf.

(* costs and bounds are exactly those the assets computed, in asset order *)
Theorem C07_vectors_are_the_assets :
  forall aps,
  lp_c (ap_lp (assemble aps)) = List.concat (map (fun a => lp_c (ap_lp a)) aps) /\
  lp_l (ap_lp (assemble aps)) = List.concat (map (fun a => lp_l (ap_lp a)) aps) /\
  lp_u (ap_lp (assemble aps)) = List.concat (map (fun a => lp_u (ap_lp a)) aps).
Proof. intro aps. split; [apply assemble_c|split; [apply assemble_l|apply assemble_u]]. Qed.
Print Assumptions C07_vectors_are_the_assets.

(* every mapping row points to an existing variable carrying the asset's own cost and bounds
   (head asset; the rows of later assets are the shifted rows, next theorem) *)
Theorem C07_row_points_to_own_variable :
  forall a rest r, wf_lp (ap_lp a) -> In r (ap_map a) -> (m_var r < nvars (ap_lp a))%nat ->
  In r (ap_map (assemble (a :: rest))) /\
  nth (m_var r) (lp_c (ap_lp (assemble (a :: rest)))) 0 = nth (m_var r) (lp_c (ap_lp a)) 0 /\
  nth (m_var r) (lp_l (ap_lp (assemble (a :: rest)))) 0 = nth (m_var r) (lp_l (ap_lp a)) 0 /\
  nth (m_var r) (lp_u (ap_lp (assemble (a :: rest)))) 0 = nth (m_var r) (lp_u (ap_lp a)) 0.
Proof. exact assemble_row_points. Qed.
Print Assumptions C07_row_points_to_own_variable.

Theorem C07_row_points_shifted :
  forall a rest r, wf_lp (ap_lp a) -> In r (ap_map (assemble rest)) ->
  In (shift_mrow (nvars (ap_lp a)) r) (ap_map (assemble (a :: rest))) /\
  nth (m_var (shift_mrow (nvars (ap_lp a)) r)) (lp_c (ap_lp (assemble (a :: rest)))) 0 = nth (m_var r) (lp_c (ap_lp (assemble rest))) 0 /\
  nth (m_var (shift_mrow (nvars (ap_lp a)) r)) (lp_l (ap_lp (assemble (a :: rest)))) 0 = nth (m_var r) (lp_l (ap_lp (assemble rest))) 0 /\
  nth (m_var (shift_mrow (nvars (ap_lp a)) r)) (lp_u (ap_lp (assemble (a :: rest)))) 0 = nth (m_var r) (lp_u (ap_lp (assemble rest))) 0.
Proof. exact assemble_row_points_shift. Qed.
Print Assumptions C07_row_points_shifted.

(* the assembled mapping is well formed: rows name an asset of the portfolio, an existing variable,
   a step on the grid; a variable belongs to one asset; variables with cost have a row *)
Theorem C07_assembled_mapping_wf :
  forall T names aps, NoDup names -> Forall2 (wf_asset T) names aps ->
  wf_map (nvars (ap_lp (assemble aps))) T (lp_c (ap_lp (assemble aps))) names (ap_map (assemble aps)).
Proof. exact assemble_wf_map. Qed.
Print Assumptions C07_assembled_mapping_wf.

(* exactly one nodal row per (node, step) that has dispatch *)
Theorem C07_nodal_rows_exact :
  forall nodes skip steps mp t n,
  In (t, n) (nodal_map nodes skip steps mp) <->
  In n nodes /\ existsb (String.eqb n) skip = false /\ In t steps /\ exists r, In r mp /\ sel n t r = true.
Proof. exact nodal_map_in. Qed.
Print Assumptions C07_nodal_rows_exact.
Theorem C07_nodal_rows_unique :
  forall nodes skip steps mp, NoDup nodes -> NoDup steps -> NoDup (nodal_map nodes skip steps mp).
Proof. exact nodal_map_nodup. Qed.
Print Assumptions C07_nodal_rows_unique.

(* ---------- the stand-alone problems of the model builders are well formed (corollaries of the C02 instance theorems, Reference.v):
   bounds and rows have one entry per variable / refer to existing variables, every mapping row names the asset and an existing variable ---------- *)
From Coq Require Import QArith.
From EAO Require Import Grid Assets Reference.
Open Scope Q_scope.
Theorem C07_transport_builder_wf :
  forall g rg p a, transport g rg p = Some a -> rg_minor rg = None ->
  List.length (rg_dt rg) = rg_T rg -> List.length (rg_disc rg) = rg_T rg ->
  List.length (transport_costs g rg p) = rg_T rg -> String.eqb (tp_n1 p) (tp_n2 p) = false ->
  wf_lp (ap_lp a) /\ Forall (fun r => m_asset r = tp_name p /\ (m_var r < nvars (ap_lp a))%nat) (ap_map a).
Proof. exact transport_builder_wf. Qed.
Print Assumptions C07_transport_builder_wf.

Theorem C07_storage_builder_wf :
  forall g rg p a, storage g rg p = Some a -> rg_minor rg = None -> sp_no_simult p = false -> sp_max_dur p = None ->
  rg_T rg <> 0%nat -> List.length (rg_dt rg) = rg_T rg -> List.length (rg_disc rg) = rg_T rg ->
  match sp_price p with Some v => List.length v = g_T g | None => True end ->
  wf_lp (ap_lp a) /\ Forall (fun r => m_asset r = sp_name p /\ (m_var r < nvars (ap_lp a))%nat) (ap_map a).
Proof. exact storage_builder_wf. Qed.
Print Assumptions C07_storage_builder_wf.

Theorem C07_contract_builder_wf :
  forall g rg p a maxc minc ec, simple_contract g rg p = Some a -> rg_minor rg = None ->
  mkvec rg (cp_max p) None true = Some maxc -> mkvec rg (cp_min p) None true = Some minc ->
  mkvec rg (cp_extra p) (Some 0) false = Some ec ->
  List.length maxc = rg_T rg -> List.length minc = rg_T rg -> List.length ec = rg_T rg -> List.length (rg_disc rg) = rg_T rg ->
  (forall t, (t < rg_T rg)%nat -> 0 <= nth t ec 0) -> (forall t, (t < rg_T rg)%nat -> 0 <= nth t (rg_disc rg) 0) ->
  wf_lp (ap_lp a) /\ Forall (fun r => m_asset r = cp_name p /\ (m_var r < nvars (ap_lp a))%nat) (ap_map a).
Proof. exact contract_builder_wf. Qed.
Print Assumptions C07_contract_builder_wf.

(* split set-up (Portfolio.setup_split_optim_problem): the joint mapping re-bases the mapping of every interval problem.  Every row of
   it points into the variable block of ITS OWN interval - the k-th block starts after the variables of the k earlier intervals -
   and to a step of that interval's list of original steps *)
Theorem C07_split_rows_point_into_their_interval :
  forall parts off,
  Forall (fun Ia => Forall (fun r => (m_step r < List.length (fst Ia))%nat /\ (m_var r < nvars (ap_lp (snd Ia)))%nat) (ap_map (snd Ia))) parts ->
  Forall (fun r => exists k Ia, nth_error parts k = Some Ia /\
                   (off + off_at parts k <= m_var r < off + off_at parts k + part_nv Ia)%nat /\ In (m_step r) (fst Ia))
         (split_map parts off).
Proof. exact split_map_own_block. Qed.
Print Assumptions C07_split_rows_point_into_their_interval.
Example C07_split_nonvacuous :
  let a1 := {| ap_lp := Build_lp [1; 2] [0; 0] [1; 1] []; ap_map := [Build_mrow 1 "a"%string (Some "N"%string) "d"%string 0 1 "disp"%string false] |} in
  let a2 := {| ap_lp := Build_lp [3] [0] [1] []; ap_map := [Build_mrow 0 "a"%string (Some "N"%string) "d"%string 1 1 "disp"%string false] |} in
  map (fun r => (m_var r, m_step r)) (split_map [([0; 1]%nat, a1); ([2; 3]%nat, a2)] 0) = [(1, 0); (2, 3)]%nat.
Proof. vm_compute. reflexivity. Qed.
