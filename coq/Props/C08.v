(* C08 — only what lies inside the horizon and inside an asset's window matters. *)
From Coq Require Import QArith ZArith List String Bool Lia.
From EAO Require Import Num LP Mapping Grid GridProofs Assets Portfolio Inert.
Import ListNotations.
Open Scope Q_scope.

(* an asset is dispatched only within its window clipped to the horizon: its restricted grid is
   exactly the set of horizon steps in [start, end) *)
Theorem C08_window_steps :
  forall g s e i, In i (restrict_I g s e) <-> (i < g_T g)%nat /\ (s <= pt g i)%Z /\ (pt g i < e)%Z.
Proof. exact restrict_spec. Qed.
Print Assumptions C08_window_steps.

(* a window entirely outside the horizon selects nothing *)
Theorem C08_outside_selects_nothing :
  forall g s e, (forall i, (i < g_T g)%nat -> (pt g i < s)%Z \/ (e <= pt g i)%Z) -> restrict_I g s e = [].
Proof. exact restrict_outside. Qed.
Print Assumptions C08_outside_selects_nothing.

(* an asset without variables and rows (what an out-of-horizon asset produces) is inert in the assembly *)
Lemma assemble_empty_tail aps : assemble (aps ++ [ap_empty]) = assemble aps.
Proof.
  induction aps as [|a rest IH]; cbn [app assemble].
  - unfold lp_sum, ap_empty; cbn. reflexivity.
  - rewrite IH. reflexivity.
Qed.
Theorem C08_empty_asset_inert : forall aps, assemble (aps ++ [ap_empty]) = assemble aps.
Proof. exact assemble_empty_tail. Qed.
Print Assumptions C08_empty_asset_inert.

(* a take period with no grid point inside emits no row; otherwise its right-hand side is the
   value prorated by covered duration / full duration *)
Lemma take_row_outside g rg mp node ty s e v :
  (forall p, In p (rg_tp rg) -> in_window s e p = false) -> take_row g rg mp node ty (s, e, v) = [].
Proof.
  intros H. unfold take_row.
  assert (E : filter (fun p => in_window s e (fst p)) (combine (rg_tp rg) (rg_I rg)) = []).
  { generalize (rg_I rg). induction (rg_tp rg) as [|p tp IH]; intros [|i I]; cbn [combine filter]; auto.
    cbn [fst]. rewrite (H p) by (left; reflexivity). apply IH. intros q Hq. apply H. right. exact Hq. }
  rewrite E. reflexivity.
Qed.
Theorem C08_take_outside_inert :
  forall g rg mp node ty s e v,
  (forall p, In p (rg_tp rg) -> in_window s e p = false) -> take_row g rg mp node ty (s, e, v) = [].
Proof. exact take_row_outside. Qed.
Print Assumptions C08_take_outside_inert.

Lemma take_row_rhs g rg mp node ty s e v r :
  In r (take_row g rg mp node ty (s, e, v)) ->
  exists steps, r_b r == v / qz (e - s) (g_unit g) * qsum (pick 0 (g_dt g) steps) /\ r_t r = ty.
Proof.
  unfold take_row. destruct (flat_map _ _) as [|r0 rows] eqn:E; [intros []|].
  intros [<-|[]]. cbn [r_b r_t]. eexists. split; [|reflexivity].
  rewrite Qred_correct, qsumx_spec. reflexivity.
Qed.
Theorem C08_take_prorated :
  forall g rg mp node ty s e v r, In r (take_row g rg mp node ty (s, e, v)) ->
  exists steps, r_b r == v / qz (e - s) (g_unit g) * qsum (pick 0 (g_dt g) steps) /\ r_t r = ty.
Proof. exact take_row_rhs. Qed.
Print Assumptions C08_take_prorated.

(* an order with no grid point inside has zero cost and no mapping row *)
Lemma order_outside rg name node fe o :
  (forall k, (k < rg_T rg)%nat -> in_window (o_start o) (o_end o) (nth k (rg_tp rg) 0%Z) = false) ->
  let a := orderbook name node fe rg [o] in
  ap_map a = [] /\ lp_c (ap_lp a) = [Qred (o_capa o * 0 * o_price o)].
Proof.
  intros H. cbv zeta. unfold orderbook. cbn [List.length seq combine flat_map map fst snd ap_map ap_lp lp_c].
  assert (E : filter (fun k => in_window (o_start o) (o_end o) (nth k (rg_tp rg) 0%Z)) (seq 0 (rg_T rg)) = []).
  { assert (G : forall l, (forall k, In k l -> (k < rg_T rg)%nat) ->
                filter (fun k => in_window (o_start o) (o_end o) (nth k (rg_tp rg) 0%Z)) l = []).
    { induction l as [|k l IH]; intros Hl; cbn [filter]; [reflexivity|].
      rewrite H by (apply Hl; left; reflexivity). apply IH. intros j Hj. apply Hl. right. exact Hj. }
    apply G. intros k Hk. apply in_seq in Hk. lia. }
  rewrite E. cbn. split; reflexivity.
Qed.
Theorem C08_order_outside_inert :
  forall rg name node fe o,
  (forall k, (k < rg_T rg)%nat -> in_window (o_start o) (o_end o) (nth k (rg_tp rg) 0%Z) = false) ->
  let a := orderbook name node fe rg [o] in
  ap_map a = [] /\ lp_c (ap_lp a) = [Qred (o_capa o * 0 * o_price o)].
Proof. exact order_outside. Qed.
Print Assumptions C08_order_outside_inert.

(* an empty asset problem anywhere in the asset list leaves the whole portfolio problem (vectors, asset rows,
   nodal rows, mapping) unchanged *)
Theorem C08_empty_asset_inert_anywhere :
  forall nodes skip steps l1 l2,
  portfolio nodes skip steps (l1 ++ ap_empty :: l2) = portfolio nodes skip steps (l1 ++ l2).
Proof. exact portfolio_empty_anywhere. Qed.
Print Assumptions C08_empty_asset_inert_anywhere.

(* an order without grid point in [start, end) appended to any order book: one more [0,1] variable with zero
   cost and no mapping row; costs, bounds, mapping of the other orders are untouched *)
Theorem C08_order_outside_append :
  forall name node fe rg orders o, order_outside_grid rg o ->
  let a := orderbook name node fe rg orders in
  let a' := orderbook name node fe rg (orders ++ [o]) in
  ap_map a' = ap_map a /\
  lp_c (ap_lp a') = lp_c (ap_lp a) ++ [Qred (o_capa o * 0 * o_price o)] /\
  lp_l (ap_lp a') = lp_l (ap_lp a) ++ [0] /\ lp_u (ap_lp a') = lp_u (ap_lp a) ++ [1] /\
  lp_rows (ap_lp a') = lp_rows (ap_lp a).
Proof. exact order_outside_append. Qed.
Print Assumptions C08_order_outside_append.

(* such a variable (zero cost, in no row) changes neither the optimal value nor the optimal points of the rest *)
Theorem C08_free_variable_inert :
  forall P x c0 v, wf_lp P -> c0 == 0 -> 0 <= v -> v <= 1 -> optimal P x ->
  optimal (lp_sum P (free_var c0)) (x ++ [v]) /\ value (lp_sum P (free_var c0)) (x ++ [v]) == value P x.
Proof. exact free_variable_inert. Qed.
Print Assumptions C08_free_variable_inert.

(* a horizon that begins earlier: for a window lying behind the added points, the steps selected are the old ones (their indices
   shifted by the number of added points) and so are their time points - what the harness checks as "horizon extension" on the
   implementation (value unchanged, no dispatch in the added steps) *)
Theorem C08_earlier_horizon_keeps_window :
  forall pre g s e, g_pts g <> [] -> (forall p, In p pre -> (p < s)%Z) ->
  restrict_I (prepend pre g) s e = map (Nat.add (List.length pre)) (restrict_I g s e) /\
  pick 0%Z (g_pts (prepend pre g)) (restrict_I (prepend pre g) s e) = pick 0%Z (g_pts g) (restrict_I g s e).
Proof. intros pre g s e H1 H2. split; [exact (restrict_I_prepend pre g s e H1 H2)|exact (restrict_tp_prepend pre g s e H1 H2)]. Qed.
Print Assumptions C08_earlier_horizon_keeps_window.
Example C08_earlier_horizon_nonvacuous :
  restrict_I (prepend [-7200; -3600]%Z (Build_grid [0; 3600; 7200; 10800]%Z 0 10800 3600)) 3600 10800 = [3; 4]%nat.
Proof. vm_compute. reflexivity. Qed.

(* non-vacuity: hourly grid of 3 steps; window [1h, 2h) selects step 1; an order after the horizon is outside *)
Definition exg : grid := Build_grid [0; 3600; 7200; 10800]%Z 0 10800 3600.
Example C08_nonvacuous :
  restrict_I exg 3600 7200 = [1%nat] /\ restrict_I exg 20000 30000 = [] /\
  order_outside_grid (restrict exg [1; 1; 1] 0 10800) (Build_order 20000 30000 2 5).
Proof.
  split; [vm_compute; reflexivity|]. split; [vm_compute; reflexivity|].
  intros k Hk. change (rg_T (restrict exg [1; 1; 1] 0 10800)) with 3%nat in Hk.
  destruct k as [|[|[|k]]]; try (vm_compute; reflexivity). exfalso. Lia.lia.
Qed.
