(* C09 — Results do not depend on asset/node names or on the order of assets. *)
From Coq Require Import QArith ZArith List String Bool.
From EAO Require Import Num LP Mapping Dcf Grid Assets Portfolio Rename.
Import ListNotations.
Open Scope Q_scope.

(* For EVERY portfolio (any assets, nodes, steps) and every renaming of assets (fa), nodes (fn, injective) and variable names
   (fv): the assembled problem -- costs, bounds, asset rows, nodal rows -- is literally the same; the mapping carries the new labels *)
Theorem C09_renaming_leaves_the_problem_unchanged :
  forall fa fn fv nodes skip steps aps, injective fn ->
  ap_lp (portfolio (map fn nodes) (map fn skip) steps (map (rename_ap fa fn fv) aps)) = ap_lp (portfolio nodes skip steps aps) /\
  ap_map (portfolio (map fn nodes) (map fn skip) steps (map (rename_ap fa fn fv) aps)) = rename_map fa fn fv (ap_map (portfolio nodes skip steps aps)).
Proof. exact rename_lp_invariant. Qed.
Print Assumptions C09_renaming_leaves_the_problem_unchanged.

(* every reported dispatch and cash flow is the old number under the new label, for every point x *)
Theorem C09_dispatch_equivariant :
  forall fa fn fv mp x a n t, injective fa -> injective fn ->
  dispatch_out (rename_map fa fn fv mp) x (fa a) (fn n) t == dispatch_out mp x a n t.
Proof. exact dispatch_rename. Qed.
Print Assumptions C09_dispatch_equivariant.
Theorem C09_cash_flows_equivariant :
  forall fa fn fv c x mp a t, injective fa ->
  dcf_asset c x (rename_map fa fn fv mp) (fa a) t == dcf_asset c x mp a t.
Proof. exact dcf_rename. Qed.
Print Assumptions C09_cash_flows_equivariant.

(* order of assets: swapping two blocks permutes the variables, keeps feasibility, value and optimality *)
Theorem C09_order_of_blocks :
  forall P1 P2 x1 x2, wf_lp P1 -> wf_lp P2 -> List.length x1 = nvars P1 -> List.length x2 = nvars P2 ->
  (feasible (lp_sum P1 P2) (x1 ++ x2) <-> feasible (lp_sum P2 P1) (x2 ++ x1)) /\
  value (lp_sum P1 P2) (x1 ++ x2) == value (lp_sum P2 P1) (x2 ++ x1).
Proof. exact lp_sum_swap. Qed.
Print Assumptions C09_order_of_blocks.
Theorem C09_order_of_blocks_optimal :
  forall P1 P2 x1 x2, wf_lp P1 -> wf_lp P2 -> List.length x1 = nvars P1 -> List.length x2 = nvars P2 ->
  optimal (lp_sum P1 P2) (x1 ++ x2) -> optimal (lp_sum P2 P1) (x2 ++ x1).
Proof. exact lp_sum_swap_optimal. Qed.
Print Assumptions C09_order_of_blocks_optimal.

(* non-vacuity: names "1A" and "A" with the prefix-related renaming that used to collide *)
Definition exmp : list mrow := [ Build_mrow 0 "1A" (Some "N") "d" 0 1 "disp" false; Build_mrow 1 "A" (Some "N") "d" 0 (-1) "disp" false ]%string.
Example C09_nonvacuous :
  nodal_crows ["M"]%string [] [0%nat] (rename_map (fun a => ("1" ++ a)%string) (fun _ => "M"%string) (fun v => v) exmp) =
  nodal_crows ["N"]%string [] [0%nat] exmp.
Proof. vm_compute. reflexivity. Qed.
