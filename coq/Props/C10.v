(* C10 — Building a problem is a pure function of parameters, prices and grid.
   Model: Purity.v, the state the code mutates (grid reference of every asset; restricted grid / discount factors cached on the
   shared grid object).  What is NOT in the model: hidden state other than this (none found: the check runs operation sequences
   on the real objects and compares every problem with the one fresh objects give) and the contents of user dictionaries
   (checked on the implementation after every sequence). *)
From Coq Require Import List Arith Bool.
From EAO Require Import Purity.
Import ListNotations.

Theorem C10_explicit_grid_is_pure :
  forall st a g, Forall fresh (snd (step st (OSetupG a g))).
Proof. intros. apply step_fresh. Qed.
Print Assumptions C10_explicit_grid_is_pure.

Theorem C10_without_grid_is_pure :
  forall st a, Forall fresh (snd (step st (OSetupN a))).
Proof. intros. apply step_fresh. Qed.
Print Assumptions C10_without_grid_is_pure.

(* every sequence of set_timegrid / set-up with grid / set-up without grid / portfolio set-up, from every state *)
Theorem C10_portfolio_is_pure :
  forall ops st, Forall fresh (snd (run st ops)).
Proof. exact setup_is_pure. Qed.
Print Assumptions C10_portfolio_is_pure.

(* non-vacuity: two assets sharing grid 7; the sequence that gave the other asset's window before the repair *)
Example C10_nonvacuous :
  snd (run init [OSet 0 7; OSet 1 7; OSetupN 0; OPortfolio [0; 1] 7; OSetupN 1]) =
  [(0, 7, Some 0); (0, 7, Some 0); (1, 7, Some 1); (1, 7, Some 1)]%nat.
Proof. vm_compute. reflexivity. Qed.
