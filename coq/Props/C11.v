(* C11 — JSON round trip preserves every asset and portfolio.
   ClassTable.v is GENERATED from /repo's sources on every run (harness/classtable.py): per class the keyword names the constructor
   accepts, whether it takes **kwargs, its own parameters and those without default, the attributes any method assigns to self
   (json_serialize_objects writes obj.__dict__), and the keys the serialiser removes.  The theorem is about that table, i.e. about
   what the code says now; it is a finite statement (one row per class) decided by computation. *)
From Coq Require Import List String Bool.
From EAO Require Import ClassTable.
Import ListNotations.
Open Scope string_scope.

Definition mem (x : string) (l : list string) : bool := existsb (String.eqb x) l.
Definition subset (a b : list string) : bool := forallb (fun x => mem x b) a.
Definition saved (c : cls) : list string := filter (fun x => negb (mem x (c_popped c))) (c_stored c).

(* a class can be loaded from what was saved, and nothing that shapes it is lost:
   - the translator understood the class (no problems);
   - every saved key is a keyword the constructor accepts (or the constructor takes **kwargs);
   - every parameter without default is among the saved keys;
   - every constructor parameter is stored under its own name, and none of them is removed by the serialiser *)
Definition class_ok (c : cls) : bool :=
  match c_problems c with [] => true | _ => false end &&
  (c_kwargs c || subset (saved c) (c_accepted c)) &&
  subset (c_required c) (saved c) &&
  subset (c_params c) (c_stored c) &&
  forallb (fun p => negb (mem p (c_popped c))) (c_params c).

Theorem C11_every_class_loadable :
  forallb (fun c => class_ok c || String.eqb (c_name c) "LinkedAsset") classes = true.
Proof. vm_compute. reflexivity. Qed.
Print Assumptions C11_every_class_loadable.

(* known finding, kept visible: LinkedAsset stores its two (asset, variable, node) arguments under other names *)
Theorem C11_linked_asset_refuted :
  exists c, In c classes /\ c_name c = "LinkedAsset" /\ class_ok c = false.
Proof.
  destruct (find (fun c => String.eqb (c_name c) "LinkedAsset") classes) as [c|] eqn:E; [|vm_compute in E; discriminate].
  exists c. apply find_some in E. destruct E as [Hin Hn]. apply String.eqb_eq in Hn.
  split; [exact Hin|]. split; [exact Hn|].
  revert Hin Hn. generalize c. clear c.
  assert (H : forallb (fun c => negb (String.eqb (c_name c) "LinkedAsset") || negb (class_ok c)) classes = true) by (vm_compute; reflexivity).
  intros c Hin Hn. rewrite forallb_forall in H. specialize (H c Hin). rewrite Hn, String.eqb_refl in H. cbn in H.
  destruct (class_ok c); [discriminate|reflexivity].
Qed.
Print Assumptions C11_linked_asset_refuted.

(* the time grid: every key written is a constructor keyword, and every constructor keyword except the reference grid is written
   (start, end, frequency, main time unit, time zone) *)
Theorem C11_timegrid_keys :
  subset timegrid_written timegrid_params = true /\
  subset (filter (fun p => negb (String.eqb p "ref_timegrid")) timegrid_params) timegrid_written = true /\
  subset ["assets"; "timegrid"] portfolio_written = true.
Proof. repeat split; vm_compute; reflexivity. Qed.
Print Assumptions C11_timegrid_keys.

(* ---------- the value layer (Codec.v): parameters of every form survive the round trip ---------- *)
From Coq Require Import ZArith QArith.
From EAO Require Import Codec.
(* loading what was saved gives the normal form of the value: date arrays of any unit come back as nanosecond arrays holding the same
   instants, everything else -- numbers, strings, dates, naive and zone-aware time stamps, numeric arrays, date indices, and lists /
   dictionaries of those to any depth -- comes back unchanged *)
Theorem C11_value_round_trip : forall v : pv, wf v -> deser (ser v) = norm v.
Proof. exact deser_ser. Qed.
Print Assumptions C11_value_round_trip.
(* saving the loaded object reproduces the same JSON *)
Theorem C11_save_load_save : forall v : pv, wf v -> ser (deser (ser v)) = ser v.
Proof. exact save_load_save. Qed.
Print Assumptions C11_save_load_save.
(* and a second round trip changes nothing any more *)
Theorem C11_load_is_stable : forall v : pv, wf v -> deser (ser (deser (ser v))) = deser (ser v).
Proof. exact load_is_stable. Qed.
Print Assumptions C11_load_is_stable.
(* non-vacuity: a take dictionary with aware stamps, a date array in hours and a numeric array *)
Example C11_values_nonvacuous :
  let v := VDict [("start", VList [VStamp 1609459200%Z (Some "CET")]); ("end", VDateArr 3600000000000%Z [447072%Z; 447073%Z]);
                  ("values", VArr [QArith_base.Qmake 5 1; QArith_base.Qmake 2 1])] in
  wf v /\ deser (ser v) <> v /\ ser (deser (ser v)) = ser v.
Proof. cbv zeta. split; [cbn; intuition discriminate|]. split; [vm_compute; discriminate|vm_compute; reflexivity]. Qed.
