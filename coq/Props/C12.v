(* C12 — Time bookkeeping: the main time unit is irrelevant; limits follow the step length. *)
From Coq Require Import QArith ZArith List Bool.
From EAO Require Import Num Grid Assets TimeUnit.
Import ListNotations.
Open Scope Q_scope.

(* For EVERY grid (any points, hence any step lengths) and every factor k between two main time units: *)
Theorem C12_step_length_under_unit_change :
  forall g k i, (0 < g_unit g)%Z -> (0 < k)%Z -> (i < g_T g)%nat ->
  nth i (g_dt (with_unit g (k * g_unit g))) 0 == nth i (g_dt g) 0 / inject_Z k.
Proof. exact dt_unit_change. Qed.
Print Assumptions C12_step_length_under_unit_change.

(* a rate re-expressed for the other unit yields the same per-step volume limit / per-step cost *)
Theorem C12_limits_invariant :
  forall g k v i, (0 < g_unit g)%Z -> (0 < k)%Z -> (i < g_T g)%nat ->
  (v * inject_Z k) * nth i (g_dt (with_unit g (k * g_unit g))) 0 == v * nth i (g_dt g) 0.
Proof. exact limit_unit_invariant. Qed.
Print Assumptions C12_limits_invariant.

(* a duration re-expressed for the other unit compares with the step lengths as before *)
Theorem C12_durations_invariant :
  forall g k d i, (0 < g_unit g)%Z -> (0 < k)%Z -> (i < g_T g)%nat ->
  (nth i (g_dt (with_unit g (k * g_unit g))) 0 <= d / inject_Z k <-> nth i (g_dt g) 0 <= d).
Proof. exact duration_unit_invariant. Qed.
Print Assumptions C12_durations_invariant.

(* the exponent of the discount factor does not depend on the unit *)
Theorem C12_discount_exponent_unit_free :
  forall g k i, (0 < g_unit g)%Z -> (0 < k)%Z -> (i < g_T g)%nat ->
  nth i (g_Dt (with_unit g (k * g_unit g))) 0 * inject_Z (k * g_unit g) == nth i (g_Dt g) 0 * inject_Z (g_unit g).
Proof. exact discount_exponent_unit_free. Qed.
Print Assumptions C12_discount_exponent_unit_free.

(* totals equal rate x elapsed time on any grid, also when the steps differ in length *)
Theorem C12_total_time_is_elapsed :
  forall g, (0 < g_unit g)%Z -> g_pts g <> [] ->
  qsum (g_dt g) * inject_Z (g_unit g) == inject_Z (last (g_pts g) 0%Z - hd 0%Z (g_pts g)).
Proof. exact total_time_is_elapsed. Qed.
Print Assumptions C12_total_time_is_elapsed.
Theorem C12_volume_follows_step_length :
  forall v dt, qsum (vmul (repeat v (List.length dt)) dt) == v * qsum dt.
Proof. exact volume_follows_dt. Qed.
Print Assumptions C12_volume_follows_step_length.

(* non-vacuity: the night of the switch to summer time in CET, hourly local steps from 00:00 to 04:00 (3 real hours),
   main unit hour resp. day *)
Definition exg : grid := Build_grid [1616886000; 1616889600; 1616893200; 1616896800]%Z 1616886000 1616896800 3600.
Example C12_nonvacuous :
  g_dt exg = [1; 1; 1] /\ g_dt (with_unit exg (24 * 3600)) = [1#24; 1#24; 1#24] /\ qsum (g_dt exg) == 3.
Proof. repeat split; vm_compute; reflexivity. Qed.
