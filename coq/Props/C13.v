(* C13 — Coarse asset frequency and periodicity equal the fine problem plus equalities.
   Periodicity (proved for every problem, leader map and merged point): a merged point x' stands for the fine point
   "every variable carries the value of its group leader"; that point satisfies the equalities; the merged rows evaluate on x'
   exactly as the fine rows on the fine point (summed columns), the merged objective equals the fine objective (summed costs),
   and the merged limits are the means of the group limits (averaged, as documented).  Hence the merged problem IS the fine
   problem with the equalities added and the limits averaged -- same feasible values, same optimum.
   Coarse frequency: the mapping rows spread the volume of a coarse variable over its minor steps with weights
   dt_minor/dt_major: the weights add up to one and the rate is constant within the coarse interval.
   The leader map the implementation computes (period / duration labels) is compared per instance (Periodic.v via the builders),
   and the optimum is compared with the independent fine formulation with equalities (harness/ref.py). *)
From Coq Require Import QArith ZArith List String Bool.
From EAO Require Import Num LP Mapping Grid Assets Periodic Merge Reference.
Import ListNotations.
Open Scope Q_scope.

Theorem C13_merged_point_satisfies_equalities :
  forall lead x' v w, (v < List.length lead)%nat -> (w < List.length lead)%nat ->
  ld lead v = ld lead w -> nth v (expand lead x') 0 = nth w (expand lead x') 0.
Proof. exact expand_equalities. Qed.
Print Assumptions C13_merged_point_satisfies_equalities.

Theorem C13_merged_rows_are_the_fine_rows :
  forall lead (P : lp) x', wf_lp P -> nvars P = List.length lead ->
  (Forall (row_ok x') (lp_rows (merge_lp lead P)) <-> Forall (row_ok (expand lead x')) (lp_rows P)).
Proof. exact merge_rows_ok. Qed.
Print Assumptions C13_merged_rows_are_the_fine_rows.

Theorem C13_merged_value_is_the_fine_value :
  forall lead (P : lp) x', nvars P = List.length lead -> lead_ok lead -> List.length x' = List.length (kept lead) ->
  value (merge_lp lead P) x' == value P (expand lead x').
Proof. exact merge_value. Qed.
Print Assumptions C13_merged_value_is_the_fine_value.

Theorem C13_merged_limits_are_means :
  forall lead (P : lp) k, (k < List.length (kept lead))%nat ->
  nth k (lp_l (merge_lp lead P)) 0 = mean (pick 0 (lp_l P) (group lead (nth k (kept lead) 0%nat))) /\
  nth k (lp_u (merge_lp lead P)) 0 = mean (pick 0 (lp_u P) (group lead (nth k (kept lead) 0%nat))) /\
  nth k (lp_c (merge_lp lead P)) 0 == qsum (pick 0 (lp_c P) (group lead (nth k (kept lead) 0%nat))).
Proof. exact merged_bounds_are_means. Qed.
Print Assumptions C13_merged_limits_are_means.

Theorem C13_coarse_weights :
  forall (gdt : vec) (grp : list nat) (dtM f : Q), ~ dtM == 0 -> dtM == qsum (pick 0 gdt grp) ->
  qsum (map (fun t => nth t gdt 0 / dtM * f) grp) == f /\
  (forall t, ~ nth t gdt 0 == 0 -> (nth t gdt 0 / dtM * f) / nth t gdt 0 == f / dtM).
Proof. exact minor_weights. Qed.
Print Assumptions C13_coarse_weights.

Theorem C13_coarse_rows :
  forall gdt rg r groups im, rg_minor rg = Some groups -> index_of (m_step r) (rg_I rg) = Some im ->
  extend_minor gdt rg [r] =
  Some (map (fun t => Build_mrow (m_var r) (m_asset r) (m_node r) (m_type r) t
                        (Qred (nth t gdt 0 / nth im (rg_dt rg) 0 * m_factor r)) (m_name r) (m_bool r)) (nth im groups [])).
Proof. exact extend_minor_row. Qed.
Print Assumptions C13_coarse_rows.

(* non-vacuity: four hourly variables, period 2h: variables 0,2 and 1,3 are joined *)
Definition exlead : list nat := [0; 1; 0; 1]%nat.
Definition exP : lp := Build_lp [1; 2; 3; 4] [0; 0; 0; 0] [2; 4; 6; 8] [Build_crow [(0%nat, 1); (2%nat, 1); (3%nat, 1)] RU 5].
Example C13_nonvacuous :
  lead_ok exlead /\ merge_lp exlead exP = Build_lp [4; 6] [0; 0] [4; 6] [Build_crow [(0%nat, 1); (0%nat, 1); (1%nat, 1)] RU 5] /\
  expand exlead [1; 2] = [1; 2; 1; 2].
Proof. split; [apply lead_okb_sound; vm_compute; reflexivity|]. split; vm_compute; reflexivity. Qed.

(* an asset on a coarser frequency of its own: whatever textbook object its problem realises on the coarse grid (Reference.v), the problem
   with the mapping extended to the minor grid realises the same object -- same admissible states, same cost -- with the flow of every
   coarse step delivered into its minor steps in proportion to their length; the dispatch of the extended mapping is that spread *)
Theorem C13_coarse_dispatch_is_spread :
  forall gdt rg groups, rg_minor rg = Some groups -> NoDup (rg_I rg) ->
  forall mp mp' x a n t, extend_minor gdt rg mp = Some mp' ->
  dispatch_out mp' x a n t == qsum (map (fun k => minor_w gdt rg groups k t * dispatch_out mp x a n (nth k (rg_I rg) 0%nat)) (seq 0 (rg_T rg))).
Proof. exact coarse_dispatch. Qed.
Print Assumptions C13_coarse_dispatch_is_spread.
Theorem C13_coarse_realises :
  forall nm a dec S gdt rg groups mp',
  realises nm a dec S -> rg_minor rg = Some groups -> NoDup (rg_I rg) -> extend_minor gdt rg (ap_map a) = Some mp' ->
  realises nm {| ap_lp := ap_lp a; ap_map := mp' |} dec (tb_coarse S gdt rg groups).
Proof. exact coarse_realises. Qed.
Print Assumptions C13_coarse_realises.
