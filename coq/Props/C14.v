(* C14 — Split optimisation is consistent with the unsplit problem.
   Proved for any number of intervals of any size: the interval problems form a direct sum, so the concatenation of interval
   optima is optimal for it and its value is the sum of the interval optima; feasibility of the whole = feasibility of every
   interval; the re-based mapping points into the right variable block and to steps of the original grid (nodal balance of the
   concatenated mapping is C01, accounting C04).
   Decided per instance by the check (not a theorem about arbitrary portfolios): that the unsplit problem of an uncoupled portfolio
   IS this direct sum up to the order of variables (structural comparison through the mapping), and for storage / take coupling
   that the concatenated point is feasible for the unsplit problem (certificate Cert.check_primal_eps evaluated in Coq), whence
   split <= unsplit by optimality of the unsplit solution. *)
From Coq Require Import QArith ZArith List String Bool Lqa.
From EAO Require Import Num LP Mapping Grid Assets Portfolio Split Cert.
Import ListNotations.
Open Scope Q_scope.

Theorem C14_value_is_sum_of_interval_optima :
  forall Ps xs, Forall wf_lp Ps -> Forall2 optimal Ps xs ->
  optimal (lp_concat Ps) (List.concat xs) /\
  value (lp_concat Ps) (List.concat xs) == qsum (map (fun Px => value (fst Px) (snd Px)) (combine Ps xs)).
Proof. exact concat_optimal. Qed.
Print Assumptions C14_value_is_sum_of_interval_optima.

Theorem C14_feasible_iff_every_interval :
  forall Ps xs, Forall wf_lp Ps -> Forall2 (fun P x => List.length x = nvars P) Ps xs ->
  (feasible (lp_concat Ps) (List.concat xs) <-> Forall2 feasible Ps xs).
Proof. exact concat_feasible. Qed.
Print Assumptions C14_feasible_iff_every_interval.

Theorem C14_steps_refer_to_original_grid :
  forall parts off,
  Forall (fun Ia => Forall (fun r => (m_step r < List.length (fst Ia))%nat /\ (m_var r < nvars (ap_lp (snd Ia)))%nat) (ap_map (snd Ia))) parts ->
  Forall (fun r => (off <= m_var r < off + nvars (lp_concat (map (fun Ia => ap_lp (snd Ia)) parts)))%nat /\
                   exists Ia, In Ia parts /\ In (m_step r) (fst Ia)) (split_map parts off).
Proof. exact split_map_wf. Qed.
Print Assumptions C14_steps_refer_to_original_grid.

(* split <= unsplit: any point that passes the primal check of the unsplit problem is bounded by a certified unsplit optimum *)
Theorem C14_split_le_unsplit :
  forall eps P xu y xs, check_opt eps P xu y = true -> check_primal P xs = true -> value P xs <= value P xu + eps.
Proof.
  intros eps P xu y xs Ho Hp. apply check_opt_sound in Ho. destruct Ho as (_ & _ & Hb).
  apply check_primal_sound in Hp. destruct Hp as [_ F]. apply Hb. exact F.
Qed.
Print Assumptions C14_split_le_unsplit.

Example C14_nonvacuous :
  let P1 := Build_lp [-1] [0] [2] [] in let P2 := Build_lp [-3] [0] [1] [] in
  optimal (lp_concat [P1; P2]) ([2] ++ [1]) /\ value (lp_concat [P1; P2]) [2; 1] == 5.
Proof.
  cbv zeta. split; [|vm_compute; reflexivity].
  assert (O1 : optimal (Build_lp [-1] [0] [2] []) [2]).
  { split; [split; [cbn; lra|constructor]|]. intros x' [Hb _]. destruct x' as [|w [|? ?]]; cbn in Hb; try tauto.
    unfold value; cbn [lp_c dot]. lra. }
  assert (O2 : optimal (Build_lp [-3] [0] [1] []) [1]).
  { split; [split; [cbn; lra|constructor]|]. intros x' [Hb _]. destruct x' as [|w [|? ?]]; cbn in Hb; try tauto.
    unfold value; cbn [lp_c dot]. lra. }
  apply (concat_optimal [Build_lp [-1] [0] [2] []; Build_lp [-3] [0] [1] []] [[2]; [1]]).
  - constructor; [|constructor; [|constructor]]; unfold wf_lp, nvars; cbn; repeat split; auto.
  - constructor; [exact O1|constructor; [exact O2|constructor]].
Qed.
