(* C15 — Fixing a time window pins exactly that part of the solution. *)
From Coq Require Import QArith ZArith List String Bool.
From EAO Require Import Num LP Mapping Grid Assets Portfolio Fix.
Import ListNotations.
Open Scope Q_scope.

(* For EVERY problem and mapping (any number of mapping rows per variable), window and previous point: *)
Theorem C15_fix_pins_exactly :
  forall steps xprev a v, wf_lp (ap_lp a) -> (v < nvars (ap_lp a))%nat ->
  let P' := ap_lp (fix_window steps xprev a) in
  lp_c P' = lp_c (ap_lp a) /\ lp_rows P' = lp_rows (ap_lp a) /\ ap_map (fix_window steps xprev a) = ap_map a /\
  (in_fix steps (ap_map a) v = true -> nth v (lp_l P') 0 = nth v xprev 0 /\ nth v (lp_u P') 0 = nth v xprev 0) /\
  (in_fix steps (ap_map a) v = false -> nth v (lp_l P') 0 = nth v (lp_l (ap_lp a)) 0 /\ nth v (lp_u P') 0 = nth v (lp_u (ap_lp a)) 0).
Proof. exact fix_pins_exactly. Qed.
Print Assumptions C15_fix_pins_exactly.

Theorem C15_fixed_variables_keep_their_value :
  forall steps xprev a x v, wf_lp (ap_lp a) ->
  feasible (ap_lp (fix_window steps xprev a)) x -> (v < nvars (ap_lp a))%nat -> in_fix steps (ap_map a) v = true ->
  nth v x 0 == nth v xprev 0.
Proof. exact fix_feasible_pinned. Qed.
Print Assumptions C15_fixed_variables_keep_their_value.

Theorem C15_value_unchanged :
  forall steps xprev a, wf_lp (ap_lp a) -> optimal (ap_lp a) xprev ->
  optimal (ap_lp (fix_window steps xprev a)) xprev /\
  (forall x, feasible (ap_lp (fix_window steps xprev a)) x -> feasible (ap_lp a) x).
Proof. exact fix_value_unchanged. Qed.
Print Assumptions C15_value_unchanged.

(* non-vacuity: a transport variable with two mapping rows (both at step 1) and a contract variable at step 0 *)
Definition exa : aprob :=
  {| ap_lp := Build_lp [1; 2] [0; 0] [5; 5] [];
     ap_map := [ Build_mrow 0 "c" (Some "A") "d" 0 1 "disp" false;
                 Build_mrow 1 "t" (Some "A") "d" 1 (-1) "disp" false; Build_mrow 1 "t" (Some "B") "d" 1 (1#2) "disp" false ]%string |}.
Example C15_nonvacuous :
  lp_l (ap_lp (fix_window [1%nat] [3; 4] exa)) = [0; 4] /\ lp_u (ap_lp (fix_window [1%nat] [3; 4] exa)) = [5; 4].
Proof. split; vm_compute; reflexivity. Qed.
