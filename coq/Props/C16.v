(* C16 — Scaled and structured assets are equivalent to what they wrap. *)
From Coq Require Import QArith ZArith List String Bool.
From EAO Require Import Num LP Mapping Grid Assets Portfolio Scaled ScaledProofs StructProofs.
Import ListNotations.
Open Scope Q_scope.

(* For EVERY base problem all of whose variables are dispatch variables (contracts, transports, storages without binary
   options), every normalisation S > 0 and every scale 0 <= s in [min_scale, max_scale]: (x, s) is feasible for the scaled
   problem iff x is feasible for the base problem with all bounds and right-hand sides multiplied by s/S, and the value is the
   base value less s x cost rate x duration.  The free-scale optimum is therefore the best over the allowed range. *)
Theorem C16_scaled_fixed_equiv :
  forall (name node0 : string) (minS maxS SS fixc dur : Q) (a a' : aprob) (s : Q) (x : vec),
  scaled name node0 minS maxS SS fixc dur a = Some a' -> wf_lp (ap_lp a) ->
  dedup_keep_first (map m_var (filter is_d (ap_map a))) = seq 0 (nvars (ap_lp a)) ->
  0 < SS -> 0 <= s -> minS <= s -> s <= maxS -> List.length x = nvars (ap_lp a) ->
  (feasible (ap_lp a') (x ++ [s]) <-> feasible (scale_lp (s / SS) (ap_lp a)) x) /\
  value (ap_lp a') (x ++ [s]) == value (ap_lp a) x - fixc * dur * s.
Proof. exact scaled_fixed_equiv. Qed.
Print Assumptions C16_scaled_fixed_equiv.

(* booleans and other internal variables are NOT scaled by the code: for such base assets the model (like the code) rejects
   the construction -- kept visible as the boundary of the theorem *)
Example C16_scaled_bool_partial :
  scaled "s" "N" 0 1 1 0 1 {| ap_lp := Build_lp [0; 0] [0; 0] [1; 1] [];
                               ap_map := [Build_mrow 0 "b" (Some "N") "d" 0 1 "disp" false; Build_mrow 1 "b" None "i" 0 1 "bool_1" true]%string |} = None.
Proof. vm_compute. reflexivity. Qed.

(* For EVERY list of asset problems, node lists and steps: the portfolio consisting of the structured asset over the external
   nodes has exactly the feasible points and values of the flat portfolio of the wrapped assets over all their nodes *)
Theorem C16_structured_flatten_equiv :
  forall name nodes ext steps aps x, (forall n, In n ext -> In n nodes) ->
  let flat := portfolio nodes [] steps aps in
  let wrapped := portfolio ext [] steps [struct_wrap name ext (portfolio nodes ext steps aps)] in
  (feasible (ap_lp wrapped) x <-> feasible (ap_lp flat) x) /\ value (ap_lp wrapped) x = value (ap_lp flat) x.
Proof. exact structured_flatten_equiv. Qed.
Print Assumptions C16_structured_flatten_equiv.

(* at an external node the dispatch rows seen from outside are those of the inner assets *)
Theorem C16_external_rows :
  forall name ext (a : aprob) n t, existsb (String.eqb n) ext = true ->
  nodal_row (ap_map (struct_wrap name ext a)) n t = nodal_row (ap_map a) n t.
Proof. exact struct_wrap_nodal_row. Qed.
Print Assumptions C16_external_rows.

(* non-vacuity: a contract [0, 4] scaled with S = 2 at s = 1: bounds [0, 2]; value less 3 x 1 *)
Definition exbase : aprob := {| ap_lp := Build_lp [5] [0] [4] []; ap_map := [Build_mrow 0 "c" (Some "N") "d" 0 1 "disp" false]%string |}.
Example C16_nonvacuous :
  exists a', scaled "s" "N" 0 3 2 3 1 exbase = Some a' /\ feasible (ap_lp a') ([2] ++ [1]) /\ value (ap_lp a') [2; 1] == -13.
Proof.
  eexists. split; [vm_compute; reflexivity|]. split; [|vm_compute; reflexivity].
  split; [cbn; repeat split; vm_compute; discriminate|]. repeat constructor; vm_compute; discriminate.
Qed.
