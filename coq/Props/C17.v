(* C17 — Stochastic and robust problems respect their defining bounds.
   The extended problem make_slp builds is modelled by SLP.slp_lp (compared with the implementation per instance).  Proved for
   every problem, mask and extended point: the rows of scenario i evaluate exactly as the original rows on "present of the
   extended point + future block i", i.e. all scenarios share the present decision and carry their own recourse.  On this
   two-stage structure (any feasibility relation common to all scenarios, any present value, any scenario values): the optimum is
   at most the mean of the per-scenario optima, at least the expected value of every present decision with feasible recourse,
   and equal to the deterministic optimum when all scenarios coincide.  Robust target: the worst case of the robust solution is
   at least that of every feasible point and at most the smallest per-scenario optimum.
   Proved in addition (SLPProofs.v): every feasible extended point projects to feasible scenario points sharing the present.
   Not proved (checked per instance by correspondence): the converse embedding and that the scaled cost vector realises
   'present value + mean of the scenario future values' (index arithmetic of the duplicated future block). *)
From Coq Require Import QArith ZArith List Bool.
From EAO Require Import Num LP Mapping SLP SLPProofs.
Import ListNotations.
Open Scope Q_scope.

Theorem C17_scenarios_share_the_present :
  forall (P : lp) fut cs X, wf_lp P ->
  (Forall (row_ok X) (lp_rows (slp_lp P fut cs)) <->
   forall i, (i <= List.length cs)%nat -> Forall (row_ok (slp_point (nvars P) fut X i)) (lp_rows P)).
Proof. exact slp_rows_ok. Qed.
Print Assumptions C17_scenarios_share_the_present.

(* every feasible point of the extended problem gives, in every scenario, a feasible point of the original problem (bounds and
   rows), and all these points carry the same present variables *)
Theorem C17_feasible_points_project :
  forall (P : lp) fut cs X, wf_lp P -> List.length fut = nvars P -> feasible (slp_lp P fut cs) X ->
  (forall i, (i <= List.length cs)%nat -> feasible P (slp_point (nvars P) fut X i)) /\
  (forall i j, (j < nvars P)%nat -> nth j fut false = false -> nth j (slp_point (nvars P) fut X i) 0 = nth j X 0).
Proof. exact slp_feasible_scenarios. Qed.
Print Assumptions C17_feasible_points_project.

Theorem C17_at_most_mean_of_scenario_optima :
  forall (F : vec -> vec -> Prop) (vp : vec -> Q) (vfs : list (vec -> Q)) (opts : list Q) p fs,
  vfs <> [] -> slp_feasible F vfs p fs ->
  Forall2 (fun vf opt => forall p' f', F p' f' -> vp p' + vf f' <= opt) vfs opts ->
  slp_value vp vfs p fs <= smean opts.
Proof. exact slp_upper. Qed.
Print Assumptions C17_at_most_mean_of_scenario_optima.

Theorem C17_at_least_every_fixed_present :
  forall (F : vec -> vec -> Prop) (vp : vec -> Q) (vfs : list (vec -> Q)) p fs p0 rec,
  slp_optimal F vp vfs p fs -> List.length rec = List.length vfs -> Forall (F p0) rec ->
  slp_value vp vfs p0 rec <= slp_value vp vfs p fs.
Proof. exact slp_lower. Qed.
Print Assumptions C17_at_least_every_fixed_present.

Theorem C17_identical_scenarios :
  forall (F : vec -> vec -> Prop) (vp : vec -> Q) (vf : vec -> Q) (n : nat) p f,
  (0 < n)%nat -> F p f -> (forall p' f', F p' f' -> vp p' + vf f' <= vp p + vf f) ->
  slp_optimal F vp (repeat vf n) p (repeat f n) /\ slp_value vp (repeat vf n) p (repeat f n) == vp p + vf f.
Proof. exact slp_identical. Qed.
Print Assumptions C17_identical_scenarios.

Theorem C17_robust_worst_case_ge_every_point :
  forall (G : vec -> Prop) vs x t x' t', robust_optimal G vs x t -> G x' -> lower_bound_of vs x' t' -> t' <= t.
Proof. exact robust_ge_every_point. Qed.
Print Assumptions C17_robust_worst_case_ge_every_point.
Theorem C17_robust_le_smallest_scenario_optimum :
  forall (G : vec -> Prop) vs opts x t, robust_optimal G vs x t ->
  Forall2 (fun v opt => forall x', G x' -> v x' <= opt) vs opts -> Forall (fun opt => t <= opt) opts.
Proof. exact robust_le_scenario_optima. Qed.
Print Assumptions C17_robust_le_smallest_scenario_optimum.

(* the mapping of the extended problem: every row points to an existing variable (whatever the number of mapping rows per variable),
   and the copy of a row for sample i points to the column the rows of scenario i use for that variable *)
Theorem C17_extended_mapping_wf :
  forall (P : lp) mp fut cs,
  List.length fut = nvars P -> Forall (fun c : vec => List.length c = nvars P) cs ->
  Forall (fun r => (m_var r < nvars P)%nat) mp ->
  Forall (fun r => (m_var r < nvars (slp_lp P fut cs))%nat) (slp_map mp fut (List.length cs) (nvars P)).
Proof. exact slp_map_wf. Qed.
Print Assumptions C17_extended_mapping_wf.

Theorem C17_extended_mapping_matches_columns :
  forall mp fut nS n i r, (i < nS)%nat -> In r mp -> nth (m_var r) fut false = true ->
  In (Build_mrow (scol n fut (S i) (m_var r)) (m_asset r) (m_node r) (m_type r) (m_step r) (m_factor r) (m_name r) (m_bool r))
     (slp_map mp fut nS n).
Proof. exact slp_map_matches_columns. Qed.
Print Assumptions C17_extended_mapping_matches_columns.

(* non-vacuity: two variables (present, future), one sample: three variables, rows doubled, future cost halved *)
Definition exP : lp := Build_lp [1; 4] [0; 0] [2; 2] [Build_crow [(0%nat, 1); (1%nat, 1)] RU 3].
Example C17_nonvacuous :
  slp_lp exP [false; true] [[1; 6]] =
  Build_lp [1; 2; 3] [0; 0; 0] [2; 2; 2] [Build_crow [(0%nat, 1); (1%nat, 1)] RU 3; Build_crow [(0%nat, 1); (2%nat, 1)] RU 3] /\
  slp_point 2 [false; true] [1; 2; (1#2)] 1 = [1; (1#2)].
Proof. split; vm_compute; reflexivity. Qed.
