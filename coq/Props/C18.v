(* C18 — reported nodal prices are marginal values of the optimum. *)
From Coq Require Import QArith List Bool.
From EAO Require Import Num LP Cert.
Import ListNotations.
Open Scope Q_scope.

(* For EVERY problem: multipliers y accepted by the optimality check are supergradients of
   the optimal value with respect to every right-hand side: changing b_i by delta cannot
   raise the optimum above  value + eps + y_i * delta  (y_i projected to the row's sign class;
   for nodal rows the projection is the identity).  An injection d at (node, step) turns the
   nodal row  sum disp = 0  into  sum disp = -d, i.e. delta = -d; the harness passes
   y_N := - (price read from the output table), so the conclusion reads
   value' <= value + eps + price * d, for both signs of d. *)
Theorem C18_supergradient :
  forall eps P x y i delta,
  check_opt eps P x y = true ->
  (i < List.length (lp_rows P))%nat -> (i < List.length y)%nat ->
  forall x', feasible (lp_bump P i delta) x' ->
    value P x' <= value P x + eps + ysign (nth i (map r_t (lp_rows P)) RS) (nth i y 0) * delta.
Proof. exact supergradient. Qed.
Print Assumptions C18_supergradient.

Corollary C18_nodal_price :
  forall eps P x y i d price,
  check_opt eps P x y = true ->
  (i < List.length (lp_rows P))%nat -> (i < List.length y)%nat ->
  nth i (map r_t (lp_rows P)) RS = RN -> nth i y 0 == - price ->
  forall x', feasible (lp_bump P i (- d)) x' -> value P x' <= value P x + eps + price * d.
Proof.
  intros eps P x y i d price H Hi Hy Ht Hp x' F.
  pose proof (supergradient eps P x y i (- d) H Hi Hy x' F) as S.
  rewrite Ht in S. unfold ysign in S. rewrite Hp in S.
  setoid_replace (- price * - d) with (price * d) in S by ring. exact S.
Qed.
Print Assumptions C18_nodal_price.

(* non-vacuity: a market (price 5, cap 10) and a must-take of 3 at one node; nodal price 5 *)
Definition exP : lp := Build_lp [5; 0] [-10; -3] [10; -3] [Build_crow [(0%nat, 1); (1%nat, 1)] RN 0].
Example C18_nonvacuous : check_opt 0 exP [3; -3] [-5] = true.
Proof. vm_compute. reflexivity. Qed.
