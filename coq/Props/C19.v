(* C19 — Time grid and interval data: every step, and only the right interval, counts.
   The calendar (pd.date_range, tz database) is an oracle: the theorems take the grid points as
   given integer instants; that they are strictly increasing, start at the grid start and lie
   before the grid end is evaluated on the implementation's grid on every case. *)
From Coq Require Import QArith ZArith List Bool.
From EAO Require Import Num Grid GridProofs.
Import ListNotations.
Open Scope Q_scope.

(* each step length equals the real elapsed time to the next point in main time units
   (so also across daylight-saving switches: the points are real instants) *)
Theorem C19_dt_is_elapsed_time :
  forall g i, (i < g_T g)%nat -> (0 < g_unit g)%Z ->
  nth i (g_dt g) 0 * inject_Z (g_unit g) == inject_Z (pt g (S i) - pt g i).
Proof. exact dt_elapsed. Qed.
Print Assumptions C19_dt_is_elapsed_time.

Theorem C19_dt_positive :
  forall g i, increasing (g_pts g) -> (i < g_T g)%nat -> (0 < g_unit g)%Z -> 0 < nth i (g_dt g) 0.
Proof. exact dt_positive. Qed.
Print Assumptions C19_dt_positive.

Theorem C19_cumulative_time :
  forall g i, (i < g_T g)%nat -> nth i (g_Dt g) 0 == qsum (firstn (S i) (g_dt g)).
Proof. exact Dt_spec. Qed.
Print Assumptions C19_cumulative_time.

(* a restricted grid is the index-consistent subset of the points in [s, e) *)
Theorem C19_restricted_is_subset :
  forall g s e i, In i (restrict_I g s e) <-> (i < g_T g)%nat /\ (s <= pt g i)%Z /\ (pt g i < e)%Z.
Proof. exact restrict_spec. Qed.
Print Assumptions C19_restricted_is_subset.
Theorem C19_restricted_order :
  forall g s e i j, (i < j < List.length (restrict_I g s e))%nat ->
  (nth i (restrict_I g s e) 0 < nth j (restrict_I g s e) 0)%nat.
Proof. exact restrict_sorted. Qed.
Print Assumptions C19_restricted_order.
Theorem C19_restricted_arrays :
  forall g disc s e k, (k < List.length (restrict_I g s e))%nat ->
  let r := restrict g disc s e in
  let i := nth k (restrict_I g s e) 0%nat in
  nth k (rg_dt r) 0 = nth i (g_dt g) 0 /\ nth k (rg_Dt r) 0 = nth i (g_Dt g) 0 /\
  nth k (rg_tp r) 0%Z = pt g i /\ nth k (rg_disc r) 0 = nth i disc 0.
Proof. exact restrict_arrays. Qed.
Print Assumptions C19_restricted_arrays.

(* a coarser restricted grid covers every fine step of its window (given coarse points that are
   increasing and span the window: the oracle hypothesis that fails for windows that are no
   multiple of the coarse step -- known finding) and its step lengths are the sums *)
Theorem C19_coarse_covers :
  forall g cpts i,
  (forall i j, (i < j < List.length cpts)%nat -> (nth i cpts 0 < nth j cpts 0)%Z) ->
  (i < g_T g)%nat -> (nth 0 cpts 0 <= pt g i)%Z -> (pt g i < last cpts 0)%Z ->
  exists grp, In grp (coarse_groups g cpts) /\ In i grp.
Proof. exact coarse_covers. Qed.
Print Assumptions C19_coarse_covers.
Theorem C19_coarse_dt :
  forall g disc cpts r k, coarse g disc cpts = Some r -> (k < List.length (coarse_groups_in g cpts))%nat ->
  nth k (rg_dt r) 0 == qsum (pick 0 (g_dt g) (nth k (coarse_groups_in g cpts) [])).
Proof. exact coarse_dt_sum. Qed.
Print Assumptions C19_coarse_dt.

(* a restricted grid restricted once more (an asset window inside an interval of the horizon) is the grid restricted to the
   intersection of the two windows: the same indices in the ORIGINAL grid, points, step lengths, cumulated times, discount factors *)
Theorem C19_restricted_twice :
  forall g disc s1 e1 s2 e2,
  restrict_rg (restrict g disc s1 e1) s2 e2 = restrict g disc (Z.max s1 s2) (Z.min e1 e2).
Proof. exact restrict_twice. Qed.
Print Assumptions C19_restricted_twice.
Example C19_restricted_twice_nonvacuous :
  rg_I (restrict_rg (restrict (Build_grid [0; 10; 20; 30; 40]%Z 0 40 10) [1; 1; 1; 1] 10 40) 0 30) = [1; 2]%nat.
Proof. vm_compute. reflexivity. Qed.

(* interval data: the value of the unique containing interval, undefined outside, overlap rejected *)
Theorem C19_interval_data :
  forall tp ivs res, values_to_grid tp ivs = Some res ->
  List.length res = List.length tp /\
  forall k, (k < List.length tp)%nat ->
    (containing ivs (nth k tp 0%Z) = [] /\ nth k res None = None) \/
    (exists iv, containing ivs (nth k tp 0%Z) = [iv] /\ nth k res None = Some (snd iv)).
Proof. exact values_to_grid_spec. Qed.
Print Assumptions C19_interval_data.
Theorem C19_overlap_rejected :
  forall tp ivs k, (k < List.length tp)%nat -> (2 <= List.length (containing ivs (nth k tp 0%Z)))%nat ->
  values_to_grid tp ivs = None.
Proof. exact values_to_grid_overlap. Qed.
Print Assumptions C19_overlap_rejected.

Example C19_nonvacuous :
  values_to_grid [0; 10; 20; 30]%Z [(0%Z, Some 15%Z, 1); (20%Z, None, 2)] = Some [Some 1; Some 1; Some 2; Some 2] /\
  values_to_grid [0; 10; 20]%Z [(0%Z, Some 15%Z, 1); (10%Z, Some 30%Z, 2)] = None /\
  g_dt (Build_grid [0; 3600; 10800]%Z 0 10800 3600) = [1; 2].
Proof. repeat split; vm_compute; reflexivity. Qed.
