(* C20 — Order book: partial or full execution, delivered over the order's window. *)
From Coq Require Import QArith ZArith List String Bool.
From EAO Require Import Num LP Mapping Grid Assets OrderBook Inert.
Import ListNotations.
Open Scope Q_scope.

(* For EVERY order book (any number of orders, any grid) and every feasible point: each order is executed at a
   fraction between 0 and 1 *)
Theorem C20_order_bounds :
  forall name node fe rg orders x,
  feasible (ap_lp (orderbook name node fe rg orders)) x ->
  List.length x = List.length orders /\
  forall i, (i < List.length orders)%nat -> 0 <= nth i x 0 /\ nth i x 0 <= 1.
Proof. exact order_bounds. Qed.
Print Assumptions C20_order_bounds.

(* at every step the book delivers the sum, over the orders covering that step, of fraction x capacity x step
   length (this is the dispatch io.extract_output reports and the nodal rows balance, C01) *)
Theorem C20_order_delivery :
  forall name node fe rg orders x t,
  dispatch_out (ap_map (orderbook name node fe rg orders)) x name node t ==
  qsum (map (fun io => nth (fst io) x 0 *
                       qsum (map (fun k => o_capa (snd io) * nth k (rg_dt rg) 0)
                                 (filter (fun k => Nat.eqb (nth k (rg_I rg) 0%nat) t) (ob_sel rg (snd io)))))
            (combine (seq 0 (List.length orders)) orders)).
Proof. exact order_delivery. Qed.
Print Assumptions C20_order_delivery.

(* the cost of executing order i fully: capacity x price x covered duration, discounted per step *)
Theorem C20_order_cost :
  forall name node fe rg orders i, (i < List.length orders)%nat ->
  let o := nth i orders (Build_order 0 0 0 0) in
  nth i (lp_c (ap_lp (orderbook name node fe rg orders))) 0 ==
  o_capa o * o_price o * qsum (map (fun k => nth k (rg_dt rg) 0 * nth k (rg_disc rg) 0) (ob_sel rg o)).
Proof. exact order_cost. Qed.
Print Assumptions C20_order_cost.

(* every mapping row is a dispatch row of the book at its node and carries the full-execution flag, which the
   optimiser turns into a 0/1 variable (C03 checks the returned flags) *)
Theorem C20_full_exec_flag :
  forall name node fe rg orders,
  Forall (fun r => m_bool r = fe /\ m_asset r = name /\ m_node r = Some node /\ is_d r = true /\ (m_var r < List.length orders)%nat)
         (ap_map (orderbook name node fe rg orders)).
Proof. exact full_exec_flag. Qed.
Print Assumptions C20_full_exec_flag.

(* an order without any step inside the horizon is inert *)
Theorem C20_order_outside_inert :
  forall name node fe rg orders o, order_outside_grid rg o ->
  let a := orderbook name node fe rg orders in
  let a' := orderbook name node fe rg (orders ++ [o]) in
  ap_map a' = ap_map a /\
  lp_c (ap_lp a') = lp_c (ap_lp a) ++ [Qred (o_capa o * 0 * o_price o)] /\
  lp_l (ap_lp a') = lp_l (ap_lp a) ++ [0] /\ lp_u (ap_lp a') = lp_u (ap_lp a) ++ [1] /\
  lp_rows (ap_lp a') = lp_rows (ap_lp a).
Proof. exact order_outside_append. Qed.
Print Assumptions C20_order_outside_inert.

(* non-vacuity: two orders on a 3-step grid with steps 1h, 2h, 1h; executing half of order 0 and all of order 1 *)
Definition exrg : rgrid := restrict (Build_grid [0; 3600; 10800; 14400]%Z 0 14400 3600) [1; 1; 1] 0 14400.
Definition exorders : list order := [Build_order 0 10800 2 5; Build_order 3600 14400 (-1) 3].
Example C20_nonvacuous :
  feasible (ap_lp (orderbook "ob" "N" false exrg exorders)) [1#2; 1] /\
  dispatch_out (ap_map (orderbook "ob" "N" false exrg exorders)) [1#2; 1] "ob" "N" 1 == 0 /\
  lp_c (ap_lp (orderbook "ob" "N" false exrg exorders)) = [30; -9].
Proof.
  split; [|split].
  - split; [vm_compute; intuition discriminate|constructor].
  - vm_compute. reflexivity.
  - vm_compute. reflexivity.
Qed.
