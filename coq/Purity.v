(* Purity.v — C10: set-up as a state machine over the mutable state the code really has.
   Assets keep a reference to the grid object they were given; the restricted grid and the discount factors of an asset are
   stored ON that shared grid object (assets.py:61-78, basic_classes.py:204-217), so the next asset overwrites them.
   A built problem is a function of (asset parameters, prices, grid, restricted grid used); the last component is the only
   one that depends on history, so a problem is abstracted to (asset, grid, owner of the restricted grid it was built from). *)
From Coq Require Import List Arith Lia Bool.
Import ListNotations.

Record pst := { cache : nat -> option nat;      (* grid object -> asset whose restricted grid it carries *)
                ptr   : nat -> option nat }.    (* asset -> grid object it refers to *)
Definition init : pst := {| cache := fun _ => None; ptr := fun _ => None |}.
Definition upd (f : nat -> option nat) (k v : nat) : nat -> option nat := fun x => if Nat.eqb x k then Some v else f x.
Definition set_grid (st : pst) (a g : nat) : pst := {| cache := upd (cache st) g a; ptr := upd (ptr st) a g |}.
Definition owner (st : pst) (g : nat) : option nat := cache st g.

Inductive pop :=
| OSet (a g : nat)                      (* asset.set_timegrid(grid) *)
| OSetupG (a g : nat)                   (* asset.setup_optim_problem(prices, grid) *)
| OSetupN (a : nat)                     (* asset.setup_optim_problem(prices): grid set previously *)
| OPortfolio (assets : list nat) (g : nat).   (* Portfolio.setup_optim_problem: every asset is handed the portfolio's grid *)

Definition out := (nat * nat * option nat)%type.       (* asset, grid, owner of the restricted grid used *)
Definition fresh (o : out) : Prop := let '(a, _, w) := o in w = Some a.

Definition setup_with (st : pst) (a g : nat) : pst * list out :=
  let st' := set_grid st a g in (st', [(a, g, owner st' g)]).

Fixpoint setup_all (st : pst) (l : list nat) (g : nat) : pst * list out :=
  match l with
  | [] => (st, [])
  | a :: l' => let '(st1, o1) := setup_with st a g in let '(st2, o2) := setup_all st1 l' g in (st2, o1 ++ o2)
  end.

(* the code as it is now: a set-up without grid argument refreshes the asset's restricted grid on its grid object *)
Definition step (st : pst) (op : pop) : pst * list out :=
  match op with
  | OSet a g => (set_grid st a g, [])
  | OSetupG a g => setup_with st a g
  | OSetupN a => match ptr st a with Some g => setup_with st a g | None => (st, []) end       (* None: the code raises *)
  | OPortfolio l g => setup_all st l g
  end.
Fixpoint run (st : pst) (ops : list pop) : pst * list out :=
  match ops with
  | [] => (st, [])
  | op :: ops' => let '(st1, o1) := step st op in let '(st2, o2) := run st1 ops' in (st2, o1 ++ o2)
  end.

Lemma setup_with_fresh st a g : Forall fresh (snd (setup_with st a g)).
Proof.
  unfold setup_with; cbn [snd]. constructor; [|constructor]. unfold fresh, owner, set_grid, upd; cbn [cache].
  rewrite Nat.eqb_refl. reflexivity.
Qed.
Lemma setup_all_fresh : forall l st g, Forall fresh (snd (setup_all st l g)).
Proof.
  induction l as [|a l IH]; intros st g; cbn [setup_all]; [constructor|].
  pose proof (setup_with_fresh st a g) as H1. destruct (setup_with st a g) as [st1 o1]. cbn [snd] in H1.
  pose proof (IH st1 g) as H2. destruct (setup_all st1 l g) as [st2 o2]. cbn [snd] in *. apply Forall_app. split; assumption.
Qed.
Lemma step_fresh st op : Forall fresh (snd (step st op)).
Proof.
  destruct op as [a g|a g|a|l g]; cbn [step].
  - constructor.
  - apply setup_with_fresh.
  - destruct (ptr st a); [apply setup_with_fresh|constructor].
  - apply setup_all_fresh.
Qed.

(* C10: along EVERY sequence of operations on shared objects, from every state, every problem that is built is the one fresh
   objects would give *)
Theorem setup_is_pure : forall ops st, Forall fresh (snd (run st ops)).
Proof.
  induction ops as [|op ops IH]; intros st; cbn [run]; [constructor|].
  pose proof (step_fresh st op) as H1. destruct (step st op) as [st1 o1]. cbn [snd] in H1.
  pose proof (IH st1) as H2. destruct (run st1 ops) as [st2 o2]. cbn [snd] in *. apply Forall_app. split; assumption.
Qed.

(* the behaviour before the repair: a set-up without grid argument used whatever restricted grid the grid object carried *)
Definition step_old (st : pst) (op : pop) : pst * list out :=
  match op with
  | OSetupN a => match ptr st a with Some g => (st, [(a, g, owner st g)]) | None => (st, []) end
  | _ => step st op
  end.
Fixpoint run_old (st : pst) (ops : list pop) : pst * list out :=
  match ops with
  | [] => (st, [])
  | op :: ops' => let '(st1, o1) := step_old st op in let '(st2, o2) := run_old st1 ops' in (st2, o1 ++ o2)
  end.
Example old_behaviour_refuted : ~ Forall fresh (snd (run_old init [OSet 0 7; OSet 1 7; OSetupN 0])).
Proof. cbn. intro H. inversion H as [|? ? Hf _]; subst. cbn in Hf. discriminate. Qed.
