(* Ramp.v — C06: start / shutdown ramp profiles given in another frequency than the grid's
   (CHPAsset._convert_ramp, assets.py:1552-1587).  ct = length of a grid step in steps of the profile's frequency
   (convert_time_unit(1, grid.freq, ramp_freq)).  ct < 1: the grid is finer, the profile is interpolated linearly between its points
   (np.interp: constant before the first and after the last point); ct >= 1: the profile is finer (or as fine), every grid step
   gets the time-weighted average of the profile values it covers (the profile padded with its last value). *)
From Coq Require Import QArith Qabs Qround ZArith List Lia Lqa Bool Arith.
From EAO Require Import Num.
Import ListNotations.
Open Scope Q_scope.

(* np.interp(x, xs, ys) *)
Fixpoint interp (xs ys : list Q) (x : Q) : Q :=
  match xs, ys with
  | x0 :: xs', y0 :: ys' =>
      if Qle_bool x x0 then y0 else
      match xs', ys' with
      | x1 :: _, y1 :: _ => if Qle_bool x x1 then y0 + (x - x0) * (y1 - y0) / (x1 - x0) else interp xs' ys' x
      | _, _ => y0
      end
  | _, _ => 0
  end.

Definition qnat (n : nat) : Q := inject_Z (Z.of_nat n).
Definition ceil_nat (q : Q) : nat := Z.to_nat (Qceiling q).
Definition floor_nat (q : Q) : nat := Z.to_nat (Qfloor q).

Definition convert_fine (ramp : vec) (ct : Q) : vec :=
  let k := / ct in
  let n := List.length ramp in
  let xs := map (fun i => qnat (S i) * k) (seq 0 n) in
  map (fun j => Qred (interp xs ramp (qnat (S j)))) (seq 0 (ceil_nat (qnat n * k))).

Definition convert_coarse (ramp : vec) (ct : Q) : vec :=
  let n := List.length ramp in
  let lastv := last ramp 0 in
  let padded := ramp ++ repeat lastv (ceil_nat ct) in
  map (fun i =>
         let a := qnat i * ct in let b := qnat (S i) * ct in
         let ar := ceil_nat a in let br := floor_nat b in
         let core := qsum (map (fun j => nth j padded lastv) (seq ar (br - ar))) in
         let left := if Qlt_le_dec a (qnat ar) then (qnat ar - a) * nth (ar - 1) padded lastv else 0 in
         let right := if Qlt_le_dec (qnat br) b then (b - qnat br) * nth br padded lastv else 0 in
         Qred ((core + left + right) / (b - a)))
      (seq 0 (ceil_nat (qnat n / ct))).

Definition convert_ramp (ramp : vec) (ct : Q) : vec :=
  if Qlt_le_dec ct 1 then convert_fine ramp ct else convert_coarse ramp ct.


(* ---------- the converted profile stays within the range of the given profile ---------- *)
Definition within (lo hi : Q) (v : vec) : Prop := Forall (fun x => lo <= x /\ x <= hi) v.

Lemma convex_between lo hi y0 y1 e d : lo <= y0 <= hi -> lo <= y1 <= hi -> 0 < e -> e <= d ->
  lo <= y0 + e * (y1 - y0) / d /\ y0 + e * (y1 - y0) / d <= hi.
Proof.
  intros [A0 B0] [A1 B1] He Hd. assert (Dp : 0 < d) by lra.
  assert (E : y0 + e * (y1 - y0) / d == (y0 * (d - e) + y1 * e) / d) by (field; lra).
  rewrite E. split.
  - apply Qle_shift_div_l; [exact Dp|]. setoid_replace (lo * d) with (lo * (d - e) + lo * e) by ring.
    apply Qplus_le_compat; apply Qmult_le_compat_r; lra.
  - apply Qle_shift_div_r; [exact Dp|]. setoid_replace (hi * d) with (hi * (d - e) + hi * e) by ring.
    apply Qplus_le_compat; apply Qmult_le_compat_r; lra.
Qed.

Lemma interp_within lo hi : forall xs ys x, List.length xs = List.length ys -> ys <> [] -> within lo hi ys ->
  lo <= interp xs ys x /\ interp xs ys x <= hi.
Proof.
  induction xs as [|x0 xs IH]; intros ys x L Hne W; destruct ys as [|y0 ys]; try discriminate; try contradiction.
  inversion W as [|? ? H0 W']; subst. cbn [interp].
  destruct (Qle_bool x x0) eqn:E0; [exact H0|].
  destruct xs as [|x1 xs']; destruct ys as [|y1 ys']; try discriminate; try exact H0.
  inversion W' as [|? ? H1 W'']; subst.
  destruct (Qle_bool x x1) eqn:E1.
  - apply Qle_bool_iff in E1. assert (x0 < x). { apply Qnot_le_lt. intros C. apply Qle_bool_iff in C. congruence. }
    apply convex_between; try assumption; lra.
  - apply IH; [cbn in L |- *; lia|discriminate|exact W'].
Qed.

Theorem convert_fine_within lo hi ramp ct : ramp <> [] -> within lo hi ramp -> within lo hi (convert_fine ramp ct).
Proof.
  intros Hne W. unfold convert_fine, within. rewrite Forall_map. apply Forall_forall. intros j _.
  rewrite Qred_correct. apply interp_within; [rewrite map_length, seq_length; reflexivity|exact Hne|exact W].
Qed.


Lemma inject_Z_minus (x y : Z) : inject_Z (x - y) = inject_Z x - inject_Z y.
Proof. unfold Z.sub, Qminus. rewrite inject_Z_plus, inject_Z_opp. reflexivity. Qed.
Lemma qnat_Z z : (0 <= z)%Z -> qnat (Z.to_nat z) = inject_Z z.
Proof. intros H. unfold qnat. rewrite Z2Nat.id by exact H. reflexivity. Qed.
Lemma inject_Z_nonneg z : 0 <= inject_Z z -> (0 <= z)%Z.
Proof. intros H. change 0 with (inject_Z 0) in H. rewrite <- Zle_Qle in H. exact H. Qed.

Lemma ceil_nat_ge a : 0 <= a -> a <= qnat (ceil_nat a).
Proof.
  intros H. unfold ceil_nat. rewrite qnat_Z; [apply Qle_ceiling|].
  apply inject_Z_nonneg. eapply Qle_trans; [exact H|apply Qle_ceiling].
Qed.
Lemma floor_nat_le b : 0 <= b -> qnat (floor_nat b) <= b.
Proof.
  intros H. unfold floor_nat. rewrite qnat_Z; [apply Qfloor_le|].
  change 0%Z with (Qfloor (inject_Z 0)). apply Qfloor_resp_le. change (inject_Z 0) with 0. exact H.
Qed.
Lemma ceil_le_floor a b : 0 <= a -> a + 1 <= b -> (ceil_nat a <= floor_nat b)%nat.
Proof.
  intros Ha Hb. unfold ceil_nat, floor_nat. apply Z2Nat.inj_le.
  - apply inject_Z_nonneg. eapply Qle_trans; [exact Ha|apply Qle_ceiling].
  - change 0%Z with (Qfloor (inject_Z 0)). apply Qfloor_resp_le. change (inject_Z 0) with 0. lra.
  - rewrite <- (Qfloor_Z (Qceiling a)). apply Qfloor_resp_le.
    pose proof (Qceiling_lt a) as C. rewrite inject_Z_minus in C. change (inject_Z 1) with 1 in C. lra.
Qed.

Lemma nth_within lo hi (v : vec) d j : within lo hi v -> lo <= d <= hi -> lo <= nth j v d /\ nth j v d <= hi.
Proof.
  intros W D. destruct (Nat.lt_ge_cases j (List.length v)) as [L|L].
  - unfold within in W. rewrite Forall_forall in W. apply W. apply nth_In. exact L.
  - rewrite nth_overflow by exact L. exact D.
Qed.

Lemma qsum_within lo hi (f : nat -> Q) l : (forall j, lo <= f j /\ f j <= hi) ->
  lo * qnat (List.length l) <= qsum (map f l) /\ qsum (map f l) <= hi * qnat (List.length l).
Proof.
  intros H. induction l as [|j l IH].
  - cbn [map qsum List.length]. assert (Z0 : qnat 0 == 0) by reflexivity. rewrite Z0. split; lra.
  - cbn [map qsum List.length]. destruct (H j) as [A B]. destruct IH as [C D].
    assert (E : qnat (S (List.length l)) == 1 + qnat (List.length l)).
    { unfold qnat. rewrite Nat2Z.inj_succ, <- Z.add_1_l, inject_Z_plus. reflexivity. }
    rewrite E. split; lra.
Qed.

Lemma last_within lo hi (v : vec) : v <> [] -> within lo hi v -> lo <= last v 0 /\ last v 0 <= hi.
Proof.
  intros Hne W. unfold within in W. rewrite Forall_forall in W. apply W.
  destruct v as [|a v]; [contradiction|]. apply (app_removelast_last 0) in Hne. rewrite Hne at 2. apply in_or_app. right. left. reflexivity.
Qed.

Theorem convert_coarse_within lo hi ramp ct : ramp <> [] -> 1 <= ct -> within lo hi ramp -> within lo hi (convert_coarse ramp ct).
Proof.
  intros Hne Hct W. unfold convert_coarse, within. rewrite Forall_map. apply Forall_forall. intros i _. cbv zeta.
  set (lastv := last ramp 0). set (padded := ramp ++ repeat lastv (ceil_nat ct)).
  assert (Lw : lo <= lastv /\ lastv <= hi) by (apply last_within; assumption).
  assert (Pw : within lo hi padded).
  { unfold padded, within. apply Forall_app. split; [exact W|]. apply Forall_forall. intros x Hx. apply repeat_spec in Hx. subst x. exact Lw. }
  assert (Qi : 0 <= qnat i) by (unfold qnat; change 0 with (inject_Z 0); rewrite <- Zle_Qle; lia).
  assert (ES : qnat (S i) == qnat i + 1).
  { unfold qnat. rewrite Nat2Z.inj_succ, <- Z.add_1_r, inject_Z_plus. reflexivity. }
  set (a := qnat i * ct). set (b := qnat (S i) * ct).
  assert (Ha : 0 <= a) by (unfold a; apply Qmult_le_0_compat; lra).
  assert (Hab : b == a + ct) by (unfold a, b; rewrite ES; ring).
  assert (Hb : 0 <= b) by lra.
  set (ar := ceil_nat a). set (br := floor_nat b).
  assert (A1 : a <= qnat ar) by (apply ceil_nat_ge; exact Ha).
  assert (B1 : qnat br <= b) by (apply floor_nat_le; exact Hb).
  assert (AB : (ar <= br)%nat) by (apply ceil_le_floor; [exact Ha|lra]).
  assert (Ecnt : qnat (br - ar) == qnat br - qnat ar).
  { unfold qnat. rewrite Nat2Z.inj_sub by exact AB. rewrite inject_Z_minus. reflexivity. }
  destruct (qsum_within lo hi (fun j => nth j padded lastv) (seq ar (br - ar)) (fun j => nth_within lo hi padded lastv j Pw Lw)) as [C1 C2].
  rewrite seq_length, Ecnt in C1, C2.
  set (core := qsum (map (fun j => nth j padded lastv) (seq ar (br - ar)))) in *.
  destruct (nth_within lo hi padded lastv (ar - 1) Pw Lw) as [L1 L2].
  destruct (nth_within lo hi padded lastv br Pw Lw) as [R1 R2].
  set (pl := nth (ar - 1) padded lastv) in *. set (pr := nth br padded lastv) in *.
  set (left := if Qlt_le_dec a (qnat ar) then (qnat ar - a) * pl else 0).
  set (right := if Qlt_le_dec (qnat br) b then (b - qnat br) * pr else 0).
  assert (EL : left == (qnat ar - a) * pl).
  { unfold left. destruct (Qlt_le_dec a (qnat ar)) as [_|G]; [reflexivity|]. assert (Z0 : qnat ar - a == 0) by lra. rewrite Z0. ring. }
  assert (ER : right == (b - qnat br) * pr).
  { unfold right. destruct (Qlt_le_dec (qnat br) b) as [_|G]; [reflexivity|]. assert (Z0 : b - qnat br == 0) by lra. rewrite Z0. ring. }
  rewrite Qred_correct.
  assert (Dp : 0 < b - a) by lra.
  assert (WL1 : lo * (qnat ar - a) <= pl * (qnat ar - a)) by (apply Qmult_le_compat_r; lra).
  assert (WL2 : pl * (qnat ar - a) <= hi * (qnat ar - a)) by (apply Qmult_le_compat_r; lra).
  assert (WR1 : lo * (b - qnat br) <= pr * (b - qnat br)) by (apply Qmult_le_compat_r; lra).
  assert (WR2 : pr * (b - qnat br) <= hi * (b - qnat br)) by (apply Qmult_le_compat_r; lra).
  split.
  - apply Qle_shift_div_l; [exact Dp|]. rewrite EL, ER. lra.
  - apply Qle_shift_div_r; [exact Dp|]. rewrite EL, ER. lra.
Qed.

Theorem convert_ramp_within lo hi ramp ct : ramp <> [] -> within lo hi ramp -> within lo hi (convert_ramp ramp ct).
Proof.
  intros Hne W. unfold convert_ramp. destruct (Qlt_le_dec ct 1) as [_|G]; [apply convert_fine_within|apply convert_coarse_within]; assumption.
Qed.


(* the converted profile covers the same time: ceil(n / ct) grid steps for n profile steps *)
Theorem convert_ramp_length ramp ct : List.length (convert_ramp ramp ct) = ceil_nat (qnat (List.length ramp) / ct).
Proof.
  unfold convert_ramp. destruct (Qlt_le_dec ct 1); unfold convert_fine, convert_coarse; rewrite map_length, seq_length; reflexivity.
Qed.

(* ---------- exactness at the knots: where the grid is finer (k = 1/ct grid steps per profile step), the converted profile takes the
   given value i exactly at the end of profile step i ---------- *)
Lemma nth_map_seq_gen (F : nat -> Q) m j : (j < m)%nat -> nth j (map F (seq 0 m)) 0 = F j.
Proof.
  intros H. rewrite (nth_indep _ 0 (F 0%nat)) by (rewrite map_length, seq_length; exact H).
  rewrite map_nth. rewrite seq_nth by exact H. reflexivity.
Qed.
Lemma Qle_bool_comp a a' b : a == a' -> Qle_bool a b = Qle_bool a' b.
Proof.
  intros E. destruct (Qle_bool a b) eqn:E1; destruct (Qle_bool a' b) eqn:E2; try reflexivity.
  - apply Qle_bool_iff in E1. assert (a' <= b) by (rewrite <- E; exact E1). apply Qle_bool_iff in H. congruence.
  - apply Qle_bool_iff in E2. assert (a <= b) by (rewrite E; exact E2). apply Qle_bool_iff in H. congruence.
Qed.
Lemma Qle_bool_false_of_lt a b : b < a -> Qle_bool a b = false.
Proof. intros H. destruct (Qle_bool a b) eqn:E; [|reflexivity]. apply Qle_bool_iff in E. lra. Qed.
Lemma interp_comp : forall xs ys x x', x == x' -> interp xs ys x == interp xs ys x'.
Proof.
  induction xs as [|x0 xs IH]; intros ys x x' E; destruct ys as [|y0 ys]; cbn [interp]; try reflexivity.
  rewrite (Qle_bool_comp x x' x0 E). destruct (Qle_bool x' x0); [reflexivity|].
  destruct xs as [|x1 xs']; destruct ys as [|y1 ys']; try reflexivity.
  rewrite (Qle_bool_comp x x' x1 E). destruct (Qle_bool x' x1); [rewrite E; reflexivity|]. apply IH. exact E.
Qed.

Definition knots (k : Q) (off n : nat) : list Q := map (fun j => qnat (S (off + j)) * k) (seq 0 n).
Lemma knots_cons k off n : knots k off (S n) = qnat (S off) * k :: knots k (S off) n.
Proof.
  unfold knots. cbn [seq map]. rewrite Nat.add_0_r. f_equal. rewrite <- seq_shift, map_map. apply map_ext. intros x. do 2 f_equal. lia.
Qed.
Lemma qnat_lt (a b : nat) : (a < b)%nat -> qnat a < qnat b.
Proof. intros H. unfold qnat. rewrite <- Zlt_Qlt. lia. Qed.
Lemma qnat_S a : qnat (S a) == qnat a + 1.
Proof. unfold qnat. rewrite Nat2Z.inj_succ, <- Z.add_1_r, inject_Z_plus. reflexivity. Qed.

Lemma interp_at_knot : forall (n : nat) (k : Q) (ys : vec) (off i : nat), 0 < k -> List.length ys = n -> (i < n)%nat ->
  interp (knots k off n) ys (qnat (S (off + i)) * k) == nth i ys 0.
Proof.
  induction n as [|n IH]; intros k ys off i Hk L Hi; [lia|].
  destruct ys as [|y0 ys]; [discriminate|]. cbn [List.length] in L. injection L as L.
  rewrite knots_cons. cbn [interp].
  assert (Mono : forall a b : nat, (a < b)%nat -> qnat (S a) * k < qnat (S b) * k).
  { intros a b Hab. apply Qmult_lt_compat_r; [exact Hk|]. apply qnat_lt. lia. }
  destruct i as [|i].
  - rewrite Nat.add_0_r. assert (E : Qle_bool (qnat (S off) * k) (qnat (S off) * k) = true) by (apply Qle_bool_iff; lra).
    rewrite E. reflexivity.
  - assert (E0 : Qle_bool (qnat (S (off + S i)) * k) (qnat (S off) * k) = false).
    { apply Qle_bool_false_of_lt. apply Mono. lia. }
    rewrite E0.
    destruct n as [|n]; [lia|]. destruct ys as [|y1 ys']; [discriminate|].
    pose proof (IH k (y1 :: ys') (S off) i Hk L ltac:(lia)) as R.
    replace (S off + i)%nat with (off + S i)%nat in R by lia.
    rewrite knots_cons in R. rewrite knots_cons.
    destruct i as [|i].
    + replace (off + 1)%nat with (S off) by lia.
      assert (E1 : Qle_bool (qnat (S (S off)) * k) (qnat (S (S off)) * k) = true) by (apply Qle_bool_iff; lra).
      rewrite E1. cbn [nth].
      assert (D : qnat (S (S off)) * k - qnat (S off) * k == k) by (rewrite (qnat_S (S off)); ring).
      rewrite D. field. lra.
    + assert (E1 : Qle_bool (qnat (S (off + S (S i))) * k) (qnat (S (S off)) * k) = false).
      { apply Qle_bool_false_of_lt. apply Mono. lia. }
      rewrite E1. cbn [nth]. cbn [nth] in R. exact R.
Qed.

Theorem convert_fine_at_knots ramp (k : nat) i : (0 < k)%nat -> (i < List.length ramp)%nat ->
  nth (S i * k - 1) (convert_fine ramp (/ qnat k)) 0 == nth i ramp 0.
Proof.
  intros Hk Hi. unfold convert_fine. set (n := List.length ramp).
  assert (Kp : 0 < qnat k) by (change 0 with (qnat 0); apply qnat_lt; exact Hk).
  assert (EK : / / qnat k == qnat k) by (apply Qinv_involutive).
  assert (Len : ceil_nat (qnat n * / / qnat k) = (n * k)%nat).
  { unfold ceil_nat. assert (E : qnat n * / / qnat k == inject_Z (Z.of_nat (n * k))).
    { rewrite EK. unfold qnat. rewrite Nat2Z.inj_mul, inject_Z_mult. reflexivity. }
    rewrite (Qceiling_comp _ _ E), Qceiling_Z, Nat2Z.id. reflexivity. }
  rewrite Len.
  assert (Pos : (S i * k - 1 < n * k)%nat) by (assert (S i * k <= n * k)%nat by (apply Nat.mul_le_mono_r; lia); nia).
  rewrite nth_map_seq_gen by exact Pos.
  rewrite Qred_correct.
  assert (EX : qnat (S (S i * k - 1)) == qnat (S (0 + i)) * qnat k).
  { replace (S (S i * k - 1)) with (S i * k)%nat by nia. unfold qnat. rewrite Nat2Z.inj_mul, inject_Z_mult. reflexivity. }
  assert (XS : map (fun i0 : nat => qnat (S i0) * / / qnat k) (seq 0 n) = map (fun i0 : nat => qnat (S i0) * / / qnat k) (seq 0 n)) by reflexivity.
  transitivity (interp (knots (/ / qnat k) 0 n) ramp (qnat (S (0 + i)) * / / qnat k)).
  - unfold knots. cbn [Nat.add]. apply interp_comp. rewrite EX, EK. reflexivity.
  - apply interp_at_knot; [rewrite EK; exact Kp|reflexivity|exact Hi].
Qed.

(* ---------- exactness of the averages: where a grid step is exactly m profile steps long (ct = m), grid step i carries the plain
   mean of the m profile values it covers (the profile padded with its last value) ---------- *)
Lemma qnat_mul a b : qnat (a * b) == qnat a * qnat b.
Proof. unfold qnat. rewrite Nat2Z.inj_mul, inject_Z_mult. reflexivity. Qed.
Lemma ceil_nat_int q n : q == qnat n -> ceil_nat q = n.
Proof. intros E. unfold ceil_nat. rewrite (Qceiling_comp _ _ E). unfold qnat. rewrite Qceiling_Z, Nat2Z.id. reflexivity. Qed.
Lemma floor_nat_int q n : q == qnat n -> floor_nat q = n.
Proof. intros E. unfold floor_nat. rewrite (Qfloor_comp _ _ E). unfold qnat. rewrite Qfloor_Z, Nat2Z.id. reflexivity. Qed.

Theorem convert_coarse_exact_means ramp (m : nat) i : (0 < m)%nat -> (i < ceil_nat (qnat (List.length ramp) / qnat m))%nat ->
  nth i (convert_coarse ramp (qnat m)) 0 ==
  qsum (map (fun j => nth j (ramp ++ repeat (last ramp 0) m) (last ramp 0)) (seq (i * m) m)) / qnat m.
Proof.
  intros Hm Hi. unfold convert_coarse. rewrite nth_map_seq_gen by exact Hi. rewrite Qred_correct.
  assert (Mp : 0 < qnat m) by (change 0 with (qnat 0); apply qnat_lt; exact Hm).
  assert (Ea : qnat i * qnat m == qnat (i * m)) by (rewrite qnat_mul; reflexivity).
  assert (Eb : qnat (S i) * qnat m == qnat (S i * m)) by (rewrite qnat_mul; reflexivity).
  rewrite (ceil_nat_int _ _ Ea), (floor_nat_int _ _ Eb).
  rewrite (ceil_nat_int (qnat m) m) by reflexivity.
  replace (S i * m - i * m)%nat with m by nia.
  destruct (Qlt_le_dec (qnat i * qnat m) (qnat (i * m))) as [C|_]; [rewrite Ea in C; exfalso; lra|].
  destruct (Qlt_le_dec (qnat (S i * m)) (qnat (S i) * qnat m)) as [C|_]; [rewrite Eb in C; exfalso; lra|].
  assert (D : qnat (S i) * qnat m - qnat i * qnat m == qnat m) by (rewrite (qnat_S i); ring).
  rewrite D. field. lra.
Qed.
