(* Ref.v — C02: the textbook meaning of the assembled problems.
   Per-step flow in [min dt, max dt]; two-variable split with spread; transport -1 / +eff; storage level recursion
   and holding cost on (level - baseline); portfolio = independent asset blocks coupled only by the nodal rows. *)
From Coq Require Import QArith Qabs ZArith List Lia Lqa Bool String Arith.
From EAO Require Import Num LP Mapping Grid Assets StorageProofs Portfolio.
Import ListNotations.
Open Scope Q_scope.

(* ---------- in/out split of a contract step (assets.py:752-770) ---------- *)
Lemma qmin0_spec a : (a <= 0 -> qmin0 a = a) /\ (0 <= a -> qmin0 a == 0).
Proof.
  unfold qmin0. destruct (Qle_bool a 0) eqn:E.
  - apply Qle_bool_iff in E. split; [reflexivity|intros; lra].
  - assert (~ a <= 0) by (intro H; apply Qle_bool_iff in H; congruence). split; [intros; contradiction|reflexivity].
Qed.
Lemma qmax0_spec a : (0 <= a -> qmax0 a = a) /\ (a <= 0 -> qmax0 a == 0).
Proof.
  unfold qmax0. destruct (Qle_bool 0 a) eqn:E.
  - apply Qle_bool_iff in E. split; [reflexivity|intros; lra].
  - assert (~ 0 <= a) by (intro H; apply Qle_bool_iff in H; congruence). split; [intros; contradiction|reflexivity].
Qed.
Lemma qmin0_le a : qmin0 a <= 0 /\ qmin0 a <= a.
Proof. destruct (Qlt_le_dec 0 a) as [H|H]; destruct (qmin0_spec a) as [A B]; [rewrite B by lra; lra|rewrite A by lra; lra]. Qed.
Lemma qmax0_ge a : 0 <= qmax0 a /\ a <= qmax0 a.
Proof. destruct (Qlt_le_dec a 0) as [H|H]; destruct (qmax0_spec a) as [A B]; [rewrite B by lra; lra|rewrite A by lra; lra]. Qed.
Lemma qmin0_qmax0 a : qmin0 a + qmax0 a == a.
Proof.
  destruct (Qlt_le_dec a 0) as [H|H]; destruct (qmin0_spec a) as [A B]; destruct (qmax0_spec a) as [C D].
  - rewrite A, D by lra. lra.
  - rewrite B, C by lra. lra.
Qed.

(* the flows representable by (in, out) within the emitted bounds are exactly [a, b]; and every flow has a
   representation in which one side is zero *)
Theorem split_range a b f : a <= b ->
  (a <= f /\ f <= b) <->
  (exists i o, f == i + o /\ qmin0 a <= i /\ i <= qmin0 b /\ qmax0 a <= o /\ o <= qmax0 b /\ (i == 0 \/ o == 0)).
Proof.
  intros Hab. split.
  - intros [Ha Hb].
    destruct (qmin0_spec a) as [A1 A2]; destruct (qmin0_spec b) as [B1 B2];
    destruct (qmax0_spec a) as [C1 C2]; destruct (qmax0_spec b) as [D1 D2].
    destruct (Qlt_le_dec f 0) as [Hf|Hf].
    + exists f, 0. assert (a <= 0) by lra. rewrite A1 by lra. rewrite C2 by lra.
      destruct (Qlt_le_dec b 0) as [Hb0|Hb0].
      * rewrite B1 by lra. rewrite D2 by lra. repeat split; try lra; try (right; reflexivity).
      * rewrite B2 by lra. rewrite D1 by lra. repeat split; try lra; try (right; reflexivity).
    + exists 0, f. assert (0 <= b) by lra. rewrite B2 by lra. rewrite D1 by lra.
      destruct (Qlt_le_dec a 0) as [Ha0|Ha0].
      * rewrite A1 by lra. rewrite C2 by lra. repeat split; try lra; try (left; reflexivity).
      * rewrite A2 by lra. rewrite C1 by lra. repeat split; try lra; try (left; reflexivity).
  - intros (i & o & E & I1 & I2 & O1 & O2 & _).
    pose proof (qmin0_qmax0 a). pose proof (qmin0_qmax0 b). lra.
Qed.

(* cost of the split: price on the net flow plus spread on both sides; never below the true cost
   price*f + spread*|f| and equal to it when one side is zero *)
Theorem split_cost pr ec i o : i <= 0 -> 0 <= o ->
  (pr - ec) * i + (pr + ec) * o == pr * (i + o) + ec * (o - i) /\
  (0 <= ec -> pr * (i + o) + ec * Qabs (i + o) <= (pr - ec) * i + (pr + ec) * o) /\
  ((i == 0 \/ o == 0) -> (pr - ec) * i + (pr + ec) * o == pr * (i + o) + ec * Qabs (i + o)).
Proof.
  intros Hi Ho. split; [ring|]. split.
  - intros Hec. assert (Qabs (i + o) <= o - i).
    { apply Qabs_Qle_condition. lra. }
    assert (0 <= ec * ((o - i) - Qabs (i + o))) by (apply Qmult_le_0_compat; lra).
    lra.
  - intros [E|E].
    + rewrite E. setoid_replace (0 + o) with o by ring. rewrite (Qabs_pos o Ho). ring.
    + rewrite E. setoid_replace (i + 0) with i by ring. rewrite (Qabs_neg i Hi). ring.
Qed.

(* ---------- per-step volume limit = rate x step length (make_vector with convert=True) ---------- *)
Lemma vmul_nth : forall a b t, (t < List.length a)%nat -> (t < List.length b)%nat ->
  nth t (vmul a b) 0 == nth t a 0 * nth t b 0.
Proof.
  unfold vmul. induction a as [|a0 a IH]; intros [|b0 b] t Ha Hb; simpl in Ha, Hb; try lia.
  destruct t as [|t]; cbn [combine map nth fst snd]; [apply Qred_correct|]. apply IH; lia.
Qed.
Theorem contract_limits rg v t : (t < rg_T rg)%nat -> List.length (rg_dt rg) = rg_T rg ->
  exists bound, mkvec rg (PConst v) None true = Some bound /\ nth t bound 0 == v * nth t (rg_dt rg) 0.
Proof.
  intros Ht Hl. unfold mkvec. cbn [option_map]. eexists. split; [reflexivity|].
  rewrite vmul_nth by (rewrite ?repeat_length; lia). rewrite nth_repeat_q by exact Ht. reflexivity.
Qed.

(* ---------- dispatch of a block of mapping rows built by mk_rows (one variable per step) ---------- *)
Lemma qsum_seq_front (F : nat -> Q) n : qsum (map F (seq 0 (S n))) == F 0%nat + qsum (map (fun k => F (S k)) (seq 0 n)).
Proof. cbn [seq map qsum]. rewrite <- seq_shift, map_map. reflexivity. Qed.
Lemma mk_rows_dispatch_gen name node vn off x t : forall (I : list nat) (fac : vec) (s : nat),
  List.length fac = List.length I ->
  qsum (map (fun r => nth (m_var r) x 0 * m_factor r)
     (filter (fun r => String.eqb (m_asset r) name && sel node t r)
        (map (fun p => Build_mrow (off + fst (fst p)) name (Some node) "d" (snd (fst p)) (snd p) vn false)
             (combine (combine (seq s (List.length I)) I) fac)))) ==
  qsum (map (fun k => if Nat.eqb (nth k I 0%nat) t then nth (off + s + k) x 0 * nth k fac 0 else 0) (seq 0 (List.length I))).
Proof.
  induction I as [|i I IH]; intros fac s Hl; destruct fac as [|f fac]; simpl in Hl; try discriminate; [reflexivity|].
  change (List.length (i :: I)) with (S (List.length I)). rewrite qsum_seq_front.
  cbn [seq combine map filter m_asset fst snd].
  rewrite String.eqb_refl. unfold sel at 1, is_d, at_node. cbn [m_type m_node m_step]. rewrite !String.eqb_refl. cbn [andb nth].
  assert (R : qsum (map (fun k => if Nat.eqb (nth k I 0%nat) t then nth (off + s + S k) x 0 * nth k fac 0 else 0) (seq 0 (List.length I)))
           == qsum (map (fun k => if Nat.eqb (nth k I 0%nat) t then nth (off + S s + k) x 0 * nth k fac 0 else 0) (seq 0 (List.length I)))).
  { apply qsum_map_ext. intros k _. replace (off + S s + k)%nat with (off + s + S k)%nat by lia. reflexivity. }
  rewrite R. rewrite <- (IH fac (S s)) by lia. rewrite Nat.add_0_r.
  destruct (Nat.eqb i t); cbn [map qsum m_var m_factor]; [reflexivity|ring].
Qed.
Lemma mk_rows_dispatch name node vn off fac I x t : List.length fac = List.length I ->
  dispatch_out (mk_rows name (Some node) "d" vn off fac I) x name node t ==
  qsum (map (fun k => if Nat.eqb (nth k I 0%nat) t then nth (off + k) x 0 * nth k fac 0 else 0) (seq 0 (List.length I))).
Proof.
  intros Hl. unfold dispatch_out, mk_rows. rewrite (mk_rows_dispatch_gen name node vn off x t I fac 0 Hl).
  apply qsum_map_ext. intros k _. rewrite Nat.add_0_r. reflexivity.
Qed.
Lemma mk_rows_other_node name node node' vn off fac I x t : String.eqb node' node = false ->
  dispatch_out (mk_rows name (Some node) "d" vn off fac I) x name node' t == 0.
Proof.
  intros Hn. unfold dispatch_out, mk_rows.
  assert (E : filter (fun r => String.eqb (m_asset r) name && sel node' t r)
     (map (fun p => Build_mrow (off + fst (fst p)) name (Some node) "d" (snd (fst p)) (snd p) vn false)
          (combine (combine (seq 0 (List.length I)) I) fac)) = []).
  { induction (combine (combine (seq 0 (List.length I)) I) fac) as [|p l IH]; cbn [map filter]; [reflexivity|].
    unfold sel at 1, at_node. cbn [m_node]. rewrite Hn. rewrite !andb_false_r. exact IH. }
  rewrite E. reflexivity.
Qed.
Lemma dispatch_out_app m1 m2 x a n t : dispatch_out (m1 ++ m2) x a n t == dispatch_out m1 x a n t + dispatch_out m2 x a n t.
Proof. unfold dispatch_out. rewrite filter_app, map_app, qsum_app. reflexivity. Qed.

(* transport (assets.py:934-947): what leaves node 1 arrives at node 2 multiplied by the efficiency *)
Theorem transport_flows name n1 n2 vn eff (I : list nat) x t : String.eqb n1 n2 = false ->
  let mp := mk_rows name (Some n1) "d" vn 0 (repeat (-1) (List.length I)) I ++
            mk_rows name (Some n2) "d" vn 0 (repeat eff (List.length I)) I in
  let flow := qsum (map (fun k => if Nat.eqb (nth k I 0%nat) t then nth k x 0 else 0) (seq 0 (List.length I))) in
  dispatch_out mp x name n1 t == - flow /\ dispatch_out mp x name n2 t == eff * flow.
Proof.
  intros Hn mp flow. subst mp flow. rewrite !dispatch_out_app.
  assert (Hn' : String.eqb n2 n1 = false) by (rewrite String.eqb_sym; exact Hn).
  rewrite (mk_rows_other_node name n2 n1) by exact Hn. rewrite (mk_rows_other_node name n1 n2) by exact Hn'.
  rewrite !mk_rows_dispatch by apply repeat_length. split.
  - rewrite Qplus_0_r. setoid_replace (- qsum (map (fun k => if Nat.eqb (nth k I 0%nat) t then nth k x 0 else 0) (seq 0 (List.length I))))
      with ((-1) * qsum (map (fun k => if Nat.eqb (nth k I 0%nat) t then nth k x 0 else 0) (seq 0 (List.length I)))) by ring.
    rewrite <- qsum_map_scale. apply qsum_map_ext. intros k Hk. apply in_seq in Hk. cbn [Nat.add].
    rewrite nth_repeat_q by lia. destruct (Nat.eqb (nth k I 0%nat) t); ring.
  - rewrite Qplus_0_l. rewrite <- qsum_map_scale. apply qsum_map_ext. intros k Hk. apply in_seq in Hk. cbn [Nat.add].
    rewrite nth_repeat_q by lia. destruct (Nat.eqb (nth k I 0%nat) t); ring.
Qed.

(* ---------- storage: level recursion and holding cost ---------- *)
Theorem storage_recursion p n dt x t : (S t < List.length dt)%nat ->
  level p n dt x 0 == sp_start p + net p n x 0 + sp_inflow p * nth 0 dt 0 /\
  level p n dt x (S t) == level p n dt x t + net p n x (S t) + sp_inflow p * nth (S t) dt 0.
Proof.
  intros Ht. unfold level. split.
  - destruct dt as [|d0 dt]; [simpl in Ht; lia|]. cbn [seq map qsum firstn nth]. ring.
  - rewrite (seq_S (S t) 0), map_app, qsum_app. cbn [Nat.add map qsum].
    assert (E : firstn (S (S t)) dt = firstn (S t) dt ++ [nth (S t) dt 0]).
    { clear - Ht. revert dt Ht. generalize (S t) as m. induction m as [|m IH]; intros [|d dt] H; simpl in H; try lia.
      - reflexivity.
      - cbn [firstn nth app]. f_equal. apply IH. lia. }
    rewrite E, map_app, qsum_app. cbn [map qsum]. ring.
Qed.

(* Abel summation: charging the tail sums of the weights on the per-step net change equals charging the
   weights on the accumulated change (level - baseline) *)
Lemma tails_hd w : hd 0 (tails_sum w ++ [0]) == qsum w.
Proof. destruct w as [|a w]; cbn [tails_sum app hd qsum]; [reflexivity|]. rewrite Qred_correct.
  revert a. induction w as [|b w IH]; intros a; cbn [tails_sum app hd qsum]; [reflexivity|].
  rewrite Qred_correct. rewrite (IH b). reflexivity.
Qed.
Fixpoint prefix_from (acc : Q) (v : vec) : vec :=
  match v with [] => [] | a :: v' => (acc + a) :: prefix_from (acc + a) v' end.
Lemma dot_prefix_shift : forall w v acc, List.length w = List.length v ->
  dot w (prefix_from acc v) == acc * qsum w + dot w (prefix_from 0 v).
Proof.
  induction w as [|a w IH]; intros [|b v] acc H; simpl in H; try discriminate; cbn [dot prefix_from qsum]; [ring|].
  rewrite (IH v (acc + b)) by lia. rewrite (IH v (0 + b)) by lia. ring.
Qed.
Theorem holding_cost_abel : forall w v, List.length w = List.length v ->
  dot (tails_sum w) v == dot w (prefix_from 0 v).
Proof.
  induction w as [|a w IH]; intros [|b v] H; simpl in H; try discriminate; [reflexivity|].
  cbn [tails_sum dot prefix_from]. rewrite Qred_correct, tails_hd, (IH v) by lia.
  rewrite (dot_prefix_shift w v (0 + b)) by lia. ring.
Qed.

(* ---------- portfolio = independent asset blocks + nodal rows ---------- *)
Theorem assemble_feasible : forall aps xs,
  Forall (fun a => wf_lp (ap_lp a)) aps ->
  Forall2 (fun a x => List.length x = nvars (ap_lp a)) aps xs ->
  (feasible (ap_lp (assemble aps)) (List.concat xs) <-> Forall2 (fun a x => feasible (ap_lp a) x) aps xs) /\
  value (ap_lp (assemble aps)) (List.concat xs) == qsum (map (fun ax => value (ap_lp (fst ax)) (snd ax)) (combine aps xs)).
Proof.
  induction aps as [|a aps IH]; intros xs W L; inversion L as [|? x ? xs' Lx Lr]; subst.
  - cbn. split; [|reflexivity]. split; intros; [constructor|]. split; [exact I|constructor].
  - inversion W as [|? ? Wa Wr]; subst. destruct (IH xs' Wr Lr) as [IHf IHv].
    cbn [assemble ap_lp List.concat combine map qsum fst snd]. split.
    + rewrite lp_sum_feasible; [|exact Wa|apply assemble_wf_lp; exact Wr|exact Lx]. rewrite IHf. split.
      * intros [A B]. constructor; assumption.
      * intros H. inversion H; subst. split; assumption.
    + rewrite lp_sum_value by exact Lx. rewrite IHv. reflexivity.
Qed.
Theorem portfolio_blocks nodes skip steps aps xs :
  Forall (fun a => wf_lp (ap_lp a)) aps ->
  Forall2 (fun a x => List.length x = nvars (ap_lp a)) aps xs ->
  (feasible (ap_lp (portfolio nodes skip steps aps)) (List.concat xs) <->
     Forall2 (fun a x => feasible (ap_lp a) x) aps xs /\
     Forall (row_ok (List.concat xs)) (nodal_crows nodes skip steps (ap_map (assemble aps)))) /\
  value (ap_lp (portfolio nodes skip steps aps)) (List.concat xs) == qsum (map (fun ax => value (ap_lp (fst ax)) (snd ax)) (combine aps xs)).
Proof.
  intros W L. destruct (assemble_feasible aps xs W L) as [F V]. unfold portfolio; cbn [ap_lp]. split.
  - rewrite add_rows_feasible, F. tauto.
  - rewrite add_rows_value. exact V.
Qed.
