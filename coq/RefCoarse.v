(* RefCoarse.v — C02 / C13: assets on a coarser frequency as instances of the reference equivalence.
   A unit on a coarse restricted grid is the unit on the same steps read as a fine grid (prices averaged over the minor steps),
   with its mapping extended to the minor steps: it realises the textbook object whose flows are spread over the minor steps
   in proportion to their length (tb_coarse).  The generic step (coarse_unit_ok) holds for every unit; the instances show that
   the model builders of SimpleContract and Transport on a coarse grid ARE such extended units. *)
From Coq Require Import QArith Qabs ZArith List Lia Lqa Bool String Arith.
From EAO Require Import Num LP Mapping Dcf Grid Assets StorageProofs Portfolio Ref Reference.
Import ListNotations.
Open Scope Q_scope.

(* ---------- generic: extension of the mapping keeps a unit a unit ---------- *)
Lemma extend_minor_Forall gdt rg (P : mrow -> Prop) :
  (forall r t f, P r -> P (Build_mrow (m_var r) (m_asset r) (m_node r) (m_type r) t f (m_name r) (m_bool r))) ->
  forall mp mp', Forall P mp -> extend_minor gdt rg mp = Some mp' -> Forall P mp'.
Proof.
  intros HP. unfold extend_minor. destruct (rg_minor rg) as [groups|]; [|intros mp mp' H E; inversion E; subst; exact H].
  induction mp as [|r mp IH]; intros mp' H E; cbn [fold_right] in E.
  - inversion E. constructor.
  - inversion H as [|? ? Hr Hm]; subst.
    destruct (fold_right _ (Some []) mp) as [rest|] eqn:Er; [|discriminate].
    destruct (index_of (m_step r) (rg_I rg)) as [im|]; [|discriminate]. inversion E; subst mp'. clear E.
    apply Forall_app. split; [|apply IH; [exact Hm|reflexivity]].
    apply Forall_forall. intros r' Hin. apply in_map_iff in Hin. destruct Hin as (t & Et & _). subst r'. apply HP. exact Hr.
Qed.

Definition coarse_unit (u : unit_) (gdt : vec) (rg : rgrid) (groups : list (list nat)) (mp' : list mrow) : unit_ :=
  {| u_name := u_name u; u_prob := {| ap_lp := ap_lp (u_prob u); ap_map := mp' |}; u_dec := u_dec u;
     u_tb := tb_coarse (u_tb u) gdt rg groups |}.

Theorem coarse_unit_ok u gdt rg groups mp' :
  u_ok u -> rg_minor rg = Some groups -> NoDup (rg_I rg) -> extend_minor gdt rg (ap_map (u_prob u)) = Some mp' ->
  u_ok (coarse_unit u gdt rg groups mp').
Proof.
  intros (W & M & R) Hm Hnd He. unfold u_ok, coarse_unit. cbn [u_name u_prob u_dec u_tb ap_lp ap_map]. split; [exact W|split].
  - apply (extend_minor_Forall gdt rg (fun r => m_asset r = u_name u /\ (m_var r < nvars (ap_lp (u_prob u)))%nat)) with (mp := ap_map (u_prob u)); [|exact M|exact He].
    intros r t f Hr. cbn. exact Hr.
  - destruct (u_prob u) as [lp mp] eqn:Eu. cbn [ap_lp ap_map] in *.
    exact (coarse_realises (u_name u) {| ap_lp := lp; ap_map := mp |} (u_dec u) (u_tb u) gdt rg groups mp' R Hm Hnd He).
Qed.

(* ---------- a price vector on the whole grid that carries given values at the asset's steps ---------- *)
Definition scatter (n : nat) (I : list nat) (v : vec) : vec :=
  map (fun i => match index_of i I with Some k => nth k v 0 | None => 0 end) (seq 0 n).

Lemma scatter_length n I v : List.length (scatter n I v) = n.
Proof. unfold scatter. rewrite map_length, seq_length. reflexivity. Qed.

Lemma index_of_In (x : nat) : forall l, In x l -> exists k, index_of x l = Some k.
Proof.
  induction l as [|a l IH]; intros H; [contradiction|]. cbn [index_of]. destruct (Nat.eqb_spec a x) as [E|E]; [exists 0%nat; reflexivity|].
  destruct H as [H|H]; [contradiction|]. destruct (IH H) as [k Ek]. rewrite Ek. exists (S k). reflexivity.
Qed.

Lemma index_of_nth (I : list nat) k : NoDup I -> (k < List.length I)%nat -> index_of (nth k I 0%nat) I = Some k.
Proof.
  intros Hnd Hk. destruct (index_of_In (nth k I 0%nat) I (nth_In _ _ Hk)) as [k' E]. rewrite E. f_equal.
  destruct (index_of_spec _ _ _ E) as [L N]. apply (NoDup_nth_eq I k' k Hnd L Hk N).
Qed.

Lemma pick_scatter n I v : NoDup I -> (forall i, In i I -> (i < n)%nat) -> List.length v = List.length I ->
  pick 0 (scatter n I v) I = v.
Proof.
  intros Hnd Hb L. apply (nth_ext _ _ 0 0).
  - unfold pick. rewrite map_length. symmetry. exact L.
  - unfold pick. rewrite map_length. intros k Hk.
    rewrite (nth_indep _ 0 (nth (0%nat) (scatter n I v) 0)) by (rewrite map_length; exact Hk).
    rewrite (map_nth (fun i => nth i (scatter n I v) 0) I 0%nat k).
    unfold scatter. rewrite nth_map_seq by (apply Hb; apply nth_In; exact Hk).
    rewrite (index_of_nth I k Hnd Hk). reflexivity.
Qed.

(* the restricted grid with the same steps, read as a fine grid *)
Definition fine_rg (rg : rgrid) : rgrid :=
  {| rg_I := rg_I rg; rg_tp := rg_tp rg; rg_dt := rg_dt rg; rg_Dt := rg_Dt rg; rg_disc := rg_disc rg; rg_minor := None |}.

Fixpoint nodup_nat_b (l : list nat) : bool :=
  match l with [] => true | a :: r => negb (existsb (Nat.eqb a) r) && nodup_nat_b r end.
Lemma nodup_nat_b_spec l : nodup_nat_b l = true -> NoDup l.
Proof.
  induction l as [|a l IH]; intros H; [constructor|]. cbn [nodup_nat_b] in H. apply andb_true_iff in H. destruct H as [H1 H2].
  constructor; [|apply IH; exact H2]. intros Hin. apply negb_true_iff in H1.
  assert (existsb (Nat.eqb a) l = true) by (apply existsb_exists; exists a; split; [exact Hin|apply Nat.eqb_refl]). congruence.
Qed.
Lemma all_lt_spec n l : forallb (fun i => Nat.ltb i n) l = true -> forall i, In i l -> (i < n)%nat.
Proof. intros H i Hi. rewrite forallb_forall in H. apply Nat.ltb_lt. apply H. exact Hi. Qed.

(* ---------- SimpleContract on a coarse grid ---------- *)
Definition fine_contract_p (g : grid) (rg : rgrid) (p : contract_p) : contract_p :=
  {| cp_name := cp_name p; cp_node := cp_node p;
     cp_price := Some (scatter (g_T g) (rg_I rg) (price_vec rg (match cp_price p with Some v => v | None => repeat 0 (g_T g) end)));
     cp_min := cp_min p; cp_max := cp_max p; cp_extra := cp_extra p |}.

Theorem simple_contract_coarse g rg p a groups :
  rg_minor rg = Some groups -> NoDup (rg_I rg) -> (forall i, In i (rg_I rg) -> (i < g_T g)%nat) -> List.length groups = rg_T rg ->
  simple_contract g rg p = Some a ->
  exists a0, simple_contract g (fine_rg rg) (fine_contract_p g rg p) = Some a0 /\
             ap_lp a0 = ap_lp a /\ extend_minor (g_dt g) rg (ap_map a0) = Some (ap_map a).
Proof.
  intros Hm Hnd Hb Lg H. unfold simple_contract in *. cbn [cp_price fine_contract_p cp_min cp_max cp_extra cp_name cp_node].
  rewrite scatter_length, Nat.eqb_refl. cbn [negb].
  set (pr0 := match cp_price p with Some v => v | None => repeat 0 (g_T g) end) in *.
  destruct (negb (Nat.eqb (List.length pr0) (g_T g))); [discriminate|].
  change (mkvec (fine_rg rg) (cp_max p) None true) with (mkvec rg (cp_max p) None true).
  change (mkvec (fine_rg rg) (cp_min p) None true) with (mkvec rg (cp_min p) None true).
  change (mkvec (fine_rg rg) (cp_extra p) (Some 0) false) with (mkvec rg (cp_extra p) (Some 0) false).
  destruct (mkvec rg (cp_max p) None true) as [maxc|]; [|discriminate].
  destruct (mkvec rg (cp_min p) None true) as [minc|]; [|discriminate].
  destruct (mkvec rg (cp_extra p) (Some 0) false) as [ec|]; [|discriminate].
  destruct (any_gt minc maxc); [discriminate|].
  assert (EP : price_vec (fine_rg rg) (scatter (g_T g) (rg_I rg) (price_vec rg pr0)) = price_vec rg pr0).
  { unfold price_vec at 1. cbn [rg_minor fine_rg rg_I]. apply pick_scatter; [exact Hnd|exact Hb|].
    unfold price_vec. rewrite Hm, map_length. exact Lg. }
  rewrite EP. change (rg_T (fine_rg rg)) with (rg_T rg). change (rg_disc (fine_rg rg)) with (rg_disc rg). change (rg_I (fine_rg rg)) with (rg_I rg).
  cbv zeta in *.
  destruct (all_b eq0 ec || all_b le0 maxc || all_b ge0 minc).
  - unfold extend_minor at 1. cbn [rg_minor fine_rg].
    match type of H with match ?e with _ => _ end = _ => destruct e as [mp|] eqn:Ee end; [|discriminate].
    inversion H; subst a. eexists. split; [reflexivity|]. cbn [ap_lp ap_map]. split; [reflexivity|exact Ee].
  - unfold extend_minor at 1. cbn [rg_minor fine_rg].
    match type of H with match ?e with _ => _ end = _ => destruct e as [mp|] eqn:Ee end; [|discriminate].
    inversion H; subst a. eexists. split; [reflexivity|]. cbn [ap_lp ap_map]. split; [reflexivity|exact Ee].
Qed.

(* ---------- Transport on a coarse grid ---------- *)
Definition fine_transport_p (g : grid) (rg : rgrid) (p : transport_p) : transport_p :=
  {| tp_name := tp_name p; tp_n1 := tp_n1 p; tp_n2 := tp_n2 p;
     tp_costs := Some (scatter (g_T g) (rg_I rg) (price_vec rg (match tp_costs p with Some v => v | None => repeat 0 (g_T g) end)));
     tp_const := tp_const p; tp_min := tp_min p; tp_max := tp_max p; tp_eff := tp_eff p |}.

Theorem transport_coarse g rg p a groups :
  rg_minor rg = Some groups -> NoDup (rg_I rg) -> (forall i, In i (rg_I rg) -> (i < g_T g)%nat) -> List.length groups = rg_T rg ->
  g_T g <> 1%nat ->
  transport g rg p = Some a ->
  exists a0, transport g (fine_rg rg) (fine_transport_p g rg p) = Some a0 /\
             ap_lp a0 = ap_lp a /\ extend_minor (g_dt g) rg (ap_map a0) = Some (ap_map a).
Proof.
  intros Hm Hnd Hb Lg HT H. unfold transport in *. cbn [tp_costs fine_transport_p tp_name tp_n1 tp_n2 tp_const tp_min tp_max tp_eff].
  rewrite scatter_length, Nat.eqb_refl. cbn [negb].
  set (c0 := match tp_costs p with Some v => v | None => repeat 0 (g_T g) end) in *.
  destruct (Nat.eqb_spec (List.length c0) (g_T g)) as [L0|L0]; cbn [negb] in H; [|discriminate].
  destruct (Nat.eqb_spec (g_T g) 1) as [E1|_]; [contradiction|].
  rewrite L0 in H. destruct (Nat.eqb_spec (g_T g) 1) as [E1|_]; [contradiction|].
  assert (EP : price_vec (fine_rg rg) (scatter (g_T g) (rg_I rg) (price_vec rg c0)) = price_vec rg c0).
  { unfold price_vec at 1. cbn [rg_minor fine_rg rg_I]. apply pick_scatter; [exact Hnd|exact Hb|].
    unfold price_vec. rewrite Hm, map_length. exact Lg. }
  rewrite EP. change (rg_T (fine_rg rg)) with (rg_T rg). change (rg_disc (fine_rg rg)) with (rg_disc rg). change (rg_I (fine_rg rg)) with (rg_I rg).
  change (rg_dt (fine_rg rg)) with (rg_dt rg).
  cbv zeta in *.
  match type of H with (if ?b then _ else _) = _ => destruct b end; [|discriminate].
  unfold extend_minor at 1. cbn [rg_minor fine_rg].
  match type of H with match ?e with _ => _ end = _ => destruct e as [mp|] eqn:Ee end; [|discriminate].
  inversion H; subst a. eexists. split; [reflexivity|]. cbn [ap_lp ap_map]. split; [reflexivity|exact Ee].
Qed.

(* ---------- Storage on a coarse grid ---------- *)
Definition fine_storage_p (g : grid) (rg : rgrid) (p : storage_p) : storage_p :=
  {| sp_name := sp_name p; sp_nodes := sp_nodes p; sp_size := sp_size p; sp_cap_in := sp_cap_in p; sp_cap_out := sp_cap_out p;
     sp_start := sp_start p; sp_end := sp_end p; sp_cost_in := sp_cost_in p; sp_cost_out := sp_cost_out p;
     sp_cost_store := sp_cost_store p; sp_eff := sp_eff p; sp_inflow := sp_inflow p;
     sp_price := match sp_price p with Some v => Some (scatter (g_T g) (rg_I rg) (price_vec rg v)) | None => None end;
     sp_no_simult := sp_no_simult p; sp_max_dur := sp_max_dur p |}.

Theorem storage_coarse g rg p a groups :
  rg_minor rg = Some groups -> NoDup (rg_I rg) -> (forall i, In i (rg_I rg) -> (i < g_T g)%nat) -> List.length groups = rg_T rg ->
  storage g rg p = Some a ->
  exists a0, storage g (fine_rg rg) (fine_storage_p g rg p) = Some a0 /\
             ap_lp a0 = ap_lp a /\ extend_minor (g_dt g) rg (ap_map a0) = Some (ap_map a).
Proof.
  intros Hm Hnd Hb Lg H. unfold storage in *. change (rg_T (fine_rg rg)) with (rg_T rg).
  destruct (Nat.eqb (rg_T rg) 0).
  - inversion H; subst a. eexists. split; [reflexivity|]. cbn [ap_lp ap_map]. split; [reflexivity|].
    unfold extend_minor. rewrite Hm. reflexivity.
  - cbv zeta in *. change (rg_dt (fine_rg rg)) with (rg_dt rg). change (rg_disc (fine_rg rg)) with (rg_disc rg). change (rg_I (fine_rg rg)) with (rg_I rg).
    assert (ST : st_sep (fine_storage_p g rg p) = st_sep p) by reflexivity.
    cbn [sp_price fine_storage_p sp_no_simult sp_max_dur sp_name sp_cap_in sp_cap_out].
    destruct (sp_price p) as [v|] eqn:Epr.
    + rewrite scatter_length, Nat.eqb_refl. destruct (Nat.eqb (List.length v) (g_T g)); [|discriminate].
      assert (EP : price_vec (fine_rg rg) (scatter (g_T g) (rg_I rg) (price_vec rg v)) = price_vec rg v).
      { unfold price_vec at 1. cbn [rg_minor fine_rg rg_I]. apply pick_scatter; [exact Hnd|exact Hb|].
        unfold price_vec. rewrite Hm, map_length. exact Lg. }
      rewrite EP. rewrite ST.
      change (st_c (fine_storage_p g rg p)) with (st_c p). change (st_l (fine_storage_p g rg p)) with (st_l p).
      change (st_u (fine_storage_p g rg p)) with (st_u p). change (st_rows (fine_storage_p g rg p)) with (st_rows p).
      change (st_map (fine_storage_p g rg p)) with (st_map p).
      unfold extend_minor at 1. cbn [rg_minor fine_rg].
      match type of H with match ?e with _ => _ end = _ => destruct e as [mp|] eqn:Ee end; [|discriminate].
      inversion H; subst a. eexists. split; [reflexivity|]. cbn [ap_lp ap_map]. split; [reflexivity|exact Ee].
    + rewrite ST.
      change (st_c (fine_storage_p g rg p)) with (st_c p). change (st_l (fine_storage_p g rg p)) with (st_l p).
      change (st_u (fine_storage_p g rg p)) with (st_u p). change (st_rows (fine_storage_p g rg p)) with (st_rows p).
      change (st_map (fine_storage_p g rg p)) with (st_map p).
      unfold extend_minor at 1. cbn [rg_minor fine_rg].
      match type of H with match ?e with _ => _ end = _ => destruct e as [mp|] eqn:Ee end; [|discriminate].
      inversion H; subst a. eexists. split; [reflexivity|]. cbn [ap_lp ap_map]. split; [reflexivity|exact Ee].
Qed.
