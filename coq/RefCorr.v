(* RefCorr.v — C02: executable entry points for the per-instance part of the reference equivalence.
   mk_unit builds, from the asset parameters, the model problem together with the textbook object it realises;
   unit_hyps evaluates the hypotheses of the instance theorems of Reference.v; mk_unit_ok shows that passing this
   boolean test is enough for the composition theorems to apply.  c02_ref_case then evaluates the textbook program on
   what the implementation returned (cost, flows, nodal balance). *)
From Coq Require Import QArith Qabs ZArith List Lia Lqa Bool String Arith.
From EAO Require Import Num LP Mapping Dcf Grid Assets StorageProofs Portfolio Ref Reference RefCoarse Cert Corr.
Import ListNotations.
Open Scope Q_scope.

Inductive uspec :=
| USimple (rg : rgrid) (p : contract_p)
| UContract (rg : rgrid) (p : contract_p) (mx mn : list take)
| UMulti (rg : rgrid) (p : contract_p) (mx mn : list take) (nodes : list string) (factors : vec)
| UStorage (rg : rgrid) (p : storage_p)
| UTransport (rg : rgrid) (p : transport_p)
| UExtTransport (rg : rgrid) (p : transport_p) (mx mn : list take).

(* ExtendedTransport: the take values refer to the quantity leaving node 1 and are negated (assets.py:2357-2394) *)
Definition neg_tk (tks : list take) : list take := map (fun t => (fst t, - snd t)) tks.

Definition contract_pr (g : grid) (rg : rgrid) (p : contract_p) : vec :=
  pick 0 match cp_price p with Some v => v | None => repeat 0 (g_T g) end (rg_I rg).

Definition mk_unit (g : grid) (u : uspec) : option unit_ :=
  match u with
  | USimple rg p =>
      match simple_contract g rg p, mkvec rg (cp_max p) None true, mkvec rg (cp_min p) None true, mkvec rg (cp_extra p) (Some 0) false with
      | Some a, Some maxc, Some minc, Some ec =>
          Some {| u_name := cp_name p; u_prob := a;
                  u_dec := if all_b eq0 ec || all_b le0 maxc || all_b ge0 minc then fun x => x else dec_split (rg_T rg);
                  u_tb := tb_contract rg (cp_node p) (contract_pr g rg p) ec minc maxc |}
      | _, _, _, _ => None
      end
  | UContract rg p mx mn =>
      match simple_contract g rg p, mkvec rg (cp_max p) None true, mkvec rg (cp_min p) None true, mkvec rg (cp_extra p) (Some 0) false with
      | Some a, Some maxc, Some minc, Some ec =>
          Some {| u_name := cp_name p;
                  u_prob := {| ap_lp := add_rows (ap_lp a) (take_all_rows g rg a mx mn); ap_map := ap_map a |};
                  u_dec := if all_b eq0 ec || all_b le0 maxc || all_b ge0 minc then fun x => x else dec_split (rg_T rg);
                  u_tb := tb_contract_takes g rg p a maxc minc ec mx mn |}
      | _, _, _, _ => None
      end
  | UMulti rg p mx mn nodes factors =>
      match simple_contract g rg p, mkvec rg (cp_max p) None true, mkvec rg (cp_min p) None true, mkvec rg (cp_extra p) (Some 0) false with
      | Some a, Some maxc, Some minc, Some ec =>
          Some {| u_name := cp_name p;
                  u_prob := {| ap_lp := add_rows (ap_lp a) (take_all_rows g rg a mx mn); ap_map := multi_map (ap_map a) nodes factors |};
                  u_dec := if all_b eq0 ec || all_b le0 maxc || all_b ge0 minc then fun x => x else dec_split (rg_T rg);
                  u_tb := tb_multi (tb_contract_takes g rg p a maxc minc ec mx mn) (cp_node p) nodes factors |}
      | _, _, _, _ => None
      end
  | UStorage rg p =>
      match storage g rg p with
      | Some a => Some {| u_name := sp_name p; u_prob := a; u_dec := fun x => x; u_tb := tb_storage rg p |}
      | None => None end
  | UTransport rg p =>
      match transport g rg p with
      | Some a => Some {| u_name := tp_name p; u_prob := a; u_dec := fun x => x;
                          u_tb := tb_transport rg (tp_n1 p) (tp_n2 p) (transport_costs g rg p) (tp_min p) (tp_max p) (tp_eff p) |}
      | None => None end
  | UExtTransport rg p mx mn =>
      match transport g rg p with
      | Some a => Some {| u_name := tp_name p;
                          u_prob := {| ap_lp := add_rows (ap_lp a) (ext_rows g rg p a (neg_tk mx) (neg_tk mn)); ap_map := ap_map a |};
                          u_dec := fun x => x; u_tb := tb_ext_transport g rg p a (neg_tk mx) (neg_tk mn) |}
      | None => None end
  end.

Definition is_none {A} (o : option A) : bool := match o with None => true | Some _ => false end.
Definition len_is (v : vec) (n : nat) : bool := Nat.eqb (List.length v) n.

(* the hypotheses of C02_contract_unit / C02_storage_unit / C02_transport_unit, as a boolean *)
Definition unit_hyps (g : grid) (u : uspec) : bool :=
  match u with
  | USimple rg p =>
      is_none (rg_minor rg) && len_is (rg_disc rg) (rg_T rg) && all_b ge0 (rg_disc rg) &&
      match mkvec rg (cp_max p) None true, mkvec rg (cp_min p) None true, mkvec rg (cp_extra p) (Some 0) false with
      | Some maxc, Some minc, Some ec => len_is maxc (rg_T rg) && len_is minc (rg_T rg) && len_is ec (rg_T rg) && all_b ge0 ec
      | _, _, _ => false end
  | UContract rg p _ _ =>
      is_none (rg_minor rg) && len_is (rg_disc rg) (rg_T rg) && all_b ge0 (rg_disc rg) &&
      match mkvec rg (cp_max p) None true, mkvec rg (cp_min p) None true, mkvec rg (cp_extra p) (Some 0) false with
      | Some maxc, Some minc, Some ec => len_is maxc (rg_T rg) && len_is minc (rg_T rg) && len_is ec (rg_T rg) && all_b ge0 ec
      | _, _, _ => false end
  | UMulti rg p _ _ _ _ =>
      is_none (rg_minor rg) && len_is (rg_disc rg) (rg_T rg) && all_b ge0 (rg_disc rg) &&
      match mkvec rg (cp_max p) None true, mkvec rg (cp_min p) None true, mkvec rg (cp_extra p) (Some 0) false with
      | Some maxc, Some minc, Some ec => len_is maxc (rg_T rg) && len_is minc (rg_T rg) && len_is ec (rg_T rg) && all_b ge0 ec
      | _, _, _ => false end
  | UStorage rg p =>
      is_none (rg_minor rg) && negb (sp_no_simult p) && is_none (sp_max_dur p) && negb (Nat.eqb (rg_T rg) 0) &&
      len_is (rg_dt rg) (rg_T rg) && len_is (rg_disc rg) (rg_T rg) &&
      match sp_price p with Some v => len_is v (g_T g) | None => true end
  | UTransport rg p | UExtTransport rg p _ _ =>
      is_none (rg_minor rg) && len_is (rg_dt rg) (rg_T rg) && len_is (rg_disc rg) (rg_T rg) &&
      len_is (transport_costs g rg p) (rg_T rg) && negb (String.eqb (tp_n1 p) (tp_n2 p))
  end.

Lemma is_none_spec {A} (o : option A) : is_none o = true -> o = None.
Proof. destruct o; [discriminate|reflexivity]. Qed.
Lemma len_is_spec v n : len_is v n = true -> List.length v = n.
Proof. apply Nat.eqb_eq. Qed.
Lemma all_ge0_nth v n : List.length v = n -> all_b ge0 v = true -> forall t, (t < n)%nat -> 0 <= nth t v 0.
Proof. intros L H t Ht. apply ge0_spec. apply all_b_nth; [exact H|rewrite L; exact Ht]. Qed.

Ltac split_andb := repeat match goal with H : andb _ _ = true |- _ => apply andb_true_iff in H; destruct H end.

(* passing the boolean test puts the unit under the instance theorems *)
Theorem mk_unit_ok g u un : mk_unit g u = Some un -> unit_hyps g u = true -> u_ok un.
Proof.
  destruct u as [rg p|rg p mx mn|rg p mx mn nodes factors|rg p|rg p|rg p mx mn]; cbn [mk_unit unit_hyps]; intros Hm Hh.
  - destruct (simple_contract g rg p) as [a|] eqn:Ea; [|discriminate].
    destruct (mkvec rg (cp_max p) None true) as [maxc|] eqn:E1; [|discriminate].
    destruct (mkvec rg (cp_min p) None true) as [minc|] eqn:E2; [|discriminate].
    destruct (mkvec rg (cp_extra p) (Some 0) false) as [ec|] eqn:E3; [|discriminate].
    inversion Hm; subst un. clear Hm.
    split_andb.
    apply (contract_unit_ok g rg p a maxc minc ec); auto using is_none_spec, len_is_spec.
    + apply all_ge0_nth; auto using len_is_spec.
    + apply all_ge0_nth; auto using len_is_spec.
  - destruct (simple_contract g rg p) as [a|] eqn:Ea; [|discriminate].
    destruct (mkvec rg (cp_max p) None true) as [maxc|] eqn:E1; [|discriminate].
    destruct (mkvec rg (cp_min p) None true) as [minc|] eqn:E2; [|discriminate].
    destruct (mkvec rg (cp_extra p) (Some 0) false) as [ec|] eqn:E3; [|discriminate].
    inversion Hm; subst un. clear Hm.
    split_andb.
    apply (contract_takes_unit_ok g rg p a maxc minc ec); auto using is_none_spec, len_is_spec.
    + apply all_ge0_nth; auto using len_is_spec.
    + apply all_ge0_nth; auto using len_is_spec.
  - destruct (simple_contract g rg p) as [a|] eqn:Ea; [|discriminate].
    destruct (mkvec rg (cp_max p) None true) as [maxc|] eqn:E1; [|discriminate].
    destruct (mkvec rg (cp_min p) None true) as [minc|] eqn:E2; [|discriminate].
    destruct (mkvec rg (cp_extra p) (Some 0) false) as [ec|] eqn:E3; [|discriminate].
    inversion Hm; subst un. clear Hm.
    split_andb.
    assert (U : u_ok {| u_name := cp_name p;
                       u_prob := {| ap_lp := add_rows (ap_lp a) (take_all_rows g rg a mx mn); ap_map := ap_map a |};
                       u_dec := if all_b eq0 ec || all_b le0 maxc || all_b ge0 minc then fun x => x else dec_split (rg_T rg);
                       u_tb := tb_contract_takes g rg p a maxc minc ec mx mn |}).
    { apply (contract_takes_unit_ok g rg p a maxc minc ec); auto using is_none_spec, len_is_spec; apply all_ge0_nth; auto using len_is_spec. }
    apply (multi_unit_ok _ (cp_node p) nodes factors U). cbn [u_prob ap_map].
    apply (contract_map_d g rg p a maxc minc ec); auto using is_none_spec, len_is_spec; apply all_ge0_nth; auto using len_is_spec.
  - destruct (storage g rg p) as [a|] eqn:Ea; [|discriminate]. inversion Hm; subst un. clear Hm.
    split_andb.
    apply (storage_unit_ok g rg p a); auto using is_none_spec, len_is_spec.
    + apply negb_true_iff. assumption.
    + match goal with H : negb (Nat.eqb _ 0) = true |- _ => apply negb_true_iff, Nat.eqb_neq in H; exact H end.
    + destruct (sp_price p); [apply len_is_spec; assumption|exact I].
  - destruct (transport g rg p) as [a|] eqn:Ea; [|discriminate]. inversion Hm; subst un. clear Hm.
    split_andb.
    apply (transport_unit_ok g rg p a); auto using is_none_spec, len_is_spec.
    apply negb_true_iff. assumption.
  - destruct (transport g rg p) as [a|] eqn:Ea; [|discriminate]. inversion Hm; subst un. clear Hm.
    split_andb.
    apply (ext_transport_unit_ok g rg p a); auto using is_none_spec, len_is_spec.
    apply negb_true_iff. assumption.
Qed.

(* ---------- assets on a coarser frequency (RefCoarse.v) ---------- *)
Definition u_rg (u : uspec) : rgrid :=
  match u with USimple rg _ | UContract rg _ _ _ | UMulti rg _ _ _ _ _ | UStorage rg _ | UTransport rg _ | UExtTransport rg _ _ _ => rg end.

(* the same asset on the same steps read as a fine grid, prices averaged over the minor steps
   (take periods on a coarse grid are not covered) *)
Definition fine_of (g : grid) (u : uspec) : option uspec :=
  match u with
  | USimple rg p => Some (USimple (fine_rg rg) (fine_contract_p g rg p))
  | UTransport rg p => Some (UTransport (fine_rg rg) (fine_transport_p g rg p))
  | UStorage rg p => Some (UStorage (fine_rg rg) (fine_storage_p g rg p))
  | _ => None
  end.

Definition mk_unit_c (g : grid) (u : uspec) : option unit_ :=
  match rg_minor (u_rg u) with
  | None => mk_unit g u
  | Some groups =>
      match fine_of g u with
      | Some u0 =>
          match mk_unit g u0 with
          | Some un0 =>
              match extend_minor (g_dt g) (u_rg u) (ap_map (u_prob un0)) with
              | Some mp' => Some (coarse_unit un0 (g_dt g) (u_rg u) groups mp')
              | None => None end
          | None => None end
      | None => None end
  end.

Definition unit_hyps_c (g : grid) (u : uspec) : bool :=
  match rg_minor (u_rg u) with
  | None => unit_hyps g u
  | Some groups =>
      match fine_of g u with
      | Some u0 => unit_hyps g u0 && nodup_nat_b (rg_I (u_rg u)) && forallb (fun i => Nat.ltb i (g_T g)) (rg_I (u_rg u)) &&
                   Nat.eqb (List.length groups) (rg_T (u_rg u)) && negb (Nat.eqb (g_T g) 1)
      | None => false end
  end.

Theorem mk_unit_c_ok g u un : mk_unit_c g u = Some un -> unit_hyps_c g u = true -> u_ok un.
Proof.
  unfold mk_unit_c, unit_hyps_c. destruct (rg_minor (u_rg u)) as [groups|] eqn:Em; [|apply mk_unit_ok].
  destruct (fine_of g u) as [u0|]; [|discriminate]. intros Hm Hh.
  destruct (mk_unit g u0) as [un0|] eqn:E0; [|discriminate].
  destruct (extend_minor (g_dt g) (u_rg u) (ap_map (u_prob un0))) as [mp'|] eqn:Ee; [|discriminate]. inversion Hm; subst un. clear Hm.
  split_andb.
  apply coarse_unit_ok; [apply (mk_unit_ok g u0 un0 E0); assumption|exact Em|apply nodup_nat_b_spec; assumption|exact Ee].
Qed.

(* the coarse unit carries exactly the problem the model builder gives for the coarse grid (the builder is what the
   correspondence check compares with the implementation) *)
Theorem mk_unit_c_simple_is_builder g rg p un a :
  mk_unit_c g (USimple rg p) = Some un -> unit_hyps_c g (USimple rg p) = true -> simple_contract g rg p = Some a ->
  ap_lp (u_prob un) = ap_lp a /\ ap_map (u_prob un) = ap_map a.
Proof.
  unfold mk_unit_c, unit_hyps_c. cbn [u_rg fine_of]. destruct (rg_minor rg) as [groups|] eqn:Em.
  - intros Hm Hh Hb. split_andb.
    assert (Hnd : NoDup (rg_I rg)) by (apply nodup_nat_b_spec; assumption).
    assert (Hlt : forall i, In i (rg_I rg) -> (i < g_T g)%nat) by (apply all_lt_spec; assumption).
    assert (Lg : List.length groups = rg_T rg) by (apply Nat.eqb_eq; assumption).
    destruct (simple_contract_coarse g rg p a groups Em Hnd Hlt Lg Hb) as (a0 & B0 & EL & EE).
    cbn [mk_unit] in Hm. rewrite B0 in Hm.
    change (mkvec (fine_rg rg) (cp_max (fine_contract_p g rg p)) None true) with (mkvec rg (cp_max p) None true) in Hm.
    change (mkvec (fine_rg rg) (cp_min (fine_contract_p g rg p)) None true) with (mkvec rg (cp_min p) None true) in Hm.
    change (mkvec (fine_rg rg) (cp_extra (fine_contract_p g rg p)) (Some 0) false) with (mkvec rg (cp_extra p) (Some 0) false) in Hm.
    destruct (mkvec rg (cp_max p) None true); [|discriminate]. destruct (mkvec rg (cp_min p) None true); [|discriminate].
    destruct (mkvec rg (cp_extra p) (Some 0) false); [|discriminate]. cbn [u_prob] in Hm. rewrite EE in Hm.
    inversion Hm; subst un. cbn [coarse_unit u_prob ap_lp ap_map]. split; [exact EL|reflexivity].
  - intros Hm _ Hb. cbn [mk_unit] in Hm. rewrite Hb in Hm.
    destruct (mkvec rg (cp_max p) None true); [|discriminate]. destruct (mkvec rg (cp_min p) None true); [|discriminate].
    destruct (mkvec rg (cp_extra p) (Some 0) false); [|discriminate]. inversion Hm; subst un. cbn [u_prob]. split; reflexivity.
Qed.

Theorem mk_unit_c_transport_is_builder g rg p un a :
  mk_unit_c g (UTransport rg p) = Some un -> unit_hyps_c g (UTransport rg p) = true -> transport g rg p = Some a ->
  ap_lp (u_prob un) = ap_lp a /\ ap_map (u_prob un) = ap_map a.
Proof.
  unfold mk_unit_c, unit_hyps_c. cbn [u_rg fine_of]. destruct (rg_minor rg) as [groups|] eqn:Em.
  - intros Hm Hh Hb. split_andb.
    assert (Hnd : NoDup (rg_I rg)) by (apply nodup_nat_b_spec; assumption).
    assert (Hlt : forall i, In i (rg_I rg) -> (i < g_T g)%nat) by (apply all_lt_spec; assumption).
    assert (Lg : List.length groups = rg_T rg) by (apply Nat.eqb_eq; assumption).
    assert (HT1 : g_T g <> 1%nat) by (apply Nat.eqb_neq; apply negb_true_iff; assumption).
    destruct (transport_coarse g rg p a groups Em Hnd Hlt Lg HT1 Hb) as (a0 & B0 & EL & EE).
    cbn [mk_unit] in Hm. rewrite B0 in Hm. cbn [u_prob] in Hm. rewrite EE in Hm.
    inversion Hm; subst un. cbn [coarse_unit u_prob ap_lp ap_map]. split; [exact EL|reflexivity].
  - intros Hm _ Hb. cbn [mk_unit] in Hm. rewrite Hb in Hm. inversion Hm; subst un. cbn [u_prob]. split; reflexivity.
Qed.

Theorem mk_unit_c_storage_is_builder g rg p un a :
  mk_unit_c g (UStorage rg p) = Some un -> unit_hyps_c g (UStorage rg p) = true -> storage g rg p = Some a ->
  ap_lp (u_prob un) = ap_lp a /\ ap_map (u_prob un) = ap_map a.
Proof.
  unfold mk_unit_c, unit_hyps_c. cbn [u_rg fine_of]. destruct (rg_minor rg) as [groups|] eqn:Em.
  - intros Hm Hh Hb. split_andb.
    assert (Hnd : NoDup (rg_I rg)) by (apply nodup_nat_b_spec; assumption).
    assert (Hlt : forall i, In i (rg_I rg) -> (i < g_T g)%nat) by (apply all_lt_spec; assumption).
    assert (Lg : List.length groups = rg_T rg) by (apply Nat.eqb_eq; assumption).
    destruct (storage_coarse g rg p a groups Em Hnd Hlt Lg Hb) as (a0 & B0 & EL & EE).
    cbn [mk_unit] in Hm. rewrite B0 in Hm. cbn [u_prob] in Hm. rewrite EE in Hm.
    inversion Hm; subst un. cbn [coarse_unit u_prob ap_lp ap_map]. split; [exact EL|reflexivity].
  - intros Hm _ Hb. cbn [mk_unit] in Hm. rewrite Hb in Hm. inversion Hm; subst un. cbn [u_prob]. split; reflexivity.
Qed.

Fixpoint seq_units (l : list (option unit_)) : option (list unit_) :=
  match l with
  | [] => Some []
  | Some a :: r => option_map (cons a) (seq_units r)
  | None :: _ => None
  end.

Lemma seq_units_ok g us : forall units, seq_units (map (mk_unit_c g) us) = Some units -> forallb (unit_hyps_c g) us = true -> Forall u_ok units.
Proof.
  induction us as [|u us IH]; intros units H Hh; cbn [map seq_units forallb] in *.
  - inversion H. constructor.
  - destruct (mk_unit_c g u) as [un|] eqn:E; [|discriminate].
    destruct (seq_units (map (mk_unit_c g) us)) as [r|] eqn:Er; [|discriminate]. inversion H; subst units.
    apply andb_true_iff in Hh. destruct Hh as [H1 H2]. constructor; [exact (mk_unit_c_ok g u un E H1)|apply IH; auto].
Qed.

(* blocks of x by the numbers of variables *)
Fixpoint split_by (ns : list nat) (x : vec) : list vec :=
  match ns with [] => [] | n :: r => firstn n x :: split_by r (skipn n x) end.

Fixpoint nodup_b (l : list string) : bool :=
  match l with [] => true | a :: r => negb (existsb (String.eqb a) r) && nodup_b r end.
Lemma nodup_b_spec l : nodup_b l = true -> NoDup l.
Proof.
  induction l as [|a l IH]; intros H; [constructor|]. cbn [nodup_b] in H. apply andb_true_iff in H. destruct H as [H1 H2].
  constructor; [|apply IH; exact H2]. intros Hin. apply negb_true_iff in H1.
  assert (existsb (String.eqb a) l = true) by (apply existsb_exists; exists a; split; [exact Hin|apply String.eqb_refl]). congruence.
Qed.

(* the run-time facts that put a generated portfolio under the composition theorems *)
Theorem c02_hyps_sound g us units :
  seq_units (map (mk_unit_c g) us) = Some units -> forallb (unit_hyps_c g) us = true -> nodup_b (map u_name units) = true ->
  Forall u_ok units /\ NoDup (map u_name units).
Proof. intros H1 H2 H3. split; [exact (seq_units_ok g us units H1 H2)|apply nodup_b_spec; exact H3]. Qed.

Definition find_unit (units : list unit_) (ys : list vec) (nm : string) : option (unit_ * vec) :=
  find (fun uy => String.eqb (u_name (fst uy)) nm) (combine units ys).

(* evaluation on what the implementation returned: x (solver), value, dispatch table *)
Definition c02_ref_case (g : grid) (us : list uspec) (nodes : list string) (steps : list nat)
    (x : vec) (value : Q) (tab : list (string * string * vec)) (eps : Q) : list bool :=
  match seq_units (map (mk_unit_c g) us) with
  | None => [false; false; false; false; false; false]
  | Some units =>
      let ns := map (fun u => nvars (ap_lp (u_prob u))) units in
      let xs := split_by ns x in
      let ys := map (fun ux => u_dec (fst ux) (snd ux)) (combine units xs) in
      [ forallb (unit_hyps_c g) us;
        nodup_b (map u_name units);
        Nat.eqb (List.length x) (fold_right Nat.add 0%nat ns);
        qclose eps (ref_cost units ys) (- value);
        forallb (fun e => let '(a, n, vals) := e in
                   match find_unit units ys a with
                   | Some (u, y) => vclose eps (map (fun t => tb_flow (u_tb u) y n t) (seq 0 (List.length vals))) vals
                   | None => false end) tab;
        forallb (fun n => forallb (fun t => Qle_bool (Qabs (ref_flow units ys n t)) (eps * (1 + Qabs value))) steps) nodes ]
  end.
