(* Reference.v — C02, the composition: the assembled portfolio problem and the textbook program
   (per-asset admissible physical states, additive discounted cost, flows that balance at every
   node and step) have the same optimum, and a feasible (optimal) point of the assembled problem
   decodes to a feasible (optimal) state of the textbook program with exactly the reported flows.

   Generic part: any list of asset problems each of which REALISES a textbook object (through a
   decoding of its variables) composes.  Instances: storage, transport, contract (Instances below). *)
From Coq Require Import QArith Qabs ZArith List Lia Lqa Bool String Arith.
From EAO Require Import Num LP Mapping Dcf Grid Assets StorageProofs Portfolio Ref.
Import ListNotations.
Open Scope Q_scope.

(* ---------- the textbook view of one asset ---------- *)
Record tb := {
  tb_adm  : vec -> Prop;                       (* physically admissible state *)
  tb_cost : vec -> Q;                          (* discounted net payments (to be minimised) *)
  tb_flow : vec -> string -> nat -> Q }.       (* delivery into node n at step t *)

(* the asset problem a (asset name nm) realises S through the decoding dec:
   every feasible x decodes to an admissible state that costs no more and has the flows x reports;
   every admissible state is reached by a feasible x of exactly its cost and flows that decodes to it *)
Definition realises (nm : string) (a : aprob) (dec : vec -> vec) (S : tb) : Prop :=
  (forall x, feasible (ap_lp a) x ->
     tb_adm S (dec x) /\ tb_cost S (dec x) <= dot (lp_c (ap_lp a)) x /\
     forall n t, dispatch_out (ap_map a) x nm n t == tb_flow S (dec x) n t) /\
  (forall y, tb_adm S y -> exists x, feasible (ap_lp a) x /\
     dot (lp_c (ap_lp a)) x == tb_cost S y /\
     (forall n t, dispatch_out (ap_map a) x nm n t == tb_flow S y n t) /\
     Forall2 Qeq (dec x) y).

Record unit_ := { u_name : string; u_prob : aprob; u_dec : vec -> vec; u_tb : tb }.
Definition u_ok (u : unit_) : Prop :=
  wf_lp (ap_lp (u_prob u)) /\
  Forall (fun r => m_asset r = u_name u /\ (m_var r < nvars (ap_lp (u_prob u)))%nat) (ap_map (u_prob u)) /\
  realises (u_name u) (u_prob u) (u_dec u) (u_tb u).

(* ---------- the textbook program of a portfolio ---------- *)
Definition ref_flow (us : list unit_) (ys : list vec) (n : string) (t : nat) : Q :=
  qsum (map (fun uy => tb_flow (u_tb (fst uy)) (snd uy) n t) (combine us ys)).
Definition ref_feasible (nodes skip : list string) (steps : list nat) (us : list unit_) (ys : list vec) : Prop :=
  Forall2 (fun u y => tb_adm (u_tb u) y) us ys /\
  forall n t, In n nodes -> existsb (String.eqb n) skip = false -> In t steps -> ref_flow us ys n t == 0.
Definition ref_cost (us : list unit_) (ys : list vec) : Q :=
  qsum (map (fun uy => tb_cost (u_tb (fst uy)) (snd uy)) (combine us ys)).
Definition ref_optimal nodes skip steps us ys : Prop :=
  ref_feasible nodes skip steps us ys /\
  forall ys', ref_feasible nodes skip steps us ys' -> ref_cost us ys <= ref_cost us ys'.

(* ---------- dispatch of an assembled mapping, asset by asset ---------- *)
Lemma dispatch_out_nil x a n t : dispatch_out [] x a n t == 0.
Proof. reflexivity. Qed.

Lemma dispatch_out_other mp x a n t :
  Forall (fun r => m_asset r <> a) mp -> dispatch_out mp x a n t == 0.
Proof.
  intros H. unfold dispatch_out.
  assert (E : filter (fun r => String.eqb (m_asset r) a && sel n t r) mp = []).
  { induction mp as [|r mp IH]; [reflexivity|]. inversion H as [|? ? Hr Hm]; subst. cbn [filter].
    destruct (String.eqb_spec (m_asset r) a) as [E|_]; [contradiction|]. cbn [andb]. apply IH; exact Hm. }
  rewrite E. reflexivity.
Qed.

Lemma dispatch_out_app_l mp x1 x2 a n t :
  Forall (fun r => (m_var r < List.length x1)%nat) mp ->
  dispatch_out mp (x1 ++ x2) a n t == dispatch_out mp x1 a n t.
Proof.
  intros H. unfold dispatch_out. induction mp as [|r mp IH]; [reflexivity|].
  inversion H as [|? ? Hr Hm]; subst. cbn [filter].
  destruct (String.eqb (m_asset r) a && sel n t r); [|apply IH; exact Hm].
  cbn [map qsum]. rewrite (IH Hm). rewrite app_nth1 by exact Hr. reflexivity.
Qed.

Lemma sel_shift off n t r : sel n t (shift_mrow off r) = sel n t r.
Proof. reflexivity. Qed.

Lemma dispatch_out_shift mp x1 x2 a n t :
  dispatch_out (map (shift_mrow (List.length x1)) mp) (x1 ++ x2) a n t == dispatch_out mp x2 a n t.
Proof.
  unfold dispatch_out. induction mp as [|r mp IH]; [reflexivity|].
  cbn [map filter]. rewrite sel_shift. cbn [shift_mrow m_asset].
  destruct (String.eqb (m_asset r) a && sel n t r); [|exact IH].
  cbn [map qsum shift_mrow m_var m_factor]. rewrite IH. rewrite nth_app_shift. reflexivity.
Qed.

Lemma nvars_lp_sum P1 P2 : nvars (lp_sum P1 P2) = (nvars P1 + nvars P2)%nat.
Proof. unfold nvars, lp_sum. cbn [lp_c]. apply app_length. Qed.

Lemma assemble_assets (us : list unit_) :
  Forall u_ok us ->
  Forall (fun r => In (m_asset r) (map u_name us)) (ap_map (assemble (map u_prob us))).
Proof.
  induction us as [|u us IH]; intros H; [constructor|].
  inversion H as [|? ? Hu Hus]; subst. cbn [map assemble ap_map]. apply Forall_app. split.
  - destruct Hu as (_ & Hm & _). eapply Forall_impl; [|exact Hm]. intros r [E _]. left. symmetry. exact E.
  - apply Forall_map. eapply Forall_impl; [|exact (IH Hus)]. intros r Hr. right. exact Hr.
Qed.

(* flows of the assembled problem, asset by asset = flows of the stand-alone problems *)
Fixpoint unit_flows (us : list unit_) (xs : list vec) (n : string) (t : nat) : list Q :=
  match us, xs with
  | u :: us', x :: xs' => dispatch_out (ap_map (u_prob u)) x (u_name u) n t :: unit_flows us' xs' n t
  | _, _ => []
  end.

Lemma assemble_dispatch (us : list unit_) : forall xs n t,
  Forall u_ok us -> NoDup (map u_name us) ->
  Forall2 (fun u x => List.length x = nvars (ap_lp (u_prob u))) us xs ->
  Forall2 Qeq (map (fun nm => dispatch_out (ap_map (assemble (map u_prob us))) (List.concat xs) nm n t) (map u_name us))
              (unit_flows us xs n t).
Proof.
  induction us as [|u us IH]; intros xs n t Hok Hnd HL; inversion HL as [|? x ? xs' Lx Lr]; subst; [constructor|].
  inversion Hok as [|? ? Hu Hus]; subst. inversion Hnd as [|? ? Hni Hnd']; subst.
  cbn [map assemble ap_map List.concat unit_flows]. constructor.
  - rewrite dispatch_out_app. destruct Hu as (_ & Hm & _).
    rewrite dispatch_out_app_l.
    2:{ eapply Forall_impl; [|exact Hm]. intros r [_ Hv]. rewrite Lx. exact Hv. }
    rewrite <- Lx. rewrite dispatch_out_shift. rewrite (dispatch_out_other (ap_map (assemble (map u_prob us)))); [ring|].
    pose proof (assemble_assets us Hus) as HA. eapply Forall_impl; [|exact HA].
    intros r Hr E. apply Hni. rewrite <- E. exact Hr.
  - assert (E0 : forall nms, ~ In (u_name u) nms -> Forall2 Qeq
        (map (fun nm => dispatch_out (ap_map (u_prob u) ++ map (shift_mrow (nvars (ap_lp (u_prob u)))) (ap_map (assemble (map u_prob us))))
                           (x ++ List.concat xs') nm n t) nms)
        (map (fun nm => dispatch_out (ap_map (assemble (map u_prob us))) (List.concat xs') nm n t) nms)).
    { clear IH. induction nms as [|nm nms IHn]; intros Hn2; [constructor|]. cbn [map]. constructor.
      - rewrite dispatch_out_app.
        assert (Hoth : Forall (fun r => m_asset r <> nm) (ap_map (u_prob u))).
        { destruct Hu as (_ & Hm & _). eapply Forall_impl; [|exact Hm]. intros r [Er _] E2. apply Hn2. left. rewrite <- E2, Er. reflexivity. }
        rewrite (dispatch_out_other (ap_map (u_prob u)) _ _ _ _ Hoth).
        rewrite <- Lx. rewrite dispatch_out_shift. ring.
      - apply IHn. intros C. apply Hn2. right. exact C. }
    pose proof (E0 (map u_name us) Hni) as E. clear E0.
    specialize (IH xs' n t Hus Hnd' Lr).
    clear - E IH. revert E IH. generalize (unit_flows us xs' n t).
    generalize (map (fun nm => dispatch_out (ap_map (assemble (map u_prob us))) (List.concat xs') nm n t) (map u_name us)).
    generalize (map (fun nm => dispatch_out (ap_map (u_prob u) ++ map (shift_mrow (nvars (ap_lp (u_prob u)))) (ap_map (assemble (map u_prob us))))
                           (x ++ List.concat xs') nm n t) (map u_name us)).
    intros l1. induction l1 as [|a l1 IHl]; intros l2 l3 E IH; inversion E; subst; inversion IH; subst; constructor.
    + etransitivity; eassumption.
    + eapply IHl; eassumption.
Qed.

Lemma Forall2_impl' {A B} (P Q : A -> B -> Prop) l1 l2 :
  (forall a b, P a b -> Q a b) -> Forall2 P l1 l2 -> Forall2 Q l1 l2.
Proof. intros H. induction 1; constructor; auto. Qed.

Lemma F2_Qeq_refl (l : vec) : Forall2 Qeq l l.
Proof. induction l; constructor; [reflexivity|assumption]. Qed.

Lemma F2_nth (l1 l2 : vec) : List.length l1 = List.length l2 ->
  (forall k, (k < List.length l1)%nat -> nth k l1 0 == nth k l2 0) -> Forall2 Qeq l1 l2.
Proof.
  revert l2. induction l1 as [|a l1 IH]; intros [|b l2] L H; simpl in L; try discriminate; constructor.
  - apply (H 0%nat). simpl. lia.
  - apply IH; [lia|]. intros k Hk. apply (H (S k)). simpl. lia.
Qed.

Lemma qsum_F2 l1 l2 : Forall2 Qeq l1 l2 -> qsum l1 == qsum l2.
Proof. induction 1 as [|a b l1 l2 E _ IH]; cbn [qsum]; [reflexivity|]. rewrite E, IH. reflexivity. Qed.

(* ---------- the nodal rows say exactly: flows balance at every node and step ---------- *)
Theorem nodal_balance_iff (assets nodes skip : list string) (steps : list nat) (mp : list mrow) (x : vec) :
  NoDup assets -> Forall (fun r => In (m_asset r) assets) mp ->
  (Forall (row_ok x) (nodal_crows nodes skip steps mp) <->
   forall n t, In n nodes -> existsb (String.eqb n) skip = false -> In t steps ->
     qsum (map (fun a => dispatch_out mp x a n t) assets) == 0).
Proof.
  intros Hnd Hin. split; [apply nodal_balance_thm; assumption|].
  intros H. apply Forall_forall. intros r Hr. unfold nodal_crows in Hr. apply in_map_iff in Hr.
  destruct Hr as (e & <- & He). unfold nodal_rows in He. apply in_flat_map in He. destruct He as (n & Hn & He).
  destruct (existsb (String.eqb n) skip) eqn:Hs; [destruct He|].
  apply in_flat_map in He. destruct He as (t & Ht & He).
  destruct (nodal_row mp n t) as [|e0 row] eqn:Er; [destruct He|]. destruct He as [<-|[]].
  unfold row_ok. cbn [r_t r_a r_b snd]. rewrite <- Er. rewrite sdot_nodal_row.
  specialize (H n t Hn Hs Ht). rewrite <- H. unfold dispatch_out.
  assert (E: forall a, filter (fun r => String.eqb (m_asset r) a && sel n t r) mp
                      = filter (fun r => String.eqb (m_asset r) a) (filter (sel n t) mp)).
  { intro a. rewrite filter_filter. reflexivity. }
  erewrite (map_ext (fun a => qsum (map _ (filter (fun r => String.eqb (m_asset r) a && sel n t r) mp))));
    [| intro a; rewrite E; reflexivity].
  symmetry. apply (split_by_assets assets (fun r => nth (m_var r) x 0 * m_factor r) (filter (sel n t) mp) Hnd).
  rewrite Forall_forall in *. intros r Hr. apply filter_In in Hr. apply Hin. tauto.
Qed.

(* ---------- blocks ---------- *)
Lemma split_blocks (us : list unit_) : forall x : vec,
  List.length x = nvars (ap_lp (assemble (map u_prob us))) ->
  exists xs, x = List.concat xs /\ Forall2 (fun u x => List.length x = nvars (ap_lp (u_prob u))) us xs.
Proof.
  induction us as [|u us IH]; intros x H.
  - cbn in H. destruct x; [|discriminate]. exists []. split; [reflexivity|constructor].
  - cbn [map assemble ap_lp] in H. rewrite nvars_lp_sum in H.
    destruct (split_at (nvars (ap_lp (u_prob u))) x ltac:(lia)) as (x1 & x2 & E & L1).
    assert (L2 : List.length x2 = nvars (ap_lp (assemble (map u_prob us)))).
    { rewrite E, app_length in H. lia. }
    destruct (IH x2 L2) as (xs & E2 & F). exists (x1 :: xs). split; [cbn [List.concat]; rewrite <- E2; exact E|].
    constructor; assumption.
Qed.

Lemma units_wf us : Forall u_ok us -> Forall (fun a => wf_lp (ap_lp a)) (map u_prob us).
Proof. intros H. apply Forall_map. eapply Forall_impl; [|exact H]. intros u (W & _). exact W. Qed.
Lemma units_len us (xs : list vec) : Forall2 (fun u x => List.length x = nvars (ap_lp (u_prob u))) us xs ->
  Forall2 (fun a x => List.length x = nvars (ap_lp a)) (map u_prob us) xs.
Proof. induction 1; cbn [map]; constructor; assumption. Qed.

Lemma ref_flow_units us : forall (xs : list vec) n t,
  Forall2 (fun u x => forall n t, dispatch_out (ap_map (u_prob u)) x (u_name u) n t == tb_flow (u_tb u) (u_dec u x) n t) us xs ->
  qsum (unit_flows us xs n t) == ref_flow us (map (fun ux => u_dec (fst ux) (snd ux)) (combine us xs)) n t.
Proof.
  unfold ref_flow. induction us as [|u us IH]; intros xs n t H; inversion H as [|? x ? xs' Hx Hr]; subst; [reflexivity|].
  cbn [unit_flows combine map qsum fst snd]. rewrite (IH xs' n t Hr), Hx. reflexivity.
Qed.

Lemma dot_concat_units us : forall xs : list vec,
  Forall2 (fun u x => List.length x = nvars (ap_lp (u_prob u))) us xs ->
  dot (lp_c (ap_lp (assemble (map u_prob us)))) (List.concat xs)
  == qsum (map (fun ux => dot (lp_c (ap_lp (u_prob (fst ux)))) (snd ux)) (combine us xs)).
Proof.
  induction us as [|u us IH]; intros xs H; inversion H as [|? x ? xs' Lx Lr]; subst; [reflexivity|].
  cbn [map assemble ap_lp List.concat combine qsum fst snd]. unfold lp_sum at 1. cbn [lp_c].
  rewrite dot_app by (symmetry; exact Lx). rewrite (IH xs' Lr). reflexivity.
Qed.

(* ========== LP -> textbook: a feasible point decodes to a feasible state, no dearer, same flows ========== *)
Theorem lp_to_reference nodes skip steps (us : list unit_) (xs : list vec) :
  Forall u_ok us -> NoDup (map u_name us) ->
  Forall2 (fun u x => List.length x = nvars (ap_lp (u_prob u))) us xs ->
  feasible (ap_lp (portfolio nodes skip steps (map u_prob us))) (List.concat xs) ->
  let ys := map (fun ux => u_dec (fst ux) (snd ux)) (combine us xs) in
  ref_feasible nodes skip steps us ys /\
  ref_cost us ys <= dot (lp_c (ap_lp (portfolio nodes skip steps (map u_prob us)))) (List.concat xs) /\
  (forall n t, Forall2 Qeq (map (fun nm => dispatch_out (ap_map (portfolio nodes skip steps (map u_prob us))) (List.concat xs) nm n t) (map u_name us))
                           (map (fun uy => tb_flow (u_tb (fst uy)) (snd uy) n t) (combine us ys))).
Proof.
  intros Hok Hnd HL HF ys.
  destruct (portfolio_blocks nodes skip steps (map u_prob us) xs (units_wf us Hok) (units_len us xs HL)) as [PF _].
  apply PF in HF. destruct HF as [HB HN].
  (* per-unit consequences of realises *)
  assert (HU : Forall2 (fun u x => tb_adm (u_tb u) (u_dec u x) /\
                                   tb_cost (u_tb u) (u_dec u x) <= dot (lp_c (ap_lp (u_prob u))) x /\
                                   forall n t, dispatch_out (ap_map (u_prob u)) x (u_name u) n t == tb_flow (u_tb u) (u_dec u x) n t) us xs).
  { clear - Hok HB. revert xs HB. induction us as [|u us IH]; intros xs HB; inversion HB as [|? x ? xs' Fx Fr]; subst; [constructor|].
    inversion Hok as [|? ? Hu Hus]; subst. constructor; [|apply IH; assumption].
    destruct Hu as (_ & _ & (R1 & _)). apply R1. exact Fx. }
  assert (Hflow : forall n t, qsum (map (fun nm => dispatch_out (ap_map (assemble (map u_prob us))) (List.concat xs) nm n t) (map u_name us))
                              == ref_flow us ys n t).
  { intros n t. rewrite (qsum_F2 _ _ (assemble_dispatch us xs n t Hok Hnd HL)).
    apply ref_flow_units. eapply Forall2_impl'; [|exact HU]. intros u x (_ & _ & Hf). exact Hf. }
  split; [split|split].
  - subst ys. clear - HU. induction HU as [|u x us xs (A & _) _ IH]; cbn [combine map fst snd]; constructor; assumption.
  - intros n t Hn Hs Ht. rewrite <- Hflow.
    apply (nodal_balance_thm (map u_name us) nodes skip steps _ _ Hnd (assemble_assets us Hok) HN n t Hn Hs Ht).
  - unfold portfolio. cbn [ap_lp]. unfold add_rows. cbn [lp_c]. rewrite (dot_concat_units us xs HL).
    unfold ref_cost. subst ys. clear - HU.
    induction HU as [|u x us xs (_ & C & _) _ IH]; cbn [combine map qsum fst snd]; [lra|]. lra.
  - intros n t. unfold portfolio. cbn [ap_map].
    pose proof (assemble_dispatch us xs n t Hok Hnd HL) as HD.
    assert (HE : Forall2 Qeq (unit_flows us xs n t) (map (fun uy => tb_flow (u_tb (fst uy)) (snd uy) n t) (combine us ys))).
    { subst ys. clear - HU. induction HU as [|u x us xs (_ & _ & Fl) _ IH]; cbn [unit_flows combine map fst snd]; constructor; [apply Fl|exact IH]. }
    clear - HD HE. revert HD HE.
    generalize (map (fun uy => tb_flow (u_tb (fst uy)) (snd uy) n t) (combine us ys)).
    generalize (unit_flows us xs n t).
    generalize (map (fun nm => dispatch_out (ap_map (assemble (map u_prob us))) (List.concat xs) nm n t) (map u_name us)).
    intros l1. induction l1 as [|a l1 IHl]; intros l2 l3 E IH; inversion E; subst; inversion IH; subst; constructor.
    + etransitivity; eassumption.
    + eapply IHl; eassumption.
Qed.

(* ========== textbook -> LP: every feasible state is reached by a feasible point of the same cost ========== *)
Theorem reference_to_lp nodes skip steps (us : list unit_) (ys : list vec) :
  Forall u_ok us -> NoDup (map u_name us) ->
  ref_feasible nodes skip steps us ys ->
  exists xs, Forall2 (fun u x => List.length x = nvars (ap_lp (u_prob u))) us xs /\
    feasible (ap_lp (portfolio nodes skip steps (map u_prob us))) (List.concat xs) /\
    dot (lp_c (ap_lp (portfolio nodes skip steps (map u_prob us)))) (List.concat xs) == ref_cost us ys.
Proof.
  intros Hok Hnd [HA HBal].
  assert (HX : exists xs, Forall2 (fun u x => feasible (ap_lp (u_prob u)) x) us xs /\
             Forall2 (fun ux y => dot (lp_c (ap_lp (u_prob (fst ux)))) (snd ux) == tb_cost (u_tb (fst ux)) y /\
                        forall n t, dispatch_out (ap_map (u_prob (fst ux))) (snd ux) (u_name (fst ux)) n t == tb_flow (u_tb (fst ux)) y n t)
                     (combine us xs) ys).
  { clear - Hok HA. induction HA as [|u y us ys Ay _ IH].
    - exists []. split; constructor.
    - inversion Hok as [|? ? Hu Hus]; subst. destruct (IH Hus) as (xs & F & G).
      destruct Hu as (_ & _ & (_ & R2)). destruct (R2 y Ay) as (x & Fx & Cx & Flx & _).
      exists (x :: xs). split; [constructor; assumption|]. cbn [combine]. constructor; [split; assumption|exact G]. }
  destruct HX as (xs & HFs & HG).
  assert (HL : Forall2 (fun u x => List.length x = nvars (ap_lp (u_prob u))) us xs).
  { clear - Hok HFs. induction HFs as [|u x us xs Fx _ IH]; [constructor|]. inversion Hok as [|? ? Hu Hus]; subst.
    constructor; [|apply IH; exact Hus]. destruct Hu as (W & _). apply feasible_length; assumption. }
  exists xs. split; [exact HL|].
  destruct (portfolio_blocks nodes skip steps (map u_prob us) xs (units_wf us Hok) (units_len us xs HL)) as [PF _].
  assert (Hflow : forall n t, qsum (unit_flows us xs n t) == ref_flow us ys n t).
  { intros n t. unfold ref_flow. clear - HG. revert xs ys HG. induction us as [|u us IH]; intros xs ys HG.
    - cbn [combine] in HG. inversion HG; subst. reflexivity.
    - destruct xs as [|x xs]; cbn [combine] in HG.
      + inversion HG; subst. cbn [unit_flows combine map qsum]. reflexivity.
      + inversion HG as [|? y ? ys' [_ Fl] Gr]; subst. cbn [unit_flows combine map qsum fst snd] in *.
        rewrite (IH xs ys' Gr). rewrite Fl. reflexivity. }
  split.
  - apply PF. split.
    + clear - HFs. induction HFs; cbn [map]; constructor; assumption.
    + apply (nodal_balance_iff (map u_name us) nodes skip steps _ _ Hnd (assemble_assets us Hok)).
      intros n t Hn Hs Ht. rewrite (qsum_F2 _ _ (assemble_dispatch us xs n t Hok Hnd HL)).
      rewrite Hflow. apply HBal; assumption.
  - unfold portfolio. cbn [ap_lp]. unfold add_rows. cbn [lp_c]. rewrite (dot_concat_units us xs HL).
    unfold ref_cost. clear - HG HL HA. revert xs ys HG HL HA. induction us as [|u us IH]; intros xs ys HG HL HA.
    + inversion HA; subst. reflexivity.
    + inversion HL as [|? x ? xs' _ Lr]; subst. inversion HA as [|? y ? ys' _ Ar]; subst.
      cbn [combine] in HG. inversion HG as [|? ? ? ? [Cx _] Gr]; subst.
      cbn [combine map qsum fst snd] in *. rewrite (IH xs' ys' Gr Lr Ar), Cx. reflexivity.
Qed.

(* ========== same optimum; an optimal point decodes to an optimal state ========== *)
Theorem optimum_is_reference_optimum nodes skip steps (us : list unit_) (xs : list vec) :
  Forall u_ok us -> NoDup (map u_name us) ->
  Forall2 (fun u x => List.length x = nvars (ap_lp (u_prob u))) us xs ->
  optimal (ap_lp (portfolio nodes skip steps (map u_prob us))) (List.concat xs) ->
  let ys := map (fun ux => u_dec (fst ux) (snd ux)) (combine us xs) in
  ref_optimal nodes skip steps us ys /\
  value (ap_lp (portfolio nodes skip steps (map u_prob us))) (List.concat xs) == - ref_cost us ys.
Proof.
  intros Hok Hnd HL [HF Hopt] ys.
  destruct (lp_to_reference nodes skip steps us xs Hok Hnd HL HF) as (RF & RC & _). fold ys in RF, RC.
  (* the decoded state is reached by some feasible x' of its own cost; optimality of x gives the reverse inequality *)
  destruct (reference_to_lp nodes skip steps us ys Hok Hnd RF) as (xs' & _ & F' & C').
  pose proof (Hopt _ F') as Hle. unfold value in Hle.
  assert (Eq : dot (lp_c (ap_lp (portfolio nodes skip steps (map u_prob us)))) (List.concat xs) == ref_cost us ys) by lra.
  split; [split; [exact RF|]|unfold value; lra].
  intros ys2 RF2. destruct (reference_to_lp nodes skip steps us ys2 Hok Hnd RF2) as (xs2 & _ & F2 & C2).
  pose proof (Hopt _ F2) as Hle2. unfold value in Hle2. lra.
Qed.

(* ---------- adding rows that express a predicate of the decoded state ---------- *)
Lemma with_rows_realises nm a dec S rows (Q : vec -> Prop) :
  realises nm a dec S ->
  (forall x, feasible (ap_lp a) x -> (Forall (row_ok x) rows <-> Q (dec x))) ->
  (forall y y', Forall2 Qeq y y' -> (Q y <-> Q y')) ->
  realises nm {| ap_lp := add_rows (ap_lp a) rows; ap_map := ap_map a |} dec
           {| tb_adm := fun y => tb_adm S y /\ Q y; tb_cost := tb_cost S; tb_flow := tb_flow S |}.
Proof.
  intros [R1 R2] HQ Hresp. split; cbn [ap_lp ap_map tb_adm tb_cost tb_flow].
  - intros x Hf. apply add_rows_feasible in Hf. destruct Hf as [Hf Hr]. destruct (R1 x Hf) as (A & C & F).
    split; [split; [exact A|apply (HQ x Hf); exact Hr]|]. split; [exact C|exact F].
  - intros y [Ay Qy]. destruct (R2 y Ay) as (x & Hf & C & F & D). exists x. split; [|split; [exact C|split; [exact F|exact D]]].
    apply add_rows_feasible. split; [exact Hf|]. apply (HQ x Hf). apply (Hresp (dec x) y D). exact Qy.
Qed.

(* ---------- the same problem delivering into several nodes with factors (MultiCommodityContract, assets.py:2237-2246) ---------- *)
Lemma multi_block_dispatch mp node0 ni fi x a n t :
  Forall (fun r => is_d r = true /\ m_node r = Some node0) mp ->
  dispatch_out (map (fun r => Build_mrow (m_var r) (m_asset r) (Some ni) (m_type r) (m_step r) (Qred (m_factor r * fi)) (m_name r) (m_bool r))
                    (filter is_d mp)) x a n t ==
  if String.eqb n ni then fi * dispatch_out mp x a node0 t else 0.
Proof.
  intros H. unfold dispatch_out. induction mp as [|r mp IH]; [cbn; destruct (String.eqb n ni); ring|].
  inversion H as [|? ? [Hd Hn] Hm]; subst. specialize (IH Hm). cbn [filter]. rewrite Hd. cbn [map filter].
  assert (S1 : forall r', sel n t (Build_mrow (m_var r') (m_asset r') (Some ni) (m_type r') (m_step r') (Qred (m_factor r' * fi)) (m_name r') (m_bool r'))
                          = is_d r' && String.eqb n ni && Nat.eqb (m_step r') t) by reflexivity.
  assert (S2 : sel node0 t r = Nat.eqb (m_step r) t).
  { unfold sel, at_node. rewrite Hd, Hn, String.eqb_refl. reflexivity. }
  rewrite S1, S2, Hd. cbn [m_asset andb].
  destruct (String.eqb n ni) eqn:En; cbn [andb]; [|rewrite andb_false_r; exact IH].
  destruct (String.eqb (m_asset r) a && Nat.eqb (m_step r) t); [|exact IH].
  cbn [map qsum m_var m_factor]. rewrite IH, Qred_correct. ring.
Qed.

Lemma multi_dispatch mp node0 nodes factors x a n t :
  Forall (fun r => is_d r = true /\ m_node r = Some node0) mp ->
  dispatch_out (multi_map mp nodes factors) x a n t ==
  qsum (map (fun nf => if String.eqb n (fst nf) then snd nf * dispatch_out mp x a node0 t else 0) (combine nodes factors)).
Proof.
  intros H. unfold multi_map. induction (combine nodes factors) as [|[ni fi] l IH]; [reflexivity|].
  cbn [flat_map map qsum fst snd]. rewrite dispatch_out_app, IH. rewrite (multi_block_dispatch mp node0 ni fi x a n t H). reflexivity.
Qed.

Definition tb_multi (S : tb) (node0 : string) (nodes : list string) (factors : vec) : tb :=
  {| tb_adm := tb_adm S; tb_cost := tb_cost S;
     tb_flow := fun y n t => qsum (map (fun nf => if String.eqb n (fst nf) then snd nf * tb_flow S y node0 t else 0) (combine nodes factors)) |}.

Theorem multi_realises nm a dec S node0 nodes factors :
  realises nm a dec S -> Forall (fun r => is_d r = true /\ m_node r = Some node0) (ap_map a) ->
  realises nm {| ap_lp := ap_lp a; ap_map := multi_map (ap_map a) nodes factors |} dec (tb_multi S node0 nodes factors).
Proof.
  intros [R1 R2] Hm. split; cbn [ap_lp ap_map tb_multi tb_adm tb_cost tb_flow].
  - intros x Hf. destruct (R1 x Hf) as (A & C & F). split; [exact A|split; [exact C|]].
    intros n t. rewrite (multi_dispatch _ node0 _ _ _ _ _ _ Hm). apply qsum_map_ext. intros nf _. destruct (String.eqb n (fst nf)); [rewrite F|]; reflexivity.
  - intros y Ay. destruct (R2 y Ay) as (x & Hf & C & F & D). exists x. split; [exact Hf|split; [exact C|split; [|exact D]]].
    intros n t. rewrite (multi_dispatch _ node0 _ _ _ _ _ _ Hm). apply qsum_map_ext. intros nf _. destruct (String.eqb n (fst nf)); [rewrite F|]; reflexivity.
Qed.

Lemma multi_map_wf mp nodes factors nm nv :
  Forall (fun r => m_asset r = nm /\ (m_var r < nv)%nat) mp ->
  Forall (fun r => m_asset r = nm /\ (m_var r < nv)%nat) (multi_map mp nodes factors).
Proof.
  intros H. unfold multi_map. apply Forall_forall. intros r Hr. apply in_flat_map in Hr. destruct Hr as (nf & _ & Hr).
  apply in_map_iff in Hr. destruct Hr as (r0 & <- & Hr0). apply filter_In in Hr0. destruct Hr0 as [Hr0 _].
  rewrite Forall_forall in H. exact (H r0 Hr0).
Qed.

Theorem multi_unit_ok (u : unit_) node0 nodes factors :
  u_ok u -> Forall (fun r => is_d r = true /\ m_node r = Some node0) (ap_map (u_prob u)) ->
  u_ok {| u_name := u_name u; u_prob := {| ap_lp := ap_lp (u_prob u); ap_map := multi_map (ap_map (u_prob u)) nodes factors |};
          u_dec := u_dec u; u_tb := tb_multi (u_tb u) node0 nodes factors |}.
Proof.
  intros (W & M & R) Hm. unfold u_ok. cbn [u_name u_prob u_dec u_tb ap_lp ap_map].
  split; [exact W|split; [apply multi_map_wf; exact M|apply multi_realises; assumption]].
Qed.

(* ====================================================================================== *)
(* Instances: the builders of Assets.v realise the textbook objects of the property text  *)
(* ====================================================================================== *)

Lemma in_box_iff l u x : in_box l u x <->
  (List.length l = List.length x /\ List.length u = List.length x /\
   forall j, (j < List.length x)%nat -> nth j l 0 <= nth j x 0 /\ nth j x 0 <= nth j u 0).
Proof.
  split.
  - intros H. destruct (in_box_length _ _ _ H) as [A B]. repeat split; auto; apply (in_box_nth _ _ _ H); assumption.
  - revert u x. induction l as [|l0 l IH]; intros [|u0 u] [|x0 x] (A & B & C); simpl in A, B; try discriminate; cbn [in_box]; auto.
    destruct (C 0%nat ltac:(simpl; lia)) as [C1 C2]. cbn [nth] in C1, C2. repeat split; auto.
    apply IH. split; [lia|split; [lia|]]. intros j Hj. apply (C (S j)). simpl. lia.
Qed.

Lemma dot_nth : forall a x, List.length a = List.length x ->
  dot a x == qsum (map (fun j => nth j a 0 * nth j x 0) (seq 0 (List.length x))).
Proof.
  induction a as [|a0 a IH]; intros [|x0 x] H; simpl in H; try discriminate; [reflexivity|].
  change (List.length (x0 :: x)) with (S (List.length x)). rewrite qsum_seq_front. cbn [dot nth].
  rewrite (IH x) by lia. reflexivity.
Qed.

Lemma vmul_length a b : List.length (vmul a b) = Nat.min (List.length a) (List.length b).
Proof. unfold vmul. rewrite map_length, combine_length. reflexivity. Qed.

Lemma all_b_nth f v t : all_b f v = true -> (t < List.length v)%nat -> f (nth t v 0) = true.
Proof. unfold all_b. intros H Ht. rewrite forallb_forall in H. apply H. apply nth_In. exact Ht. Qed.

Lemma le0_spec a : le0 a = true -> a <= 0.
Proof. unfold le0. apply Qle_bool_imp_le. Qed.
Lemma ge0_spec a : ge0 a = true -> 0 <= a.
Proof. unfold ge0. apply Qle_bool_imp_le. Qed.
Lemma eq0_spec a : eq0 a = true -> a == 0.
Proof. unfold eq0. apply Qeq_bool_eq. Qed.

Lemma mk_rows_wf name node ty vn off fac I :
  Forall (fun r => m_asset r = name /\ (m_var r < off + List.length I)%nat) (mk_rows name node ty vn off fac I).
Proof.
  unfold mk_rows. apply Forall_forall. intros r Hr. apply in_map_iff in Hr. destruct Hr as (((k, i), f) & <- & Hin).
  cbn [m_asset m_var fst snd]. split; [reflexivity|].
  apply in_combine_l in Hin. apply in_combine_l in Hin. apply in_seq in Hin. lia.
Qed.

Lemma mk_rows_d name node vn off fac I :
  Forall (fun r => is_d r = true /\ m_node r = Some node) (mk_rows name (Some node) "d" vn off fac I).
Proof.
  unfold mk_rows. apply Forall_forall. intros r Hr. apply in_map_iff in Hr. destruct Hr as (q & <- & _). split; reflexivity.
Qed.

(* ---------------- Transport ---------------- *)
Definition step_sum (I : list nat) (y : vec) (t : nat) : Q :=
  qsum (map (fun k => if Nat.eqb (nth k I 0%nat) t then nth k y 0 else 0) (seq 0 (List.length I))).

(* textbook transport: flow f_t within rate x step length; what leaves node 1 arrives at node 2 times the efficiency;
   a cost per unit of |flow|, discounted *)
Definition tb_transport (rg : rgrid) (n1 n2 : string) (cost : vec) (mn mx eff : Q) : tb :=
  {| tb_adm := fun y => List.length y = rg_T rg /\
                 forall t, (t < rg_T rg)%nat -> mn * nth t (rg_dt rg) 0 <= nth t y 0 /\ nth t y 0 <= mx * nth t (rg_dt rg) 0;
     tb_cost := fun y => qsum (map (fun t => nth t (rg_disc rg) 0 * (nth t cost 0 * Qabs (nth t y 0))) (seq 0 (rg_T rg)));
     tb_flow := fun y n t => (if String.eqb n n1 then - step_sum (rg_I rg) y t else 0) +
                             (if String.eqb n n2 then eff * step_sum (rg_I rg) y t else 0) |}.

Definition transport_costs (g : grid) (rg : rgrid) (p : transport_p) : vec :=
  let cts0 := match tp_costs p with Some v => v | None => repeat 0 (g_T g) end in
  let cts := if Nat.eqb (List.length cts0) 1 then cts0 else price_vec rg cts0 in
  map (fun v => Qred (v + tp_const p)) cts.

Section TransportInstance.
Variables (g : grid) (rg : rgrid) (p : transport_p) (a : aprob).
Hypothesis Hb : transport g rg p = Some a.
Hypothesis Hfine : rg_minor rg = None.
Hypothesis Hdt : List.length (rg_dt rg) = rg_T rg.
Hypothesis Hdisc : List.length (rg_disc rg) = rg_T rg.
Hypothesis Hcost : List.length (transport_costs g rg p) = rg_T rg.
Hypothesis Hnodes : String.eqb (tp_n1 p) (tp_n2 p) = false.

Let T := rg_T rg.
Let c := transport_costs g rg p.
Let maxc := vmul (repeat (tp_max p) T) (rg_dt rg).
Let minc := vmul (repeat (tp_min p) T) (rg_dt rg).
Let S := tb_transport rg (tp_n1 p) (tp_n2 p) c (tp_min p) (tp_max p) (tp_eff p).

Lemma transport_shape :
  ((all_b le0 maxc || all_b ge0 minc) || all_b eq0 c = true) /\
  ap_lp a = {| lp_c := vmul (if all_b le0 maxc then vneg c else c) (rg_disc rg); lp_l := minc; lp_u := maxc; lp_rows := [] |} /\
  ap_map a = mk_rows (tp_name p) (Some (tp_n1 p)) "d" "disp" 0 (repeat (-1) T) (rg_I rg) ++
             mk_rows (tp_name p) (Some (tp_n2 p)) "d" "disp" 0 (repeat (tp_eff p) T) (rg_I rg).
Proof.
  pose proof Hb as H. unfold transport in H. cbv zeta in H.
  match type of H with (if ?b then _ else _) = _ => destruct b end; [discriminate|].
  change (map (fun v => Qred (v + tp_const p)) _) with c in H. fold T in H. fold maxc minc in H.
  destruct ((all_b le0 maxc || all_b ge0 minc) || all_b eq0 c) eqn:E; [|discriminate].
  unfold extend_minor in H. rewrite Hfine in H. inversion H. cbn [ap_lp ap_map]. auto.
Qed.

Lemma bounds_nth t : (t < T)%nat ->
  nth t minc 0 == tp_min p * nth t (rg_dt rg) 0 /\ nth t maxc 0 == tp_max p * nth t (rg_dt rg) 0.
Proof.
  intros Ht. unfold minc, maxc. rewrite !vmul_nth by (rewrite ?repeat_length; lia). rewrite !nth_repeat_q by exact Ht. split; reflexivity.
Qed.

Lemma len_minc : List.length minc = T.
Proof. unfold minc. rewrite vmul_length, repeat_length. lia. Qed.
Lemma len_maxc : List.length maxc = T.
Proof. unfold maxc. rewrite vmul_length, repeat_length. lia. Qed.

Lemma transport_box x : in_box minc maxc x <-> tb_adm S x.
Proof.
  rewrite in_box_iff. rewrite len_minc, len_maxc. cbn [S tb_transport tb_adm]. fold T. split.
  - intros (A & _ & Bd). split; [lia|]. intros t Ht. destruct (bounds_nth t Ht) as [E1 E2].
    destruct (Bd t ltac:(lia)) as [B1 B2]. rewrite E1 in B1. rewrite E2 in B2. split; assumption.
  - intros (A & Bd). repeat split; try lia; rewrite A in H; destruct (bounds_nth j H) as [E1 E2];
      destruct (Bd j H) as [B1 B2]; [rewrite E1|rewrite E2]; assumption.
Qed.

Lemma transport_cost x : tb_adm S x ->
  dot (vmul (if all_b le0 maxc then vneg c else c) (rg_disc rg)) x == tb_cost S x.
Proof.
  intros Hadm. pose proof Hadm as (Lx & Bd). destruct transport_shape as (Cond & _ & _).
  assert (Lc1 : List.length (if all_b le0 maxc return vec then vneg c else c) = T).
  { destruct (all_b le0 maxc); [unfold vneg; rewrite map_length|]; exact Hcost. }
  assert (Ld : List.length (vmul (if all_b le0 maxc then vneg c else c) (rg_disc rg)) = List.length x).
  { rewrite vmul_length, Lc1, Hdisc, Lx. apply Nat.min_id. }
  rewrite (dot_nth _ _ Ld). rewrite Lx. unfold S, tb_transport, tb_cost. fold T.
  apply qsum_map_ext. intros t Ht. apply in_seq in Ht.
  assert (Ht' : (t < T)%nat) by lia.
  rewrite vmul_nth; [|rewrite Lc1; exact Ht'|rewrite Hdisc; exact Ht'].
  destruct (bounds_nth t Ht') as [E1 E2]. destruct (Bd t Ht') as [B1 B2].
  destruct (all_b le0 maxc) eqn:Ele.
  - pose proof (le0_spec _ (all_b_nth _ _ t Ele ltac:(rewrite len_maxc; exact Ht'))) as M. rewrite E2 in M.
    rewrite nth_vneg. rewrite (Qabs_neg (nth t x 0)) by lra. ring.
  - cbn [orb] in Cond. destruct (all_b ge0 minc) eqn:Ege.
    + pose proof (ge0_spec _ (all_b_nth _ _ t Ege ltac:(rewrite len_minc; exact Ht'))) as M. rewrite E1 in M.
      rewrite (Qabs_pos (nth t x 0)) by lra. ring.
    + cbn [orb] in Cond. pose proof (eq0_spec _ (all_b_nth _ _ t Cond ltac:(unfold c; rewrite Hcost; exact Ht'))) as M.
      rewrite M. ring.
Qed.

Lemma transport_flow x n t : List.length x = T ->
  dispatch_out (ap_map a) x (tp_name p) n t == tb_flow S x n t.
Proof.
  intros Lx. destruct transport_shape as (_ & _ & ->). rewrite dispatch_out_app. cbn [S tb_transport tb_flow].
  assert (F1 : forall nd fac, List.length fac = T -> String.eqb n nd = true ->
     dispatch_out (mk_rows (tp_name p) (Some nd) "d" "disp" 0 fac (rg_I rg)) x (tp_name p) n t ==
     qsum (map (fun k => if Nat.eqb (nth k (rg_I rg) 0%nat) t then nth k x 0 * nth k fac 0 else 0) (seq 0 T))).
  { intros nd fac Lf E. apply String.eqb_eq in E. subst nd. rewrite mk_rows_dispatch by exact Lf. reflexivity. }
  assert (F0 : forall nd fac, String.eqb n nd = false ->
     dispatch_out (mk_rows (tp_name p) (Some nd) "d" "disp" 0 fac (rg_I rg)) x (tp_name p) n t == 0).
  { intros nd fac E. apply mk_rows_other_node. exact E. }
  destruct (String.eqb n (tp_n1 p)) eqn:E1; destruct (String.eqb n (tp_n2 p)) eqn:E2.
  - apply String.eqb_eq in E1, E2. subst n. rewrite E2, String.eqb_refl in Hnodes. discriminate.
  - rewrite (F1 _ _ (repeat_length _ _) E1), (F0 _ _ E2).
    transitivity ((-1) * step_sum (rg_I rg) x t); [|ring]. unfold step_sum. rewrite <- qsum_map_scale. rewrite Qplus_0_r.
    apply qsum_map_ext. intros k Hk. apply in_seq in Hk. rewrite nth_repeat_q by (unfold T, rg_T; lia). destruct (Nat.eqb _ t); ring.
  - rewrite (F0 _ _ E1), (F1 _ _ (repeat_length _ _) E2).
    transitivity (tp_eff p * step_sum (rg_I rg) x t); [|ring]. unfold step_sum. rewrite <- qsum_map_scale. rewrite Qplus_0_l.
    apply qsum_map_ext. intros k Hk. apply in_seq in Hk. rewrite nth_repeat_q by (unfold T, rg_T; lia). destruct (Nat.eqb _ t); ring.
  - rewrite (F0 _ _ E1), (F0 _ _ E2). ring.
Qed.

Theorem transport_realises : realises (tp_name p) a (fun x => x) S.
Proof.
  destruct transport_shape as (_ & EP & _). split.
  - intros x [Hbx _]. rewrite EP in Hbx. cbn [lp_l lp_u] in Hbx. apply transport_box in Hbx. pose proof Hbx as (Lx & _).
    split; [exact Hbx|]. split.
    + rewrite EP. cbn [lp_c]. rewrite transport_cost by exact Hbx. lra.
    + intros n t. apply transport_flow. exact Lx.
  - intros y Hy. exists y. pose proof Hy as (Ly & _). split; [|split].
    + split; [rewrite EP; cbn [lp_l lp_u]; apply transport_box; exact Hy|rewrite EP; constructor].
    + rewrite EP. cbn [lp_c]. apply transport_cost. exact Hy.
    + split; [intros n t; apply transport_flow; exact Ly|apply F2_Qeq_refl].
Qed.

Theorem transport_unit_ok :
  u_ok {| u_name := tp_name p; u_prob := a; u_dec := fun x => x; u_tb := S |}.
Proof.
  destruct transport_shape as (_ & EP & EM). unfold u_ok. cbn [u_name u_prob u_dec u_tb].
  assert (NV : nvars (ap_lp a) = T).
  { rewrite EP. unfold nvars. cbn [lp_c]. rewrite vmul_length, Hdisc.
    destruct (all_b le0 maxc); [unfold vneg; rewrite map_length|]; unfold c; rewrite Hcost; apply Nat.min_id. }
  split; [|split; [|exact transport_realises]].
  - unfold wf_lp. rewrite NV, EP. cbn [lp_l lp_u lp_rows]. rewrite len_minc, len_maxc. repeat split; constructor.
  - rewrite EM, NV. apply Forall_app. split; apply (mk_rows_wf _ _ _ _ 0).
Qed.
End TransportInstance.

(* ---------------- Storage (no binary options, fine grid) ---------------- *)
Lemma firstn_seq_le k : forall s n, (k <= n)%nat -> firstn k (seq s n) = seq s k.
Proof. induction k as [|k IH]; intros s [|n] H; try lia; [reflexivity|reflexivity|]. cbn [seq firstn]. f_equal. apply IH. lia. Qed.

Lemma nth_prefix_from : forall v acc t, (t < List.length v)%nat ->
  nth t (prefix_from acc v) 0 == acc + qsum (firstn (Datatypes.S t) v).
Proof.
  induction v as [|a v IH]; intros acc t H; simpl in H; [lia|]. destruct t as [|t]; cbn [prefix_from nth firstn qsum].
  - destruct v; cbn [firstn qsum]; ring.
  - rewrite IH by lia. cbn [firstn qsum]. ring.
Qed.

Lemma prefix_from_length : forall v acc, List.length (prefix_from acc v) = List.length v.
Proof. induction v as [|a v IH]; intros acc; cbn [prefix_from List.length]; [reflexivity|]. rewrite IH. reflexivity. Qed.

Lemma nth_vsubq : forall a b t, (t < List.length a)%nat -> (t < List.length b)%nat ->
  nth t (vsubq a b) 0 == nth t a 0 - nth t b 0.
Proof.
  unfold vsubq. induction a as [|a0 a IH]; intros [|b0 b] t Ha Hb; simpl in Ha, Hb; try lia.
  destruct t as [|t]; cbn [combine map nth fst snd]; [apply Qred_correct|]. apply IH; lia.
Qed.
Lemma vsubq_length a b : List.length (vsubq a b) = Nat.min (List.length a) (List.length b).
Proof. unfold vsubq. rewrite map_length, combine_length. reflexivity. Qed.

Lemma tails_length w : List.length (tails_sum w) = List.length w.
Proof. induction w as [|a w IH]; cbn [tails_sum List.length]; [reflexivity|]. rewrite IH. reflexivity. Qed.

Lemma map_seq_from {A} (F : nat -> A) m : forall s, map F (seq s m) = map (fun k => F (s + k)%nat) (seq 0 m).
Proof.
  induction m as [|m IH]; intros s; [reflexivity|]. cbn [seq map]. rewrite Nat.add_0_r. f_equal.
  rewrite IH. rewrite <- (seq_shift m 0), map_map. apply map_ext. intros k. f_equal. lia.
Qed.
Lemma qsum_seq_split (F : nat -> Q) n m :
  qsum (map F (seq 0 (n + m))) == qsum (map F (seq 0 n)) + qsum (map (fun k => F (n + k)%nat) (seq 0 m)).
Proof. rewrite seq_app, map_app, qsum_app. cbn [Nat.add]. rewrite (map_seq_from F m n). reflexivity. Qed.

(* dispatch of one block of one-variable-per-step rows, at an offset *)
Definition step_sum_off (I : list nat) (off : nat) (y : vec) (t : nat) : Q :=
  qsum (map (fun k => if Nat.eqb (nth k I 0%nat) t then nth (off + k) y 0 else 0) (seq 0 (List.length I))).

Section StorageInstance.
Variables (g : grid) (rg : rgrid) (p : storage_p) (a : aprob).
Hypothesis Hb : storage g rg p = Some a.
Hypothesis Hfine : rg_minor rg = None.
Hypothesis Hns : sp_no_simult p = false.
Hypothesis Hmd : sp_max_dur p = None.
Hypothesis Hn0 : rg_T rg <> 0%nat.
Hypothesis Hdt : List.length (rg_dt rg) = rg_T rg.
Hypothesis Hdisc : List.length (rg_disc rg) = rg_T rg.
Hypothesis Hprice : match sp_price p with Some v => List.length v = g_T g | None => True end.

Let n := rg_T rg.
Let dt := rg_dt rg.
Let disc := rg_disc rg.
Let q (t : nat) : Q := match sp_price p with Some v => nth t (pick 0 v (rg_I rg)) 0 | None => 0 end.
Let n0 := hd ""%string (sp_nodes p).
Let nout := if Nat.eqb (List.length (sp_nodes p)) 2 then nth 1 (sp_nodes p) n0 else n0.

(* textbook storage: charge c_t >= 0 and discharge d_t >= 0 limited by rate x step length; the level obeys
   level_t = level_{t-1} + eff*c_t - d_t + inflow*dt_t, stays in [0, size] and ends at the end level; energy is bought /
   sold at the price, charging and discharging cost cost_in / cost_out per unit, holding costs cost_store per unit of
   (level - start - accumulated inflow) and time; all cash flows discounted.
   State = the dispatch variables: one signed flow per step (plain storage), or charge (<= 0) and discharge (>= 0). *)
Definition tb_storage : tb :=
  {| tb_adm := fun y =>
       List.length y = (if st_sep p then n + n else n)%nat /\
       forall t, (t < n)%nat ->
         ((Datatypes.S t = n -> level p n dt y t == sp_end p) /\
          (Datatypes.S t <> n -> 0 <= level p n dt y t /\ level p n dt y t <= sp_size p)) /\
         (if st_sep p then
            (- (sp_cap_in p * nth t dt 0) <= nth t y 0 /\ nth t y 0 <= 0) /\
            (0 <= nth (n + t) y 0 /\ nth (n + t) y 0 <= sp_cap_out p * nth t dt 0)
          else - (sp_cap_in p * nth t dt 0) <= nth t y 0 /\ nth t y 0 <= sp_cap_out p * nth t dt 0);
     tb_cost := fun y =>
       qsum (map (fun t => nth t disc 0 *
                   (if st_sep p then (- sp_cost_in p - q t) * nth t y 0 + (sp_cost_out p - q t) * nth (n + t) y 0
                    else - q t * nth t y 0)) (seq 0 n)) +
       qsum (map (fun t => sp_cost_store p * nth t dt 0 * nth t disc 0 * qsum (map (net p n y) (seq 0 (Datatypes.S t)))) (seq 0 n));
     tb_flow := fun y nd t =>
       if st_sep p then (if String.eqb nd n0 then step_sum_off (rg_I rg) 0 y t else 0) +
                        (if String.eqb nd nout then step_sum_off (rg_I rg) n y t else 0)
       else if String.eqb nd n0 then step_sum_off (rg_I rg) 0 y t else 0 |}.

Lemma storage_pieces :
  ap_lp a = Build_lp (st_c p n dt disc (match sp_price p with Some v => Some (pick 0 v (rg_I rg)) | None => None end))
                     (st_l p n dt) (st_u p n dt) (st_rows p n dt) /\
  ap_map a = st_map p n (rg_I rg).
Proof.
  pose proof Hb as H. unfold storage in H. fold n in H.
  destruct (Nat.eqb_spec n 0) as [E|_]; [contradiction|].
  rewrite Hns, Hmd in H. cbn [andb] in H. unfold extend_minor in H. rewrite Hfine in H.
  unfold price_vec in H. rewrite Hfine in H.
  destruct (sp_price p) as [v|].
  - rewrite Hprice, Nat.eqb_refl in H. cbn [ap_map ap_lp] in H. inversion H. cbn [ap_lp ap_map]. auto.
  - cbn [ap_map ap_lp] in H. inversion H. cbn [ap_lp ap_map]. auto.
Qed.

(* rows <-> level conditions (the converse of storage_physics) *)
Lemma storage_rows_iff x :
  Forall (row_ok x) (st_rows p n dt) <->
  forall t, (t < n)%nat ->
    (Datatypes.S t = n -> level p n dt x t == sp_end p) /\
    (Datatypes.S t <> n -> 0 <= level p n dt x t /\ level p n dt x t <= sp_size p).
Proof.
  split; [apply storage_physics; symmetry; exact Hdt|].
  intros H. unfold st_rows. apply Forall_app. split; apply Forall_map, Forall_forall; intros t Ht; apply in_seq in Ht;
    unfold row_ok; cbn [r_t r_a r_b]; rewrite arow_sdot;
    pose proof (inflow_nth p dt t ltac:(unfold dt; rewrite Hdt; fold n; lia)) as Hinf;
    destruct (H t ltac:(lia)) as [H1 H2]; unfold level in H1, H2.
  - unfold st_bup. destruct (Nat.eqb_spec (Datatypes.S t) n) as [E|E]; rewrite Qred_correct.
    + specialize (H1 E). lra.
    + specialize (H2 E). lra.
  - unfold st_blo. destruct (Nat.eqb_spec (Datatypes.S t) n) as [E|E]; rewrite Qred_correct.
    + specialize (H1 E). lra.
    + specialize (H2 E). lra.
Qed.

Lemma storage_box_iff x :
  in_box (st_l p n dt) (st_u p n dt) x <->
  (List.length x = (if st_sep p then n + n else n)%nat /\
   forall t, (t < n)%nat ->
     if st_sep p then
       (- (sp_cap_in p * nth t dt 0) <= nth t x 0 /\ nth t x 0 <= 0) /\
       (0 <= nth (n + t) x 0 /\ nth (n + t) x 0 <= sp_cap_out p * nth t dt 0)
     else - (sp_cap_in p * nth t dt 0) <= nth t x 0 /\ nth t x 0 <= sp_cap_out p * nth t dt 0).
Proof.
  assert (Ldt : List.length dt = n) by exact Hdt.
  split.
  - intros H. split.
    + destruct (in_box_length _ _ _ H) as [L _]. rewrite <- L. unfold st_l. destruct (st_sep p); unfold vneg;
        rewrite ?app_length, ?map_length, ?repeat_length; lia.
    + apply storage_rate_bounds; [symmetry; exact Ldt|exact H].
  - intros [Lx Bd]. apply in_box_iff. unfold st_l, st_u. destruct (st_sep p).
    + split; [unfold vneg; rewrite app_length, !map_length, repeat_length; lia|].
      split; [rewrite app_length, map_length, repeat_length; lia|].
      intros j Hj. destruct (Nat.lt_ge_cases j n) as [Hlt|Hge].
      * destruct (Bd j Hlt) as [[A1 A2] _].
        rewrite app_nth1 by (unfold vneg; rewrite !map_length; lia).
        rewrite (app_nth1 (repeat 0 n)) by (rewrite repeat_length; lia).
        rewrite nth_vneg, nth_map_red by lia. rewrite nth_repeat0. split; assumption.
      * replace j with (n + (j - n))%nat by lia. destruct (Bd (j - n)%nat ltac:(lia)) as [_ [B1 B2]].
        assert (E1 : List.length (vneg (map (fun d : Q => Qred (sp_cap_in p * d)) dt)) = n) by (unfold vneg; rewrite !map_length; lia).
        assert (E2 : List.length (repeat 0 n) = n) by apply repeat_length.
        rewrite (nth_app_r _ _ n (j - n) 0 E1). rewrite (nth_app_r _ _ n (j - n) 0 E2).
        rewrite nth_repeat0, nth_map_red by lia. split; assumption.
    + split; [unfold vneg; rewrite !map_length; lia|]. split; [rewrite map_length; lia|].
      intros j Hj. rewrite Lx in Hj. destruct (Bd j Hj) as [A1 A2]. rewrite nth_vneg, !nth_map_red by lia. split; assumption.
Qed.

Lemma storage_feasible_iff x : feasible (ap_lp a) x <-> tb_adm tb_storage x.
Proof.
  destruct storage_pieces as [EP _]. unfold feasible. rewrite EP. cbn [lp_l lp_u lp_rows].
  rewrite storage_box_iff, storage_rows_iff. cbn [tb_storage tb_adm]. split.
  - intros [[L B] R]. split; [exact L|]. intros t Ht. split; [apply R; exact Ht|apply B; exact Ht].
  - intros [L H]. split; [split; [exact L|]|]; intros t Ht; apply (H t Ht).
Qed.

(* ---- cost ---- *)
Let cs := sp_cost_store p.
Let w : vec := vmul (map (fun d => Qred (cs * d)) dt) disc.
Let Sv : vec := if Qeq_bool cs 0 then repeat 0 n else tails_sum w.
Let price : option vec := match sp_price p with Some v => Some (pick 0 v (rg_I rg)) | None => None end.

Lemma len_w : List.length w = n.
Proof. unfold w. rewrite vmul_length, map_length. unfold dt, disc. rewrite Hdt, Hdisc. apply Nat.min_id. Qed.
Lemma len_Sv : List.length Sv = n.
Proof. unfold Sv. destruct (Qeq_bool cs 0); [apply repeat_length|rewrite tails_length; exact len_w]. Qed.
Lemma w_nth t : (t < n)%nat -> nth t w 0 == cs * nth t dt 0 * nth t disc 0.
Proof.
  intros Ht. unfold w. rewrite vmul_nth by (rewrite ?map_length; unfold dt, disc; rewrite ?Hdt, ?Hdisc; exact Ht).
  rewrite nth_map_red by (unfold dt; rewrite Hdt; exact Ht). reflexivity.
Qed.
Lemma price_nth t : (t < n)%nat ->
  match price with Some qv => nth t qv 0 | None => 0 end == q t.
Proof. intros _. unfold price, q. destruct (sp_price p); reflexivity. Qed.
Lemma len_price qv : price = Some qv -> List.length qv = n.
Proof. unfold price. destruct (sp_price p); [|discriminate]. intros E. inversion E. unfold pick. rewrite map_length. reflexivity. Qed.

Lemma nth_map_seq (F : nat -> Q) m j : (j < m)%nat -> nth j (map F (seq 0 m)) 0 = F j.
Proof.
  intros H. rewrite (nth_indep _ 0 (F 0%nat)) by (rewrite map_length, seq_length; exact H).
  rewrite map_nth. rewrite seq_nth by exact H. reflexivity.
Qed.

(* Abel summation in sum form: tail sums of the weights against F = weights against the running sums of F *)
Lemma abel_sum (F : nat -> Q) :
  qsum (map (fun t => nth t (tails_sum w) 0 * F t) (seq 0 n)) ==
  qsum (map (fun t => nth t w 0 * qsum (map F (seq 0 (Datatypes.S t)))) (seq 0 n)).
Proof.
  pose proof (holding_cost_abel w (map F (seq 0 n)) ltac:(rewrite map_length, seq_length; exact len_w)) as H.
  assert (Lv : List.length (map F (seq 0 n)) = n) by (rewrite map_length, seq_length; reflexivity).
  rewrite (dot_nth (tails_sum w)) in H by (rewrite tails_length, len_w, Lv; reflexivity).
  assert (Lp : List.length (prefix_from 0 (map F (seq 0 n))) = n) by (rewrite prefix_from_length; exact Lv).
  rewrite (dot_nth w) in H by (rewrite len_w, Lp; reflexivity). rewrite Lv, Lp in H.
  etransitivity; [|etransitivity; [exact H|]]; apply qsum_map_ext; intros t Ht; apply in_seq in Ht.
  - rewrite nth_map_seq by lia. reflexivity.
  - rewrite nth_prefix_from by (rewrite Lv; lia). rewrite firstn_map, firstn_seq_le by lia. ring.
Qed.

Lemma Sv_sum (F : nat -> Q) :
  qsum (map (fun t => nth t Sv 0 * F t) (seq 0 n)) ==
  qsum (map (fun t => cs * nth t dt 0 * nth t disc 0 * qsum (map F (seq 0 (Datatypes.S t)))) (seq 0 n)).
Proof.
  unfold Sv. destruct (Qeq_bool cs 0) eqn:E.
  - apply Qeq_bool_eq in E. etransitivity; [apply qsum_zero|symmetry; apply qsum_zero]; intros t _.
    + rewrite nth_repeat0. ring.
    + rewrite E. ring.
  - rewrite abel_sum. apply qsum_map_ext. intros t Ht. apply in_seq in Ht. rewrite w_nth by lia. reflexivity.
Qed.

(* the cost vector, entry by entry *)
Ltac lens := rewrite ?vsubq_length, ?vmul_length, ?map_length, ?repeat_length, ?tails_length, ?len_w; unfold disc; rewrite ?Hdisc; fold n; try lia.

Lemma st_c_single t : st_sep p = false -> (t < n)%nat ->
  nth t (st_c p n dt disc price) 0 == - q t * nth t disc 0 - nth t Sv 0.
Proof.
  intros Hs Ht. rewrite <- (price_nth t Ht). unfold st_c, Sv. rewrite Hs. fold cs. cbv zeta. fold w.
  assert (Ld : List.length disc = n) by exact Hdisc.
  destruct price as [qv|] eqn:Ep; [pose proof (len_price qv Ep) as Lq|]; destruct (Qeq_bool cs 0); cbv iota.
  - rewrite nth_vsubq by (rewrite ?repeat_length, ?vmul_length, ?Lq, ?Ld; lia).
    rewrite vmul_nth by (rewrite ?Lq, ?Ld; lia). rewrite !nth_repeat0. ring.
  - rewrite nth_vsubq by (rewrite ?vsubq_length, ?repeat_length, ?vmul_length, ?tails_length, ?len_w, ?Lq, ?Ld; lia).
    rewrite nth_vsubq by (rewrite ?repeat_length, ?vmul_length, ?Lq, ?Ld; lia).
    rewrite vmul_nth by (rewrite ?Lq, ?Ld; lia). rewrite !nth_repeat0. ring.
  - rewrite !nth_repeat0. ring.
  - rewrite nth_vsubq by (rewrite ?repeat_length, ?tails_length, ?len_w; lia). rewrite !nth_repeat0. ring.
Qed.

Lemma st_c_sep t : st_sep p = true -> (t < n)%nat ->
  nth t (st_c p n dt disc price) 0 == (- sp_cost_in p - q t) * nth t disc 0 - nth t Sv 0 * sp_eff p /\
  nth (n + t) (st_c p n dt disc price) 0 == (sp_cost_out p - q t) * nth t disc 0 - nth t Sv 0.
Proof.
  intros Hs Ht. rewrite <- (price_nth t Ht). unfold st_c, Sv. rewrite Hs. fold cs. cbv zeta. fold w.
  assert (Ld : List.length disc = n) by exact Hdisc.
  assert (Ls : List.length (tails_sum w) = n) by (rewrite tails_length; exact len_w).
  destruct price as [qv|] eqn:Ep; [pose proof (len_price qv Ep) as Lq|]; destruct (Qeq_bool cs 0); cbv iota.
  - assert (L0 : forall k, List.length (vmul (vsubq (repeat k n) qv) disc) = n) by (intros k; rewrite vmul_length, vsubq_length, repeat_length, Lq, Ld; lia).
    rewrite app_nth1 by (rewrite L0; exact Ht). rewrite (nth_app_r _ _ n t 0 (L0 _)).
    rewrite !vmul_nth by (rewrite ?vsubq_length, ?repeat_length, ?Lq, ?Ld; lia).
    rewrite !nth_vsubq by (rewrite ?repeat_length, ?Lq; lia). rewrite !nth_repeat_q by exact Ht. rewrite ?nth_repeat0. split; ring.
  - assert (L0 : forall k, List.length (vmul (vsubq (repeat k n) qv) disc) = n) by (intros k; rewrite vmul_length, vsubq_length, repeat_length, Lq, Ld; lia).
    rewrite app_nth1 by (rewrite vsubq_length, L0, map_length, Ls; lia).
    rewrite (nth_app_r _ _ n t 0) by (rewrite vsubq_length, L0, map_length, Ls; lia).
    rewrite !nth_vsubq by (rewrite ?L0, ?map_length, ?Ls; exact Ht).
    rewrite nth_map_red by (rewrite Ls; exact Ht).
    rewrite !vmul_nth by (rewrite ?vsubq_length, ?repeat_length, ?Lq, ?Ld; lia).
    rewrite !nth_vsubq by (rewrite ?repeat_length, ?Lq; lia). rewrite !nth_repeat_q by exact Ht. split; ring.
  - assert (L0 : forall k, List.length (vmul (repeat k n) disc) = n) by (intros k; rewrite vmul_length, repeat_length, Ld; lia).
    rewrite app_nth1 by (rewrite L0; exact Ht). rewrite (nth_app_r _ _ n t 0 (L0 _)).
    rewrite !vmul_nth by (rewrite ?repeat_length, ?Ld; lia). rewrite !nth_repeat_q by exact Ht. rewrite ?nth_repeat0. split; ring.
  - assert (L0 : forall k, List.length (vmul (repeat k n) disc) = n) by (intros k; rewrite vmul_length, repeat_length, Ld; lia).
    rewrite app_nth1 by (rewrite vsubq_length, L0, map_length, Ls; lia).
    rewrite (nth_app_r _ _ n t 0) by (rewrite vsubq_length, L0, map_length, Ls; lia).
    rewrite !nth_vsubq by (rewrite ?L0, ?map_length, ?Ls; exact Ht).
    rewrite nth_map_red by (rewrite Ls; exact Ht).
    rewrite !vmul_nth by (rewrite ?repeat_length, ?Ld; lia). rewrite !nth_repeat_q by exact Ht. split; ring.
Qed.

Lemma st_c_length : List.length (st_c p n dt disc price) = (if st_sep p then n + n else n)%nat.
Proof.
  assert (Ld : List.length disc = n) by exact Hdisc.
  assert (Ls : List.length (tails_sum w) = n) by (rewrite tails_length; exact len_w).
  unfold st_c. fold cs. cbv zeta. fold w.
  destruct (st_sep p); (destruct price as [qv|] eqn:Ep; [pose proof (len_price qv Ep) as Lq|]); destruct (Qeq_bool cs 0);
    rewrite ?app_length, ?vsubq_length, ?vmul_length, ?vsubq_length, ?vmul_length, ?map_length, ?repeat_length, ?Ls, ?Ld, ?Lq; lia.
Qed.

Lemma storage_cost x : List.length x = (if st_sep p then n + n else n)%nat ->
  dot (st_c p n dt disc price) x == tb_cost tb_storage x.
Proof.
  intros Lx. rewrite dot_nth by (rewrite st_c_length, Lx; reflexivity). rewrite Lx.
  cbn [tb_storage tb_cost]. fold cs. rewrite <- (Sv_sum (net p n x)). rewrite <- qsum_map_add.
  destruct (st_sep p) eqn:Hs.
  - rewrite qsum_seq_split. rewrite <- qsum_map_add. apply qsum_map_ext. intros t Ht. apply in_seq in Ht.
    destruct (st_c_sep t Hs ltac:(lia)) as [C0 C1]. rewrite C0, C1. unfold net. rewrite Hs. ring.
  - apply qsum_map_ext. intros t Ht. apply in_seq in Ht. rewrite (st_c_single t Hs ltac:(lia)). unfold net. rewrite Hs. ring.
Qed.

(* ---- flows ---- *)
Lemma ones_length m : List.length (ones m) = m.
Proof. apply repeat_length. Qed.
Lemma block_flow nd vn off x nd' t : List.length (rg_I rg) = n ->
  dispatch_out (mk_rows (sp_name p) (Some nd) "d" vn off (ones n) (rg_I rg)) x (sp_name p) nd' t ==
  if String.eqb nd' nd then step_sum_off (rg_I rg) off x t else 0.
Proof.
  intros LI. destruct (String.eqb nd' nd) eqn:E.
  - apply String.eqb_eq in E. subst nd'. rewrite mk_rows_dispatch by (rewrite ones_length; symmetry; exact LI).
    unfold step_sum_off. apply qsum_map_ext. intros k Hk. apply in_seq in Hk.
    unfold ones. rewrite nth_repeat_q by lia. destruct (Nat.eqb _ t); ring.
  - apply mk_rows_other_node. exact E.
Qed.

Lemma storage_flow x nd t : dispatch_out (ap_map a) x (sp_name p) nd t == tb_flow tb_storage x nd t.
Proof.
  destruct storage_pieces as [_ EM]. rewrite EM. unfold st_map. cbn [tb_storage tb_flow]. fold n0.
  destruct (st_sep p).
  - rewrite dispatch_out_app. rewrite !block_flow by reflexivity. fold nout. reflexivity.
  - rewrite block_flow by reflexivity. reflexivity.
Qed.

Theorem storage_realises : realises (sp_name p) a (fun x => x) tb_storage.
Proof.
  destruct storage_pieces as [EP _]. split.
  - intros x Hf. pose proof (proj1 (storage_feasible_iff x) Hf) as Ha. split; [exact Ha|]. split.
    + rewrite EP. cbn [lp_c]. fold price. rewrite storage_cost by (apply Ha). lra.
    + intros nd t. apply storage_flow.
  - intros y Hy. exists y. split; [apply storage_feasible_iff; exact Hy|]. split.
    + rewrite EP. cbn [lp_c]. fold price. apply storage_cost. apply Hy.
    + split; [intros nd t; apply storage_flow|apply F2_Qeq_refl].
Qed.

Theorem storage_unit_ok :
  u_ok {| u_name := sp_name p; u_prob := a; u_dec := fun x => x; u_tb := tb_storage |}.
Proof.
  destruct storage_pieces as [EP EM]. unfold u_ok. cbn [u_name u_prob u_dec u_tb].
  assert (NV : nvars (ap_lp a) = (if st_sep p then n + n else n)%nat).
  { rewrite EP. unfold nvars. cbn [lp_c]. fold price. apply st_c_length. }
  assert (Ldt : List.length dt = n) by exact Hdt.
  split; [|split; [|exact storage_realises]].
  - unfold wf_lp. rewrite NV, EP. cbn [lp_l lp_u lp_rows]. split; [|split].
    + unfold st_l, vneg. destruct (st_sep p); rewrite ?app_length, ?map_length, ?repeat_length; lia.
    + unfold st_u. destruct (st_sep p); rewrite ?app_length, ?map_length, ?repeat_length; lia.
    + unfold st_rows. apply Forall_app. split; apply Forall_map, Forall_forall; intros i Hi; apply in_seq in Hi;
        cbn [r_a]; unfold st_arow, srow_wf, tril_row; destruct (st_sep p);
        rewrite ?Forall_app, ?Forall_map; repeat split; apply Forall_forall; intros j Hj; apply in_seq in Hj; cbn [fst]; lia.
  - rewrite EM, NV. unfold st_map. destruct (st_sep p).
    + apply Forall_app. split.
      * eapply Forall_impl; [|apply (mk_rows_wf _ _ _ _ 0)]. intros r [E L]. split; [exact E|]. unfold n, rg_T in *. lia.
      * eapply Forall_impl; [|apply (mk_rows_wf _ _ _ _ n)]. intros r [E L]. split; [exact E|]. unfold n, rg_T in *. lia.
    + eapply Forall_impl; [|apply (mk_rows_wf _ _ _ _ 0)]. intros r [E L]. split; [exact E|]. unfold n, rg_T in *. lia.
Qed.
End StorageInstance.

(* ---------------- SimpleContract (fine grid): one variable per step, or the in/out split with a spread ---------------- *)
Lemma qmin0_mono a b : a <= b -> qmin0 a <= qmin0 b.
Proof.
  intros H. destruct (qmin0_spec a) as [A1 A2]; destruct (qmin0_spec b) as [B1 B2].
  destruct (Qlt_le_dec 0 a) as [Ha|Ha]; destruct (Qlt_le_dec 0 b) as [Hb|Hb];
    rewrite ?A1, ?A2, ?B1, ?B2 by lra; lra.
Qed.
Lemma qmax0_mono a b : a <= b -> qmax0 a <= qmax0 b.
Proof.
  intros H. destruct (qmax0_spec a) as [A1 A2]; destruct (qmax0_spec b) as [B1 B2].
  destruct (Qlt_le_dec a 0) as [Ha|Ha]; destruct (Qlt_le_dec b 0) as [Hb|Hb];
    rewrite ?A1, ?A2, ?B1, ?B2 by lra; lra.
Qed.
Lemma qmin0_or_qmax0 a : qmin0 a == 0 \/ qmax0 a == 0.
Proof. destruct (Qlt_le_dec a 0) as [H|H]; [right; apply qmax0_spec; lra|left; apply qmin0_spec; exact H]. Qed.

Lemma vadd_length a b : List.length (vadd a b) = Nat.min (List.length a) (List.length b).
Proof. unfold vadd. rewrite map_length, combine_length. reflexivity. Qed.
Lemma nth_vadd : forall a b t, (t < List.length a)%nat -> (t < List.length b)%nat ->
  nth t (vadd a b) 0 == nth t a 0 + nth t b 0.
Proof.
  unfold vadd. induction a as [|a0 a IH]; intros [|b0 b] t Ha Hb; simpl in Ha, Hb; try lia.
  destruct t as [|t]; cbn [combine map nth fst snd]; [apply Qred_correct|]. apply IH; lia.
Qed.
Lemma nth_map_q (f : Q -> Q) : f 0 = 0 -> forall l j, nth j (map f l) 0 = f (nth j l 0).
Proof. intros H0 l j. rewrite <- H0 at 1. apply map_nth. Qed.
Lemma any_gt_false a b t : any_gt a b = false -> (t < List.length a)%nat -> (t < List.length b)%nat -> nth t a 0 <= nth t b 0.
Proof.
  unfold any_gt. revert b t. induction a as [|a0 a IH]; intros [|b0 b] t H Ha Hb; simpl in Ha, Hb; try lia.
  cbn [combine existsb fst snd] in H. apply orb_false_iff in H. destruct H as [H1 H2].
  destruct t as [|t]; cbn [nth]; [|apply IH; auto; lia].
  apply negb_false_iff in H1. apply Qle_bool_iff. exact H1.
Qed.

Lemma qsum_map_le {A} (f g : A -> Q) l : (forall a, In a l -> f a <= g a) -> qsum (map f l) <= qsum (map g l).
Proof.
  induction l as [|a l IH]; intros H; cbn [map qsum]; [lra|].
  pose proof (H a (or_introl eq_refl)). assert (qsum (map f l) <= qsum (map g l)) by (apply IH; intros b Hb; apply H; right; exact Hb). lra.
Qed.
Lemma Qmult_le_l_compat' k a b : 0 <= k -> a <= b -> k * a <= k * b.
Proof. intros Hk H. assert (0 <= k * (b - a)) by (apply Qmult_le_0_compat; lra). lra. Qed.

(* ---------- take rows (assets.py:968-1004): the volume delivered in the steps of the period against the prorated value ---------- *)
Definition step_flow_n (node : option string) (mp : list mrow) (x : vec) (t : nat) : Q :=
  qsum (map (fun r => m_factor r * nth (m_var r) x 0)
            (filter (fun r => Nat.eqb (m_step r) t && match node with None => true | Some n => at_node n r end) mp)).
Definition step_flow (mp : list mrow) (x : vec) (t : nat) : Q := step_flow_n None mp x t.
Definition take_steps (rg : rgrid) (tk : take) : list nat :=
  map snd (filter (fun p => in_window (fst (fst tk)) (snd (fst tk)) (fst p)) (combine (rg_tp rg) (rg_I rg))).
(* textbook: the volume of the steps whose time point lies in the period *)
Definition take_volume (rg : rgrid) (y : vec) (tk : take) : Q := qsum (map (step_sum_off (rg_I rg) 0 y) (take_steps rg tk)).
Definition cmp_ok (ty : rtype) (lhs rhs : Q) : Prop :=
  match ty with RU => lhs <= rhs | RL => rhs <= lhs | _ => lhs == rhs end.
(* ... compared with the right-hand side of the emitted row (the prorated value: C02_take_prorated); no row = no restriction *)
Definition take_ok (g : grid) (rg : rgrid) (mp : list mrow) (ty : rtype) (y : vec) (tk : take) : Prop :=
  Forall (fun r => cmp_ok ty (take_volume rg y tk) (r_b r)) (take_row g rg mp None ty tk).

Lemma sdot_rows_flat (f : nat -> mrow -> bool) mp steps x :
  sdot (map (fun r => (m_var r, m_factor r)) (flat_map (fun t => filter (f t) mp) steps)) x ==
  qsum (map (fun t => qsum (map (fun r => m_factor r * nth (m_var r) x 0) (filter (f t) mp))) steps).
Proof.
  induction steps as [|t steps IH]; cbn [flat_map map qsum]; [reflexivity|].
  rewrite map_app, sdot_app, IH. apply Qplus_inj_r. unfold sdot. rewrite map_map. reflexivity.
Qed.

Lemma take_row_spec_n g rg mp node ty tk r x : In r (take_row g rg mp node ty tk) ->
  r_t r = ty /\ sdot (r_a r) x == qsum (map (step_flow_n node mp x) (take_steps rg tk)).
Proof.
  destruct tk as [[s e] v]. unfold take_row, take_steps. cbn [fst snd].
  set (steps := map snd (filter (fun p => in_window s e (fst p)) (combine (rg_tp rg) (rg_I rg)))).
  destruct (flat_map _ steps) as [|r0 rows] eqn:E; [intros []|]. intros [<-|[]]. cbn [r_t r_a]. split; [reflexivity|].
  rewrite <- E. rewrite (sdot_rows_flat (fun t r => Nat.eqb (m_step r) t && match node with None => true | Some n => at_node n r end)). reflexivity.
Qed.
Lemma take_row_spec g rg mp ty tk r x : In r (take_row g rg mp None ty tk) ->
  r_t r = ty /\ sdot (r_a r) x == qsum (map (step_flow mp x) (take_steps rg tk)).
Proof. apply take_row_spec_n. Qed.

Lemma take_rows_iff_n g rg mp node ty tks x (vol : take -> Q) :
  (forall tk, qsum (map (step_flow_n node mp x) (take_steps rg tk)) == vol tk) ->
  (Forall (row_ok x) (take_rows g rg mp node ty tks) <->
   Forall (fun tk => Forall (fun r => cmp_ok ty (vol tk) (r_b r)) (take_row g rg mp node ty tk)) tks).
Proof.
  intros Hv. unfold take_rows. induction tks as [|tk tks IH]; cbn [flat_map]; [split; constructor|].
  rewrite Forall_app, IH. split.
  - intros [H1 H2]. constructor; [|exact H2]. apply Forall_forall. intros r Hr. rewrite Forall_forall in H1. specialize (H1 r Hr).
    destruct (take_row_spec_n g rg mp node ty tk r x Hr) as [Et Es]. unfold row_ok in H1. rewrite Et in H1. unfold cmp_ok. destruct ty; rewrite Es, Hv in H1; exact H1.
  - intros H. inversion H as [|? ? H1 H2]; subst. split; [|exact H2]. apply Forall_forall. intros r Hr. rewrite Forall_forall in H1. specialize (H1 r Hr).
    destruct (take_row_spec_n g rg mp node ty tk r x Hr) as [Et Es]. unfold row_ok. rewrite Et. unfold cmp_ok in H1. destruct ty; rewrite Es, Hv; exact H1.
Qed.

Lemma take_rows_iff g rg mp ty tks x (vol : take -> Q) :
  (forall tk, qsum (map (step_flow mp x) (take_steps rg tk)) == vol tk) ->
  (Forall (row_ok x) (take_rows g rg mp None ty tks) <->
   Forall (fun tk => Forall (fun r => cmp_ok ty (vol tk) (r_b r)) (take_row g rg mp None ty tk)) tks).
Proof.
  intros Hv. unfold take_rows. induction tks as [|tk tks IH]; cbn [flat_map]; [split; constructor|].
  rewrite Forall_app, IH. split.
  - intros [H1 H2]. constructor; [|exact H2]. apply Forall_forall. intros r Hr. rewrite Forall_forall in H1. specialize (H1 r Hr).
    destruct (take_row_spec g rg mp ty tk r x Hr) as [Et Es]. unfold row_ok in H1. rewrite Et in H1. unfold cmp_ok. destruct ty; rewrite Es, Hv in H1; exact H1.
  - intros H. inversion H as [|? ? H1 H2]; subst. split; [|exact H2]. apply Forall_forall. intros r Hr. rewrite Forall_forall in H1. specialize (H1 r Hr).
    destruct (take_row_spec g rg mp ty tk r x Hr) as [Et Es]. unfold row_ok. rewrite Et. unfold cmp_ok in H1. destruct ty; rewrite Es, Hv; exact H1.
Qed.

(* one block of one-variable-per-step rows: the entries at step t *)
Lemma step_flow_mk_rows_gen name node ty vn off x t : forall (I : list nat) (fac : vec) (s : nat),
  List.length fac = List.length I ->
  qsum (map (fun r => m_factor r * nth (m_var r) x 0)
     (filter (fun r => Nat.eqb (m_step r) t && true)
        (map (fun p => Build_mrow (off + fst (fst p)) name node ty (snd (fst p)) (snd p) vn false)
             (combine (combine (seq s (List.length I)) I) fac)))) ==
  qsum (map (fun k => if Nat.eqb (nth k I 0%nat) t then nth k fac 0 * nth (off + s + k) x 0 else 0) (seq 0 (List.length I))).
Proof.
  induction I as [|i I IH]; intros fac s Hl; destruct fac as [|f fac]; simpl in Hl; try discriminate; [reflexivity|].
  change (List.length (i :: I)) with (Datatypes.S (List.length I)). rewrite qsum_seq_front.
  cbn [seq combine map filter m_step fst snd]. cbn [nth].
  assert (R : qsum (map (fun k => if Nat.eqb (nth k I 0%nat) t then nth k fac 0 * nth (off + s + Datatypes.S k) x 0 else 0) (seq 0 (List.length I)))
           == qsum (map (fun k => if Nat.eqb (nth k I 0%nat) t then nth k fac 0 * nth (off + Datatypes.S s + k) x 0 else 0) (seq 0 (List.length I)))).
  { apply qsum_map_ext. intros k _. replace (off + Datatypes.S s + k)%nat with (off + s + Datatypes.S k)%nat by lia. reflexivity. }
  rewrite R. rewrite <- (IH fac (Datatypes.S s)) by lia. rewrite Nat.add_0_r.
  destruct (Nat.eqb i t); cbn [andb map qsum m_var m_factor]; [reflexivity|ring].
Qed.
Lemma step_flow_mk_rows name node ty vn off I x t :
  step_flow (mk_rows name node ty vn off (ones (List.length I)) I) x t == step_sum_off I off x t.
Proof.
  unfold step_flow, step_flow_n, mk_rows. rewrite (step_flow_mk_rows_gen name node ty vn off x t I (ones (List.length I)) 0) by apply repeat_length.
  unfold step_sum_off. apply qsum_map_ext. intros k Hk. apply in_seq in Hk. unfold ones. rewrite nth_repeat_q by lia.
  rewrite Nat.add_0_r. destruct (Nat.eqb _ t); ring.
Qed.
Lemma step_flow_app m1 m2 x t : step_flow (m1 ++ m2) x t == step_flow m1 x t + step_flow m2 x t.
Proof. unfold step_flow, step_flow_n. rewrite filter_app, map_app, qsum_app. reflexivity. Qed.

Lemma step_flow_n_mk_rows name nd ty vn off fac I n x t : List.length fac = List.length I ->
  step_flow_n (Some n) (mk_rows name (Some nd) ty vn off fac I) x t ==
  if String.eqb n nd then qsum (map (fun k => if Nat.eqb (nth k I 0%nat) t then nth k fac 0 * nth (off + k) x 0 else 0) (seq 0 (List.length I))) else 0.
Proof.
  intros Hl. unfold step_flow_n.
  assert (E : filter (fun r => Nat.eqb (m_step r) t && at_node n r) (mk_rows name (Some nd) ty vn off fac I) =
              filter (fun r => Nat.eqb (m_step r) t && String.eqb n nd) (mk_rows name (Some nd) ty vn off fac I)).
  { apply filter_ext_in. intros r Hr. unfold mk_rows in Hr. apply in_map_iff in Hr. destruct Hr as (q & <- & _). reflexivity. }
  rewrite E. destruct (String.eqb n nd).
  - unfold mk_rows. rewrite (step_flow_mk_rows_gen name (Some nd) ty vn off x t I fac 0 Hl).
    apply qsum_map_ext. intros k _. rewrite Nat.add_0_r. reflexivity.
  - assert (E2 : filter (fun r => Nat.eqb (m_step r) t && false) (mk_rows name (Some nd) ty vn off fac I) = []).
    { clear E. induction (mk_rows name (Some nd) ty vn off fac I) as [|r l IH]; [reflexivity|]. cbn [filter]. rewrite andb_false_r. exact IH. }
    rewrite E2. reflexivity.
Qed.
Lemma step_flow_n_app node m1 m2 x t : step_flow_n node (m1 ++ m2) x t == step_flow_n node m1 x t + step_flow_n node m2 x t.
Proof. unfold step_flow_n. rewrite filter_app, map_app, qsum_app. reflexivity. Qed.

Lemma take_volume_ext rg y y' tk : Forall2 Qeq y y' -> take_volume rg y tk == take_volume rg y' tk.
Proof.
  intros H. unfold take_volume. apply qsum_map_ext. intros t _. unfold step_sum_off. apply qsum_map_ext. intros k _.
  destruct (Nat.eqb _ t); [|reflexivity]. cbn [Nat.add]. revert k. induction H as [|a b l l' E _ IH]; intros [|k]; cbn [nth]; try reflexivity; auto.
Qed.

(* textbook contract: volume per step within [min, max] x step length; price on the flow plus a spread on |flow|, discounted *)
Definition tb_contract (rg : rgrid) (node : string) (pr ec minc maxc : vec) : tb :=
  {| tb_adm := fun y => List.length y = rg_T rg /\
                 forall t, (t < rg_T rg)%nat -> nth t minc 0 <= nth t y 0 /\ nth t y 0 <= nth t maxc 0;
     tb_cost := fun y => qsum (map (fun t => nth t (rg_disc rg) 0 * (nth t pr 0 * nth t y 0 + nth t ec 0 * Qabs (nth t y 0))) (seq 0 (rg_T rg)));
     tb_flow := fun y n t => if String.eqb n node then step_sum_off (rg_I rg) 0 y t else 0 |}.

Definition dec_split (T : nat) (x : vec) : vec := map (fun t => nth t x 0 + nth (T + t) x 0) (seq 0 T).

Section ContractInstance.
Variables (g : grid) (rg : rgrid) (p : contract_p) (a : aprob) (maxc minc ec : vec).
Hypothesis Hb : simple_contract g rg p = Some a.
Hypothesis Hfine : rg_minor rg = None.
Hypothesis Hmax : mkvec rg (cp_max p) None true = Some maxc.
Hypothesis Hmin : mkvec rg (cp_min p) None true = Some minc.
Hypothesis Hec : mkvec rg (cp_extra p) (Some 0) false = Some ec.
Hypothesis Lmax : List.length maxc = rg_T rg.
Hypothesis Lmin : List.length minc = rg_T rg.
Hypothesis Lec : List.length ec = rg_T rg.
Hypothesis Hdisc : List.length (rg_disc rg) = rg_T rg.
(* the spread and the discount factors are not negative (a negative spread would pay for trading back and forth) *)
Hypothesis Hec0 : forall t, (t < rg_T rg)%nat -> 0 <= nth t ec 0.
Hypothesis Hdisc0 : forall t, (t < rg_T rg)%nat -> 0 <= nth t (rg_disc rg) 0.

Let T := rg_T rg.
Let d := rg_disc rg.
Let pr : vec := pick 0 (match cp_price p with Some v => v | None => repeat 0 (g_T g) end) (rg_I rg).
Let single : bool := all_b eq0 ec || all_b le0 maxc || all_b ge0 minc.
Let S := tb_contract rg (cp_node p) pr ec minc maxc.
Let dec : vec -> vec := if single then (fun x => x) else dec_split T.

Lemma len_pr : List.length pr = T.
Proof. unfold pr, pick. rewrite map_length. reflexivity. Qed.

Lemma contract_order t : (t < T)%nat -> nth t minc 0 <= nth t maxc 0.
Proof.
  intros Ht. pose proof Hb as H. unfold simple_contract in H.
  match type of H with (if ?b then _ else _) = _ => destruct b end; [discriminate|].
  rewrite Hmax, Hmin, Hec in H. destruct (any_gt minc maxc) eqn:E; [discriminate|].
  apply (any_gt_false _ _ t E); [rewrite Lmin|rewrite Lmax]; exact Ht.
Qed.

Definition pr1 : vec :=
  if negb (all_b eq0 ec) then
    let p1 := if all_b le0 maxc then vsubq pr ec else pr in
    if all_b ge0 minc then vadd p1 ec else p1
  else pr.

Lemma contract_shape :
  if single then
    ap_lp a = {| lp_c := vmul pr1 d; lp_l := minc; lp_u := maxc; lp_rows := [] |} /\
    ap_map a = mk_rows (cp_name p) (Some (cp_node p)) "d" "disp" 0 (ones T) (rg_I rg)
  else
    ap_lp a = {| lp_c := vmul (vsubq pr ec) d ++ vmul (vadd pr ec) d;
                 lp_l := map qmin0 minc ++ map qmax0 minc; lp_u := map qmin0 maxc ++ map qmax0 maxc; lp_rows := [] |} /\
    ap_map a = mk_rows (cp_name p) (Some (cp_node p)) "d" "disp_in" 0 (ones T) (rg_I rg) ++
               mk_rows (cp_name p) (Some (cp_node p)) "d" "disp_out" T (ones T) (rg_I rg).
Proof.
  pose proof Hb as H. unfold simple_contract in H.
  match type of H with (if ?b then _ else _) = _ => destruct b end; [discriminate|].
  rewrite Hmax, Hmin, Hec in H. destruct (any_gt minc maxc); [discriminate|].
  unfold price_vec, extend_minor in H. rewrite Hfine in H. cbv zeta in H. fold T pr d in H.
  unfold single. destruct (all_b eq0 ec || all_b le0 maxc || all_b ge0 minc); inversion H; cbn [ap_lp ap_map]; split; reflexivity.
Qed.

Lemma len_pr1 : List.length pr1 = T.
Proof.
  unfold pr1. destruct (negb (all_b eq0 ec)); [|exact len_pr]. cbv zeta.
  destruct (all_b le0 maxc); destruct (all_b ge0 minc); rewrite ?vadd_length, ?vsubq_length, ?len_pr, ?Lec; fold T; lia.
Qed.

(* one variable per step: the price used is the price plus / minus the spread according to the fixed sign of the flow *)
Lemma pr1_cost y t : single = true -> (t < T)%nat -> nth t minc 0 <= nth t y 0 -> nth t y 0 <= nth t maxc 0 ->
  nth t pr1 0 * nth t y 0 == nth t pr 0 * nth t y 0 + nth t ec 0 * Qabs (nth t y 0).
Proof.
  intros Hs Ht B1 B2. unfold pr1. unfold single in Hs.
  destruct (all_b eq0 ec) eqn:E0; cbn [negb].
  - pose proof (eq0_spec _ (all_b_nth _ _ t E0 ltac:(rewrite Lec; exact Ht))) as M. rewrite M. ring.
  - cbn [orb] in Hs. cbv zeta.
    destruct (all_b le0 maxc) eqn:Ele; destruct (all_b ge0 minc) eqn:Ege; try discriminate.
    + pose proof (le0_spec _ (all_b_nth _ _ t Ele ltac:(rewrite Lmax; exact Ht))) as M1.
      pose proof (ge0_spec _ (all_b_nth _ _ t Ege ltac:(rewrite Lmin; exact Ht))) as M2.
      assert (Y : nth t y 0 == 0) by lra. rewrite Y. rewrite Qabs_pos by lra. ring.
    + pose proof (le0_spec _ (all_b_nth _ _ t Ele ltac:(rewrite Lmax; exact Ht))) as M1.
      rewrite nth_vsubq by (rewrite ?len_pr, ?Lec; exact Ht). rewrite Qabs_neg by lra. ring.
    + pose proof (ge0_spec _ (all_b_nth _ _ t Ege ltac:(rewrite Lmin; exact Ht))) as M2.
      rewrite nth_vadd by (rewrite ?len_pr, ?Lec; exact Ht). rewrite Qabs_pos by lra. ring.
Qed.

Lemma contract_block_flow vn off x nd t :
  dispatch_out (mk_rows (cp_name p) (Some (cp_node p)) "d" vn off (ones T) (rg_I rg)) x (cp_name p) nd t ==
  if String.eqb nd (cp_node p) then step_sum_off (rg_I rg) off x t else 0.
Proof.
  destruct (String.eqb nd (cp_node p)) eqn:E.
  - apply String.eqb_eq in E. subst nd. rewrite mk_rows_dispatch by (apply repeat_length).
    unfold step_sum_off. apply qsum_map_ext. intros k Hk. apply in_seq in Hk.
    unfold ones. rewrite nth_repeat_q by (unfold T, rg_T; lia). destruct (Nat.eqb _ t); ring.
  - apply mk_rows_other_node. exact E.
Qed.

Lemma dec_split_nth x t : (t < T)%nat -> nth t (dec_split T x) 0 = nth t x 0 + nth (T + t) x 0.
Proof. intros Ht. unfold dec_split. rewrite nth_map_seq by exact Ht. reflexivity. Qed.

Theorem contract_realises : realises (cp_name p) a dec S.
Proof.
  pose proof contract_shape as SH. unfold dec. destruct single eqn:Es.
  - (* ---------- one variable per step ---------- *)
    destruct SH as [EP EM].
    assert (Core : forall x, tb_adm S x ->
              dot (vmul pr1 d) x == tb_cost S x /\ forall n t, dispatch_out (ap_map a) x (cp_name p) n t == tb_flow S x n t).
    { intros x [Lx Bd]. split.
      - rewrite dot_nth by (rewrite vmul_length, len_pr1; unfold d; rewrite Hdisc, Lx; apply Nat.min_id). rewrite Lx.
        cbn [S tb_contract tb_cost]. apply qsum_map_ext. intros t Ht. apply in_seq in Ht.
        rewrite vmul_nth by (rewrite ?len_pr1; unfold d; rewrite ?Hdisc; fold T; lia).
        destruct (Bd t ltac:(lia)) as [B1 B2]. fold d.
        setoid_replace (nth t pr1 0 * nth t d 0 * nth t x 0) with (nth t d 0 * (nth t pr1 0 * nth t x 0)) by ring.
        rewrite (pr1_cost x t Es ltac:(lia) B1 B2). reflexivity.
      - intros n t. rewrite EM. rewrite contract_block_flow. reflexivity. }
    assert (Box : forall x, in_box minc maxc x <-> tb_adm S x).
    { intros x. rewrite in_box_iff, Lmin, Lmax. cbn [S tb_contract tb_adm]. split.
      - intros (A & _ & Bd). split; [lia|]. intros t Ht. apply Bd. lia.
      - intros (A & Bd). split; [lia|split; [lia|]]. intros j Hj. apply Bd. lia. }
    split.
    + intros x [Hbx _]. rewrite EP in Hbx. cbn [lp_l lp_u] in Hbx. apply Box in Hbx. destruct (Core x Hbx) as [C F].
      split; [exact Hbx|]. split; [rewrite EP; cbn [lp_c]; rewrite C; lra|exact F].
    + intros y Hy. exists y. destruct (Core y Hy) as [C F]. split; [|split; [rewrite EP; exact C|split; [exact F|apply F2_Qeq_refl]]].
      split; [rewrite EP; cbn [lp_l lp_u]; apply Box; exact Hy|rewrite EP; constructor].
  - (* ---------- in/out split ---------- *)
    destruct SH as [EP EM].
    assert (Lc0 : List.length (vmul (vsubq pr ec) d) = T) by (rewrite vmul_length, vsubq_length, len_pr, Lec; unfold d; rewrite Hdisc; fold T; lia).
    assert (Lc1 : List.length (vmul (vadd pr ec) d) = T) by (rewrite vmul_length, vadd_length, len_pr, Lec; unfold d; rewrite Hdisc; fold T; lia).
    assert (Box : forall x, in_box (map qmin0 minc ++ map qmax0 minc) (map qmin0 maxc ++ map qmax0 maxc) x <->
              (List.length x = (T + T)%nat /\ forall t, (t < T)%nat ->
                 (qmin0 (nth t minc 0) <= nth t x 0 /\ nth t x 0 <= qmin0 (nth t maxc 0)) /\
                 (qmax0 (nth t minc 0) <= nth (T + t) x 0 /\ nth (T + t) x 0 <= qmax0 (nth t maxc 0)))).
    { intros x. rewrite in_box_iff. rewrite !app_length, !map_length, Lmin, Lmax. fold T.
      assert (Q0 : qmin0 0 = 0) by reflexivity. assert (Q1 : qmax0 0 = 0) by reflexivity.
      split.
      - intros (A & _ & Bd). split; [lia|]. intros t Ht. split.
        + specialize (Bd t ltac:(lia)). rewrite !app_nth1 in Bd by (rewrite map_length, ?Lmin, ?Lmax; exact Ht).
          rewrite !(nth_map_q qmin0 Q0) in Bd. exact Bd.
        + specialize (Bd (T + t)%nat ltac:(lia)).
          rewrite (nth_app_r _ _ T t 0) in Bd by (rewrite map_length; exact Lmin).
          rewrite (nth_app_r _ _ T t 0) in Bd by (rewrite map_length; exact Lmax).
          rewrite !(nth_map_q qmax0 Q1) in Bd. exact Bd.
      - intros (A & Bd). split; [lia|split; [lia|]]. intros j Hj. destruct (Nat.lt_ge_cases j T) as [Hlt|Hge].
        + rewrite !app_nth1 by (rewrite map_length, ?Lmin, ?Lmax; exact Hlt). rewrite !(nth_map_q qmin0 Q0). apply (Bd j Hlt).
        + replace j with (T + (j - T))%nat by lia.
          rewrite (nth_app_r _ _ T (j - T) 0) by (rewrite map_length; exact Lmin).
          rewrite (nth_app_r _ _ T (j - T) 0) by (rewrite map_length; exact Lmax).
          rewrite !(nth_map_q qmax0 Q1). apply (Bd (j - T)%nat). lia. }
    assert (Cost : forall x, List.length x = (T + T)%nat ->
              dot (vmul (vsubq pr ec) d ++ vmul (vadd pr ec) d) x ==
              qsum (map (fun t => nth t d 0 * ((nth t pr 0 - nth t ec 0) * nth t x 0 + (nth t pr 0 + nth t ec 0) * nth (T + t) x 0)) (seq 0 T))).
    { intros x Lx. rewrite dot_nth by (rewrite app_length, Lc0, Lc1, Lx; reflexivity). rewrite Lx, qsum_seq_split, <- qsum_map_add.
      apply qsum_map_ext. intros t Ht. apply in_seq in Ht.
      rewrite app_nth1 by (rewrite Lc0; lia). rewrite (nth_app_r _ _ T t 0 Lc0).
      rewrite !vmul_nth by (rewrite ?vsubq_length, ?vadd_length, ?len_pr, ?Lec; unfold d; rewrite ?Hdisc; fold T; lia).
      rewrite nth_vsubq, nth_vadd by (rewrite ?len_pr, ?Lec; fold T; lia). ring. }
    assert (Flow : forall x n t, dispatch_out (ap_map a) x (cp_name p) n t ==
                     if String.eqb n (cp_node p) then step_sum_off (rg_I rg) 0 x t + step_sum_off (rg_I rg) T x t else 0).
    { intros x n t. rewrite EM, dispatch_out_app, !contract_block_flow. destruct (String.eqb n (cp_node p)); ring. }
    assert (FlowDec : forall x t, step_sum_off (rg_I rg) 0 x t + step_sum_off (rg_I rg) T x t == step_sum_off (rg_I rg) 0 (dec_split T x) t).
    { intros x t. unfold step_sum_off. rewrite <- qsum_map_add. apply qsum_map_ext. intros k Hk. apply in_seq in Hk.
      cbn [Nat.add]. rewrite dec_split_nth by (unfold T, rg_T; lia). destruct (Nat.eqb _ t); ring. }
    split.
    + intros x [Hbx _]. rewrite EP in Hbx. cbn [lp_l lp_u] in Hbx. apply Box in Hbx. destruct Hbx as [Lx Bd].
      assert (Adm : tb_adm S (dec_split T x)).
      { cbn [S tb_contract tb_adm]. fold T. split; [unfold dec_split; rewrite map_length, seq_length; reflexivity|].
        intros t Ht. rewrite dec_split_nth by exact Ht. destruct (Bd t Ht) as [[I1 I2] [O1 O2]].
        pose proof (qmin0_qmax0 (nth t minc 0)). pose proof (qmin0_qmax0 (nth t maxc 0)). split; lra. }
      split; [exact Adm|]. split.
      * rewrite EP. cbn [lp_c]. rewrite (Cost x Lx). cbn [S tb_contract tb_cost]. fold T d.
        apply qsum_map_le. intros t Ht. apply in_seq in Ht. assert (Ht' : (t < T)%nat) by lia.
        rewrite dec_split_nth by exact Ht'. destruct (Bd t Ht') as [[I1 I2] [O1 O2]].
        pose proof (qmin0_le (nth t maxc 0)) as [M1 _]. pose proof (qmax0_ge (nth t minc 0)) as [M2 _].
        destruct (split_cost (nth t pr 0) (nth t ec 0) (nth t x 0) (nth (T + t) x 0) ltac:(lra) ltac:(lra)) as (_ & Hle & _).
        specialize (Hle (Hec0 t Ht')). pose proof (Hdisc0 t Ht') as D0. fold d in D0.
        apply Qmult_le_l_compat' ; [exact D0|]. exact Hle.
      * intros n t. rewrite Flow. cbn [S tb_contract tb_flow]. destruct (String.eqb n (cp_node p)); [apply FlowDec|reflexivity].
    + intros y [Ly Bd]. fold T in Ly, Bd.
      set (x := map (fun t => qmin0 (nth t y 0)) (seq 0 T) ++ map (fun t => qmax0 (nth t y 0)) (seq 0 T)).
      assert (Lx : List.length x = (T + T)%nat) by (unfold x; rewrite app_length, !map_length, !seq_length; reflexivity).
      assert (X0 : forall t, (t < T)%nat -> nth t x 0 = qmin0 (nth t y 0)).
      { intros t Ht. unfold x. rewrite app_nth1 by (rewrite map_length, seq_length; exact Ht). apply nth_map_seq. exact Ht. }
      assert (X1 : forall t, (t < T)%nat -> nth (T + t) x 0 = qmax0 (nth t y 0)).
      { intros t Ht. unfold x. rewrite (nth_app_r _ _ T t 0) by (rewrite map_length, seq_length; reflexivity). apply nth_map_seq. exact Ht. }
      exists x. split; [|split].
      * split; [|rewrite EP; constructor]. rewrite EP. cbn [lp_l lp_u]. apply Box. split; [exact Lx|].
        intros t Ht. rewrite (X0 t Ht), (X1 t Ht). destruct (Bd t Ht) as [B1 B2].
        repeat split; first [apply qmin0_mono|apply qmax0_mono]; assumption.
      * rewrite EP. cbn [lp_c]. rewrite (Cost x Lx). cbn [S tb_contract tb_cost]. fold T d.
        apply qsum_map_ext. intros t Ht. apply in_seq in Ht. assert (Ht' : (t < T)%nat) by lia.
        rewrite (X0 t Ht'), (X1 t Ht').
        destruct (Qlt_le_dec (nth t y 0) 0) as [Hy|Hy].
        -- destruct (qmin0_spec (nth t y 0)) as [A _]. destruct (qmax0_spec (nth t y 0)) as [_ B].
           rewrite A, B by lra. rewrite Qabs_neg by lra. ring.
        -- destruct (qmin0_spec (nth t y 0)) as [_ A]. destruct (qmax0_spec (nth t y 0)) as [B _].
           rewrite A, B by lra. rewrite Qabs_pos by lra. ring.
      * assert (Dy : Forall2 Qeq (dec_split T x) y).
        { apply F2_nth; [unfold dec_split; rewrite map_length, seq_length; symmetry; exact Ly|].
          intros k Hk. unfold dec_split in Hk. rewrite map_length, seq_length in Hk.
          rewrite dec_split_nth by exact Hk. rewrite (X0 k Hk), (X1 k Hk). apply qmin0_qmax0. }
        split; [|exact Dy].
        intros n t. rewrite Flow. cbn [S tb_contract tb_flow]. destruct (String.eqb n (cp_node p)); [|reflexivity].
        rewrite FlowDec. unfold step_sum_off. apply qsum_map_ext. intros k Hk. apply in_seq in Hk. cbn [Nat.add].
        assert (Hk' : (k < T)%nat) by (unfold T, rg_T; lia).
        rewrite dec_split_nth by exact Hk'. rewrite (X0 k Hk'), (X1 k Hk'). destruct (Nat.eqb _ t); [apply qmin0_qmax0|reflexivity].
Qed.

Theorem contract_unit_ok :
  u_ok {| u_name := cp_name p; u_prob := a; u_dec := dec; u_tb := S |}.
Proof.
  unfold u_ok. cbn [u_name u_prob u_dec u_tb]. split; [|split; [|exact contract_realises]].
  - pose proof contract_shape as SH. destruct single; destruct SH as [EP _]; unfold wf_lp, nvars; rewrite EP; cbn [lp_c lp_l lp_u lp_rows].
    + rewrite vmul_length, len_pr1, Lmin, Lmax. unfold d. rewrite Hdisc. fold T. rewrite Nat.min_id. repeat split; constructor.
    + rewrite !app_length, !map_length, !vmul_length, vsubq_length, vadd_length, len_pr, Lec, Lmin, Lmax. unfold d. rewrite Hdisc. fold T.
      rewrite !Nat.min_id. repeat split; constructor.
  - pose proof contract_shape as SH. destruct single; destruct SH as [EP EM]; unfold nvars; rewrite EP, EM; cbn [lp_c].
    + rewrite vmul_length, len_pr1. unfold d. rewrite Hdisc. fold T. rewrite Nat.min_id.
      eapply Forall_impl; [|apply (mk_rows_wf _ _ _ _ 0)]. intros r [E L]. split; [exact E|]. unfold T, rg_T in *. lia.
    + rewrite app_length, !vmul_length, vsubq_length, vadd_length, len_pr, Lec. unfold d. rewrite Hdisc. fold T. rewrite !Nat.min_id.
      apply Forall_app. split.
      * eapply Forall_impl; [|apply (mk_rows_wf _ _ _ _ 0)]. intros r [E L]. split; [exact E|]. unfold T, rg_T in *. lia.
      * eapply Forall_impl; [|apply (mk_rows_wf _ _ _ _ T)]. intros r [E L]. split; [exact E|]. unfold T, rg_T in *. lia.
Qed.

(* ---------------- Contract = SimpleContract + max take (U) + min take (L) rows ---------------- *)
Lemma contract_step_flow x t : step_flow (ap_map a) x t == step_sum_off (rg_I rg) 0 (dec x) t.
Proof.
  pose proof contract_shape as SH. unfold dec. destruct single; destruct SH as [_ EM]; rewrite EM.
  - apply step_flow_mk_rows.
  - rewrite step_flow_app.
    transitivity (step_sum_off (rg_I rg) 0 x t + step_sum_off (rg_I rg) T x t);
      [apply Qplus_comp; [exact (step_flow_mk_rows _ _ _ _ 0 (rg_I rg) x t)|exact (step_flow_mk_rows _ _ _ _ T (rg_I rg) x t)]|].
    unfold step_sum_off. rewrite <- qsum_map_add. apply qsum_map_ext. intros k Hk. apply in_seq in Hk.
    cbn [Nat.add]. rewrite dec_split_nth by (unfold T, rg_T; lia). fold T. destruct (Nat.eqb _ t); ring.
Qed.

Definition tb_contract_takes (mx mn : list take) : tb :=
  {| tb_adm := fun y => tb_adm S y /\
                 (Forall (take_ok g rg (ap_map a) RU y) mx /\ Forall (take_ok g rg (ap_map a) RL y) mn);
     tb_cost := tb_cost S; tb_flow := tb_flow S |}.

Definition take_all_rows (mx mn : list take) : list crow :=
  take_rows g rg (ap_map a) None RU mx ++ take_rows g rg (ap_map a) None RL mn.

Theorem contract_takes_realises mx mn :
  realises (cp_name p) {| ap_lp := add_rows (ap_lp a) (take_all_rows mx mn); ap_map := ap_map a |} dec (tb_contract_takes mx mn).
Proof.
  apply (with_rows_realises (cp_name p) a dec S (take_all_rows mx mn)
           (fun y => Forall (take_ok g rg (ap_map a) RU y) mx /\ Forall (take_ok g rg (ap_map a) RL y) mn) contract_realises).
  - intros x _. unfold take_all_rows. rewrite Forall_app.
    assert (Hv : forall tk, qsum (map (step_flow (ap_map a) x) (take_steps rg tk)) == take_volume rg (dec x) tk).
    { intros tk. unfold take_volume. apply qsum_map_ext. intros t _. apply contract_step_flow. }
    rewrite (take_rows_iff g rg (ap_map a) RU mx x (take_volume rg (dec x)) Hv).
    rewrite (take_rows_iff g rg (ap_map a) RL mn x (take_volume rg (dec x)) Hv). reflexivity.
  - intros y y' Hy.
    assert (E1 : forall ty tk, take_ok g rg (ap_map a) ty y tk <-> take_ok g rg (ap_map a) ty y' tk).
    { intros ty tk. pose proof (take_volume_ext rg y y' tk Hy) as Ev. unfold take_ok.
      split; intros H; (eapply Forall_impl; [|exact H]); intros r Hr; cbn beta in *; unfold cmp_ok in *; destruct ty; lra. }
    assert (E : forall ty tks, Forall (take_ok g rg (ap_map a) ty y) tks <-> Forall (take_ok g rg (ap_map a) ty y') tks).
    { intros ty tks. split; intros H; apply Forall_forall; intros tk Htk; rewrite Forall_forall in H; apply E1; apply H; exact Htk. }
    rewrite (E RU mx), (E RL mn). reflexivity.
Qed.

Theorem contract_takes_unit_ok mx mn :
  u_ok {| u_name := cp_name p; u_prob := {| ap_lp := add_rows (ap_lp a) (take_all_rows mx mn); ap_map := ap_map a |};
          u_dec := dec; u_tb := tb_contract_takes mx mn |}.
Proof.
  destruct contract_unit_ok as (W & M & _). cbn [u_name u_prob u_dec u_tb] in *.
  unfold u_ok. cbn [u_name u_prob u_dec u_tb ap_lp ap_map]. split; [|split; [exact M|exact (contract_takes_realises mx mn)]].
  destruct W as (Wl & Wu & Wr). unfold wf_lp, nvars, add_rows. cbn [lp_c lp_l lp_u lp_rows]. split; [exact Wl|split; [exact Wu|]].
  apply Forall_app. split; [exact Wr|]. unfold take_all_rows. apply Forall_app.
  assert (TW : forall ty tks, Forall (fun r => srow_wf (List.length (lp_c (ap_lp a))) (r_a r)) (take_rows g rg (ap_map a) None ty tks)).
  { intros ty tks. unfold take_rows. apply Forall_forall. intros r Hr. apply in_flat_map in Hr. destruct Hr as (tk & _ & Hr).
    destruct tk as [[s e] v]. unfold take_row in Hr.
    destruct (flat_map _ _) as [|r0 rows] eqn:E; [destruct Hr|]. destruct Hr as [<-|[]]. cbn [r_a]. rewrite <- E.
    unfold srow_wf. apply Forall_map. apply Forall_forall. intros mr Hmr. cbn [fst].
    apply in_flat_map in Hmr. destruct Hmr as (t & _ & Hmr). apply filter_In in Hmr. destruct Hmr as [Hmr _].
    rewrite Forall_forall in M. destruct (M mr Hmr) as [_ Hv]. exact Hv. }
  split; apply TW.
Qed.

Lemma contract_map_d : Forall (fun r => is_d r = true /\ m_node r = Some (cp_node p)) (ap_map a).
Proof.
  pose proof contract_shape as SH. destruct single; destruct SH as [_ EM]; rewrite EM; [|apply Forall_app; split]; apply mk_rows_d.
Qed.
End ContractInstance.

(* ---------------- ExtendedTransport = Transport + take rows on the quantity leaving node 1 (assets.py:2340-2397) ---------------- *)
Definition take_ok_neg (g : grid) (rg : rgrid) (mp : list mrow) (node : string) (ty : rtype) (y : vec) (tk : take) : Prop :=
  Forall (fun r => cmp_ok ty (- take_volume rg y tk) (r_b r)) (take_row g rg mp (Some node) ty tk).

Section ExtTransportInstance.
Variables (g : grid) (rg : rgrid) (p : transport_p) (a : aprob).
Hypothesis Hb : transport g rg p = Some a.
Hypothesis Hfine : rg_minor rg = None.
Hypothesis Hdt : List.length (rg_dt rg) = rg_T rg.
Hypothesis Hdisc : List.length (rg_disc rg) = rg_T rg.
Hypothesis Hcost : List.length (transport_costs g rg p) = rg_T rg.
Hypothesis Hnodes : String.eqb (tp_n1 p) (tp_n2 p) = false.

Let S := tb_transport rg (tp_n1 p) (tp_n2 p) (transport_costs g rg p) (tp_min p) (tp_max p) (tp_eff p).

Lemma ext_node_flow x t : step_flow_n (Some (tp_n1 p)) (ap_map a) x t == - step_sum_off (rg_I rg) 0 x t.
Proof.
  destruct (transport_shape g rg p a Hb Hfine) as (_ & _ & EM). rewrite EM, step_flow_n_app.
  rewrite !step_flow_n_mk_rows by (rewrite repeat_length; reflexivity). rewrite String.eqb_refl, Hnodes, Qplus_0_r.
  unfold step_sum_off. transitivity ((-1) * qsum (map (fun k => if Nat.eqb (nth k (rg_I rg) 0%nat) t then nth (0 + k) x 0 else 0) (seq 0 (List.length (rg_I rg))))); [|ring].
  rewrite <- qsum_map_scale. apply qsum_map_ext. intros k Hk. apply in_seq in Hk.
  rewrite nth_repeat_q by (unfold rg_T; lia). destruct (Nat.eqb _ t); ring.
Qed.

Definition ext_rows (mx mn : list take) : list crow :=
  take_rows g rg (ap_map a) (Some (tp_n1 p)) RL mx ++ take_rows g rg (ap_map a) (Some (tp_n1 p)) RU mn.
Definition tb_ext_transport (mx mn : list take) : tb :=
  {| tb_adm := fun y => tb_adm S y /\
                 (Forall (take_ok_neg g rg (ap_map a) (tp_n1 p) RL y) mx /\ Forall (take_ok_neg g rg (ap_map a) (tp_n1 p) RU y) mn);
     tb_cost := tb_cost S; tb_flow := tb_flow S |}.

Theorem ext_transport_unit_ok mx mn :
  u_ok {| u_name := tp_name p; u_prob := {| ap_lp := add_rows (ap_lp a) (ext_rows mx mn); ap_map := ap_map a |};
          u_dec := fun x => x; u_tb := tb_ext_transport mx mn |}.
Proof.
  destruct (transport_unit_ok g rg p a Hb Hfine Hdt Hdisc Hcost Hnodes) as (W & M & R). cbn [u_name u_prob u_dec u_tb] in *.
  unfold u_ok. cbn [u_name u_prob u_dec u_tb ap_lp ap_map]. split; [|split; [exact M|]].
  - destruct W as (Wl & Wu & Wr). unfold wf_lp, nvars, add_rows. cbn [lp_c lp_l lp_u lp_rows]. split; [exact Wl|split; [exact Wu|]].
    apply Forall_app. split; [exact Wr|]. unfold ext_rows. apply Forall_app.
    assert (TW : forall ty tks, Forall (fun r => srow_wf (List.length (lp_c (ap_lp a))) (r_a r)) (take_rows g rg (ap_map a) (Some (tp_n1 p)) ty tks)).
    { intros ty tks. unfold take_rows. apply Forall_forall. intros r Hr. apply in_flat_map in Hr. destruct Hr as (tk & _ & Hr).
      destruct tk as [[s e] v]. unfold take_row in Hr.
      destruct (flat_map _ _) as [|r0 rows] eqn:E; [destruct Hr|]. destruct Hr as [<-|[]]. cbn [r_a]. rewrite <- E.
      unfold srow_wf. apply Forall_map. apply Forall_forall. intros mr Hmr. cbn [fst].
      apply in_flat_map in Hmr. destruct Hmr as (t & _ & Hmr). apply filter_In in Hmr. destruct Hmr as [Hmr _].
      rewrite Forall_forall in M. destruct (M mr Hmr) as [_ Hv]. exact Hv. }
    split; apply TW.
  - apply (with_rows_realises (tp_name p) a (fun x => x) S (ext_rows mx mn)
             (fun y => Forall (take_ok_neg g rg (ap_map a) (tp_n1 p) RL y) mx /\ Forall (take_ok_neg g rg (ap_map a) (tp_n1 p) RU y) mn) R).
    + intros x _. unfold ext_rows. rewrite Forall_app.
      assert (Hv : forall tk, qsum (map (step_flow_n (Some (tp_n1 p)) (ap_map a) x) (take_steps rg tk)) == - take_volume rg x tk).
      { intros tk. unfold take_volume. transitivity ((-1) * qsum (map (step_sum_off (rg_I rg) 0 x) (take_steps rg tk))); [|ring].
        rewrite <- qsum_map_scale. apply qsum_map_ext. intros t _. rewrite ext_node_flow. ring. }
      rewrite (take_rows_iff_n g rg (ap_map a) (Some (tp_n1 p)) RL mx x (fun tk => - take_volume rg x tk) Hv).
      rewrite (take_rows_iff_n g rg (ap_map a) (Some (tp_n1 p)) RU mn x (fun tk => - take_volume rg x tk) Hv). reflexivity.
    + intros y y' Hy.
      assert (E1 : forall ty tk, take_ok_neg g rg (ap_map a) (tp_n1 p) ty y tk <-> take_ok_neg g rg (ap_map a) (tp_n1 p) ty y' tk).
      { intros ty tk. pose proof (take_volume_ext rg y y' tk Hy) as Ev. unfold take_ok_neg.
        split; intros H; (eapply Forall_impl; [|exact H]); intros r Hr; cbn beta in *; unfold cmp_ok in *; destruct ty; lra. }
      assert (E : forall ty tks, Forall (take_ok_neg g rg (ap_map a) (tp_n1 p) ty y) tks <-> Forall (take_ok_neg g rg (ap_map a) (tp_n1 p) ty y') tks).
      { intros ty tks. split; intros H; apply Forall_forall; intros tk Htk; rewrite Forall_forall in H; apply E1; apply H; exact Htk. }
      rewrite (E RL mx), (E RU mn). reflexivity.
Qed.
End ExtTransportInstance.

(* ---------- corollaries used under C07: the stand-alone problems of the builders are well formed ---------- *)
Lemma transport_builder_wf g rg p a : transport g rg p = Some a -> rg_minor rg = None ->
  List.length (rg_dt rg) = rg_T rg -> List.length (rg_disc rg) = rg_T rg ->
  List.length (transport_costs g rg p) = rg_T rg -> String.eqb (tp_n1 p) (tp_n2 p) = false ->
  wf_lp (ap_lp a) /\ Forall (fun r => m_asset r = tp_name p /\ (m_var r < nvars (ap_lp a))%nat) (ap_map a).
Proof. intros H1 H2 H3 H4 H5 H6. destruct (transport_unit_ok g rg p a H1 H2 H3 H4 H5 H6) as (W & M & _). exact (conj W M). Qed.
Lemma storage_builder_wf g rg p a : storage g rg p = Some a -> rg_minor rg = None -> sp_no_simult p = false -> sp_max_dur p = None ->
  rg_T rg <> 0%nat -> List.length (rg_dt rg) = rg_T rg -> List.length (rg_disc rg) = rg_T rg ->
  match sp_price p with Some v => List.length v = g_T g | None => True end ->
  wf_lp (ap_lp a) /\ Forall (fun r => m_asset r = sp_name p /\ (m_var r < nvars (ap_lp a))%nat) (ap_map a).
Proof. intros H1 H2 H3 H4 H5 H6 H7 H8. destruct (storage_unit_ok g rg p a H1 H2 H3 H4 H5 H6 H7 H8) as (W & M & _). exact (conj W M). Qed.
Lemma contract_builder_wf g rg p a maxc minc ec : simple_contract g rg p = Some a -> rg_minor rg = None ->
  mkvec rg (cp_max p) None true = Some maxc -> mkvec rg (cp_min p) None true = Some minc ->
  mkvec rg (cp_extra p) (Some 0) false = Some ec ->
  List.length maxc = rg_T rg -> List.length minc = rg_T rg -> List.length ec = rg_T rg -> List.length (rg_disc rg) = rg_T rg ->
  (forall t, (t < rg_T rg)%nat -> 0 <= nth t ec 0) -> (forall t, (t < rg_T rg)%nat -> 0 <= nth t (rg_disc rg) 0) ->
  wf_lp (ap_lp a) /\ Forall (fun r => m_asset r = cp_name p /\ (m_var r < nvars (ap_lp a))%nat) (ap_map a).
Proof.
  intros H1 H2 H3 H4 H5 H6 H7 H8 H9 H10 H11.
  destruct (contract_unit_ok g rg p a maxc minc ec H1 H2 H3 H4 H5 H6 H7 H8 H9 H10 H11) as (W & M & _). exact (conj W M).
Qed.

(* ====================================================================================== *)
(* Assets on a coarser frequency of their own: one variable per coarse step, delivered into the minor steps of the coarse step in
   proportion to their length (assets.py:127-153).  Generic: whatever the asset realises on its coarse grid, the problem with the
   mapping extended to the minor grid realises the same object with the flows spread over the minor steps. *)
Lemma index_of_spec (x : nat) : forall (l : list nat) i, index_of x l = Some i -> (i < List.length l)%nat /\ nth i l 0%nat = x.
Proof.
  induction l as [|a l IH]; intros i H; [discriminate|]. cbn [index_of] in H. destruct (Nat.eqb_spec a x) as [E|E].
  - inversion H; subst. cbn. split; [lia|reflexivity].
  - destruct (index_of x l) as [j|] eqn:Ej; [|discriminate]. inversion H; subst. destruct (IH j eq_refl) as [A B]. cbn. split; [lia|exact B].
Qed.
Lemma NoDup_nth_eq (l : list nat) i j : NoDup l -> (i < List.length l)%nat -> (j < List.length l)%nat -> nth i l 0%nat = nth j l 0%nat -> i = j.
Proof. intros H Hi Hj E. apply (proj1 (NoDup_nth l 0%nat) H i j Hi Hj E). Qed.

Lemma qsum_one (F : nat -> Q) n j0 : (j0 < n)%nat -> (forall j, (j < n)%nat -> j <> j0 -> F j == 0) ->
  qsum (map F (seq 0 n)) == F j0.
Proof.
  intros Hj H. assert (G : forall m s, (s <= j0 < s + m)%nat -> (forall j, (s <= j < s + m)%nat -> j <> j0 -> F j == 0) ->
                       qsum (map F (seq s m)) == F j0).
  { induction m as [|m IH]; intros s Hs Hz; [lia|]. cbn [seq map qsum].
    destruct (Nat.eq_dec s j0) as [->|Hne].
    - assert (Z : qsum (map F (seq (Datatypes.S j0) m)) == 0).
      { apply qsum_zero. intros j Hin. apply in_seq in Hin. apply Hz; lia. }
      rewrite Z. ring.
    - rewrite (Hz s) by lia. rewrite (IH (Datatypes.S s)); [ring|lia|]. intros j Hj2 Hn. apply Hz; lia. }
  apply (G n 0%nat); [lia|]. intros j Hj2 Hn. apply H; lia.
Qed.

(* weight of minor step t within coarse step k *)
Definition minor_w (gdt : vec) (rg : rgrid) (groups : list (list nat)) (k t : nat) : Q :=
  qsum (map (fun t' => if Nat.eqb t' t then nth t' gdt 0 / nth k (rg_dt rg) 0 else 0) (nth k groups [])).

Definition tb_coarse (S : tb) (gdt : vec) (rg : rgrid) (groups : list (list nat)) : tb :=
  {| tb_adm := tb_adm S; tb_cost := tb_cost S;
     tb_flow := fun y n t => qsum (map (fun k => minor_w gdt rg groups k t * tb_flow S y n (nth k (rg_I rg) 0%nat)) (seq 0 (rg_T rg))) |}.

Definition row_val (r : mrow) (x : vec) (a n : string) : Q :=
  if String.eqb (m_asset r) a && is_d r && at_node n r then nth (m_var r) x 0 * m_factor r else 0.

Lemma dispatch_out_cons r mp x a n t :
  dispatch_out (r :: mp) x a n t == (if Nat.eqb (m_step r) t then row_val r x a n else 0) + dispatch_out mp x a n t.
Proof.
  unfold dispatch_out, row_val, sel. cbn [filter].
  destruct (String.eqb (m_asset r) a); destruct (is_d r); destruct (at_node n r); destruct (Nat.eqb (m_step r) t); cbn [andb map qsum]; ring.
Qed.

Lemma minor_block_dispatch gdt rg groups im r x a n t :
  dispatch_out (map (fun t' => Build_mrow (m_var r) (m_asset r) (m_node r) (m_type r) t'
                        (Qred (nth t' gdt 0 / nth im (rg_dt rg) 0 * m_factor r)) (m_name r) (m_bool r)) (nth im groups [])) x a n t
  == row_val r x a n * minor_w gdt rg groups im t.
Proof.
  unfold minor_w. induction (nth im groups []) as [|t' grp IH]; [cbn; ring|].
  cbn [map]. rewrite dispatch_out_cons, IH. cbn [map qsum]. unfold row_val at 1. unfold is_d, at_node. cbn [m_asset m_type m_node m_step m_var m_factor].
  fold (is_d r). fold (at_node n r). unfold row_val.
  destruct (String.eqb (m_asset r) a && is_d r && at_node n r); destruct (Nat.eqb t' t); rewrite ?Qred_correct; ring.
Qed.

Lemma extend_minor_cons gdt rg groups r mp : rg_minor rg = Some groups ->
  extend_minor gdt rg (r :: mp) =
  match extend_minor gdt rg mp, index_of (m_step r) (rg_I rg) with
  | Some rest, Some im => Some (map (fun t => Build_mrow (m_var r) (m_asset r) (m_node r) (m_type r) t
                                  (Qred (nth t gdt 0 / nth im (rg_dt rg) 0 * m_factor r)) (m_name r) (m_bool r)) (nth im groups []) ++ rest)
  | _, _ => None end.
Proof. intros Hm. unfold extend_minor. rewrite Hm. reflexivity. Qed.

Lemma coarse_dispatch gdt rg groups : rg_minor rg = Some groups -> NoDup (rg_I rg) ->
  forall mp mp' x a n t, extend_minor gdt rg mp = Some mp' ->
  dispatch_out mp' x a n t == qsum (map (fun k => minor_w gdt rg groups k t * dispatch_out mp x a n (nth k (rg_I rg) 0%nat)) (seq 0 (rg_T rg))).
Proof.
  intros Hm Hnd. induction mp as [|r mp IH]; intros mp' x a n t H.
  - unfold extend_minor in H. rewrite Hm in H. cbn in H. inversion H. cbn. symmetry. apply qsum_zero. intros k _. cbn. ring.
  - rewrite (extend_minor_cons gdt rg groups r mp Hm) in H. destruct (extend_minor gdt rg mp) as [rest|] eqn:Er; [|discriminate].
    destruct (index_of (m_step r) (rg_I rg)) as [im|] eqn:Ei; [|discriminate]. inversion H; subst mp'. clear H.
    rewrite dispatch_out_app. rewrite (minor_block_dispatch gdt rg groups im r x a n t). rewrite (IH rest x a n t eq_refl).
    destruct (index_of_spec _ _ _ Ei) as [Lim Eim].
    (* the row counts at the coarse step it is labelled with *)
    assert (R : qsum (map (fun k => minor_w gdt rg groups k t * dispatch_out (r :: mp) x a n (nth k (rg_I rg) 0%nat)) (seq 0 (rg_T rg))) ==
                row_val r x a n * minor_w gdt rg groups im t +
                qsum (map (fun k => minor_w gdt rg groups k t * dispatch_out mp x a n (nth k (rg_I rg) 0%nat)) (seq 0 (rg_T rg)))).
    { transitivity (qsum (map (fun k => minor_w gdt rg groups k t * (if Nat.eqb (m_step r) (nth k (rg_I rg) 0%nat) then row_val r x a n else 0)) (seq 0 (rg_T rg))) +
                    qsum (map (fun k => minor_w gdt rg groups k t * dispatch_out mp x a n (nth k (rg_I rg) 0%nat)) (seq 0 (rg_T rg)))).
      - rewrite <- qsum_map_add. apply qsum_map_ext. intros k _. rewrite dispatch_out_cons. ring.
      - apply Qplus_inj_r. rewrite (qsum_one _ _ im Lim).
        + rewrite Eim, Nat.eqb_refl. ring.
        + intros k Hk Hne. destruct (Nat.eqb_spec (m_step r) (nth k (rg_I rg) 0%nat)) as [E2|_]; [|ring].
          exfalso. apply Hne. apply (NoDup_nth_eq (rg_I rg) k im Hnd Hk Lim). rewrite Eim. symmetry. exact E2. }
    rewrite R. reflexivity.
Qed.

Theorem coarse_realises nm a dec S gdt rg groups mp' :
  realises nm a dec S -> rg_minor rg = Some groups -> NoDup (rg_I rg) -> extend_minor gdt rg (ap_map a) = Some mp' ->
  realises nm {| ap_lp := ap_lp a; ap_map := mp' |} dec (tb_coarse S gdt rg groups).
Proof.
  intros [R1 R2] Hm Hnd He. split; cbn [ap_lp ap_map tb_coarse tb_adm tb_cost tb_flow].
  - intros x Hf. destruct (R1 x Hf) as (A & C & F). split; [exact A|split; [exact C|]].
    intros n t. rewrite (coarse_dispatch gdt rg groups Hm Hnd _ _ x nm n t He). apply qsum_map_ext. intros k _. rewrite F. reflexivity.
  - intros y Ay. destruct (R2 y Ay) as (x & Hf & C & F & D). exists x. split; [exact Hf|split; [exact C|split; [|exact D]]].
    intros n t. rewrite (coarse_dispatch gdt rg groups Hm Hnd _ _ x nm n t He). apply qsum_map_ext. intros k _. rewrite F. reflexivity.
Qed.
