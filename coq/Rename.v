(* Rename.v — C09: results do not depend on asset / node names or on the order of assets. *)
From Coq Require Import QArith ZArith List Lia Lqa Bool String Arith.
From EAO Require Import Num LP Mapping Dcf Grid Assets Portfolio.
Import ListNotations.
Open Scope Q_scope.

(* fa: asset names, fn: node names, fv: variable names (structured assets derive them from inner asset names) *)
Definition rename_row (fa fn fv : string -> string) (r : mrow) : mrow :=
  Build_mrow (m_var r) (fa (m_asset r)) (option_map fn (m_node r)) (m_type r) (m_step r) (m_factor r) (fv (m_name r)) (m_bool r).
Definition rename_map (fa fn fv : string -> string) (mp : list mrow) : list mrow := map (rename_row fa fn fv) mp.
Definition rename_ap (fa fn fv : string -> string) (a : aprob) : aprob := {| ap_lp := ap_lp a; ap_map := rename_map fa fn fv (ap_map a) |}.

Definition injective (f : string -> string) : Prop := forall a b, f a = f b -> a = b.
Lemma inj_eqb f : injective f -> forall a b, String.eqb (f a) (f b) = String.eqb a b.
Proof.
  intros H a b. destruct (String.eqb_spec a b) as [->|Hne]; [apply String.eqb_refl|].
  destruct (String.eqb_spec (f a) (f b)) as [E|_]; [apply H in E; contradiction|reflexivity].
Qed.

Lemma sel_rename fa fn fv n t r : injective fn -> sel (fn n) t (rename_row fa fn fv r) = sel n t r.
Proof.
  intros H. unfold sel, is_d, at_node, rename_row; cbn [m_type m_node m_step]. destruct (m_node r) as [n'|]; cbn [option_map]; [|reflexivity].
  rewrite (inj_eqb fn H). reflexivity.
Qed.

Lemma filter_map_rename (P Q : mrow -> bool) f mp : (forall r, P (f r) = Q r) -> filter P (map f mp) = map f (filter Q mp).
Proof. intros H. induction mp as [|r mp IH]; cbn [map filter]; [reflexivity|]. rewrite H. destruct (Q r); cbn [map]; rewrite IH; reflexivity. Qed.

Lemma nodal_row_rename fa fn fv mp n t : injective fn -> nodal_row (rename_map fa fn fv mp) (fn n) t = nodal_row mp n t.
Proof.
  intros H. unfold nodal_row, rename_map. rewrite (filter_map_rename _ (sel n t)) by (intro r; apply sel_rename; exact H).
  rewrite map_map. reflexivity.
Qed.

Lemma existsb_rename fn n skip : injective fn -> existsb (String.eqb (fn n)) (map fn skip) = existsb (String.eqb n) skip.
Proof. intros H. induction skip as [|s skip IH]; cbn [map existsb]; [reflexivity|]. rewrite (inj_eqb fn H), IH. reflexivity. Qed.

(* the nodal rows of a renamed portfolio are literally the same rows *)
Lemma map_flat_map' {A B C} (g : B -> C) (f : A -> list B) l : map g (flat_map f l) = flat_map (fun x => map g (f x)) l.
Proof. induction l as [|a l IH]; cbn [flat_map map]; [reflexivity|]. rewrite map_app, IH. reflexivity. Qed.
Lemma flat_map_map' {A B C} (h : B -> list C) (f : A -> B) l : flat_map h (map f l) = flat_map (fun x => h (f x)) l.
Proof. induction l as [|a l IH]; cbn [flat_map map]; [reflexivity|]. rewrite IH. reflexivity. Qed.
Lemma flat_map_ext' {A B} (f g : A -> list B) l : (forall a, f a = g a) -> flat_map f l = flat_map g l.
Proof. intros H. induction l as [|a l IH]; cbn [flat_map]; [reflexivity|]. rewrite H, IH. reflexivity. Qed.

Theorem nodal_crows_rename fa fn fv nodes skip steps mp : injective fn ->
  nodal_crows (map fn nodes) (map fn skip) steps (rename_map fa fn fv mp) = nodal_crows nodes skip steps mp.
Proof.
  intros H. unfold nodal_crows, nodal_rows. rewrite !map_flat_map', flat_map_map'.
  apply flat_map_ext'. intro n. rewrite (existsb_rename fn n skip H). destruct (existsb (String.eqb n) skip); [reflexivity|].
  rewrite !map_flat_map'. apply flat_map_ext'. intro t.
  rewrite (nodal_row_rename fa fn fv mp n t H). destruct (nodal_row mp n t); reflexivity.
Qed.

Lemma shift_rename fa fn fv off r : shift_mrow off (rename_row fa fn fv r) = rename_row fa fn fv (shift_mrow off r).
Proof. reflexivity. Qed.
Lemma assemble_rename fa fn fv aps :
  ap_lp (assemble (map (rename_ap fa fn fv) aps)) = ap_lp (assemble aps) /\
  ap_map (assemble (map (rename_ap fa fn fv) aps)) = rename_map fa fn fv (ap_map (assemble aps)).
Proof.
  induction aps as [|a aps [IH1 IH2]]; cbn [map assemble ap_lp ap_map]; [split; reflexivity|].
  rewrite IH1, IH2. split; [reflexivity|]. unfold rename_map. rewrite map_app, !map_map. f_equal.
Qed.

(* C09: renaming assets and nodes (injectively for nodes) leaves the assembled LP -- costs, bounds, asset rows and nodal
   rows -- literally unchanged; only the labels of the mapping change *)
Theorem rename_lp_invariant fa fn fv nodes skip steps aps : injective fn ->
  ap_lp (portfolio (map fn nodes) (map fn skip) steps (map (rename_ap fa fn fv) aps)) = ap_lp (portfolio nodes skip steps aps) /\
  ap_map (portfolio (map fn nodes) (map fn skip) steps (map (rename_ap fa fn fv) aps)) = rename_map fa fn fv (ap_map (portfolio nodes skip steps aps)).
Proof.
  intros H. unfold portfolio; cbn [ap_lp ap_map]. destruct (assemble_rename fa fn fv aps) as [E1 E2].
  rewrite E1, E2, nodal_crows_rename by exact H. split; reflexivity.
Qed.

(* ... and every reported number is the old one under the new label *)
Theorem dispatch_rename fa fn fv mp x a n t : injective fa -> injective fn ->
  dispatch_out (rename_map fa fn fv mp) x (fa a) (fn n) t == dispatch_out mp x a n t.
Proof.
  intros Ha Hn. unfold dispatch_out, rename_map.
  rewrite (filter_map_rename _ (fun r => String.eqb (m_asset r) a && sel n t r)).
  - rewrite map_map. reflexivity.
  - intro r. rewrite sel_rename by exact Hn. cbn [rename_row m_asset]. rewrite (inj_eqb fa Ha). reflexivity.
Qed.

Lemma firsts_rename fa fn fv : forall mp seen, firsts seen (rename_map fa fn fv mp) = rename_map fa fn fv (firsts seen mp).
Proof.
  induction mp as [|r mp IH]; intros seen; cbn [rename_map map firsts]; [reflexivity|]. cbn [rename_row m_var].
  destruct (existsb (Nat.eqb (m_var r)) seen); [apply IH|]. cbn [map]. f_equal. apply IH.
Qed.
Theorem dcf_rename fa fn fv c x mp a t : injective fa ->
  dcf_asset c x (rename_map fa fn fv mp) (fa a) t == dcf_asset c x mp a t.
Proof.
  intros Ha. unfold dcf_asset.
  assert (E : filter (of_asset (fa a)) (rename_map fa fn fv mp) = rename_map fa fn fv (filter (of_asset a) mp)).
  { unfold rename_map. apply filter_map_rename. intro r. unfold of_asset; cbn [rename_row m_asset]. apply (inj_eqb fa Ha). }
  rewrite E, firsts_rename. unfold rename_map. rewrite (filter_map_rename _ (fun r => Nat.eqb (m_step r) t)) by reflexivity.
  rewrite map_map. reflexivity.
Qed.

(* order of assets: swapping two blocks of a direct sum permutes the variables and keeps feasibility and value *)
Theorem lp_sum_swap P1 P2 x1 x2 : wf_lp P1 -> wf_lp P2 -> List.length x1 = nvars P1 -> List.length x2 = nvars P2 ->
  (feasible (lp_sum P1 P2) (x1 ++ x2) <-> feasible (lp_sum P2 P1) (x2 ++ x1)) /\
  value (lp_sum P1 P2) (x1 ++ x2) == value (lp_sum P2 P1) (x2 ++ x1).
Proof.
  intros W1 W2 L1 L2. split.
  - rewrite (lp_sum_feasible P1 P2 x1 x2 W1 W2 L1), (lp_sum_feasible P2 P1 x2 x1 W2 W1 L2). tauto.
  - rewrite !lp_sum_value by assumption. ring.
Qed.
Theorem lp_sum_swap_optimal P1 P2 x1 x2 : wf_lp P1 -> wf_lp P2 -> List.length x1 = nvars P1 -> List.length x2 = nvars P2 ->
  optimal (lp_sum P1 P2) (x1 ++ x2) -> optimal (lp_sum P2 P1) (x2 ++ x1).
Proof.
  intros W1 W2 L1 L2 O. apply lp_sum_optimal_inv in O; try assumption. destruct O as [O1 O2]. apply lp_sum_optimal; assumption.
Qed.
