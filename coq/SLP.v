(* SLP.v — C17: the two-stage stochastic problem (stoch_lin_prog.py:58-118) and the robust target
   (optimization.py:302-311). *)
From Coq Require Import QArith ZArith List Lia Lqa Bool Arith.
From EAO Require Import Num LP.
Import ListNotations.
Open Scope Q_scope.

(* ================= the extended problem, as built by make_slp ================= *)
(* fut j = variable j belongs to the future; future variables are duplicated once per sample *)
Definition rank (fut : list bool) (j : nat) : nat := List.length (filter (fun b : bool => b) (firstn j fut)).
Definition nfut (fut : list bool) : nat := List.length (filter (fun b : bool => b) fut).
Definition sel_fut {A} (fut : list bool) (l : list A) : list A := map snd (filter (fun p => fst p) (combine fut l)).
(* column of variable j in scenario i (scenario 0 = the original future) *)
Definition scol (n : nat) (fut : list bool) (i j : nat) : nat :=
  if nth j fut false then (match i with O => j | S i' => n + i' * nfut fut + rank fut j end) else j.
Definition srow_i (n : nat) (fut : list bool) (i : nat) (r : srow) : srow := map (fun e => (scol n fut i (fst e), snd e)) r.
Definition crow_i (n : nat) (fut : list bool) (i : nat) (r : crow) : crow := {| r_a := srow_i n fut i (r_a r); r_t := r_t r; r_b := r_b r |}.

Definition slp_lp (P : lp) (fut : list bool) (cs : list vec) : lp :=
  let n := nvars P in
  let S1 := inject_Z (Z.of_nat (S (List.length cs))) in          (* nS + 1 *)
  (* future variables: the original sample's share; present variables: the mean over all samples (the same in all of them unless the
     variable reaches into the future, e.g. a block order or a coarser asset frequency) *)
  let c0 := map (fun jp => let j := fst jp in let f := fst (snd jp) in let v := snd (snd jp) in
                           if (f : bool) then Qred (v / S1) else Qred ((v + qsum (map (fun c => nth j c 0) cs)) / S1))
                (combine (seq 0 n) (combine fut (lp_c P))) in
  {| lp_c := c0 ++ flat_map (fun c => map (fun v => Qred (v / S1)) (sel_fut fut c)) cs;
     lp_l := lp_l P ++ flat_map (fun _ => sel_fut fut (lp_l P)) cs;
     lp_u := lp_u P ++ flat_map (fun _ => sel_fut fut (lp_u P)) cs;
     lp_rows := flat_map (fun i => map (crow_i n fut i) (lp_rows P)) (seq 0 (S (List.length cs))) |}.

(* the point of the original problem that scenario i of an extended point stands for *)
Definition slp_point (n : nat) (fut : list bool) (X : vec) (i : nat) : vec := map (fun j => nth (scol n fut i j) X 0) (seq 0 n).

Lemma nth_map_seq_q (f : nat -> Q) n v : (v < n)%nat -> nth v (map f (seq 0 n)) 0 = f v.
Proof.
  intros H. rewrite (nth_indep _ 0 (f 0%nat)) by (rewrite map_length, seq_length; exact H).
  rewrite map_nth, seq_nth by exact H. reflexivity.
Qed.
Lemma slp_point_nth n fut X i j : (j < n)%nat -> nth j (slp_point n fut X i) 0 = nth (scol n fut i j) X 0.
Proof. intros H. unfold slp_point. apply (nth_map_seq_q (fun j => nth (scol n fut i j) X 0)). exact H. Qed.

(* every row of scenario i evaluates on the extended point exactly as the original row on the scenario's point:
   the present columns are shared by all scenarios, the future columns are the scenario's own *)
Theorem slp_row_sdot n fut i (r : srow) X : srow_wf n r -> sdot (srow_i n fut i r) X == sdot r (slp_point n fut X i).
Proof.
  intros H. unfold sdot, srow_i. rewrite map_map. apply qsum_map_ext. intros [j a] Hin. cbn [fst snd].
  unfold srow_wf in H. rewrite Forall_forall in H. specialize (H _ Hin). cbn [fst] in H.
  rewrite slp_point_nth by exact H. reflexivity.
Qed.
Theorem slp_rows_ok (P : lp) fut cs X : wf_lp P ->
  (Forall (row_ok X) (lp_rows (slp_lp P fut cs)) <->
   forall i, (i <= List.length cs)%nat -> Forall (row_ok (slp_point (nvars P) fut X i)) (lp_rows P)).
Proof.
  intros (_ & _ & Hr). unfold slp_lp; cbn [lp_rows]. rewrite Forall_forall. split.
  - intros H i Hi. apply Forall_forall. intros r Hin.
    assert (Hin' : In (crow_i (nvars P) fut i r) (flat_map (fun i => map (crow_i (nvars P) fut i) (lp_rows P)) (seq 0 (S (List.length cs))))).
    { apply in_flat_map. exists i. split; [apply in_seq; lia|apply in_map; exact Hin]. }
    specialize (H _ Hin'). rewrite Forall_forall in Hr. specialize (Hr r Hin).
    unfold row_ok, crow_i in *; cbn [r_a r_t r_b] in *. destruct (r_t r); rewrite slp_row_sdot in H by exact Hr; exact H.
  - intros H r' Hin. apply in_flat_map in Hin. destruct Hin as (i & Hi & Hin). apply in_seq in Hi.
    apply in_map_iff in Hin. destruct Hin as (r & <- & Hin). specialize (H i ltac:(lia)). rewrite Forall_forall in H, Hr.
    specialize (H r Hin). specialize (Hr r Hin).
    unfold row_ok, crow_i in *; cbn [r_a r_t r_b] in *. destruct (r_t r); rewrite slp_row_sdot by exact Hr; exact H.
Qed.

(* ================= two-stage structure: bounds on the optimum ================= *)
Section TwoStage.
Variable F : vec -> vec -> Prop.          (* feasibility of (present, future): the same constraints in every scenario *)
Variable vp : vec -> Q.                   (* value of the present decision: present prices are common to all scenarios *)

Definition smean (l : list Q) : Q := qsum l / inject_Z (Z.of_nat (List.length l)).

(* value of an extended point: present value + mean of the scenario future values *)
Definition slp_value (vfs : list (vec -> Q)) (p : vec) (fs : list vec) : Q :=
  vp p + smean (map (fun vf_f => fst vf_f (snd vf_f)) (combine vfs fs)).
Definition slp_feasible (vfs : list (vec -> Q)) (p : vec) (fs : list vec) : Prop :=
  List.length fs = List.length vfs /\ Forall (F p) fs.

Lemma qsum_le_pointwise (a b : list Q) : Forall2 Qle a b -> qsum a <= qsum b.
Proof. induction 1; cbn [qsum]; lra. Qed.

Lemma Forall2_len {A B} (R : A -> B -> Prop) l1 l2 : Forall2 R l1 l2 -> List.length l1 = List.length l2.
Proof. induction 1; simpl; auto. Qed.
Lemma pos_len (n : nat) : (0 < n)%nat -> 0 < inject_Z (Z.of_nat n).
Proof. intros H. unfold Qlt, inject_Z; simpl. lia. Qed.

(* (1) the two-stage optimum is at most the mean of the per-scenario optima *)
Theorem slp_upper (vfs : list (vec -> Q)) (opts : list Q) p fs :
  vfs <> [] -> slp_feasible vfs p fs ->
  Forall2 (fun vf opt => forall p' f', F p' f' -> vp p' + vf f' <= opt) vfs opts ->
  slp_value vfs p fs <= smean opts.
Proof.
  intros Hne [Hl Hf] Hopt. unfold slp_value, smean.
  assert (L1 : List.length (map (fun vf_f : (vec -> Q) * vec => fst vf_f (snd vf_f)) (combine vfs fs)) = List.length vfs)
    by (rewrite map_length, combine_length; lia).
  assert (L2 : List.length opts = List.length vfs) by (symmetry; eapply Forall2_len; exact Hopt).
  rewrite L1, L2.
  assert (N : 0 < inject_Z (Z.of_nat (List.length vfs))) by (apply pos_len; destruct vfs; [contradiction|simpl; lia]).
  set (N0 := inject_Z (Z.of_nat (List.length vfs))) in *.
  assert (K : qsum (map (fun vf_f => vp p + fst vf_f (snd vf_f)) (combine vfs fs)) <= qsum opts).
  { apply qsum_le_pointwise. clear L1 L2 N N0 Hne. revert fs opts Hl Hf Hopt.
    induction vfs as [|vf vfs IH]; intros [|f fs] opts Hl Hf Hopt; simpl in Hl; try discriminate; inversion Hopt; subst; cbn [combine map]; [constructor|].
    inversion Hf; subst. constructor; [cbn [fst snd]; auto|]. apply IH; auto. }
  rewrite qsum_map_add in K.
  assert (C : qsum (map (fun _ : (vec -> Q) * vec => vp p) (combine vfs fs)) == vp p * N0).
  { assert (G : forall (l : list ((vec -> Q) * vec)), qsum (map (fun _ => vp p) l) == vp p * inject_Z (Z.of_nat (List.length l))).
    { induction l as [|a l IHl]; [cbn; ring|]. cbn [map qsum List.length]. rewrite IHl, Nat2Z.inj_succ, <- Z.add_1_r, inject_Z_plus. ring. }
    rewrite G, combine_length. subst N0. replace (Nat.min (List.length vfs) (List.length fs)) with (List.length vfs) by lia. reflexivity. }
  rewrite C in K.
  apply Qle_shift_div_l; [exact N|]. 
  setoid_replace ((vp p + qsum (map (fun vf_f : (vec -> Q) * vec => fst vf_f (snd vf_f)) (combine vfs fs)) / N0) * N0)
    with (vp p * N0 + qsum (map (fun vf_f : (vec -> Q) * vec => fst vf_f (snd vf_f)) (combine vfs fs))) by (field; lra).
  exact K.
Qed.

(* (2) present-stage decisions are common: every present decision with a feasible recourse in each scenario is a
   feasible two-stage point, so the two-stage optimum is at least its expected value *)
Definition slp_optimal (vfs : list (vec -> Q)) (p : vec) (fs : list vec) : Prop :=
  slp_feasible vfs p fs /\ forall p' fs', slp_feasible vfs p' fs' -> slp_value vfs p' fs' <= slp_value vfs p fs.
Theorem slp_lower (vfs : list (vec -> Q)) p fs p0 rec :
  slp_optimal vfs p fs -> List.length rec = List.length vfs -> Forall (F p0) rec ->
  slp_value vfs p0 rec <= slp_value vfs p fs.
Proof. intros [_ O] Hl Hf. apply O. split; assumption. Qed.

(* (3) if all scenarios coincide the two-stage optimum is the deterministic optimum *)
Lemma smean_repeat (v : Q) n : (0 < n)%nat -> smean (repeat v n) == v.
Proof.
  intros Hn. unfold smean. rewrite repeat_length.
  assert (G : qsum (repeat v n) == v * inject_Z (Z.of_nat n)).
  { clear Hn. induction n as [|n IH]; [cbn; ring|]. cbn [repeat qsum]. rewrite IH, Nat2Z.inj_succ, <- Z.add_1_r, inject_Z_plus. ring. }
  rewrite G. field. pose proof (pos_len n Hn). lra.
Qed.
Theorem slp_identical (vf : vec -> Q) (n : nat) p f :
  (0 < n)%nat -> F p f -> (forall p' f', F p' f' -> vp p' + vf f' <= vp p + vf f) ->
  slp_optimal (repeat vf n) p (repeat f n) /\ slp_value (repeat vf n) p (repeat f n) == vp p + vf f.
Proof.
  intros Hn Hf Hopt.
  assert (V : slp_value (repeat vf n) p (repeat f n) == vp p + vf f).
  { unfold slp_value.
    assert (E : map (fun vf_f : (vec -> Q) * vec => fst vf_f (snd vf_f)) (combine (repeat vf n) (repeat f n)) = repeat (vf f) n).
    { clear. induction n as [|n IH]; [reflexivity|]. cbn [repeat combine map fst snd]. rewrite IH. reflexivity. }
    rewrite E, smean_repeat by exact Hn. reflexivity. }
  split; [|exact V]. split.
  - split; [rewrite !repeat_length; reflexivity|]. clear -Hf. induction n; cbn [repeat]; constructor; auto.
  - intros p' fs' Hfe. rewrite V.
    assert (Hne : repeat vf n <> []) by (destruct n; [lia|discriminate]).
    assert (U := slp_upper (repeat vf n) (repeat (vp p + vf f) n) p' fs' Hne Hfe).
    rewrite smean_repeat in U by exact Hn. apply U.
    clear -Hopt. induction n; cbn [repeat]; constructor; auto.
Qed.
End TwoStage.

(* ================= robust target: epigraph over the scenario values ================= *)
Section Robust.
Variable G : vec -> Prop.                 (* feasibility: the constraints do not depend on the scenario *)
Definition lower_bound_of (vs : list (vec -> Q)) (x : vec) (t : Q) : Prop := Forall (fun v => t <= v x) vs.
Definition robust_optimal (vs : list (vec -> Q)) (x : vec) (t : Q) : Prop :=
  G x /\ lower_bound_of vs x t /\ forall x' t', G x' -> lower_bound_of vs x' t' -> t' <= t.

(* the worst case of the robust solution is at least the worst case of every feasible point, in particular of every
   single-scenario solution ... *)
Theorem robust_ge_every_point vs x t x' t' : robust_optimal vs x t -> G x' -> lower_bound_of vs x' t' -> t' <= t.
Proof. intros (_ & _ & O) Hg Hl. apply (O x' t'); assumption. Qed.
(* ... and at most the smallest per-scenario optimum *)
Theorem robust_le_scenario_optima vs opts x t : robust_optimal vs x t ->
  Forall2 (fun v opt => forall x', G x' -> v x' <= opt) vs opts -> Forall (fun opt => t <= opt) opts.
Proof.
  intros (Hg & Hl & _) H. unfold lower_bound_of in Hl. induction H as [|v opt vs opts Hv _ IH]; [constructor|].
  inversion Hl; subst. constructor; [|apply IH; assumption]. specialize (Hv x Hg). lra.
Qed.
End Robust.
