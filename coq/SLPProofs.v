(* SLPProofs.v — C17: the bounds of the extended problem make_slp builds (SLP.slp_lp) are, scenario by scenario, the bounds of
   the original problem on "present + own future block"; together with SLP.slp_rows_ok: every feasible extended point projects to
   a feasible point of the original problem in every scenario, all sharing the present variables. *)
From Coq Require Import QArith ZArith List Lia Lqa Bool Arith.
From EAO Require Import Num LP SLP.
Import ListNotations.
Open Scope Q_scope.

Lemma sel_fut_cons {A} (b : bool) (fut : list bool) (a : A) (l : list A) :
  sel_fut (b :: fut) (a :: l) = if b then a :: sel_fut fut l else sel_fut fut l.
Proof. unfold sel_fut. cbn [combine filter fst]. destruct b; reflexivity. Qed.
Lemma rank_cons b fut j : rank (b :: fut) (S j) = ((if b then 1 else 0) + rank fut j)%nat.
Proof. unfold rank. cbn [firstn filter]. destruct b; reflexivity. Qed.
Lemma nfut_cons b fut : nfut (b :: fut) = ((if b then 1 else 0) + nfut fut)%nat.
Proof. unfold nfut. cbn [filter]. destruct b; reflexivity. Qed.

Lemma sel_fut_length {A} : forall (fut : list bool) (l : list A), List.length fut = List.length l -> List.length (sel_fut fut l) = nfut fut.
Proof.
  induction fut as [|b fut IH]; intros [|a l] H; simpl in H; try discriminate; [reflexivity|].
  rewrite sel_fut_cons, nfut_cons. destruct b; cbn [List.length]; rewrite IH by lia; reflexivity.
Qed.
Lemma sel_fut_nth : forall (fut : list bool) (l : vec) j, List.length fut = List.length l -> nth j fut false = true ->
  nth (rank fut j) (sel_fut fut l) 0 = nth j l 0.
Proof.
  induction fut as [|b fut IH]; intros [|a l] j H Hj; simpl in H; try discriminate; [destruct j; discriminate|].
  rewrite sel_fut_cons. destruct j as [|j].
  - cbn [nth] in Hj. subst b. reflexivity.
  - cbn [nth] in Hj. rewrite rank_cons. destruct b; cbn [Nat.add nth]; apply IH; [lia|exact Hj|lia|exact Hj].
Qed.
Lemma rank_lt : forall (fut : list bool) j, nth j fut false = true -> (rank fut j < nfut fut)%nat.
Proof.
  induction fut as [|b fut IH]; intros j Hj; [destruct j; discriminate|].
  destruct j as [|j].
  - cbn [nth] in Hj. subst b. unfold rank. cbn [firstn filter List.length]. rewrite nfut_cons. lia.
  - cbn [nth] in Hj. rewrite rank_cons, nfut_cons. specialize (IH j Hj). destruct b; lia.
Qed.

(* the k-th copy of a block inside a repetition of equal blocks *)
Lemma nth_blocks {A} (blk : list Q) : forall (cs : list A) k r, (k < List.length cs)%nat -> (r < List.length blk)%nat ->
  nth (k * List.length blk + r) (flat_map (fun _ => blk) cs) 0 = nth r blk 0.
Proof.
  induction cs as [|c cs IH]; intros k r Hk Hr; simpl in Hk; [lia|]. cbn [flat_map].
  destruct k as [|k].
  - cbn [Nat.mul Nat.add]. apply app_nth1. exact Hr.
  - rewrite app_nth2 by (cbn [Nat.mul]; lia). replace (S k * List.length blk + r - List.length blk)%nat with (k * List.length blk + r)%nat by (cbn [Nat.mul]; lia).
    apply IH; [lia|exact Hr].
Qed.

Lemma in_box_iff_nth' l u x : List.length l = List.length x -> List.length u = List.length x ->
  (in_box l u x <-> forall j, (j < List.length x)%nat -> nth j l 0 <= nth j x 0 /\ nth j x 0 <= nth j u 0).
Proof.
  intros Hl Hu. split; [intros H j Hj; apply (in_box_nth _ _ _ H j Hj)|].
  revert u x Hl Hu. induction l as [|l0 l IH]; intros [|u0 u] [|x0 x] Hl Hu H; simpl in Hl, Hu; try discriminate; cbn [in_box]; [exact I|].
  destruct (H 0%nat ltac:(simpl; lia)) as [A B]. cbn [nth] in A, B. repeat split; try assumption.
  apply IH; try lia. intros j Hj. apply (H (S j)). simpl. lia.
Qed.

(* bound of the extended problem at the column scenario i uses for variable j = bound of variable j *)
Lemma slp_bound_at (v : vec) (fut : list bool) {A} (cs : list A) i j :
  List.length fut = List.length v -> (j < List.length v)%nat -> (i <= List.length cs)%nat ->
  nth (scol (List.length v) fut i j) (v ++ flat_map (fun _ => sel_fut fut v) cs) 0 = nth j v 0.
Proof.
  intros Hf Hj Hi. unfold scol. destruct (nth j fut false) eqn:E; [|apply app_nth1; exact Hj].
  destruct i as [|i']; [apply app_nth1; exact Hj|].
  rewrite app_nth2 by lia. replace (List.length v + i' * nfut fut + rank fut j - List.length v)%nat with (i' * nfut fut + rank fut j)%nat by lia.
  rewrite <- (sel_fut_length fut v Hf). rewrite nth_blocks; [apply sel_fut_nth; assumption|lia|rewrite sel_fut_length by exact Hf; apply rank_lt; exact E].
Qed.

Lemma scol_lt n fut {A} (cs : list A) i j : List.length fut = n -> (j < n)%nat -> (i <= List.length cs)%nat ->
  (scol n fut i j < n + List.length cs * nfut fut)%nat.
Proof.
  intros Hf Hj Hi. unfold scol. destruct (nth j fut false) eqn:E; [|lia]. destruct i as [|i']; [lia|].
  pose proof (rank_lt fut j E). assert (i' < List.length cs)%nat by lia.
  assert (i' * nfut fut + nfut fut <= List.length cs * nfut fut)%nat.
  { replace (i' * nfut fut + nfut fut)%nat with (S i' * nfut fut)%nat by (cbn [Nat.mul]; lia). apply Nat.mul_le_mono_r. lia. }
  lia.
Qed.

Lemma flat_map_const_length {A} (blk : vec) (cs : list A) : List.length (flat_map (fun _ => blk) cs) = (List.length cs * List.length blk)%nat.
Proof. induction cs as [|c cs IH]; cbn [flat_map List.length Nat.mul]; [reflexivity|]. rewrite app_length, IH. reflexivity. Qed.

(* C17: an extended point within the bounds of the extended problem gives, in every scenario, a point within the bounds of the
   original problem *)
Theorem slp_box_scenarios (P : lp) fut cs X : wf_lp P -> List.length fut = nvars P ->
  in_box (lp_l (slp_lp P fut cs)) (lp_u (slp_lp P fut cs)) X ->
  forall i, (i <= List.length cs)%nat -> in_box (lp_l P) (lp_u P) (slp_point (nvars P) fut X i).
Proof.
  intros (Hl & Hu & _) Hf Hb i Hi. unfold slp_lp in Hb; cbn [lp_l lp_u] in Hb.
  pose proof (in_box_length _ _ _ Hb) as [L1 _].
  rewrite app_length, flat_map_const_length, sel_fut_length in L1 by lia.
  assert (Lp : List.length (slp_point (nvars P) fut X i) = nvars P) by (unfold slp_point; rewrite map_length, seq_length; reflexivity).
  apply in_box_iff_nth'; try lia. rewrite Lp. intros j Hj.
  rewrite slp_point_nth by exact Hj.
  assert (Hk : (scol (nvars P) fut i j < List.length X)%nat).
  { rewrite <- L1, Hl. apply scol_lt; assumption. }
  destruct (in_box_nth _ _ _ Hb _ Hk) as [A B].
  pose proof (slp_bound_at (lp_l P) fut cs i j ltac:(lia) ltac:(lia) Hi) as EL. rewrite Hl in EL. rewrite EL in A.
  pose proof (slp_bound_at (lp_u P) fut cs i j ltac:(lia) ltac:(lia) Hi) as EU. rewrite Hu in EU. rewrite EU in B.
  split; assumption.
Qed.

(* ... hence: every feasible point of the extended problem projects, in every scenario, to a feasible point of the original
   problem; all these points share the present variables *)
Theorem slp_feasible_scenarios (P : lp) fut cs X : wf_lp P -> List.length fut = nvars P ->
  feasible (slp_lp P fut cs) X ->
  (forall i, (i <= List.length cs)%nat -> feasible P (slp_point (nvars P) fut X i)) /\
  (forall i j, (j < nvars P)%nat -> nth j fut false = false -> nth j (slp_point (nvars P) fut X i) 0 = nth j X 0).
Proof.
  intros W Hf [Hb Hr]. split.
  - intros i Hi. split; [apply (slp_box_scenarios P fut cs X W Hf Hb i Hi)|]. apply (slp_rows_ok P fut cs X W); assumption.
  - intros i j Hj E. rewrite slp_point_nth by exact Hj. unfold scol. rewrite E. reflexivity.
Qed.

(* ---------- the mapping of the extended problem (stoch_lin_prog.py:66-75): one copy of the rows of the future variables per sample,
   re-indexed to the sample's block; the index keeps enumerating the variables whatever the number of rows per variable ---------- *)
From EAO Require Import Mapping.
Definition slp_map (mp : list mrow) (fut : list bool) (nS n : nat) : list mrow :=
  mp ++ flat_map (fun i => map (fun r => Build_mrow (n + i * nfut fut + rank fut (m_var r)) (m_asset r) (m_node r) (m_type r) (m_step r)
                                                    (m_factor r) (m_name r) (m_bool r))
                               (filter (fun r => nth (m_var r) fut false) mp)) (seq 0 nS).

Lemma flat_sel_length (g : Q -> Q) fut (cs : list vec) n : List.length fut = n -> Forall (fun c : vec => List.length c = n) cs ->
  List.length (flat_map (fun c => map g (sel_fut fut c)) cs) = (List.length cs * nfut fut)%nat.
Proof.
  intros Hf Hc. induction Hc as [|c cs Lc _ IH]; [reflexivity|]. cbn [flat_map List.length]. rewrite app_length, map_length, IH.
  rewrite sel_fut_length by (rewrite Lc, Hf; reflexivity). cbn [Nat.mul]. reflexivity.
Qed.

Lemma slp_nvars P fut cs : List.length fut = nvars P -> Forall (fun c : vec => List.length c = nvars P) cs ->
  nvars (slp_lp P fut cs) = (nvars P + List.length cs * nfut fut)%nat.
Proof.
  intros Hf Hc. unfold nvars at 1, slp_lp. cbn [lp_c]. rewrite app_length, map_length, combine_length, seq_length, combine_length.
  fold (nvars P). rewrite Hf. rewrite !Nat.min_id. f_equal. apply (flat_sel_length _ fut cs (nvars P) Hf Hc).
Qed.

(* every row of the extended mapping points to an existing variable of the extended problem, and the copies of a variable's rows all
   point to the same (new) variable: row k of sample i of variable j -> n + i*nfut + rank j *)
Theorem slp_map_wf P mp fut cs :
  List.length fut = nvars P -> Forall (fun c : vec => List.length c = nvars P) cs ->
  Forall (fun r => (m_var r < nvars P)%nat) mp ->
  Forall (fun r => (m_var r < nvars (slp_lp P fut cs))%nat) (slp_map mp fut (List.length cs) (nvars P)).
Proof.
  intros Hf Hc Hm. rewrite (slp_nvars P fut cs Hf Hc). unfold slp_map. apply Forall_app. split.
  - eapply Forall_impl; [|exact Hm]. intros r Hr. cbn beta in *. lia.
  - apply Forall_forall. intros r Hr. apply in_flat_map in Hr. destruct Hr as (i & Hi & Hr). apply in_seq in Hi.
    apply in_map_iff in Hr. destruct Hr as (r0 & <- & Hr0). apply filter_In in Hr0. destruct Hr0 as [_ Hfut]. cbn [m_var].
    pose proof (rank_lt fut (m_var r0) Hfut) as Hrk.
    assert ((i + 1) * nfut fut <= List.length cs * nfut fut)%nat by (apply Nat.mul_le_mono_r; lia). lia.
Qed.

(* the new variable a copied row points to is the column the rows of that scenario use for the variable (SLP.scol) *)
Theorem slp_map_matches_columns mp fut nS n i r :
  (i < nS)%nat -> In r mp -> nth (m_var r) fut false = true ->
  In (Build_mrow (scol n fut (S i) (m_var r)) (m_asset r) (m_node r) (m_type r) (m_step r) (m_factor r) (m_name r) (m_bool r))
     (slp_map mp fut nS n).
Proof.
  intros Hi Hr Hf. unfold slp_map. apply in_or_app. right. apply in_flat_map. exists i. split; [apply in_seq; lia|].
  apply in_map_iff. exists r. split; [|apply filter_In; split; assumption]. unfold scol. rewrite Hf. reflexivity.
Qed.
