(* Scaled.v — ScaledAsset.setup_optim_problem (assets.py:2448-2515): a scale variable s is
   appended; base rows  A x <= b  become  A x - b s/S <= 0 ; dispatch variables are tied to s. *)
From Coq Require Import QArith ZArith List Lia Lqa Bool String Arith.
From EAO Require Import Num LP Mapping Dcf Grid Assets.
Import ListNotations.
Open Scope Q_scope.

Definition dedup_keep_first (l : list nat) : list nat :=
  rev (fold_left (fun acc a => if existsb (Nat.eqb a) acc then acc else a :: acc) l []).

Definition upd_at (l : vec) (idx : list nat) (f : Q -> Q) : vec :=
  map (fun iv => if existsb (Nat.eqb (fst iv)) idx then f (snd iv) else snd iv) (combine (seq 0 (List.length l)) l).

Definition scaled (name node0 : string) (minS maxS normS fixc dur : Q) (a : aprob) : option aprob :=
  let P := ap_lp a in
  let n := nvars P in
  (* a base asset without any step in the grid (empty mapping) leaves the scale variable alone; it is the LAST variable
     (assets.py, repaired in 688f024: the mapping row used to be labelled max(index)+1, NaN for an empty mapping) *)
  let Idisp := dedup_keep_first (map m_var (filter is_d (ap_map a))) in
  let nD := List.length Idisp in
  (* the tie rows use an identity on the first nD columns plus the scale column: the shapes only
     fit when all n variables are dispatch variables *)
  if negb (Nat.eqb nD n) then None else
  let rows1 := map (fun r => {| r_a := r_a r ++ [(n, Qred (- r_b r / normS))]; r_t := r_t r; r_b := 0 |}) (lp_rows P) in
  let rowsU := map (fun k => {| r_a := [(k, 1); (n, Qred (- nth (nth k Idisp 0%nat) (lp_u P) 0 / normS))]; r_t := RU; r_b := 0 |}) (seq 0 nD) in
  let rowsL := map (fun k => {| r_a := [(k, 1); (n, Qred (- nth (nth k Idisp 0%nat) (lp_l P) 0 / normS))]; r_t := RL; r_b := 0 |}) (seq 0 nD) in
  let l' := upd_at (lp_l P) Idisp (fun v => Qred (qmin0 v * maxS / normS)) in
  let u' := upd_at (lp_u P) Idisp (fun v => Qred (qmax0 v * maxS / normS)) in
  Some {| ap_lp := Build_lp (lp_c P ++ [Qred (fixc * dur)]) (l' ++ [minS]) (u' ++ [maxS]) (rows1 ++ rowsU ++ rowsL);
          ap_map := map (fun r => Build_mrow (m_var r) name (m_node r) (m_type r) (m_step r) (m_factor r) (m_name r) (m_bool r)) (ap_map a)
                    ++ [Build_mrow n name (Some node0) "size" 0 1 "scale" false] |}.
