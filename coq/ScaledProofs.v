(* ScaledProofs.v — C16: a scaled asset at scale s is its base asset with all capacities multiplied by s / S,
   less fixed costs of s x cost rate x duration (assets.py:2461-2515). *)
From Coq Require Import QArith ZArith List Lia Lqa Bool String Arith.
From EAO Require Import Num LP Mapping Dcf Grid Assets Scaled Ref.
Import ListNotations.
Open Scope Q_scope.

(* the base problem with right-hand sides and bounds multiplied by k *)
Definition scale_row (k : Q) (r : crow) : crow := {| r_a := r_a r; r_t := r_t r; r_b := r_b r * k |}.
Definition scale_lp (k : Q) (P : lp) : lp :=
  {| lp_c := lp_c P; lp_l := map (fun v => v * k) (lp_l P); lp_u := map (fun v => v * k) (lp_u P); lp_rows := map (scale_row k) (lp_rows P) |}.

Lemma upd_at_all_nth l f j : (j < List.length l)%nat -> nth j (upd_at l (seq 0 (List.length l)) f) 0 = f (nth j l 0).
Proof.
  intros Hj. unfold upd_at.
  assert (G : forall (l0 : vec) s, (j < List.length l0)%nat ->
    nth j (map (fun iv => if existsb (Nat.eqb (fst iv)) (seq 0 (List.length l)) then f (snd iv) else snd iv) (combine (seq s (List.length l0)) l0)) 0
    = if existsb (Nat.eqb (s + j)) (seq 0 (List.length l)) then f (nth j l0 0) else nth j l0 0).
  { clear Hj. revert j. intros j l0. revert j. induction l0 as [|a l0 IH]; intros j s Hj; simpl in Hj; [lia|].
    cbn [List.length seq combine map]. destruct j as [|j]; cbn [nth fst snd].
    - rewrite Nat.add_0_r. reflexivity.
    - rewrite (IH j (S s)) by lia. replace (S s + j)%nat with (s + S j)%nat by lia. reflexivity. }
  rewrite (G l 0%nat Hj). cbn [Nat.add].
  assert (E : existsb (Nat.eqb j) (seq 0 (List.length l)) = true).
  { apply existsb_exists. exists j. split; [apply in_seq; lia|apply Nat.eqb_refl]. }
  rewrite E. reflexivity.
Qed.
Lemma upd_at_length l idx f : List.length (upd_at l idx f) = List.length l.
Proof. unfold upd_at. rewrite map_length, combine_length, seq_length. lia. Qed.

Lemma in_box_iff_nth l u x : List.length l = List.length x -> List.length u = List.length x ->
  (in_box l u x <-> forall j, (j < List.length x)%nat -> nth j l 0 <= nth j x 0 /\ nth j x 0 <= nth j u 0).
Proof.
  intros Hl Hu. split; [intros H j Hj; apply (in_box_nth _ _ _ H j Hj)|].
  revert u x Hl Hu. induction l as [|l0 l IH]; intros [|u0 u] [|x0 x] Hl Hu H; simpl in Hl, Hu; try discriminate; cbn [in_box]; [exact I|].
  destruct (H 0%nat ltac:(simpl; lia)) as [A B]. cbn [nth] in A, B. repeat split; try assumption.
  apply IH; try lia. intros j Hj. apply (H (S j)). simpl. lia.
Qed.

Lemma nth_map_q (f : Q -> Q) l j : (j < List.length l)%nat -> nth j (map f l) 0 = f (nth j l 0).
Proof. revert j. induction l as [|a l IH]; intros [|j] H; simpl in H; try lia; cbn [map nth]; auto. apply IH. lia. Qed.

Lemma sdot_snoc r n c x s : srow_wf n r -> List.length x = n -> sdot (r ++ [(n, c)]) (x ++ [s]) == sdot r x + c * s.
Proof.
  intros Hw Hx. rewrite sdot_app, sdot_cons, sdot_nil. subst n. rewrite sdot_app_l by exact Hw.
  replace (nth (List.length x) (x ++ [s]) 0) with s by (rewrite app_nth2 by lia; rewrite Nat.sub_diag; reflexivity). ring.
Qed.

Section Fixed.
Variables (name node0 : string) (minS maxS S fixc dur : Q) (a a' : aprob) (s : Q) (x : vec).
Let P := ap_lp a.
Let n := nvars P.
Hypothesis Hbuild : scaled name node0 minS maxS S fixc dur a = Some a'.
Hypothesis Hwf : wf_lp P.
Hypothesis Hall : dedup_keep_first (map m_var (filter is_d (ap_map a))) = seq 0 n.    (* every variable is a dispatch variable *)
Hypothesis HS : 0 < S.
Hypothesis Hs0 : 0 <= s.
Hypothesis HsM : s <= maxS.
Hypothesis Hx : List.length x = n.

Lemma scaled_shape :
  ap_lp a' = Build_lp (lp_c P ++ [Qred (fixc * dur)])
     (upd_at (lp_l P) (seq 0 n) (fun v => Qred (qmin0 v * maxS / S)) ++ [minS])
     (upd_at (lp_u P) (seq 0 n) (fun v => Qred (qmax0 v * maxS / S)) ++ [maxS])
     (map (fun r => {| r_a := r_a r ++ [(n, Qred (- r_b r / S))]; r_t := r_t r; r_b := 0 |}) (lp_rows P) ++
      map (fun k => {| r_a := [(k, 1); (n, Qred (- nth k (lp_u P) 0 / S))]; r_t := RU; r_b := 0 |}) (seq 0 n) ++
      map (fun k => {| r_a := [(k, 1); (n, Qred (- nth k (lp_l P) 0 / S))]; r_t := RL; r_b := 0 |}) (seq 0 n)).
Proof.
  unfold scaled in Hbuild. fold P in Hbuild. fold n in Hbuild. rewrite Hall in Hbuild.
  rewrite seq_length, Nat.eqb_refl in Hbuild. cbn [negb] in Hbuild. injection Hbuild as E. rewrite <- E. cbn [ap_lp].
  f_equal. f_equal. f_equal; apply map_ext_in; intros k Hk; apply in_seq in Hk; rewrite seq_nth by lia; reflexivity.
Qed.

Lemma tie_rows_iff :
  (forall k, (k < n)%nat -> nth k x 0 - nth k (lp_u P) 0 / S * s <= 0 /\ 0 <= nth k x 0 - nth k (lp_l P) 0 / S * s) <->
  in_box (map (fun v => v * (s / S)) (lp_l P)) (map (fun v => v * (s / S)) (lp_u P)) x.
Proof.
  destruct Hwf as (Hl & Hu & _). fold P in Hl, Hu. fold n in Hl, Hu.
  rewrite in_box_iff_nth by (rewrite map_length; lia). rewrite Hx.
  split; intros H k Hk; specialize (H k Hk).
  - rewrite !nth_map_q by lia. destruct H as [A B].
    assert (E1 : nth k (lp_u P) 0 / S * s == nth k (lp_u P) 0 * (s / S)) by (field; lra).
    assert (E2 : nth k (lp_l P) 0 / S * s == nth k (lp_l P) 0 * (s / S)) by (field; lra). lra.
  - rewrite !nth_map_q in H by lia. destruct H as [A B].
    assert (E1 : nth k (lp_u P) 0 / S * s == nth k (lp_u P) 0 * (s / S)) by (field; lra).
    assert (E2 : nth k (lp_l P) 0 / S * s == nth k (lp_l P) 0 * (s / S)) by (field; lra). lra.
Qed.

(* the box of the scaled problem is implied by the tie rows (it only exists because solvers want bounds) *)
Lemma box_redundant :
  in_box (map (fun v => v * (s / S)) (lp_l P)) (map (fun v => v * (s / S)) (lp_u P)) x ->
  in_box (upd_at (lp_l P) (seq 0 n) (fun v => Qred (qmin0 v * maxS / S))) (upd_at (lp_u P) (seq 0 n) (fun v => Qred (qmax0 v * maxS / S))) x.
Proof.
  destruct Hwf as (Hl & Hu & _). fold P in Hl, Hu. fold n in Hl, Hu. intros H.
  apply in_box_iff_nth; rewrite ?upd_at_length; try lia. intros k Hk. rewrite Hx in Hk.
  destruct (in_box_nth _ _ _ H k ltac:(lia)) as [A B]. rewrite !nth_map_q in A, B by lia.
  unfold n in *. rewrite <- Hl at 1. rewrite upd_at_all_nth by lia. rewrite <- Hu at 1. rewrite upd_at_all_nth by lia.
  rewrite !Qred_correct.
  assert (K0 : 0 <= s / S) by (apply Qle_shift_div_l; lra).
  assert (K1 : s / S <= maxS / S) by (unfold Qdiv; apply Qmult_le_compat_r; [lra|apply Qlt_le_weak, Qinv_lt_0_compat; lra]).
  set (lk := nth k (lp_l P) 0) in *. set (uk := nth k (lp_u P) 0) in *.
  destruct (qmin0_le lk) as [M1 M2]. destruct (qmax0_ge uk) as [N1 N2].
  assert (E1 : qmin0 lk * maxS / S == qmin0 lk * (maxS / S)) by (field; lra).
  assert (E2 : qmax0 uk * maxS / S == qmax0 uk * (maxS / S)) by (field; lra).
  rewrite E1, E2. split.
  - (* qmin0 lk * (maxS/S) <= lk * (s/S) <= x_k *)
    assert (qmin0 lk * (maxS / S) <= qmin0 lk * (s / S)).
    { assert (0 <= (- qmin0 lk) * (maxS / S - s / S)) by (apply Qmult_le_0_compat; lra). lra. }
    assert (qmin0 lk * (s / S) <= lk * (s / S)) by (apply Qmult_le_compat_r; lra). lra.
  - assert (qmax0 uk * (s / S) <= qmax0 uk * (maxS / S)).
    { assert (0 <= qmax0 uk * (maxS / S - s / S)) by (apply Qmult_le_0_compat; lra). lra. }
    assert (uk * (s / S) <= qmax0 uk * (s / S)) by (apply Qmult_le_compat_r; lra). lra.
Qed.
End Fixed.

Lemma row_ok_scaled_base (n : nat) (SS s : Q) (x : vec) (r : crow) : 0 < SS -> srow_wf n (r_a r) -> List.length x = n ->
  (row_ok (x ++ [s]) {| r_a := r_a r ++ [(n, Qred (- r_b r / SS))]; r_t := r_t r; r_b := 0 |} <-> row_ok x (scale_row (s / SS) r)).
Proof.
  intros HS Hw Hx. unfold row_ok, scale_row; cbn [r_a r_t r_b].
  assert (E : sdot (r_a r ++ [(n, Qred (- r_b r / SS))]) (x ++ [s]) == sdot (r_a r) x - r_b r * (s / SS)).
  { rewrite sdot_snoc by assumption. rewrite Qred_correct. field. lra. }
  destruct (r_t r); rewrite E; split; intros H; lra.
Qed.

Lemma tie_row_val (n : nat) (SS s : Q) (x : vec) (k : nat) (v : Q) : 0 < SS -> (k < n)%nat -> List.length x = n ->
  sdot [(k, 1); (n, Qred (- v / SS))] (x ++ [s]) == nth k x 0 - v / SS * s.
Proof.
  intros HS Hk Hx. rewrite !sdot_cons, sdot_nil. rewrite app_nth1 by lia.
  replace (nth n (x ++ [s]) 0) with s by (rewrite app_nth2 by lia; replace (n - List.length x)%nat with 0%nat by lia; reflexivity).
  rewrite Qred_correct. field. lra.
Qed.

(* C16: at a fixed scale s the scaled problem is the base problem with all capacities (bounds and right-hand sides)
   multiplied by s / SS; the value is the base value less  s x cost rate x duration *)
Theorem scaled_fixed_equiv (name node0 : string) (minS maxS SS fixc dur : Q) (a a' : aprob) (s : Q) (x : vec) :
  scaled name node0 minS maxS SS fixc dur a = Some a' -> wf_lp (ap_lp a) ->
  dedup_keep_first (map m_var (filter is_d (ap_map a))) = seq 0 (nvars (ap_lp a)) ->
  0 < SS -> 0 <= s -> minS <= s -> s <= maxS -> List.length x = nvars (ap_lp a) ->
  (feasible (ap_lp a') (x ++ [s]) <-> feasible (scale_lp (s / SS) (ap_lp a)) x) /\
  value (ap_lp a') (x ++ [s]) == value (ap_lp a) x - fixc * dur * s.
Proof.
  intros Hb Hwf Hall HS Hs0 Hsm HsM Hx.
  rewrite (scaled_shape name node0 minS maxS SS fixc dur a a' x Hb Hall Hx).
  pose proof Hwf as (Hl & Hu & Hr). set (P := ap_lp a) in *. set (n := nvars P) in *.
  split.
  - unfold feasible; cbn [lp_l lp_u lp_rows scale_lp].
    rewrite !Forall_app, !Forall_map.
    (* tie rows <-> scaled box *)
    assert (T : (Forall (fun k => row_ok (x ++ [s]) {| r_a := [(k, 1); (n, Qred (- nth k (lp_u P) 0 / SS))]; r_t := RU; r_b := 0 |}) (seq 0 n) /\
                 Forall (fun k => row_ok (x ++ [s]) {| r_a := [(k, 1); (n, Qred (- nth k (lp_l P) 0 / SS))]; r_t := RL; r_b := 0 |}) (seq 0 n)) <->
                in_box (map (fun v => v * (s / SS)) (lp_l P)) (map (fun v => v * (s / SS)) (lp_u P)) x).
    { pose proof (tie_rows_iff SS a s x Hwf HS Hx) as TI. fold P in TI. fold n in TI. rewrite <- TI. clear TI. rewrite !Forall_forall. split.
      - intros [A B] k Hk. specialize (A k ltac:(apply in_seq; lia)). specialize (B k ltac:(apply in_seq; lia)).
        unfold row_ok in A, B; cbn [r_t r_a r_b] in A, B. rewrite tie_row_val in A, B by (assumption || lia).
        split; lra.
      - intros H. split; intros k Hk; apply in_seq in Hk; destruct (H k ltac:(lia)) as [A B];
          unfold row_ok; cbn [r_t r_a r_b]; rewrite tie_row_val by (assumption || lia); lra. }
    (* base rows *)
    assert (R : Forall (fun r => row_ok (x ++ [s]) {| r_a := r_a r ++ [(n, Qred (- r_b r / SS))]; r_t := r_t r; r_b := 0 |}) (lp_rows P) <->
                Forall (fun r => row_ok x (scale_row (s / SS) r)) (lp_rows P)).
    { rewrite !Forall_forall. split; intros H r Hin; specialize (H r Hin); rewrite Forall_forall in Hr; specialize (Hr r Hin);
        apply (row_ok_scaled_base n SS s x r HS Hr Hx); exact H. }
    rewrite R, T. split.
    + intros (_ & A & B). split; [exact B|exact A].
    + intros [B A]. split; [|split; assumption].
      apply in_box_app; [pose proof (box_redundant maxS SS a s x Hwf HS Hs0 HsM Hx) as BR; fold P in BR; fold n in BR; apply BR; exact B|]. cbn. repeat split; assumption.
  - unfold value; cbn [lp_c]. rewrite dot_app by (unfold n, nvars in Hx; lia). cbn [dot]. rewrite Qred_correct. ring.
Qed.
