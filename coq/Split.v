(* Split.v — C14: split optimisation (portfolio.py:222-290, optimization.py:419-455): one problem per interval,
   solutions concatenated, steps and variable indices re-based to the original grid. *)
From Coq Require Import QArith ZArith List Lia Lqa Bool String Arith.
From EAO Require Import Num LP Mapping Dcf Grid Assets Portfolio.
Import ListNotations.
Open Scope Q_scope.

Definition lp_empty : lp := Build_lp [] [] [] [].
Fixpoint lp_concat (Ps : list lp) : lp :=
  match Ps with [] => lp_empty | P :: rest => lp_sum P (lp_concat rest) end.

Lemma lp_concat_wf Ps : Forall wf_lp Ps -> wf_lp (lp_concat Ps).
Proof.
  induction 1 as [|P rest HP _ IH]; cbn [lp_concat].
  - unfold wf_lp, nvars; cbn. repeat split; auto.
  - apply lp_sum_wf; assumption.
Qed.

Lemma lp_empty_optimal : optimal lp_empty [].
Proof. split; [split; [exact I|constructor]|]. intros x' [Hb _]. destruct x'; [lra|destruct Hb]. Qed.

(* the intervals are separate problems: the concatenation of interval optima is optimal for the whole, and the value
   is the sum of the interval optima *)
Theorem concat_optimal : forall Ps xs, Forall wf_lp Ps -> Forall2 optimal Ps xs ->
  optimal (lp_concat Ps) (List.concat xs) /\
  value (lp_concat Ps) (List.concat xs) == qsum (map (fun Px => value (fst Px) (snd Px)) (combine Ps xs)).
Proof.
  induction Ps as [|P Ps IH]; intros xs W O; inversion O as [|? x ? xs' Ox Or]; subst.
  - cbn. split; [exact lp_empty_optimal|reflexivity].
  - inversion W as [|? ? WP Wr]; subst. destruct (IH xs' Wr Or) as [IHo IHv].
    cbn [lp_concat List.concat combine map qsum fst snd]. split.
    + apply lp_sum_optimal; [exact WP|apply lp_concat_wf; exact Wr|exact Ox|exact IHo].
    + rewrite lp_sum_value by (apply feasible_length; [exact WP|apply Ox]). rewrite IHv. reflexivity.
Qed.

(* a point that is feasible for every interval is feasible for the whole (and conversely) *)
Theorem concat_feasible : forall Ps xs, Forall wf_lp Ps -> Forall2 (fun P x => List.length x = nvars P) Ps xs ->
  (feasible (lp_concat Ps) (List.concat xs) <-> Forall2 feasible Ps xs).
Proof.
  induction Ps as [|P Ps IH]; intros xs W L; inversion L as [|? x ? xs' Lx Lr]; subst.
  - cbn [lp_concat List.concat]. split; intros; [constructor|apply lp_empty_optimal].
  - inversion W as [|? ? WP Wr]; subst. cbn [lp_concat List.concat].
    rewrite lp_sum_feasible; [|exact WP|apply lp_concat_wf; exact Wr|exact Lx]. rewrite (IH xs' Wr Lr). split.
    + intros [A B]. constructor; assumption.
    + intros H. inversion H; subst. split; assumption.
Qed.

(* re-basing of an interval's mapping: step k of the interval is step I_k of the original grid; variables are
   shifted by the number of variables of the earlier intervals (portfolio.py:265-284) *)
Definition rebase (I : list nat) (off : nat) (mp : list mrow) : list mrow :=
  map (fun r => Build_mrow (off + m_var r) (m_asset r) (m_node r) (m_type r) (nth (m_step r) I 0%nat) (m_factor r) (m_name r) (m_bool r)) mp.
Fixpoint split_map (parts : list (list nat * aprob)) (off : nat) : list mrow :=
  match parts with
  | [] => []
  | (Ix, a) :: rest => rebase Ix off (ap_map a) ++ split_map rest (off + nvars (ap_lp a))
  end.

Theorem rebase_steps_original I off mp :
  Forall (fun r => (m_step r < List.length I)%nat) mp -> Forall (fun r => In (m_step r) I) (rebase I off mp).
Proof.
  intros H. unfold rebase. rewrite Forall_map. eapply Forall_impl; [|exact H]. intros r Hr. cbn [m_step]. apply nth_In. exact Hr.
Qed.

(* every row of the concatenated mapping points to a variable of its own interval block and to a step of that
   interval's original step list *)
Theorem split_map_wf : forall parts off,
  Forall (fun Ia => Forall (fun r => (m_step r < List.length (fst Ia))%nat /\ (m_var r < nvars (ap_lp (snd Ia)))%nat) (ap_map (snd Ia))) parts ->
  Forall (fun r => (off <= m_var r < off + nvars (lp_concat (map (fun Ia => ap_lp (snd Ia)) parts)))%nat /\
                   exists Ia, In Ia parts /\ In (m_step r) (fst Ia)) (split_map parts off).
Proof.
  induction parts as [|[I a] rest IH]; intros off H; cbn [split_map]; [constructor|].
  inversion H as [|? ? Ha Hr]; subst. cbn [fst snd] in Ha.
  assert (N : nvars (lp_concat (map (fun Ia => ap_lp (snd Ia)) ((I, a) :: rest))) =
              (nvars (ap_lp a) + nvars (lp_concat (map (fun Ia => ap_lp (snd Ia)) rest)))%nat).
  { cbn [map lp_concat snd]. unfold nvars, lp_sum; cbn [lp_c]. rewrite app_length. reflexivity. }
  apply Forall_app. split.
  - unfold rebase. rewrite Forall_map. eapply Forall_impl; [|exact Ha]. intros r [Hs Hv]. cbn [m_var m_step]. split.
    + rewrite N. lia.
    + exists (I, a). split; [left; reflexivity|]. cbn [fst]. apply nth_In. exact Hs.
  - eapply Forall_impl; [|apply (IH (off + nvars (ap_lp a))%nat Hr)]. intros r [Hv (Ia & Hin & Hst)]. split.
    + rewrite N. lia.
    + exists Ia. split; [right; exact Hin|exact Hst].
Qed.

(* sharper: every row of the joint mapping points into the variable block of ITS OWN interval (the k-th block starts after the
   variables of the k earlier intervals) and to a step of that interval's original step list *)
Definition part_nv (Ia : list nat * aprob) : nat := nvars (ap_lp (snd Ia)).
Definition off_at (parts : list (list nat * aprob)) (k : nat) : nat := list_sum (map part_nv (firstn k parts)).

Theorem split_map_own_block : forall parts off,
  Forall (fun Ia => Forall (fun r => (m_step r < List.length (fst Ia))%nat /\ (m_var r < nvars (ap_lp (snd Ia)))%nat) (ap_map (snd Ia))) parts ->
  Forall (fun r => exists k Ia, nth_error parts k = Some Ia /\
                   (off + off_at parts k <= m_var r < off + off_at parts k + part_nv Ia)%nat /\ In (m_step r) (fst Ia))
         (split_map parts off).
Proof.
  induction parts as [|[I a] rest IH]; intros off H; cbn [split_map]; [constructor|].
  inversion H as [|? ? Ha Hr]; subst. cbn [fst snd] in Ha.
  apply Forall_app. split.
  - unfold rebase. rewrite Forall_map. eapply Forall_impl; [|exact Ha]. intros r [Hs Hv]. cbn [m_var m_step].
    exists 0%nat, (I, a). split; [reflexivity|]. unfold off_at, part_nv, list_sum. cbn [firstn map fold_right fst snd]. split; [lia|apply nth_In; exact Hs].
  - eapply Forall_impl; [|apply (IH (off + nvars (ap_lp a))%nat Hr)]. intros r (k & Ia & Hn & Hv & Hst).
    exists (S k), Ia. split; [exact Hn|]. split; [|exact Hst].
    unfold off_at, list_sum in *. cbn [firstn map fold_right]. change (part_nv (I, a)) with (nvars (ap_lp a)). lia.
Qed.
