(* StorageBlocks.v — C05, storages optimised in time blocks (assets.py:413-446): the level rows are block-diagonal,
   every block starts again from the start level and ends at the end level.  With start level = end level and no inflow
   (the case in which the implementation's rows are right; the other cases are known findings) the physical level
   obeys the same bounds in every block. *)
From Coq Require Import QArith ZArith List Lia Lqa Bool String Arith.
From EAO Require Import Num LP Mapping Grid Assets StorageProofs.
Import ListNotations.
Open Scope Q_scope.

(* block boundaries as the implementation finds them (assets.py:419-436) for a block size given as a fixed duration B:
   dates start-B, start, start+B, ... up to the end; for each the index of the last time point not after it (0 if none),
   stopping after the first date that covers all points; duplicates removed; n appended *)
Definition last_le (tp : list Z) (d : Z) : nat := Nat.pred (List.length (filter (fun t => Z.leb t d) tp)).
Fixpoint block_dates (fuel : nat) (tp : list Z) (d B e : Z) : list nat :=
  match fuel with O => [] | S f =>
    if Z.ltb e d then [] else
    let idx := if existsb (fun t => Z.leb t d) tp then last_le tp d else 0%nat in
    if forallb (fun t => Z.leb t d) tp then [idx] else idx :: block_dates f tp (d + B) B e end.
Fixpoint dedup_sorted (l : list nat) : list nat :=
  match l with a :: ((b :: _) as r) => if Nat.eqb a b then dedup_sorted r else a :: dedup_sorted r | _ => l end.
Definition block_bounds (tp : list Z) (s e B : Z) : list nat :=
  let n := List.length tp in
  let aa := dedup_sorted (block_dates (S (S n)) tp (s - B) B e) in
  if Nat.eqb (last aa 0%nat) n then aa else aa ++ [n].

(* block start of step i, and whether step i is the last of its block *)
Definition blk_start (aa : list nat) (i : nat) : nat :=
  fold_left (fun acc b => if Nat.leb b i then Nat.max acc b else acc) aa 0%nat.
Definition blk_last (aa : list nat) (i : nat) : bool := existsb (Nat.eqb (S i)) aa.

Definition blk_arow (p : storage_p) (n bs i : nat) : srow :=
  if st_sep p then tril_row bs (i - bs) (- sp_eff p) ++ tril_row (n + bs) (i - bs) (-1) else tril_row bs (i - bs) (-1).
(* right-hand sides (assets.py:440-446): the cumulative inflow is NOT restarted per block and the last row of every block
   uses inflow[-1] — as in the implementation *)
Definition blk_bup (p : storage_p) (n : nat) (dt : vec) (aa : list nat) (i : nat) : Q :=
  if blk_last aa i then Qred (sp_end p - sp_start p - nth (Nat.pred n) (st_inflow p dt) 0)
  else Qred (sp_size p - sp_start p - nth i (st_inflow p dt) 0).
Definition blk_blo (p : storage_p) (n : nat) (dt : vec) (aa : list nat) (i : nat) : Q :=
  if blk_last aa i then Qred (sp_end p - sp_start p - nth (Nat.pred n) (st_inflow p dt) 0)
  else Qred (- sp_start p - nth i (st_inflow p dt) 0).
Definition st_block_rows (p : storage_p) (n : nat) (dt : vec) (aa : list nat) : list crow :=
  map (fun i => {| r_a := blk_arow p n (blk_start aa i) i; r_t := RU; r_b := blk_bup p n dt aa i |}) (seq 0 n) ++
  map (fun i => {| r_a := blk_arow p n (blk_start aa i) i; r_t := RL; r_b := blk_blo p n dt aa i |}) (seq 0 n).

(* the boundaries form blocks: the first block starts at 0, a block starts right after a last step and nowhere else *)
Definition blocks_coherent (aa : list nat) (n : nat) : bool :=
  Nat.eqb (blk_start aa 0) 0 &&
  forallb (fun i => Nat.leb (blk_start aa (S i)) (S i) &&
                    (if blk_last aa i then Nat.eqb (blk_start aa (S i)) (S i) else Nat.eqb (blk_start aa (S i)) (blk_start aa i)))
          (seq 0 (Nat.pred n)).

(* ---- proofs ---- *)
Definition bsum (p : storage_p) (n : nat) (x : vec) (bs t : nat) : Q :=
  qsum (map (fun j => net p n x (bs + j)%nat) (seq 0 (S (t - bs)))).
Definition gsum (p : storage_p) (n : nat) (x : vec) (t : nat) : Q := qsum (map (net p n x) (seq 0 (S t))).

Lemma blk_arow_sdot p n bs i x : sdot (blk_arow p n bs i) x == bsum p n x bs i.
Proof.
  unfold blk_arow, bsum, net. destruct (st_sep p).
  - rewrite sdot_app, !tril_sdot, <- qsum_map_add. apply qsum_map_ext. intros j _.
    rewrite Nat.add_assoc. ring.
  - rewrite tril_sdot. apply qsum_map_ext. intros j _. ring.
Qed.

Lemma gsum_S p n x t : gsum p n x (S t) == gsum p n x t + net p n x (S t).
Proof. unfold gsum. rewrite (seq_S (S t) 0), map_app, qsum_app. cbn [map qsum Nat.add]. ring. Qed.

Lemma bsum_S p n x bs t : (bs <= t)%nat -> bsum p n x bs (S t) == bsum p n x bs t + net p n x (S t).
Proof.
  intros H. unfold bsum. replace (S (S t - bs)) with (S (S (t - bs))) by lia.
  rewrite (seq_S (S (t - bs)) 0), map_app, qsum_app. cbn [map qsum Nat.add].
  replace (bs + S (t - bs))%nat with (S t) by lia. ring.
Qed.

Lemma bsum_self p n x t : bsum p n x t t == net p n x t.
Proof. unfold bsum. rewrite Nat.sub_diag. cbn [seq map qsum]. rewrite Nat.add_0_r. ring. Qed.

Lemma gsum_0 p n x : gsum p n x 0 == net p n x 0.
Proof. unfold gsum. cbn [seq map qsum]. ring. Qed.

Section Blocks.
  Variables (p : storage_p) (n : nat) (dt x : vec) (aa : list nat).
  Hypothesis Hn : n = List.length dt.
  Hypothesis Hcoh : blocks_coherent aa n = true.
  Hypothesis Hinf : sp_inflow p == 0.
  Hypothesis Hse : sp_start p == sp_end p.
  Hypothesis Hrows : Forall (row_ok x) (st_block_rows p n dt aa).

  Lemma inflow_zero i : (i < n)%nat -> nth i (st_inflow p dt) 0 == 0.
  Proof.
    intros Hi. rewrite inflow_nth by lia. clear Hi.
    generalize (firstn (S i) dt). intros l. induction l as [|d l IH]; cbn [map qsum]; [reflexivity|].
    rewrite IH, Hinf. ring.
  Qed.

  Lemma rows_at t : (t < n)%nat ->
    (blk_last aa t = true -> sp_start p + bsum p n x (blk_start aa t) t == sp_end p) /\
    (blk_last aa t = false -> 0 <= sp_start p + bsum p n x (blk_start aa t) t /\ sp_start p + bsum p n x (blk_start aa t) t <= sp_size p).
  Proof.
    intros Ht. pose proof Hrows as Hr. unfold st_block_rows in Hr. apply Forall_app in Hr. destruct Hr as [Hup Hlo].
    rewrite Forall_map, Forall_forall in Hup, Hlo.
    assert (Hin : In t (seq 0 n)) by (apply in_seq; lia).
    specialize (Hup t Hin). specialize (Hlo t Hin).
    unfold row_ok in Hup, Hlo. cbn [r_t r_a r_b] in Hup, Hlo.
    rewrite blk_arow_sdot in Hup, Hlo. unfold blk_bup in Hup. unfold blk_blo in Hlo.
    pose proof (inflow_zero t Ht) as I1. pose proof (inflow_zero (Nat.pred n) ltac:(lia)) as I2.
    destruct (blk_last aa t).
    - rewrite Qred_correct in Hup, Hlo. split; [intros _|intros C; discriminate]. lra.
    - rewrite Qred_correct in Hup, Hlo. split; [intros C; discriminate|intros _]. lra.
  Qed.

  Lemma coh_step i : (S i < n)%nat ->
    (blk_start aa (S i) <= S i)%nat /\
    (blk_last aa i = true -> blk_start aa (S i) = S i) /\ (blk_last aa i = false -> blk_start aa (S i) = blk_start aa i).
  Proof.
    intros Hi. pose proof Hcoh as H. unfold blocks_coherent in H. apply andb_true_iff in H. destruct H as [_ H].
    rewrite forallb_forall in H. specialize (H i ltac:(apply in_seq; lia)).
    apply andb_true_iff in H. destruct H as [H1 H2]. apply Nat.leb_le in H1. split; [exact H1|].
    destruct (blk_last aa i); split; intros C; try discriminate; apply Nat.eqb_eq; exact H2.
  Qed.

  Lemma coh_0 : blk_start aa 0 = 0%nat.
  Proof. pose proof Hcoh as H. unfold blocks_coherent in H. apply andb_true_iff in H. destruct H as [H _]. apply Nat.eqb_eq. exact H. Qed.

  Lemma start_le t : (t < n)%nat -> (blk_start aa t <= t)%nat.
  Proof. destruct t as [|t]; intros Ht; [rewrite coh_0; lia|]. apply coh_step. exact Ht. Qed.

  (* the sum over the whole history equals the sum over the current block: completed blocks net to zero *)
  Lemma global_is_block t : (t < n)%nat -> gsum p n x t == bsum p n x (blk_start aa t) t.
  Proof.
    induction t as [|t IH]; intros Ht.
    - rewrite coh_0, gsum_0, bsum_self. reflexivity.
    - specialize (IH ltac:(lia)). destruct (coh_step t Ht) as (Hle & Hl & Hnl).
      rewrite gsum_S. destruct (blk_last aa t) eqn:El.
      + rewrite (Hl eq_refl), bsum_self.
        destruct (rows_at t ltac:(lia)) as [R _]. specialize (R El). rewrite IH. lra.
      + rewrite (Hnl eq_refl). rewrite bsum_S by (apply start_le; lia). rewrite IH. reflexivity.
  Qed.

  Lemma level_is_block t : (t < n)%nat -> level p n dt x t == sp_start p + bsum p n x (blk_start aa t) t.
  Proof.
    intros Ht. unfold level. fold (gsum p n x t). rewrite global_is_block by exact Ht.
    assert (Z0 : qsum (map (fun d => sp_inflow p * d) (firstn (S t) dt)) == 0).
    { generalize (firstn (S t) dt). intros l. induction l as [|d l IH]; cbn [map qsum]; [reflexivity|]. rewrite IH, Hinf. ring. }
    rewrite Z0. ring.
  Qed.

  Theorem block_physics t : (t < n)%nat ->
    (blk_last aa t = true -> level p n dt x t == sp_end p) /\
    (blk_last aa t = false -> 0 <= level p n dt x t /\ level p n dt x t <= sp_size p).
  Proof.
    intros Ht. destruct (rows_at t Ht) as [R1 R2]. split; intros E; rewrite level_is_block by exact Ht; auto.
  Qed.
End Blocks.

(* ---- any list of boundaries forms blocks ---- *)
Definition bstep (i acc b : nat) : nat := if Nat.leb b i then Nat.max acc b else acc.
Lemma blk_start_fold aa i : blk_start aa i = fold_left (bstep i) aa 0%nat.
Proof. reflexivity. Qed.

Lemma bs_le aa : forall acc i, (acc <= i)%nat -> (fold_left (bstep i) aa acc <= i)%nat.
Proof.
  induction aa as [|b r IH]; intros acc i H; cbn [fold_left]; [exact H|].
  apply IH. unfold bstep. destruct (Nat.leb_spec b i); lia.
Qed.
Lemma bs_ge aa : forall acc i, (acc <= fold_left (bstep i) aa acc)%nat.
Proof.
  induction aa as [|b r IH]; intros acc i; cbn [fold_left]; [lia|].
  etransitivity; [|apply IH]. unfold bstep. destruct (Nat.leb_spec b i); lia.
Qed.
Lemma bs_hit aa i : In i aa -> forall acc, (acc <= i)%nat -> fold_left (bstep i) aa acc = i.
Proof.
  induction aa as [|b r IH]; intros Hin acc H; [contradiction|]. cbn [fold_left].
  destruct (Nat.eq_dec b i) as [E|E].
  - subst b. unfold bstep at 2. rewrite Nat.leb_refl. replace (Nat.max acc i) with i by lia.
    apply Nat.le_antisymm; [apply bs_le; lia|apply bs_ge].
  - destruct Hin as [C|Hin]; [contradiction|]. apply IH; [exact Hin|].
    unfold bstep. destruct (Nat.leb_spec b i); lia.
Qed.
Lemma bs_miss aa i : ~ In (S i) aa -> forall acc, fold_left (bstep (S i)) aa acc = fold_left (bstep i) aa acc.
Proof.
  induction aa as [|b r IH]; intros Hn acc; [reflexivity|]. cbn [fold_left].
  assert (Hb : b <> S i) by (intros C; apply Hn; left; exact C).
  assert (Hr : ~ In (S i) r) by (intros C; apply Hn; right; exact C).
  replace (bstep (S i) acc b) with (bstep i acc b).
  - apply IH. exact Hr.
  - unfold bstep. destruct (Nat.leb_spec b i), (Nat.leb_spec b (S i)); try reflexivity; lia.
Qed.
Lemma blk_last_in aa i : blk_last aa i = true <-> In (S i) aa.
Proof.
  unfold blk_last. rewrite existsb_exists. split.
  - intros (y & Hy & E). apply Nat.eqb_eq in E. subst y. exact Hy.
  - intros H. exists (S i). split; [exact H|apply Nat.eqb_refl].
Qed.

(* any list of boundaries forms blocks: the hypothesis of block_physics always holds *)
Lemma blocks_coherent_any aa n : blocks_coherent aa n = true.
Proof.
  unfold blocks_coherent. apply andb_true_iff. split.
  - apply Nat.eqb_eq. rewrite blk_start_fold. apply Nat.le_antisymm; [apply bs_le; lia|lia].
  - apply forallb_forall. intros i _. apply andb_true_iff. split.
    + apply Nat.leb_le. rewrite blk_start_fold. apply bs_le. lia.
    + destruct (blk_last aa i) eqn:El.
      * apply Nat.eqb_eq. rewrite blk_start_fold. apply bs_hit; [apply blk_last_in; exact El|lia].
      * apply Nat.eqb_eq. rewrite !blk_start_fold. apply bs_miss.
        intros C. apply blk_last_in in C. rewrite C in El. discriminate.
Qed.

Theorem block_physics_any p n dt x aa : n = List.length dt ->
  (sp_inflow p == 0)%Q -> (sp_start p == sp_end p)%Q ->
  Forall (row_ok x) (st_block_rows p n dt aa) ->
  forall t, (t < n)%nat ->
    (blk_last aa t = true -> (level p n dt x t == sp_end p)%Q) /\
    (blk_last aa t = false -> (0 <= level p n dt x t)%Q /\ (level p n dt x t <= sp_size p)%Q).
Proof. intros Hn Hi Hs Hr. apply block_physics; auto. apply blocks_coherent_any. Qed.

(* The known finding, as a theorem about the faithful model: with start level <> end level the block rows (every block starts again
   from the START level, although the previous block ended at the END level) admit schedules whose physical level leaves [0, size]:
   size 4, start 3, end 1, two blocks of two steps, one unit discharged per step: level 2, 1, 0, -1. *)
Lemma blocks_start_ne_end_refuted :
  exists p n dt aa x t, n = List.length dt /\ blocks_coherent aa n = true /\ sp_inflow p == 0 /\ storage_ctor_ok p = true /\
    Forall (row_ok x) (st_block_rows p n dt aa) /\ in_box (st_l p n dt) (st_u p n dt) x /\ (t < n)%nat /\
    level p n dt x t < 0.
Proof.
  exists (Build_storage_p "s" ["n"]%string 4 2 2 3 1 0 0 0 1 0 None false None), 4%nat, [1; 1; 1; 1], [0; 2; 4]%nat, [1; 1; 1; 1], 3%nat.
  split; [reflexivity|]. split; [vm_compute; reflexivity|]. split; [vm_compute; reflexivity|]. split; [vm_compute; reflexivity|].
  split; [|split; [|split]].
  - set (r := st_block_rows _ _ _ _). vm_compute in r. subst r. repeat constructor; vm_compute; intuition discriminate.
  - vm_compute. intuition discriminate.
  - repeat constructor.
  - vm_compute. reflexivity.
Qed.

(* ---- correspondence: the level rows of a storage with a block size of fixed duration, against the implementation's rows ---- *)
From EAO Require Import Cert Corr.
Definition c05_block_case (rg : option rgrid) (p : storage_p) (s e B : Z) (P : lp) : list bool :=
  match rg with
  | None => [true; true]
  | Some rg =>
      let n := rg_T rg in
      if Nat.eqb n 0 then [true; true] else
      let aa := block_bounds (rg_tp rg) s e B in
      let nv := if st_sep p then (n + n)%nat else n in
      let R := st_block_rows p n (rg_dt rg) aa in
      [ rows_close nv R (lp_rows P) || rows_close_perm nv R (lp_rows P); blocks_coherent aa n ]
  end.
