(* StorageDur.v — C05, maximum holding duration (assets.py:513-548): binary "non-empty" indicators; the upper level rows are
   switched off where the indicator is 0, and every window of steps that lasts longer than the duration must contain a step
   whose indicator is 0.  With start level 0 and no inflow (the other cases are known findings) the level is back at zero
   somewhere inside every such window: it is never non-zero for longer than the duration. *)
From Coq Require Import QArith ZArith List Lia Lqa Bool String Arith.
From EAO Require Import Num LP Mapping Grid Assets StorageProofs.
Import ListNotations.
Open Scope Q_scope.

(* the two groups of rows add_max_dur produces, named *)
Definition md_js (dt : vec) (md : Q) (i : nat) : option (list nat) :=
  let inw := map (fun v => Qle_bool v md) (cumsum (skipn i dt)) in
  match index_of 0%nat (map (fun b : bool => if b then 1%nat else 0%nat) inw) with
  | None => None
  | Some k => Some (filter (fun j => nth j inw false || Nat.eqb j k) (seq 0 (List.length inw)))
  end.
Definition md_win (m : nat) (dt : vec) (md : Q) (i : nat) : list crow :=
  match md_js dt md i with
  | None => []
  | Some js => let cols := map (fun j => ((m + i + j)%nat, 1)) js in
               [ {| r_a := cols; r_t := RU; r_b := inject_Z (Z.of_nat (List.length cols)) - 1 |} ]
  end.
Definition md_rows1 (m n : nat) (rows : list crow) : list crow :=
  map (fun ir => let i := fst ir in let r := snd ir in
         if Nat.ltb i n then {| r_a := r_a r ++ [((m + i)%nat, - r_b r)]; r_t := r_t r; r_b := 0 |} else r)
      (combine (seq 0 (List.length rows)) rows).

Lemma add_max_dur_rows name n dt md I a :
  lp_rows (ap_lp (add_max_dur name n dt md I a)) =
  md_rows1 (nvars (ap_lp a)) n (lp_rows (ap_lp a)) ++ flat_map (md_win (nvars (ap_lp a)) dt md) (seq 0 n).
Proof.
  unfold add_max_dur. cbn [ap_lp lp_rows]. f_equal. apply flat_map_ext. intros i.
  unfold md_win, md_js. destruct (index_of _ _); reflexivity.
Qed.

Lemma combine_seq_in {A} (l : list A) d : forall s t, (t < List.length l)%nat ->
  In ((s + t)%nat, nth t l d) (combine (seq s (List.length l)) l).
Proof.
  induction l as [|a l IH]; intros s t Ht; cbn [List.length] in *; [lia|].
  cbn [seq combine]. destruct t as [|t].
  - left. rewrite Nat.add_0_r. reflexivity.
  - right. replace (s + S t)%nat with (S s + t)%nat by lia. apply IH. lia.
Qed.

Lemma nth_map_seq {A} (f : nat -> A) n t d : (t < n)%nat -> nth t (map f (seq 0 n)) d = f t.
Proof.
  intros H. rewrite (nth_indep _ d (f 0%nat)) by (rewrite map_length, seq_length; exact H).
  rewrite (map_nth f), seq_nth by exact H. reflexivity.
Qed.

Lemma st_rows_nth_up p n dt t d : (t < n)%nat ->
  nth t (st_rows p n dt) d = {| r_a := st_arow p n t; r_t := RU; r_b := st_bup p n dt t |}.
Proof.
  intros Ht. unfold st_rows. rewrite app_nth1 by (rewrite map_length, seq_length; exact Ht).
  apply (nth_map_seq (fun i => {| r_a := st_arow p n i; r_t := RU; r_b := st_bup p n dt i |})). exact Ht.
Qed.

Lemma st_rows_length p n dt : List.length (st_rows p n dt) = (n + n)%nat.
Proof. unfold st_rows. rewrite app_length, !map_length, seq_length. reflexivity. Qed.

Lemma rows1_in p n dt m t : (t < n)%nat ->
  In {| r_a := st_arow p n t ++ [((m + t)%nat, - st_bup p n dt t)]; r_t := RU; r_b := 0 |} (md_rows1 m n (st_rows p n dt)).
Proof.
  intros Ht. unfold md_rows1. apply in_map_iff.
  exists (t, {| r_a := st_arow p n t; r_t := RU; r_b := st_bup p n dt t |}). split.
  - cbn [fst snd]. apply Nat.ltb_lt in Ht. rewrite Ht. reflexivity.
  - pose proof (combine_seq_in (st_rows p n dt) {| r_a := []; r_t := RU; r_b := 0 |} 0 t) as H.
    rewrite st_rows_length in H. specialize (H ltac:(lia)).
    rewrite st_rows_nth_up in H by exact Ht. cbn [Nat.add] in H. rewrite st_rows_length. exact H.
Qed.

(* a row "sum of binaries <= count - 1" forces one of them to zero *)
Lemma ones_row_zero (cols : list nat) x :
  (forall c, In c cols -> nth c x 0 == 0 \/ nth c x 0 == 1) ->
  sdot (map (fun c => (c, 1)) cols) x <= inject_Z (Z.of_nat (List.length cols)) - 1 ->
  exists c, In c cols /\ nth c x 0 == 0.
Proof.
  induction cols as [|c r IH]; intros Hb Hs.
  - exfalso. revert Hs. unfold sdot, Qle. cbn. lia.
  - destruct (Hb c (or_introl eq_refl)) as [Z0|Z1].
    + exists c. split; [left; reflexivity|exact Z0].
    + destruct IH as (c' & Hin & Hz).
      * intros c' Hc'. apply Hb. right. exact Hc'.
      * unfold sdot in *. cbn [map qsum fst snd List.length] in Hs.
        rewrite Nat2Z.inj_succ, <- Z.add_1_r, inject_Z_plus in Hs. rewrite Z1 in Hs. change (inject_Z 1) with 1 in Hs. lra.
      * exists c'. split; [right; exact Hin|exact Hz].
Qed.

Section Dur.
  Variables (p : storage_p) (n m : nat) (dt x : vec) (md : Q).
  Hypothesis Hn : n = List.length dt.
  Hypothesis Hstart : sp_start p == 0.
  Hypothesis Hinf : sp_inflow p == 0.
  Hypothesis Hrows : Forall (row_ok x) (md_rows1 m n (st_rows p n dt) ++ flat_map (md_win m dt md) (seq 0 n)).
  Hypothesis Hbin : forall t, (t < n)%nat -> nth (m + t) x 0 == 0 \/ nth (m + t) x 0 == 1.

  Lemma inflow_zero' i : (i < n)%nat -> nth i (st_inflow p dt) 0 == 0.
  Proof.
    intros Hi. rewrite inflow_nth by lia. clear Hi.
    generalize (firstn (S i) dt). intros l. induction l as [|d l IH]; cbn [map qsum]; [reflexivity|].
    rewrite IH, Hinf. ring.
  Qed.

  (* indicator 0 => the level is not above zero *)
  Lemma indicator_zero_level t : (t < n)%nat -> nth (m + t) x 0 == 0 -> level p n dt x t <= 0.
  Proof.
    intros Ht Hz. pose proof Hrows as Hr. apply Forall_app in Hr. destruct Hr as [H1 _]. rewrite Forall_forall in H1.
    specialize (H1 _ (rows1_in p n dt m t Ht)). unfold row_ok in H1. cbn [r_t r_a r_b] in H1.
    rewrite sdot_app, arow_sdot in H1. unfold sdot in H1 at 1. cbn [map qsum fst snd] in H1. rewrite Hz in H1.
    unfold level.
    assert (Z0 : qsum (map (fun d => sp_inflow p * d) (firstn (S t) dt)) == 0).
    { generalize (firstn (S t) dt). intros l. induction l as [|d l IH]; cbn [map qsum]; [reflexivity|]. rewrite IH, Hinf. ring. }
    rewrite Z0, Hstart. lra.
  Qed.

  (* every window row: one of its steps has the level at (or below) zero *)
  Theorem window_has_empty_step i js : (i < n)%nat -> md_js dt md i = Some js ->
    exists j, In j js /\ (i + j < n)%nat /\ level p n dt x (i + j) <= 0.
  Proof.
    intros Hi Hjs. pose proof Hrows as Hr. apply Forall_app in Hr. destruct Hr as [_ H2]. rewrite Forall_forall in H2.
    assert (Hin : In {| r_a := map (fun j => ((m + i + j)%nat, 1)) js; r_t := RU;
                        r_b := inject_Z (Z.of_nat (List.length (map (fun j => ((m + i + j)%nat, 1)) js))) - 1 |}
                     (flat_map (md_win m dt md) (seq 0 n))).
    { apply in_flat_map. exists i. split; [apply in_seq; lia|]. unfold md_win. rewrite Hjs. left. reflexivity. }
    specialize (H2 _ Hin). unfold row_ok in H2. cbn [r_t r_a r_b] in H2. rewrite map_length in H2.
    (* all js are below n - i *)
    assert (Hlt : forall j, In j js -> (i + j < n)%nat).
    { intros j Hj. unfold md_js in Hjs. destruct (index_of _ _); [|discriminate]. inversion Hjs as [E]. subst js.
      apply filter_In in Hj. destruct Hj as [Hj _]. apply in_seq in Hj.
      rewrite map_length in Hj. unfold cumsum in Hj. rewrite cumsum_from_length, skipn_length in Hj. lia. }
    assert (E : map (fun j => ((m + i + j)%nat, 1)) js = map (fun c => (c, 1)) (map (fun j => (m + i + j)%nat) js)).
    { rewrite map_map. reflexivity. }
    rewrite E in H2.
    destruct (ones_row_zero (map (fun j => (m + i + j)%nat) js) x) as (c & Hc & Hz).
    - intros c Hc. apply in_map_iff in Hc. destruct Hc as (j & <- & Hj). rewrite <- Nat.add_assoc. apply Hbin. apply Hlt. exact Hj.
    - rewrite map_length. exact H2.
    - apply in_map_iff in Hc. destruct Hc as (j & <- & Hj). exists j. split; [exact Hj|]. split; [apply Hlt; exact Hj|].
      apply indicator_zero_level; [apply Hlt; exact Hj|]. rewrite Nat.add_assoc. exact Hz.
  Qed.
End Dur.

Lemma rows_of_mk P mp : lp_rows (ap_lp {| ap_lp := P; ap_map := mp |}) = lp_rows P.
Proof. reflexivity. Qed.

(* the builder emits exactly these rows when a maximum holding duration is set (no no-simultaneous option) *)
Lemma storage_dur_shape g rg p a md :
  storage g rg p = Some a -> sp_no_simult p = false -> sp_max_dur p = Some md -> rg_T rg <> 0%nat ->
  exists m, lp_rows (ap_lp a) =
    md_rows1 m (rg_T rg) (st_rows p (rg_T rg) (rg_dt rg)) ++ flat_map (md_win m (rg_dt rg) md) (seq 0 (rg_T rg)).
Proof.
  intros H Hs Hm Hn. unfold storage in H.
  destruct (Nat.eqb_spec (rg_T rg) 0) as [E|_]; [contradiction|].
  rewrite Hs, Hm in H. cbn [andb] in H.
  destruct (sp_price p) as [v|].
  - destruct (Nat.eqb (List.length v) (g_T g)); [|discriminate].
    destruct (extend_minor _ _ _); [|discriminate]. pose proof (f_equal (fun o => match o with Some z => lp_rows (ap_lp z) | None => [] end) H) as Ha. cbv beta iota in Ha.
    rewrite <- Ha, rows_of_mk, add_max_dur_rows. eexists. reflexivity.
  - destruct (extend_minor _ _ _); [|discriminate]. pose proof (f_equal (fun o => match o with Some z => lp_rows (ap_lp z) | None => [] end) H) as Ha. cbv beta iota in Ha.
    rewrite <- Ha, rows_of_mk, add_max_dur_rows. eexists. reflexivity.
Qed.

Theorem storage_holding_duration g rg p a md :
  storage g rg p = Some a -> sp_no_simult p = false -> sp_max_dur p = Some md -> rg_T rg <> 0%nat ->
  List.length (rg_dt rg) = rg_T rg -> sp_start p == 0 -> sp_inflow p == 0 ->
  exists m, forall x,
    Forall (row_ok x) (lp_rows (ap_lp a)) ->
    (forall t, (t < rg_T rg)%nat -> nth (m + t) x 0 == 0 \/ nth (m + t) x 0 == 1) ->
    forall i js, (i < rg_T rg)%nat -> md_js (rg_dt rg) md i = Some js ->
      exists j, In j js /\ (i + j < rg_T rg)%nat /\ level p (rg_T rg) (rg_dt rg) x (i + j) <= 0.
Proof.
  intros H Hs Hm Hn Hl H0 Hi. destruct (storage_dur_shape g rg p a md H Hs Hm Hn) as (m & E).
  exists m. intros x Hr Hb i js Hi' Hjs. rewrite E in Hr.
  apply (window_has_empty_step p (rg_T rg) m (rg_dt rg) x md (eq_sym Hl) H0 Hi Hr Hb i js Hi' Hjs).
Qed.

(* The known finding, as a theorem about the faithful model: with a start level above zero the indicator rows bound the NET charge,
   not the level - a storage that simply keeps its start level satisfies every row with all indicators 0, and its level is
   non-zero for longer than the duration (size 4, start = end = 1, duration 1, three steps of length 1, no dispatch). *)
Lemma holding_duration_start_level_refuted :
  exists p n m dt md x i js, n = List.length dt /\ sp_inflow p == 0 /\ storage_ctor_ok p = true /\ sp_max_dur p = Some md /\
    Forall (row_ok x) (md_rows1 m n (st_rows p n dt) ++ flat_map (md_win m dt md) (seq 0 n)) /\
    (forall t, (t < n)%nat -> nth (m + t) x 0 == 0 \/ nth (m + t) x 0 == 1) /\
    (i < n)%nat /\ md_js dt md i = Some js /\ forall j, In j js -> 0 < level p n dt x (i + j).
Proof.
  exists (Build_storage_p "s" ["n"]%string 4 2 2 1 1 0 0 0 1 0 None false (Some 1)), 3%nat, 3%nat, [1; 1; 1], 1,
         [0; 0; 0; 0; 0; 0], 0%nat, [0; 1]%nat.
  split; [reflexivity|]. split; [vm_compute; reflexivity|]. split; [vm_compute; reflexivity|]. split; [reflexivity|].
  split; [|split; [|split; [|split]]].
  - set (r := _ ++ _). vm_compute in r. subst r. repeat constructor; vm_compute; intuition discriminate.
  - intros t Ht. left. destruct t as [|[|[|t]]]; try reflexivity. lia.
  - lia.
  - vm_compute. reflexivity.
  - intros j [<-|[<-|[]]]; vm_compute; reflexivity.
Qed.

(* ---- the level is exactly zero there: the lower level rows are untouched by the option ---- *)
Lemma st_rows_nth_lo p n dt t d : (t < n)%nat ->
  nth (n + t) (st_rows p n dt) d = {| r_a := st_arow p n t; r_t := RL; r_b := st_blo p n dt t |}.
Proof.
  intros Ht. unfold st_rows. rewrite app_nth2 by (rewrite map_length, seq_length; lia).
  rewrite map_length, seq_length. replace (n + t - n)%nat with t by lia.
  apply (nth_map_seq (fun i => {| r_a := st_arow p n i; r_t := RL; r_b := st_blo p n dt i |})). exact Ht.
Qed.

Lemma rows1_lo_in p n dt m t : (t < n)%nat ->
  In {| r_a := st_arow p n t; r_t := RL; r_b := st_blo p n dt t |} (md_rows1 m n (st_rows p n dt)).
Proof.
  intros Ht. unfold md_rows1. apply in_map_iff.
  exists ((n + t)%nat, {| r_a := st_arow p n t; r_t := RL; r_b := st_blo p n dt t |}). split.
  - cbn [fst snd]. assert (E : Nat.ltb (n + t) n = false) by (apply Nat.ltb_ge; lia). rewrite E. reflexivity.
  - pose proof (combine_seq_in (st_rows p n dt) {| r_a := []; r_t := RU; r_b := 0 |} 0 (n + t)) as H.
    rewrite st_rows_length in H. specialize (H ltac:(lia)).
    rewrite st_rows_nth_lo in H by exact Ht. cbn [Nat.add] in H. rewrite st_rows_length. exact H.
Qed.

(* the lower level rows are untouched by the holding-duration option: the level is never below zero (end level >= 0) *)
Lemma dur_level_nonneg p n m dt x md : n = List.length dt -> sp_start p == 0 -> sp_inflow p == 0 -> 0 <= sp_end p ->
  Forall (row_ok x) (md_rows1 m n (st_rows p n dt) ++ flat_map (md_win m dt md) (seq 0 n)) ->
  forall t, (t < n)%nat -> 0 <= level p n dt x t.
Proof.
  intros Hn Hs Hi He Hr t Ht. apply Forall_app in Hr. destruct Hr as [H1 _]. rewrite Forall_forall in H1.
  specialize (H1 _ (rows1_lo_in p n dt m t Ht)). unfold row_ok in H1. cbn [r_t r_a r_b] in H1.
  rewrite arow_sdot in H1. unfold st_blo in H1.
  assert (I0 : nth t (st_inflow p dt) 0 == 0).
  { rewrite inflow_nth by lia. generalize (firstn (S t) dt). intros l. induction l as [|d l IH]; cbn [map qsum]; [reflexivity|]. rewrite IH, Hi. ring. }
  assert (Z0 : qsum (map (fun d => sp_inflow p * d) (firstn (S t) dt)) == 0).
  { generalize (firstn (S t) dt). intros l. induction l as [|d l IH]; cbn [map qsum]; [reflexivity|]. rewrite IH, Hi. ring. }
  unfold level. rewrite Z0. destruct (Nat.eqb (S t) n); rewrite Qred_correct in H1; lra.
Qed.

Theorem storage_holding_duration_zero g rg p a md :
  storage g rg p = Some a -> sp_no_simult p = false -> sp_max_dur p = Some md -> rg_T rg <> 0%nat ->
  List.length (rg_dt rg) = rg_T rg -> sp_start p == 0 -> sp_inflow p == 0 -> 0 <= sp_end p ->
  exists m, forall x,
    Forall (row_ok x) (lp_rows (ap_lp a)) ->
    (forall t, (t < rg_T rg)%nat -> nth (m + t) x 0 == 0 \/ nth (m + t) x 0 == 1) ->
    forall i js, (i < rg_T rg)%nat -> md_js (rg_dt rg) md i = Some js ->
      exists j, In j js /\ (i + j < rg_T rg)%nat /\ level p (rg_T rg) (rg_dt rg) x (i + j) == 0.
Proof.
  intros H Hs Hm Hn Hl H0 Hi He. destruct (storage_dur_shape g rg p a md H Hs Hm Hn) as (m & E).
  exists m. intros x Hr Hb i js Hi' Hjs. rewrite E in Hr.
  destruct (window_has_empty_step p (rg_T rg) m (rg_dt rg) x md (eq_sym Hl) H0 Hi Hr Hb i js Hi' Hjs) as (j & Hj & Hlt & Hle).
  exists j. split; [exact Hj|]. split; [exact Hlt|].
  pose proof (dur_level_nonneg p (rg_T rg) m (rg_dt rg) x md (eq_sym Hl) H0 Hi He Hr (i + j)%nat Hlt) as Hge.
  apply Qle_antisym; assumption.
Qed.
