(* StorageProofs.v — C05: what the storage rows (assets.py:398-447, 476-511) force on every
   feasible point: the physical level stays in [0, size] and ends at the end level. *)
From Coq Require Import QArith ZArith List Lia Lqa Bool String Arith.
From EAO Require Import Num LP Mapping Grid Assets.
Import ListNotations.
Open Scope Q_scope.

(* net change of the stored volume in step k, from the dispatch variables:
   two variables (charge x_k <= 0 at efficiency eff, discharge x_{n+k} >= 0) or one variable *)
Definition net (p : storage_p) (n : nat) (x : vec) (k : nat) : Q :=
  if st_sep p then - sp_eff p * nth k x 0 - nth (n + k) x 0 else - nth k x 0.

(* physical level after step t:  start + eff*charged - discharged + accumulated inflow *)
Definition level (p : storage_p) (n : nat) (dt x : vec) (t : nat) : Q :=
  sp_start p + qsum (map (net p n x) (seq 0 (S t))) + qsum (map (fun d => sp_inflow p * d) (firstn (S t) dt)).

Lemma tril_sdot off i k x :
  sdot (tril_row off i k) x == qsum (map (fun j => k * nth (off + j) x 0) (seq 0 (S i))).
Proof. unfold tril_row, sdot. rewrite map_map. apply qsum_map_ext. intros j _. reflexivity. Qed.

Lemma arow_sdot p n i x : sdot (st_arow p n i) x == qsum (map (net p n x) (seq 0 (S i))).
Proof.
  unfold st_arow, net. destruct (st_sep p).
  - rewrite sdot_app, !tril_sdot, <- qsum_map_add. apply qsum_map_ext. intros j _. cbn [Nat.add]. ring.
  - rewrite tril_sdot. apply qsum_map_ext. intros j _. cbn [Nat.add]. ring.
Qed.

Lemma inflow_nth p dt i : (i < List.length dt)%nat ->
  nth i (st_inflow p dt) 0 == qsum (map (fun d => sp_inflow p * d) (firstn (S i) dt)).
Proof.
  intros Hi. unfold st_inflow, cumsum. rewrite cumsum_from_nth by (rewrite map_length; exact Hi).
  rewrite firstn_map. rewrite Qplus_0_l. apply qsum_map_ext. intros d _. apply Qred_correct.
Qed.

Theorem storage_physics p n dt x : n = List.length dt ->
  Forall (row_ok x) (st_rows p n dt) ->
  forall t, (t < n)%nat ->
    (S t = n -> level p n dt x t == sp_end p) /\
    (S t <> n -> 0 <= level p n dt x t /\ level p n dt x t <= sp_size p).
Proof.
  intros Hn Hrows t Ht. unfold st_rows in Hrows. apply Forall_app in Hrows. destruct Hrows as [Hup Hlo].
  rewrite Forall_map, Forall_forall in Hup, Hlo.
  assert (Hin : In t (seq 0 n)) by (apply in_seq; lia).
  specialize (Hup t Hin). specialize (Hlo t Hin).
  unfold row_ok in Hup, Hlo. cbn [r_t r_a r_b] in Hup, Hlo.
  rewrite arow_sdot in Hup, Hlo. unfold st_bup in Hup. unfold st_blo in Hlo.
  pose proof (inflow_nth p dt t ltac:(lia)) as Hinf.
  unfold level. destruct (Nat.eqb_spec (S t) n) as [E|E].
  - rewrite Qred_correct in Hup, Hlo. split; [intros _|intros C; contradiction]. lra.
  - rewrite Qred_correct in Hup, Hlo. split; [intros C; contradiction|intros _]. lra.
Qed.

(* per-step charge and discharge stay within rate x step length *)
Lemma in_box_at l u x j : in_box l u x -> (j < List.length x)%nat -> nth j l 0 <= nth j x 0 /\ nth j x 0 <= nth j u 0.
Proof. intros H Hj. apply in_box_nth; assumption. Qed.

Lemma nth_vneg l j : nth j (vneg l) 0 == - nth j l 0.
Proof. unfold vneg. revert j. induction l as [|a l IH]; intros [|j]; cbn [map nth]; try ring. apply IH. Qed.
Lemma nth_map_red (f : Q -> Q) l j : (j < List.length l)%nat -> nth j (map (fun d => Qred (f d)) l) 0 == f (nth j l 0).
Proof. revert j. induction l as [|a l IH]; intros [|j] H; simpl in H; try lia; cbn [map nth]; [apply Qred_correct|apply IH; lia]. Qed.
Lemma nth_repeat0 n j : nth j (repeat 0 n) 0 = 0.
Proof. revert j. induction n as [|n IH]; intros [|j]; cbn [repeat nth]; auto. Qed.

Lemma nth_app_r {A} (l1 l2 : list A) n t d : List.length l1 = n -> nth (n + t) (l1 ++ l2) d = nth t l2 d.
Proof. intros <-. apply nth_app_shift. Qed.

Theorem storage_rate_bounds p n dt x : n = List.length dt ->
  in_box (st_l p n dt) (st_u p n dt) x ->
  forall t, (t < n)%nat ->
    if st_sep p then
      (- (sp_cap_in p * nth t dt 0) <= nth t x 0 /\ nth t x 0 <= 0) /\
      (0 <= nth (n + t) x 0 /\ nth (n + t) x 0 <= sp_cap_out p * nth t dt 0)
    else - (sp_cap_in p * nth t dt 0) <= nth t x 0 /\ nth t x 0 <= sp_cap_out p * nth t dt 0.
Proof.
  intros Hn Hb t Ht. pose proof (in_box_length _ _ _ Hb) as [Ll Lu].
  unfold st_l, st_u in *. destruct (st_sep p).
  - assert (Lx : List.length x = (n + n)%nat).
    { rewrite <- Ll. rewrite app_length. unfold vneg. rewrite !map_length, repeat_length. lia. }
    destruct (in_box_at _ _ _ t Hb ltac:(lia)) as [A1 A2].
    destruct (in_box_at _ _ _ (n + t)%nat Hb ltac:(lia)) as [B1 B2].
    rewrite app_nth1 in A1 by (unfold vneg; rewrite !map_length; lia).
    rewrite app_nth1 in A2 by (rewrite repeat_length; lia).
    rewrite nth_vneg, nth_map_red in A1 by lia. rewrite nth_repeat0 in A2.
    assert (E1 : List.length (vneg (map (fun d : Q => Qred (sp_cap_in p * d)) dt)) = n) by (unfold vneg; rewrite !map_length; lia).
    assert (E2 : List.length (repeat 0 n) = n) by apply repeat_length.
    rewrite (nth_app_r _ _ n t 0 E1) in B1. rewrite nth_repeat0 in B1.
    rewrite (nth_app_r _ _ n t 0 E2) in B2. rewrite nth_map_red in B2 by lia.
    repeat split; assumption.
  - assert (Lx : List.length x = n) by (rewrite <- Ll; unfold vneg; rewrite !map_length; lia).
    destruct (in_box_at _ _ _ t Hb ltac:(lia)) as [A1 A2].
    rewrite nth_vneg, nth_map_red in A1 by lia. rewrite nth_map_red in A2 by lia. split; assumption.
Qed.

(* the builder emits exactly these pieces when no MIP option is set *)
Lemma storage_shape g rg p a :
  storage g rg p = Some a -> sp_no_simult p = false -> sp_max_dur p = None -> rg_T rg <> 0%nat ->
  lp_rows (ap_lp a) = st_rows p (rg_T rg) (rg_dt rg) /\
  lp_l (ap_lp a) = st_l p (rg_T rg) (rg_dt rg) /\ lp_u (ap_lp a) = st_u p (rg_T rg) (rg_dt rg).
Proof.
  intros H Hs Hm Hn. unfold storage in H.
  destruct (Nat.eqb_spec (rg_T rg) 0) as [E|_]; [contradiction|].
  rewrite Hs, Hm in H. cbn [andb] in H.
  destruct (sp_price p) as [v|].
  - destruct (Nat.eqb (List.length v) (g_T g)); [|discriminate].
    cbn [ap_map ap_lp] in H. destruct (extend_minor _ _ _); [|discriminate]. inversion H. cbn. auto.
  - cbn [ap_map ap_lp] in H. destruct (extend_minor _ _ _); [|discriminate]. inversion H. cbn. auto.
Qed.

(* C05 for the model's storage problem: every feasible point of the problem the builder returns *)
Theorem storage_feasible_physics g rg p a x :
  storage g rg p = Some a -> sp_no_simult p = false -> sp_max_dur p = None -> rg_T rg <> 0%nat ->
  List.length (rg_dt rg) = rg_T rg ->
  feasible (ap_lp a) x ->
  forall t, (t < rg_T rg)%nat ->
    ((S t = rg_T rg -> level p (rg_T rg) (rg_dt rg) x t == sp_end p) /\
     (S t <> rg_T rg -> 0 <= level p (rg_T rg) (rg_dt rg) x t /\ level p (rg_T rg) (rg_dt rg) x t <= sp_size p)) /\
    (if st_sep p then
      (- (sp_cap_in p * nth t (rg_dt rg) 0) <= nth t x 0 /\ nth t x 0 <= 0) /\
      (0 <= nth (rg_T rg + t) x 0 /\ nth (rg_T rg + t) x 0 <= sp_cap_out p * nth t (rg_dt rg) 0)
    else - (sp_cap_in p * nth t (rg_dt rg) 0) <= nth t x 0 /\ nth t x 0 <= sp_cap_out p * nth t (rg_dt rg) 0).
Proof.
  intros H Hs Hm Hn Hl [Hb Hr] t Ht.
  destruct (storage_shape g rg p a H Hs Hm Hn) as (Er & El & Eu).
  rewrite Er in Hr. rewrite El, Eu in Hb. split.
  - apply storage_physics; auto.
  - apply storage_rate_bounds; auto.
Qed.

(* ... and for a storage the constructor accepts (end level within [0, size]) the level is within [0, size] at EVERY step *)
Theorem storage_feasible_level_everywhere g rg p a x :
  storage_ctor_ok p = true ->
  storage g rg p = Some a -> sp_no_simult p = false -> sp_max_dur p = None -> rg_T rg <> 0%nat ->
  List.length (rg_dt rg) = rg_T rg ->
  feasible (ap_lp a) x ->
  forall t, (t < rg_T rg)%nat ->
    0 <= level p (rg_T rg) (rg_dt rg) x t /\ level p (rg_T rg) (rg_dt rg) x t <= sp_size p.
Proof.
  intros Hc H Hs Hm Hn Hl Hf t Ht.
  destruct (storage_feasible_physics g rg p a x H Hs Hm Hn Hl Hf t Ht) as [[Hlast Hin] _].
  unfold storage_ctor_ok in Hc. apply andb_true_iff in Hc. destruct Hc as [Hc He2].
  apply andb_true_iff in Hc. destruct Hc as [_ He1].
  apply Qle_bool_iff in He1. apply Qle_bool_iff in He2.
  destruct (Nat.eq_dec (S t) (rg_T rg)) as [E|E].
  - rewrite (Hlast E). split; assumption.
  - apply Hin; assumption.
Qed.

(* no simultaneous in/out: with the binary mode variable b_i the rows force one side to zero *)
Theorem no_simult_exclusive name n cp ct I a x i : (i < n)%nat ->
  Forall (row_ok x) (lp_rows (ap_lp (add_no_simult name n cp ct I a))) ->
  nth i x 0 <= 0 -> 0 <= nth (n + i) x 0 ->
  (nth (nvars (ap_lp a) + i) x 0 == 0 \/ nth (nvars (ap_lp a) + i) x 0 == 1) ->
  nth i x 0 == 0 \/ nth (n + i) x 0 == 0.
Proof.
  intros Hi Hrows Hin Hout Hb. unfold add_no_simult in Hrows. cbn [ap_lp lp_rows] in Hrows.
  apply Forall_app in Hrows. destruct Hrows as [_ Hrows]. apply Forall_app in Hrows. destruct Hrows as [Rin Rout].
  rewrite Forall_map, Forall_forall in Rin, Rout.
  assert (Hs : In i (seq 0 n)) by (apply in_seq; lia).
  specialize (Rin i Hs). specialize (Rout i Hs). unfold row_ok in Rin, Rout. cbn [r_t r_a r_b] in Rin, Rout.
  rewrite !sdot_cons, sdot_nil in Rin, Rout.
  destruct Hb as [Hb|Hb]; rewrite Hb in Rin, Rout.
  - right. lra.
  - left. lra.
Qed.
