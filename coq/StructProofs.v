(* StructProofs.v — C16: a structured asset wrapping a sub-portfolio is equivalent to the flat portfolio
   (portfolio.py:366-401). *)
From Coq Require Import QArith ZArith List Lia Lqa Bool String Arith.
From EAO Require Import Num LP Mapping Dcf Grid Assets Portfolio Split.
Import ListNotations.
Open Scope Q_scope.

(* at an external node the wrapper's mapping yields exactly the nodal row of the inner mapping: internal rows are
   re-typed 'i' (and renamed), external rows are untouched *)
Lemma struct_wrap_sel name ext n t r : existsb (String.eqb n) ext = true ->
  sel n t (hd r (ap_map (struct_wrap name ext {| ap_lp := Build_lp [] [] [] []; ap_map := [r] |}))) = sel n t r.
Proof.
  intros Hn. unfold struct_wrap; cbn [ap_map map hd]. unfold sel, is_d, at_node; cbn [m_type m_node m_step].
  destruct (m_node r) as [n'|]; [|rewrite !andb_false_r; reflexivity].
  destruct (existsb (String.eqb n') ext) eqn:En'; cbn [negb].
  - reflexivity.
  - (* internal row: type 'i' after wrapping; before wrapping it sits at a node different from n *)
    cbn. destruct (String.eqb_spec n n') as [->|_]; [congruence|]. rewrite !andb_false_r. reflexivity.
Qed.

Lemma struct_wrap_nodal_row name ext (a : aprob) n t : existsb (String.eqb n) ext = true ->
  nodal_row (ap_map (struct_wrap name ext a)) n t = nodal_row (ap_map a) n t.
Proof.
  intros Hn. unfold nodal_row, struct_wrap; cbn [ap_map].
  induction (ap_map a) as [|r mp IH]; cbn [map filter]; [reflexivity|].
  pose proof (struct_wrap_sel name ext n t r Hn) as E. unfold struct_wrap in E; cbn [ap_map map hd] in E. rewrite E.
  destruct (sel n t r); cbn [map]; rewrite IH; reflexivity.
Qed.

Lemma nodal_crows_in nodes skip steps mp r :
  In r (nodal_crows nodes skip steps mp) <->
  exists n t, In n nodes /\ existsb (String.eqb n) skip = false /\ In t steps /\ nodal_row mp n t <> [] /\
              r = {| r_a := nodal_row mp n t; r_t := RN; r_b := 0 |}.
Proof.
  unfold nodal_crows, nodal_rows. rewrite in_map_iff. split.
  - intros (trip & E & Hin). apply in_flat_map in Hin. destruct Hin as (n0 & Hn0 & Hin).
    destruct (existsb (String.eqb n0) skip) eqn:Es; [destruct Hin|].
    apply in_flat_map in Hin. destruct Hin as (t0 & Ht0 & Hin).
    destruct (nodal_row mp n0 t0) as [|e row'] eqn:Er; [destruct Hin|]. destruct Hin as [Hin|[]]. subst trip. cbn [snd] in E. subst r.
    exists n0, t0. rewrite Er. repeat split; auto. discriminate.
  - intros (n & t & Hn & Hs & Ht & Hne & ->). destruct (nodal_row mp n t) as [|e row] eqn:Er; [contradiction|].
    exists (t, n, e :: row). split; [reflexivity|]. apply in_flat_map. exists n. split; [exact Hn|]. rewrite Hs.
    apply in_flat_map. exists t. split; [exact Ht|]. rewrite Er. left. reflexivity.
Qed.

Lemma existsb_eqb_in n l : existsb (String.eqb n) l = true <-> In n l.
Proof.
  rewrite existsb_exists. split.
  - intros (y & Hy & E). apply String.eqb_eq in E. subst. exact Hy.
  - intros H. exists n. split; [exact H|apply String.eqb_refl].
Qed.

(* C16: the portfolio that contains only the structured asset (external nodes ext) has the same feasible points and the
   same values as the flat portfolio of the wrapped assets over all their nodes *)
Theorem structured_flatten_equiv name nodes ext steps aps x :
  (forall n, In n ext -> In n nodes) ->
  let flat := portfolio nodes [] steps aps in
  let wrapped := portfolio ext [] steps [struct_wrap name ext (portfolio nodes ext steps aps)] in
  (feasible (ap_lp wrapped) x <-> feasible (ap_lp flat) x) /\ value (ap_lp wrapped) x = value (ap_lp flat) x.
Proof.
  intros Hsub flat wrapped. subst flat wrapped.
  set (A := assemble aps). set (mp := ap_map A).
  set (inner := portfolio nodes ext steps aps).
  assert (Emap : ap_map inner = mp) by reflexivity.
  set (w := struct_wrap name ext inner).
  assert (Elp : ap_lp w = add_rows (ap_lp A) (nodal_crows nodes ext steps mp)) by reflexivity.
  unfold portfolio. cbn [ap_lp assemble ap_map]. fold A. fold mp. unfold ap_empty; cbn [ap_lp ap_map map]. rewrite app_nil_r.
  unfold value, feasible, add_rows, lp_sum; cbn [lp_c lp_l lp_u lp_rows map].
  rewrite !app_nil_r. rewrite Elp. cbn [add_rows lp_c lp_l lp_u lp_rows].
  split; [|reflexivity].
  rewrite !Forall_app.
  assert (R : (Forall (row_ok x) (nodal_crows nodes ext steps mp) /\ Forall (row_ok x) (nodal_crows ext [] steps (ap_map w))) <->
              Forall (row_ok x) (nodal_crows nodes [] steps mp)).
  { rewrite !Forall_forall. split.
    - intros [H1 H2] r Hr. apply nodal_crows_in in Hr. destruct Hr as (n & t & Hn & _ & Ht & Hne & ->).
      destruct (existsb (String.eqb n) ext) eqn:E.
      + apply H2. apply nodal_crows_in. exists n, t. pose proof (struct_wrap_nodal_row name ext inner n t E) as W. fold w in W. rewrite Emap in W.
        repeat split; auto; [apply existsb_eqb_in; exact E|rewrite W; exact Hne|rewrite W; reflexivity].
      + apply H1. apply nodal_crows_in. exists n, t. repeat split; auto.
    - intros H. split; intros r Hr; apply nodal_crows_in in Hr; destruct Hr as (n & t & Hn & Hs & Ht & Hne & ->).
      + apply H. apply nodal_crows_in. exists n, t. repeat split; auto.
      + assert (E : existsb (String.eqb n) ext = true) by (apply existsb_eqb_in; exact Hn).
        pose proof (struct_wrap_nodal_row name ext inner n t E) as W. fold w in W. rewrite Emap in W. rewrite W in *.
        apply H. apply nodal_crows_in. exists n, t. repeat split; auto. }
  tauto.
Qed.
