(* TimeUnit.v — C12: the main time unit is irrelevant; limits follow the step length. *)
From Coq Require Import QArith ZArith List Lia Lqa Bool Arith.
From EAO Require Import Num Grid Assets.
Import ListNotations.
Open Scope Q_scope.

Definition with_unit (g : grid) (u : Z) : grid := Build_grid (g_pts g) (g_start g) (g_end g) u.

Lemma inject_Z_nonzero z : (z <> 0)%Z -> ~ inject_Z z == 0.
Proof. intros H Hc. unfold Qeq, inject_Z in Hc. simpl in Hc. lia. Qed.

Lemma qz_scale d u k : (0 < u)%Z -> (0 < k)%Z -> qz d (k * u) == qz d u / inject_Z k.
Proof.
  intros Hu Hk. unfold qz. rewrite !Qred_correct. rewrite inject_Z_mult.
  field. split; apply inject_Z_nonzero; lia.
Qed.

Lemma nth_map_Z (f : Z -> Q) l i : (i < List.length l)%nat -> nth i (map f l) 0 = f (nth i l 0%Z).
Proof. revert i. induction l as [|a l IH]; intros [|i] H; simpl in H; try lia; cbn [map nth]; auto. apply IH. lia. Qed.

(* expressing the grid in a main time unit k times as long divides every step length by k *)
Theorem dt_unit_change g k i : (0 < g_unit g)%Z -> (0 < k)%Z -> (i < g_T g)%nat ->
  nth i (g_dt (with_unit g (k * g_unit g))) 0 == nth i (g_dt g) 0 / inject_Z k.
Proof.
  intros Hu Hk Hi. unfold g_dt, with_unit; cbn [g_pts g_unit].
  assert (L : (i < List.length (diffs (g_pts g)))%nat) by (rewrite diffs_length; exact Hi).
  rewrite !nth_map_Z by exact L. apply qz_scale; assumption.
Qed.

(* a rate re-expressed for the new unit (multiplied by k) gives the same per-step volume limit *)
Theorem limit_unit_invariant g k v i : (0 < g_unit g)%Z -> (0 < k)%Z -> (i < g_T g)%nat ->
  (v * inject_Z k) * nth i (g_dt (with_unit g (k * g_unit g))) 0 == v * nth i (g_dt g) 0.
Proof.
  intros Hu Hk Hi. rewrite dt_unit_change by assumption. field. apply inject_Z_nonzero. lia.
Qed.

(* a duration re-expressed for the new unit (divided by k) compares with the step lengths as before *)
Theorem duration_unit_invariant g k d i : (0 < g_unit g)%Z -> (0 < k)%Z -> (i < g_T g)%nat ->
  (nth i (g_dt (with_unit g (k * g_unit g))) 0 <= d / inject_Z k <-> nth i (g_dt g) 0 <= d).
Proof.
  intros Hu Hk Hi. rewrite dt_unit_change by assumption.
  assert (P : 0 < inject_Z k) by (unfold Qlt, inject_Z; simpl; lia).
  unfold Qdiv. rewrite (Qmult_le_r _ _ (/ inject_Z k)) by (apply Qinv_lt_0_compat; exact P). tauto.
Qed.

(* telescoping: the step lengths add up to the elapsed time of the grid, whatever the individual lengths
   (daylight-saving switches, calendar months) *)
Lemma diffs_sum : forall (l : list Z) a, fold_right Z.add 0%Z (diffs (a :: l)) = (last (a :: l) 0 - a)%Z.
Proof.
  induction l as [|b l IH]; intros a; [cbn; lia|].
  change (diffs (a :: b :: l)) with ((b - a)%Z :: diffs (b :: l)). cbn [fold_right]. rewrite IH.
  change (last (a :: b :: l) 0%Z) with (last (b :: l) 0%Z). lia.
Qed.
Lemma qsum_qz l u : (0 < u)%Z -> qsum (map (fun d => qz d u) l) == inject_Z (fold_right Z.add 0%Z l) / inject_Z u.
Proof.
  intros Hu. induction l as [|d l IH]; cbn [map qsum fold_right].
  - unfold Qdiv. rewrite Qmult_0_l. reflexivity.
  - rewrite IH. unfold qz. rewrite Qred_correct, inject_Z_plus. field. apply inject_Z_nonzero. lia.
Qed.
Theorem total_time_is_elapsed g : (0 < g_unit g)%Z -> g_pts g <> [] ->
  qsum (g_dt g) * inject_Z (g_unit g) == inject_Z (last (g_pts g) 0%Z - hd 0%Z (g_pts g)).
Proof.
  intros Hu Hne. unfold g_dt. rewrite qsum_qz by exact Hu.
  destruct (g_pts g) as [|a l]; [contradiction|]. rewrite diffs_sum. cbn [hd]. field. apply inject_Z_nonzero. lia.
Qed.

(* total volume limit of a constant rate = rate x total time *)
Theorem volume_follows_dt v dt : qsum (vmul (repeat v (List.length dt)) dt) == v * qsum dt.
Proof.
  unfold vmul. induction dt as [|d dt IH]; cbn [List.length repeat combine map qsum fst snd]; [ring|].
  rewrite IH, Qred_correct. ring.
Qed.

(* the exponent of the discount factor (cumulative time x unit) does not depend on the unit *)
Lemma firstn_map' {A B} (f : A -> B) n l : firstn n (map f l) = map f (firstn n l).
Proof. revert l; induction n as [|n IH]; intros [|a l]; cbn [firstn map]; auto. rewrite IH. reflexivity. Qed.
Theorem discount_exponent_unit_free g k i : (0 < g_unit g)%Z -> (0 < k)%Z -> (i < g_T g)%nat ->
  nth i (g_Dt (with_unit g (k * g_unit g))) 0 * inject_Z (k * g_unit g) == nth i (g_Dt g) 0 * inject_Z (g_unit g).
Proof.
  intros Hu Hk Hi.
  assert (Hi' : (i < g_T (with_unit g (k * g_unit g)))%nat) by exact Hi.
  rewrite (Dt_spec _ i Hi'), (Dt_spec g i Hi). unfold g_dt, with_unit; cbn [g_pts g_unit].
  rewrite !firstn_map', !qsum_qz by lia. rewrite inject_Z_mult. field.
  split; apply inject_Z_nonzero; lia.
Qed.
