(* Translate.v — C03: what OptimProblem.optimize hands to the solver (optimization.py:216-297): bounds as two vector
   constraints, rows grouped by class U / L / S / N, boolean variables from the first mapping row per variable. *)
From Coq Require Import QArith ZArith List Lia Lqa Bool String Arith.
From EAO Require Import Num LP Mapping Dcf.
Import ListNotations.
Open Scope Q_scope.

Inductive gkind := GLe | GGe | GEq.
Record cgroup := { g_kind : gkind; g_rows : list (srow * Q) }.

Definition rows_of (t : rtype) (P : lp) : list (srow * Q) :=
  map (fun r => (r_a r, r_b r)) (filter (fun r => rtype_eqb (r_t r) t) (lp_rows P)).
Definition mk_group (k : gkind) (rows : list (srow * Q)) : list cgroup := match rows with [] => [] | _ => [ {| g_kind := k; g_rows := rows |} ] end.
(* the constraint list after the two bound constraints, in the order the code appends them; empty classes are skipped *)
Definition translate (P : lp) : list cgroup :=
  mk_group GLe (rows_of RU P) ++ mk_group GGe (rows_of RL P) ++ mk_group GEq (rows_of RS P) ++ mk_group GEq (rows_of RN P).

Definition grow_ok (k : gkind) (x : vec) (ab : srow * Q) : Prop :=
  match k with GLe => sdot (fst ab) x <= snd ab | GGe => snd ab <= sdot (fst ab) x | GEq => sdot (fst ab) x == snd ab end.
Definition group_ok (x : vec) (g : cgroup) : Prop := Forall (grow_ok (g_kind g) x) (g_rows g).
Definition sat (P : lp) (x : vec) : Prop := in_box (lp_l P) (lp_u P) x /\ Forall (group_ok x) (translate P).

Lemma mk_group_ok k x rows : Forall (group_ok x) (mk_group k rows) <-> Forall (grow_ok k x) rows.
Proof.
  unfold mk_group. destruct rows as [|r rows].
  - split; intros; constructor.
  - split; [intros H; inversion H; subst; assumption|intros H; constructor; [exact H|constructor]].
Qed.

Lemma rows_of_ok t k x P : (forall r, r_t r = t -> (row_ok x r <-> grow_ok k x (r_a r, r_b r))) ->
  (Forall (grow_ok k x) (rows_of t P) <-> Forall (row_ok x) (filter (fun r => rtype_eqb (r_t r) t) (lp_rows P))).
Proof.
  intros H. unfold rows_of. rewrite Forall_map. rewrite !Forall_forall. split; intros G r Hr; specialize (G r Hr);
    apply filter_In in Hr; destruct Hr as [_ Ht]; apply H; try assumption; destruct (r_t r), t; try discriminate; reflexivity.
Qed.

Lemma rtype_eqb_eq a b : rtype_eqb a b = true <-> a = b.
Proof. destruct a, b; cbn; split; intros; try discriminate; reflexivity. Qed.

Lemma forall_by_class x rows :
  Forall (row_ok x) rows <->
  Forall (row_ok x) (filter (fun r => rtype_eqb (r_t r) RU) rows) /\ Forall (row_ok x) (filter (fun r => rtype_eqb (r_t r) RL) rows) /\
  Forall (row_ok x) (filter (fun r => rtype_eqb (r_t r) RS) rows) /\ Forall (row_ok x) (filter (fun r => rtype_eqb (r_t r) RN) rows).
Proof.
  rewrite !Forall_forall. split.
  - intros H. repeat split; intros r Hr; apply filter_In in Hr; apply H; tauto.
  - intros (HU & HL & HS & HN) r Hr. destruct (r_t r) eqn:E.
    + apply HU. apply filter_In. split; [exact Hr|rewrite E; reflexivity].
    + apply HL. apply filter_In. split; [exact Hr|rewrite E; reflexivity].
    + apply HS. apply filter_In. split; [exact Hr|rewrite E; reflexivity].
    + apply HN. apply filter_In. split; [exact Hr|rewrite E; reflexivity].
Qed.

(* C03: the constraints handed to the solver have exactly the feasible points of the assembled problem *)
Theorem translate_equiv P x : sat P x <-> feasible P x.
Proof.
  unfold sat, feasible, translate. rewrite !Forall_app, !mk_group_ok.
  rewrite (rows_of_ok RU GLe x P), (rows_of_ok RL GGe x P), (rows_of_ok RS GEq x P), (rows_of_ok RN GEq x P).
  - rewrite (forall_by_class x (lp_rows P)). tauto.
  - intros r E. unfold row_ok, grow_ok. rewrite E. cbn [fst snd]. tauto.
  - intros r E. unfold row_ok, grow_ok. rewrite E. cbn [fst snd]. tauto.
  - intros r E. unfold row_ok, grow_ok. rewrite E. cbn [fst snd]. tauto.
  - intros r E. unfold row_ok, grow_ok. rewrite E. cbn [fst snd]. tauto.
Qed.

(* boolean variables: the first mapping row of every variable decides (optimization.py:221) *)
Definition bool_vars (mp : list mrow) : list nat := map m_var (filter m_bool (firsts [] mp)).
Theorem bool_vars_spec mp v :
  In v (bool_vars mp) <-> exists r, In r (firsts [] mp) /\ m_var r = v /\ m_bool r = true.
Proof.
  unfold bool_vars. rewrite in_map_iff. split.
  - intros (r & E & Hr). apply filter_In in Hr. exists r. tauto.
  - intros (r & Hr & E & B). exists r. split; [exact E|]. apply filter_In. tauto.
Qed.

(* comparison with what was observed (case files) *)
From EAO Require Import Cert Corr.
Definition gkind_eqb (a b : gkind) : bool := match a, b with GLe, GLe | GGe, GGe | GEq, GEq => true | _, _ => false end.
Definition grows_close (n : nat) (r1 r2 : list (srow * Q)) : bool :=
  list_eqb (fun a b => qclose tol (snd a) (snd b) && srow_close n (fst a) (fst b)) r1 r2.
Definition c03_translate_case (P : lp) (mp : list mrow) (obs : list cgroup) (obs_bools : list nat) : list bool :=
  [ list_eqb (fun a b => gkind_eqb (g_kind a) (g_kind b) && grows_close (nvars P) (g_rows a) (g_rows b)) (translate P) obs;
    forallb (fun v => existsb (Nat.eqb v) obs_bools) (bool_vars mp) && forallb (fun v => existsb (Nat.eqb v) (bool_vars mp)) obs_bools ].
