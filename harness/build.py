"""spec (JSON DSL) -> real EAO objects, and dumps of EAO objects into JSON-able dicts.
Imported by impl_worker.py and replay.py; runs against whatever `eaopack` PYTHONPATH gives."""
import math
import numpy as np
import pandas as pd
import scipy.sparse as sp
import eaopack as eao
from eaopack.assets import (Node, Timegrid, SimpleContract, Contract, Transport, ExtendedTransport,
                            Storage, MultiCommodityContract, OrderBook, ScaledAsset, Plant, CHPAsset)
from eaopack.portfolio import Portfolio, StructuredAsset, LinkedAsset


_TZ = [None]     # zone of the grid being built: aware instants of a spec are handed to eaopack as timestamps in that zone


def ts(x):
    if x is None:
        return None
    t = pd.Timestamp(x)
    if t.tzinfo is not None and _TZ[0] is not None:
        t = t.tz_convert(_TZ[0])
    return t


def mk_param(p):
    if isinstance(p, dict) and 'start' in p:
        conv = ts
        if p.get('stamp_tz') and _TZ[0] is not None:
            # the same instants, stamped in another zone than the grid's (aware time stamps compare as instants)
            conv = lambda v: (ts(v).tz_localize(_TZ[0]) if ts(v).tzinfo is None else ts(v)).tz_convert(p['stamp_tz'])
        d = {'start': [conv(v) for v in p['start']], 'values': list(p['values'])}
        if 'end' in p:
            d['end'] = [conv(v) for v in p['end']]
        if p.get('as_array'):
            d = {k: np.asarray(v) if k == 'values' else v for k, v in d.items()}
        da = p.get('dates_as')
        if da:
            # the dates in another accepted form: numpy date arrays of some unit, date indices (naive / in the zone of the grid)
            for k in ('start', 'end'):
                if k in d:
                    naive = [t.tz_localize(None) if t.tzinfo is not None else t for t in d[k]]
                    if da == 'object_array_aware' and _TZ[0] is not None:
                        # numpy array of dtype object holding aware time stamps (np.array(pd.date_range(.., tz=..)))
                        arr_ = np.empty(len(naive), dtype=object)
                        for i_, t_ in enumerate(naive):
                            arr_[i_] = t_.tz_localize(_TZ[0])
                        d[k] = arr_
                    elif da == 'date_range_D':
                        # consecutive days as a date index WITH a frequency, in the zone of the grid (pd.date_range(.., freq='D', tz=..))
                        assert all((b - a) == pd.Timedelta(days=1) for a, b in zip(naive[:-1], naive[1:]))
                        d[k] = pd.date_range(start=naive[0], periods=len(naive), freq='D', tz=_TZ[0])
                    elif da.startswith('datetime64'):
                        d[k] = np.array([np.datetime64(t) for t in naive], dtype=da)
                    elif da == 'DatetimeIndex_aware' and _TZ[0] is not None:
                        d[k] = pd.DatetimeIndex(naive).tz_localize(_TZ[0])
                    else:
                        d[k] = pd.DatetimeIndex(naive)
        return d
    if isinstance(p, dict) and 'array' in p:
        return np.asarray(p['array'], dtype=float)
    return p


def mk_grid(g):
    _TZ[0] = g.get('tz')
    return Timegrid(ts(g['start']), ts(g['end']), freq=g['freq'], main_time_unit=g.get('unit', 'h'),
                    timezone=g.get('tz'))


COMMON = ('start', 'end')
PLAIN = ('wacc', 'freq', 'periodicity', 'periodicity_duration', 'price', 'costs_time_series', 'costs_const',
         'efficiency', 'size', 'cap_in', 'cap_out', 'start_level', 'end_level', 'cost_in', 'cost_out', 'cost_store',
         'block_size', 'eff_in', 'inflow', 'no_simult_in_out', 'max_store_duration', 'factors_commodities',
         'full_exec', 'min_scale', 'max_scale', 'norm_scale', 'fix_costs', 'ramp', 'min_runtime',
         'time_already_running', 'min_downtime', 'time_already_off', 'last_dispatch',
         'start_ramp_lower_bounds', 'start_ramp_upper_bounds', 'shutdown_ramp_lower_bounds',
         'shutdown_ramp_upper_bounds', 'ramp_freq', '_no_heat',
         'start_ramp_lower_bounds_heat', 'start_ramp_upper_bounds_heat',
         'shutdown_ramp_lower_bounds_heat', 'shutdown_ramp_upper_bounds_heat')
PARAM = ('extra_costs', 'min_cap', 'max_cap', 'min_take', 'max_take', 'start_costs', 'running_costs',
         'start_fuel', 'fuel_efficiency', 'consumption_if_on', 'conversion_factor_power_heat', 'max_share_heat')

KINDS = {'SimpleContract': SimpleContract, 'Contract': Contract, 'Transport': Transport,
         'ExtendedTransport': ExtendedTransport, 'Storage': Storage,
         'MultiCommodityContract': MultiCommodityContract, 'OrderBook': OrderBook,
         'Plant': Plant, 'CHPAsset': CHPAsset}


def mk_nodes(names, pool):
    out = []
    for n in names:
        if n not in pool:
            pool[n] = Node(n)
        out.append(pool[n])
    return out


def mk_asset(a, pool, tz=None):
    _TZ[0] = tz
    kind = a['kind']
    kw = {}
    for k in COMMON:
        if a.get(k) is not None:
            kw[k] = ts(a[k])
            if a.get('window_tz') and tz is not None and kw[k].tzinfo is None:
                # the same instant, stamped in another zone (UTC, fixed offset) than the grid's
                kw[k] = kw[k].tz_localize(tz).tz_convert(a['window_tz'])
    for k in PLAIN:
        if k in a:
            kw[k] = a[k]
            if a.get('profile_as_array') and k.startswith(('start_ramp_', 'shutdown_ramp_')):
                kw[k] = np.asarray(a[k], dtype=float)
    for k in PARAM:
        if k in a:
            kw[k] = mk_param(a[k])
    if kind == 'ScaledAsset':
        base = mk_asset(a['base'], pool, tz)
        return ScaledAsset(name=a['name'], base_asset=base, **kw)
    if kind == 'StructuredAsset':
        inner = [mk_asset(b, pool, tz) for b in a['assets']]
        return StructuredAsset(portfolio=Portfolio(inner), name=a['name'],
                               nodes=mk_nodes(a['nodes'], pool), **kw)
    if kind == 'LinkedAsset':
        inner = [mk_asset(b, pool, tz) for b in a['assets']]
        lk = a['link']
        return LinkedAsset(portfolio=Portfolio(inner), name=a['name'], nodes=mk_nodes(a['nodes'], pool),
                           asset1_variable=(lk['a1'], lk['v1'], lk.get('n1')), asset2_variable=(lk['a2'], lk['v2'], lk.get('n2')),
                           asset2_time_already_running=lk.get('already', 'time_already_running'),
                           time_back=lk.get('time_back', 1), time_forward=lk.get('time_forward', 0), **kw)
    if kind == 'OrderBook':
        o = a['orders']
        def lz(v):     # orders are compared with the grid points directly
            v = ts(v)
            if tz is None:
                return v
            return v.tz_localize(tz) if v.tzinfo is None else v.tz_convert(tz)
        orders = {'start': [lz(v) for v in o['start']], 'end': [lz(v) for v in o['end']],
                  'capa': list(o['capa']), 'price': list(o['price'])}
        kw.pop('start', None)
        kw.pop('end', None)
        if a.get('orders_as_frame'):
            # the order list as a DataFrame carrying further columns (reference, comment) that are empty for some orders
            n_ = len(orders['start'])
            orders = pd.DataFrame(dict(orders, ref=['R%d' % i if i % 2 else None for i in range(n_)], comment=[None] * n_))
        k = a.get('created_with')
        if k:
            # the book is created with its first k orders and its order list is replaced afterwards (rolling intraday use)
            ob = OrderBook(name=a['name'], nodes=mk_nodes(a['nodes'], pool)[0], orders={key: v[:k] for key, v in orders.items()}, **kw)
            ob.orders = orders
            return ob
        return OrderBook(name=a['name'], nodes=mk_nodes(a['nodes'], pool)[0], orders=orders, **kw)
    nodes = mk_nodes(a['nodes'], pool)
    if kind in ('SimpleContract', 'Contract') or (kind == 'Storage' and len(nodes) == 1):
        nodes = nodes[0]
    return KINDS[kind](name=a['name'], nodes=nodes, **kw)


def mk_prices(spec):
    if spec.get('opts', {}).get('price_frame_offgrid'):
        # the prices the user holds are a time series whose stamps are not grid points (here: shifted by half a step, one more point
        # behind the end); what counts on the grid is the documented interpolation of that series (Timegrid.prices_to_grid)
        fr = mk_price_frame(spec)
        tg = mk_grid(spec['grid'])
        pg = tg.prices_to_grid(fr)
        return {k: np.asarray(pg[k].values, dtype=float) for k in fr.columns}
    return {k: np.asarray(v, dtype=float) for k, v in spec.get('prices', {}).items()}


def mk_price_frame(spec):
    g = spec['grid']
    tg = mk_grid(g)
    step = pd.Timedelta(g['freq']) if g['freq'][0].isdigit() else pd.Timedelta(1, g['freq'])
    idx = [t - step / 2 for t in tg.timepoints] + [tg.timepoints[-1] + step / 2]
    data = {k: list(v) + [v[-1]] for k, v in spec.get('prices', {}).items()}
    return pd.DataFrame(data, index=pd.DatetimeIndex(idx))


def mk_portfolio(spec):
    _TZ[0] = spec['grid'].get('tz')
    pool = {}
    assets = [mk_asset(a, pool, spec['grid'].get('tz')) for a in spec['assets']]
    return Portfolio(assets)


# ------------------------------------------------------------------ dumps
def fnum(x):
    x = float(x)
    if math.isnan(x):
        return None
    return x


def dump_mapping(mapping):
    rows = []
    if mapping is None or len(mapping) == 0:
        return rows
    cols = set(mapping.columns)
    for idx, r in zip(mapping.index, mapping.to_dict('records')):
        node = r.get('node')
        if node is None or (isinstance(node, float) and math.isnan(node)) or node == 'nan':
            node = None
        df = r.get('disp_factor') if 'disp_factor' in cols else None
        if df is not None:
            df = fnum(df)
        bl = r.get('bool') if 'bool' in cols else False
        if bl is None or (isinstance(bl, float) and math.isnan(bl)):
            bl = False
        vn = r.get('var_name')
        if isinstance(vn, float) and math.isnan(vn):
            vn = 'nan'
        rows.append({'index': int(idx), 'asset': str(r.get('asset')), 'node': None if node is None else str(node),
                     'type': str(r.get('type')), 'time_step': int(r.get('time_step')), 'disp_factor': df,
                     'var_name': str(vn), 'bool': bool(bl)})
    return rows


def dump_rows(A):
    if A is None:
        return []
    A = sp.csr_matrix(A)
    A.sum_duplicates()
    out = []
    for i in range(A.shape[0]):
        lo, hi = A.indptr[i], A.indptr[i + 1]
        cols = [int(j) for j in A.indices[lo:hi]]
        vals = [float(v) for v in A.data[lo:hi]]
        keep = [(j, v) for j, v in sorted(zip(cols, vals)) if v != 0.0]
        out.append([[j for j, _ in keep], [v for _, v in keep]])
    return out


def dump_problem(op):
    d = {'c': [float(v) for v in op.c], 'l': [float(v) for v in op.l], 'u': [float(v) for v in op.u]}
    if op.A is None:
        d['rows'] = []
        d['b'] = []
        d['cType'] = ''
        d['ncols'] = len(op.c)
    else:
        d['rows'] = dump_rows(op.A)
        d['b'] = [float(v) for v in op.b]
        d['cType'] = str(op.cType)
        d['ncols'] = int(op.A.shape[1])
    d['mapping'] = dump_mapping(op.mapping)
    if getattr(op, 'map_nodal_restr', None) is not None:
        d['map_nodal_restr'] = [[int(t), str(n)] for t, n in op.map_nodal_restr]
    return d


def dump_table(df):
    """DataFrame with time index -> {column: [values]} (None for NaN/None)"""
    out = {}
    if df is None:
        return out
    for c in df.columns:
        out[str(c)] = [None if (v is None or (isinstance(v, float) and math.isnan(v))) else float(v) for v in df[c].values]
    return out


class FakeResults:
    def __init__(self, x, value=0.0, duals=None):
        self.x = np.asarray(x, dtype=float)
        self.value = value
        self.duals = duals
