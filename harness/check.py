"""Entry point:  /venv/bin/python harness/check.py Cxx [--tier quick|thorough]
exit 0 = property held on everything explored; exit 1 + 'VIOLATION property=<id> replay=<path>' otherwise."""
import sys, os, time, json, importlib, subprocess, re, traceback
sys.path.insert(0, os.path.dirname(os.path.abspath(__file__)))
import common


class Ctx:
    def __init__(self, prop, tier, seed):
        self.prop, self.tier, self.seed = prop, tier, seed
        self.t0 = time.time()
        self.violations = []      # (replay path, found_input: bool, text)
        self.known_printed = []
        self.cov = {'obligations': 0, 'discharged': 0, 'checker_cmd': '', 'trusted_base': [], 'theorems': {},
                    'correspondence': {'cases': 0, 'components_compared': 0, 'disagreements': 0},
                    'instances_validated': 0, 'impl_oracle_evaluations': 0, 'distribution': {}, 'samples': [],
                    'known_findings_printed': [], 'exhaustive': False}
        self.assumptions = []
        self.known = [k for k in common.load_known_findings() if k.get('property') == prop]
        self.replay = None        # replay mode: list of specs to run instead of the generated ones

    def specs(self, generated):
        """the specs a check runs: the generated ones, or the replayed ones in replay mode"""
        return list(self.replay) if self.replay is not None else generated

    # ---- proofs
    def proof_gate(self, theorems, extra_targets=()):
        """(re)build the Coq development and re-check the property file; collect Print Assumptions."""
        tgt = ['Props/%s.vo' % self.prop, 'Corr.vo'] + list(extra_targets)
        ok, out = common.make_coq(tgt)
        self.cov['checker_cmd'] = 'make -C coq Props/%s.vo  (coqc 8.16.1, full .vo build) + Print Assumptions per theorem' % self.prop
        self.cov['obligations'] = len(theorems)
        if not ok:
            self.cov['discharged'] = 0
            self.broken('proof-broken', {'theorem_or_correspondence': 'make Props/%s.vo' % self.prop, 'output': out[-3000:]})
            return False
        # assumptions of every theorem
        src = 'From EAO.Props Require Import %s.\n' % self.prop + ''.join('Print Assumptions %s.\n' % t for t in theorems)
        d = os.path.join(common.BUILD, 'assume')
        os.makedirs(d, exist_ok=True)
        fn = os.path.join(d, 'A_%s.v' % self.prop)
        open(fn, 'w').write(src)
        p = subprocess.run(['timeout', '600', 'coqc', '-R', common.COQ, 'EAO', fn], cwd=d, stdout=subprocess.PIPE,
                           stderr=subprocess.STDOUT, text=True)
        if p.returncode != 0:
            self.cov['discharged'] = 0
            self.broken('proof-broken', {'theorem_or_correspondence': 'Print Assumptions', 'output': p.stdout[-3000:]})
            return False
        chunks = re.split(r'(?m)^(?=Closed under the global context|Axioms:)', p.stdout)
        chunks = [c.strip() for c in chunks if c.strip()]
        for t, c in zip(theorems, chunks):
            self.cov['theorems'][t] = c
        self.cov['discharged'] = len(chunks)
        axioms = sorted(set(l.strip() for c in chunks if c.startswith('Axioms:') for l in c.splitlines()[1:] if ':' in l and not l.startswith(' ' * 6)))
        if self.tier == 'thorough':
            # independent re-check of the compiled property file and everything it depends on
            pc = subprocess.run(['timeout', '1800', 'coqchk', '-silent', '-o', '-R', common.COQ, 'EAO', 'EAO.Props.%s' % self.prop],
                                stdout=subprocess.PIPE, stderr=subprocess.STDOUT, text=True)
            summ = pc.stdout[pc.stdout.find('CONTEXT SUMMARY'):] if 'CONTEXT SUMMARY' in pc.stdout else pc.stdout[-1500:]
            self.cov['coqchk'] = {'rc': pc.returncode, 'summary': ' '.join(summ.split())[:1200]}
            if pc.returncode != 0:
                self.broken('proof-broken', {'theorem_or_correspondence': 'coqchk EAO.Props.%s' % self.prop, 'output': pc.stdout[-3000:]})
                return False
        self.cov['trusted_base'] = [
            'Coq 8.16.1 kernel (coqc); vm_compute for Examples/finite tables and for evaluating the model on cases; no native_compute',
            'axioms reported by Print Assumptions: ' + ('none (closed under the global context)' if not axioms else '; '.join(axioms)),
            'hand-written Gallina model tied to /repo by the differential correspondence run of this check (harness/*.py)',
            'calendar (pandas date_range / tz database), IEEE rounding and the native solvers are oracles outside the model; solver output is validated per instance by Coq-checked certificates',
        ]
        return True

    # ---- reporting
    def broken(self, kind, payload):
        payload = dict(payload)
        payload.update({'property': self.prop, 'kind': kind, 'seed': self.seed})
        fn = common.write_replay(self.prop, kind, payload)
        self.violations.append((fn, False, kind))

    def violation(self, kind, payload, trigger=None):
        """a concrete failing input on the implementation.  trigger: dict used to match known findings"""
        for k in self.known:
            if k.get('status') == 'finding' and trigger is not None and all(trigger.get(a) == v for a, v in k['trigger'].items()):
                msg = 'KNOWN-FINDING: property=%s %s' % (self.prop, k['what'])
                if msg not in self.known_printed:
                    self.known_printed.append(msg)
                    if os.environ.get('VERIF_KNOWN_CORPUS') and isinstance(payload.get('spec'), dict):
                        # development aid: keep one input per listed finding in the corpus, so that every run meets it
                        d = os.path.join(common.ROOT, 'corpus', self.prop)
                        os.makedirs(d, exist_ok=True)
                        slug = re.sub(r'[^a-z0-9]+', '_', str(sorted(k['trigger'].items())).lower())[:60]
                        fn = os.path.join(d, 'known_%s.json' % slug)
                        if not os.path.exists(fn):
                            sp = dict(payload['spec']); sp.pop('id', None)
                            json.dump(sp, open(fn, 'w'), indent=1)
                return
        payload = dict(payload)
        payload.update({'property': self.prop, 'kind': kind, 'seed': self.seed})
        fn = common.write_replay(self.prop, kind, payload)
        self.violations.append((fn, True, kind))

    def sample(self, x):
        if len(self.cov['samples']) < 3:
            self.cov['samples'].append(x)

    def count(self, key, n=1):
        d = self.cov['distribution']
        d[key] = d.get(key, 0) + n

    def finish(self):
        # a broken proof/correspondence without concrete failing input is reported with the suffix
        found = [v for v in self.violations if v[1]]
        notfound = [v for v in self.violations if not v[1]]
        for m in self.known_printed:
            print(m)
        self.cov['known_findings_printed'] = self.known_printed
        lines = []
        for fn, _, kind in found[:5]:
            lines.append('VIOLATION property=%s replay=%s' % (self.prop, fn))
        if not found:
            for fn, _, kind in notfound[:3]:
                lines.append('VIOLATION property=%s replay=%s no-failing-input-found' % (self.prop, fn))
        for l in lines:
            print(l)
        if self.replay is not None:
            print('REPRODUCED' if lines else 'not reproduced: the property holds on the replayed input')
            sys.stdout.flush()
            sys.exit(1 if lines else 0)
        common.write_evidence(self.prop, self.tier, self.seed, self.cov, time.time() - self.t0,
                              len(self.violations), self.assumptions)
        sys.stdout.flush()
        sys.exit(1 if lines else 0)


def main():
    args = sys.argv[1:]
    prop = args[0]
    tier = os.environ.get('VERIF_TIER') or 'quick'
    if '--tier' in args:
        tier = args[args.index('--tier') + 1]
    seed = int(os.environ.get('VERIF_SEED') or 20260926)
    common.TAG = prop + os.environ.get('VERIF_TAG', '')
    ctx = Ctx(prop, tier, seed)
    mod = importlib.import_module('props.' + prop)
    try:
        mod.run(ctx)
    except Exception as e:
        # the machinery itself failed: the property is no longer shown to hold
        ctx.broken('harness-error', {'theorem_or_correspondence': 'harness', 'error': repr(e), 'trace': traceback.format_exc()[-4000:]})
    ctx.finish()


if __name__ == '__main__':
    main()
