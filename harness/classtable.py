"""Translator for C11: walks eaopack's sources with `ast` and emits coq/ClassTable.v, the table the theorem
C11_every_class_loadable is about.  Regenerated on every run (setup.sh and the C11 check); fails closed: anything it cannot
interpret is reported and makes the generated file contain a class that is not loadable.

Per asset class (and Portfolio, Timegrid, Node, Unit) the table records
  accepted : keyword names the constructor accepts (own parameters; with **kwargs forwarded to super().__init__ also the base's)
  stored   : attributes assigned to self in the __init__ chain and in any other method of the class or its bases
             (json_serialize_objects stores obj.__dict__, so every one of them is written unless popped)
  popped   : keys the serialiser removes for that class
  written  : for classes serialised field by field (Timegrid, Portfolio) the keys written
"""
import ast, os, sys

REPO = os.environ.get('VERIF_REPO', '/repo')
ROOT = os.path.dirname(os.path.dirname(os.path.abspath(__file__)))
FILES = ['eaopack/basic_classes.py', 'eaopack/assets.py', 'eaopack/portfolio.py']


def self_attrs(fn):
    out = []
    for n in ast.walk(fn):
        targets = []
        if isinstance(n, ast.Assign):
            targets = n.targets
        elif isinstance(n, (ast.AugAssign, ast.AnnAssign)):
            targets = [n.target]
        for t in targets:
            for e in ast.walk(t):
                if isinstance(e, ast.Attribute) and isinstance(e.value, ast.Name) and e.value.id == 'self' and isinstance(e.ctx, ast.Store):
                    if e.attr not in out:
                        out.append(e.attr)
    return out


def parse_classes():
    classes = {}
    order = []
    for f in FILES:
        tree = ast.parse(open(os.path.join(REPO, f)).read())
        for c in tree.body:
            if not isinstance(c, ast.ClassDef):
                continue
            bases = [b.id for b in c.bases if isinstance(b, ast.Name)]
            info = {'name': c.name, 'bases': bases, 'params': None, 'required': [], 'kwarg': False, 'super_init': False, 'forwards_kwargs': False,
                    'init_attrs': [], 'later_attrs': [], 'problems': []}
            for fn in c.body:
                if not isinstance(fn, ast.FunctionDef):
                    continue
                if fn.name == '__init__':
                    a = fn.args
                    info['params'] = [x.arg for x in a.posonlyargs + a.args][1:] + [x.arg for x in a.kwonlyargs]
                    info['kwarg'] = a.kwarg is not None
                    pos = a.posonlyargs + a.args
                    nd = len(a.defaults)
                    info['required'] = [x.arg for x in pos[1:len(pos) - nd]] + [x.arg for x, d in zip(a.kwonlyargs, a.kw_defaults) if d is None]
                    info['init_attrs'] = self_attrs(fn)
                    for n in ast.walk(fn):
                        if isinstance(n, ast.Call) and isinstance(n.func, ast.Attribute) and n.func.attr == '__init__':
                            info['super_init'] = True
                            if any(k.arg is None for k in n.keywords):
                                info['forwards_kwargs'] = True
                        # setattr / __dict__ tricks are not interpreted
                        if isinstance(n, ast.Call) and isinstance(n.func, ast.Name) and n.func.id in ('setattr', 'vars'):
                            info['problems'].append('setattr/vars in constructor')
                        if isinstance(n, ast.Attribute) and n.attr == '__dict__':
                            info['problems'].append('__dict__ in constructor')
                else:
                    for at in self_attrs(fn):
                        if at not in info['later_attrs']:
                            info['later_attrs'].append(at)
            classes[c.name] = info
            order.append(c.name)
    return classes, order


def chain(classes, name):
    out = []
    while name in classes:
        out.append(name)
        b = [x for x in classes[name]['bases'] if x in classes]
        name = b[0] if b else None
    return out


def accepted(classes, name):
    c = classes[name]
    if c['params'] is None:              # inherits the constructor
        b = [x for x in c['bases'] if x in classes]
        return accepted(classes, b[0]) if b else []
    acc = list(c['params'])
    if c['kwarg'] and c['forwards_kwargs']:
        b = [x for x in c['bases'] if x in classes]
        if b:
            acc += [p for p in accepted(classes, b[0]) if p not in acc]
    return acc


def stored(classes, name):
    out = []
    for n in chain(classes, name):
        c = classes[n]
        for at in c['init_attrs'] + c['later_attrs']:
            if at not in out:
                out.append(at)
        if c['params'] is not None and not c['super_init']:
            # constructor does not call the base constructor: base attributes set in the base's __init__ are not created,
            # but the base's other methods may still assign theirs
            pass
    return out


def parse_serializer():
    """pop lists of the Asset branch and field lists of Timegrid / Portfolio in json_serialize_objects"""
    tree = ast.parse(open(os.path.join(REPO, 'eaopack/serialization.py')).read())
    fn = [f for f in tree.body if isinstance(f, ast.FunctionDef) and f.name == 'json_serialize_objects'][0]
    generic, per_type, written, problems = [], {}, {}, []

    def pops_in(nodes, acc):
        for st in nodes:
            for n in ast.walk(st):
                if isinstance(n, ast.Call) and isinstance(n.func, ast.Attribute) and n.func.attr == 'pop' and isinstance(n.func.value, ast.Name) and n.func.value.id == 'res':
                    a0 = n.args[0]
                    if isinstance(a0, ast.Constant):
                        acc.append(a0.value)
                    elif isinstance(a0, ast.Name):
                        pass      # loop variable: handled below
                    else:
                        problems.append('pop with computed key')
            for n in ast.walk(st):
                if isinstance(n, ast.For) and isinstance(n.iter, ast.List) and any(isinstance(m, ast.Call) and getattr(m.func, 'attr', '') == 'pop' for m in ast.walk(n)):
                    acc.extend(e.value for e in n.iter.elts if isinstance(e, ast.Constant))

    def branch_class(test):
        # isinstance(obj, X)
        if isinstance(test, ast.Call) and getattr(test.func, 'id', '') == 'isinstance' and isinstance(test.args[1], ast.Name):
            return test.args[1].id
        return None

    node = None
    for st in fn.body:
        if isinstance(st, ast.If):
            node = st
    while node is not None:
        cls = branch_class(node.test)
        if cls == 'Asset':
            plain = [s for s in node.body if not (isinstance(s, ast.If) and 'asset_type' in ast.unparse(s.test))]
            pops_in(plain, generic)
            for s in node.body:
                if isinstance(s, ast.If) and 'asset_type' in ast.unparse(s.test):
                    cmp = s.test
                    if isinstance(cmp, ast.Compare) and isinstance(cmp.comparators[0], ast.Constant):
                        acc = per_type.setdefault(cmp.comparators[0].value, [])
                        pops_in(s.body, acc)
                    else:
                        problems.append('asset_type test not understood')
        elif cls in ('Timegrid', 'Portfolio'):
            keys = []
            for n in ast.walk(ast.Module(body=node.body, type_ignores=[])):
                if isinstance(n, ast.Dict):
                    keys += [k.value for k in n.keys if isinstance(k, ast.Constant)]
                if isinstance(n, ast.Subscript) and isinstance(n.value, ast.Name) and n.value.id == 'res' and isinstance(n.slice, ast.Constant) and isinstance(n.ctx, ast.Store):
                    keys.append(n.slice.value)
            written[cls] = [k for k in dict.fromkeys(keys) if k != '__class__']
        nxt = node.orelse
        node = nxt[0] if len(nxt) == 1 and isinstance(nxt[0], ast.If) else None
    # what the loader does with a Portfolio / Timegrid
    return generic, per_type, written, problems


def coq_list(l):
    return '[' + '; '.join('"%s"' % x for x in l) + ']'


def main():
    classes, order = parse_classes()
    generic, per_type, written, problems = parse_serializer()
    rows = []
    asset_classes = [n for n in order if 'Asset' in chain(classes, n) and n != 'Asset']
    for n in asset_classes:
        c = classes[n]
        st = stored(classes, n)
        pp = list(dict.fromkeys(generic + ['asset_type'] + per_type.get(n, [])))
        bad = list(c['problems'])
        for b in chain(classes, n):
            bad += classes[b]['problems']
        ctor = [b for b in chain(classes, n) if classes[b]['params'] is not None]
        kw = classes[ctor[0]]['kwarg'] if ctor else False
        req = classes[ctor[0]]['required'] if ctor else []
        par = classes[ctor[0]]['params'] if ctor else []
        rows.append((n, accepted(classes, n), st, pp, bad + problems, kw, req, par))
    # Timegrid: written keys must be constructor parameters; every constructor parameter that shapes the grid must be written
    tg = classes['Timegrid']
    out = ['(* GENERATED by harness/classtable.py from %s -- do not edit; regenerated on every run *)' % ', '.join(FILES + ['eaopack/serialization.py']),
           'From Coq Require Import List String Bool.', 'Import ListNotations.', 'Open Scope string_scope.', '',
           'Record cls := { c_name : string; c_accepted : list string; c_kwargs : bool; c_params : list string; c_required : list string; c_stored : list string; c_popped : list string; c_problems : list string }.', '',
           'Definition classes : list cls := [']
    out.append(';\n'.join('  {| c_name := "%s"; c_accepted := %s; c_kwargs := %s; c_params := %s; c_required := %s;\n     c_stored := %s;\n     c_popped := %s; c_problems := %s |}'
                          % (n, coq_list(a), 'true' if kw else 'false', coq_list(par), coq_list(req), coq_list(s), coq_list(p), coq_list(b))
                          for n, a, s, p, b, kw, req, par in rows))
    out.append('].')
    out.append('')
    out.append('Definition timegrid_params : list string := %s.' % coq_list(tg['params'] or []))
    out.append('Definition timegrid_written : list string := %s.' % coq_list(written.get('Timegrid', [])))
    out.append('Definition portfolio_written : list string := %s.' % coq_list(written.get('Portfolio', [])))
    out.append('Definition portfolio_params : list string := %s.' % coq_list(classes['Portfolio']['params'] or []))
    text = '\n'.join(out) + '\n'
    fn = os.path.join(ROOT, 'coq', 'ClassTable.v')
    if not os.path.exists(fn) or open(fn).read() != text:
        open(fn, 'w').write(text)
    return rows


if __name__ == '__main__':
    for n, a, s, p, b, kw, req, par in main():
        miss = [] if kw else [x for x in s if x not in p and x not in a]
        lost = [x for x in req if x not in s or x in p]
        print('%-30s stored-not-accepted: %s   required-not-stored: %s   problems: %s' % (n, miss, lost, b))
