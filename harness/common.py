"""Shared helpers of the verification harness (run with /venv/bin/python).

Nothing in here decides a property: it prints Coq terms, runs coqc on generated case
files, runs the implementation worker, writes evidence and reports violations.
"""
import os, sys, json, re, subprocess, time, hashlib, math, shutil
from fractions import Fraction

ROOT = os.path.dirname(os.path.dirname(os.path.abspath(__file__)))
REPO = os.environ.get('VERIF_REPO', '/repo')
COQ = os.path.join(ROOT, 'coq')
BUILD = os.path.join(ROOT, 'build')
PY = '/venv/bin/python'
NPROC = int(os.environ.get('VERIF_NPROC', '12'))
TAG = 'x'      # set by check.py to the property id: scratch directories are per property, so checks can run side by side


# ------------------------------------------------------------------ Coq term printing
def q(x):
    """exact rational literal of a float / int / Fraction (floats are dyadic rationals)"""
    if x is None:
        raise ValueError('None is not a number')
    if isinstance(x, bool):
        x = int(x)
    if isinstance(x, float):
        if math.isnan(x) or math.isinf(x):
            raise ValueError('nan/inf is not a number')
    f = Fraction(x)
    if f.numerator < 0:
        return '((%d) # %d)' % (f.numerator, f.denominator)
    return '(%d # %d)' % (f.numerator, f.denominator)


def s(x):
    return '"%s"%%string' % str(x).replace('"', '""')


def lst(items):
    return '[' + '; '.join(items) + ']'


def opt(x, f):
    return 'None' if x is None else '(Some %s)' % f(x)


def nat(n):
    return '%d%%nat' % int(n)


def z(n):
    return '(%d)%%Z' % int(n)


def b(x):
    return 'true' if x else 'false'


def qvec(v):
    return lst([q(float(e)) for e in v])


def srow(cols, vals):
    return lst(['(%s, %s)' % (nat(j), q(float(a))) for j, a in zip(cols, vals)])


RT = {'U': 'RU', 'L': 'RL', 'S': 'RS', 'N': 'RN'}


def crow(cols, vals, t, rhs):
    return '(Build_crow %s %s %s)' % (srow(cols, vals), RT[t], q(float(rhs)))


def lp(prob):
    """prob: dict with c,l,u,rows=[(cols,vals)],b,cType"""
    rows = [crow(r[0], r[1], t, bb) for r, t, bb in zip(prob['rows'], prob['cType'], prob['b'])]
    return '(Build_lp %s %s %s %s)' % (qvec(prob['c']), qvec(prob['l']), qvec(prob['u']), lst(rows))


def mrow(r):
    """r: dict index, asset, node, type, time_step, disp_factor, var_name, bool"""
    f = r.get('disp_factor')
    if f is None:
        f = 1.0
    return '(Build_mrow %s %s %s %s %s %s %s %s)' % (
        nat(r['index']), s(r['asset']), opt(r.get('node'), s), s(r['type']), nat(r['time_step']),
        q(float(f)), s(r.get('var_name')), b(bool(r.get('bool'))))


def mapping(rows):
    return lst([mrow(r) for r in rows])


# ------------------------------------------------------------------ running Coq
def make_coq(targets=None, timeout=1800):
    """(re)build the Coq development (full .vo).  Returns (ok, output)."""
    import fcntl
    os.makedirs(BUILD, exist_ok=True)
    with open(os.path.join(BUILD, '.make.lock'), 'w') as lk:
        fcntl.flock(lk, fcntl.LOCK_EX)          # one make at a time in coq/
        if not os.path.exists(os.path.join(COQ, 'Makefile')):
            subprocess.run(['coq_makefile', '-f', '_CoqProject', '-o', 'Makefile'], cwd=COQ,
                           stdout=subprocess.PIPE, stderr=subprocess.STDOUT)
        cmd = ['timeout', str(timeout), 'make', '-j%d' % NPROC] + (targets or [])
        p = subprocess.run(cmd, cwd=COQ, stdout=subprocess.PIPE, stderr=subprocess.STDOUT, text=True)
    return p.returncode == 0, p.stdout


HEADER = """From Coq Require Import QArith List String Bool ZArith.
From EAO Require Import %s.
Import ListNotations.
Open Scope Q_scope.
"""


def parse_coq_value(text):
    """parse the value printed by `Eval vm_compute in e.` for nested lists of
    bool / nat / Z / Q / strings into python (Q as Fraction)."""
    m = re.search(r'=\s*(.*)\n\s*:\s', text, re.S)
    if not m:
        raise ValueError('no value in coq output: ' + text[:500])
    src = ' '.join(m.group(1).split())
    toks = re.findall(r'"(?:[^"]|"")*"|\[|\]|;|\(|\)|,|#|-?\d+|true|false|None|Some|%[A-Za-z]+|[A-Za-z_][A-Za-z_0-9\.]*', src)
    pos = 0

    def parse():
        nonlocal pos
        t = toks[pos]
        if t == '[':
            pos += 1
            out = []
            if toks[pos] == ']':
                pos += 1
                return out
            while True:
                out.append(parse())
                if toks[pos] == ';':
                    pos += 1
                    continue
                assert toks[pos] == ']', toks[pos - 5:pos + 5]
                pos += 1
                return out
        if t == '(':
            pos += 1
            items = [parse()]
            while toks[pos] == ',':
                pos += 1
                items.append(parse())
            assert toks[pos] == ')', toks[pos - 5:pos + 5]
            pos += 1
            skip_scope()
            return items[0] if len(items) == 1 else tuple(items)
        if t == 'true' or t == 'false':
            pos += 1
            return t == 'true'
        if t == 'None':
            pos += 1
            return None
        if t == 'Some':
            pos += 1
            return parse()
        if t.startswith('"'):
            pos += 1
            skip_scope()
            return t[1:-1].replace('""', '"')
        if re.fullmatch(r'-?\d+', t):
            pos += 1
            skip_scope()
            n = int(t)
            if pos < len(toks) and toks[pos] == '#':
                pos += 1
                d = int(toks[pos])
                pos += 1
                skip_scope()
                return Fraction(n, d)
            return n
        raise ValueError('cannot parse token %r in %s' % (t, src[:300]))

    def skip_scope():
        nonlocal pos
        while pos < len(toks) and toks[pos].startswith('%'):
            pos += 1

    return parse()


def run_coq_exprs(tag, imports, exprs, chunk=20, timeout=900, defs=''):
    """Evaluate the Coq expressions (all of one type) with vm_compute, in parallel shards.
    Returns the list of parsed values (same order).  Raises RuntimeError with the coqc
    output if a shard fails."""
    d = os.path.join(BUILD, 'cases', TAG + '_' + tag)
    shutil.rmtree(d, ignore_errors=True)
    os.makedirs(d)
    shards = [exprs[i:i + chunk] for i in range(0, len(exprs), chunk)]
    procs = []
    results = [None] * len(shards)

    def launch(k):
        fn = os.path.join(d, 'Cases_%03d.v' % k)
        with open(fn, 'w') as f:
            f.write(HEADER % imports)
            f.write(defs)
            f.write('Definition cases := %s.\n' % lst(shards[k]))
            f.write('Eval vm_compute in cases.\n')
        return subprocess.Popen(['timeout', str(timeout), 'coqc', '-R', COQ, 'EAO', fn],
                                stdout=subprocess.PIPE, stderr=subprocess.STDOUT, text=True, cwd=d)

    pending = list(range(len(shards)))
    running = {}
    while pending or running:
        while pending and len(running) < NPROC:
            k = pending.pop(0)
            running[k] = launch(k)
        for k, p in list(running.items()):
            if p.poll() is not None:
                out = p.stdout.read()
                del running[k]
                if p.returncode != 0:
                    for pp in running.values():
                        pp.kill()
                    raise RuntimeError('coqc failed on shard %d of %s:\n%s' % (k, tag, out[-3000:]))
                results[k] = parse_coq_value(out)
        time.sleep(0.02)
    flat = []
    for r in results:
        flat.extend(r)
    return flat


# ------------------------------------------------------------------ running the implementation
def run_impl(probe, specs, timeout=1800, nproc=None):
    """run harness/impl_worker.py <probe> on the specs in parallel processes against /repo"""
    nproc = nproc or NPROC
    d = os.path.join(BUILD, 'impl', TAG + '_' + probe)
    shutil.rmtree(d, ignore_errors=True)
    os.makedirs(d)
    n = max(1, min(nproc, len(specs)))
    chunks = [specs[i::n] for i in range(n)]
    env = dict(os.environ)
    env['PYTHONPATH'] = REPO + os.pathsep + os.path.join(ROOT, 'harness')
    env['PYTHONHASHSEED'] = '0'
    env['EAO_VERIF'] = '1'
    env['OMP_NUM_THREADS'] = '1'
    env['OPENBLAS_NUM_THREADS'] = '1'
    procs = []
    for k, ch in enumerate(chunks):
        fi = os.path.join(d, 'in_%d.json' % k)
        fo = os.path.join(d, 'out_%d.json' % k)
        json.dump(ch, open(fi, 'w'))
        p = subprocess.Popen(['timeout', str(timeout), PY, os.path.join(ROOT, 'harness', 'impl_worker.py'), probe, fi, fo],
                             env=env, stdout=subprocess.PIPE, stderr=subprocess.STDOUT, text=True, cwd=d)
        procs.append((p, fo, k))
    out = {}
    for p, fo, k in procs:
        txt = p.communicate()[0]
        if p.returncode != 0 or not os.path.exists(fo):
            raise RuntimeError('implementation worker failed (chunk %d):\n%s' % (k, txt[-3000:]))
        for r in json.load(open(fo)):
            out[r['id']] = r
    return [out[sp['id']] for sp in specs]


# ------------------------------------------------------------------ evidence / reporting
def write_replay(prop, kind, payload):
    d = os.path.join(ROOT, 'replays', prop)
    os.makedirs(d, exist_ok=True)
    txt = json.dumps(payload, sort_keys=True, default=str)
    h = hashlib.sha1(txt.encode()).hexdigest()[:12]
    fn = os.path.join(d, '%s_%s.json' % (kind, h))
    with open(fn, 'w') as f:
        json.dump(payload, f, indent=1, sort_keys=True, default=str)
    return fn


def load_known_findings():
    fn = os.path.join(ROOT, 'known_findings.json')
    if os.path.exists(fn):
        return json.load(open(fn))
    return []


def theorem_assumptions(prop):
    """read the Print Assumptions output captured when Props/<prop>.v was compiled"""
    fn = os.path.join(COQ, 'Props', prop + '.assumptions')
    if os.path.exists(fn):
        return open(fn).read()
    return ''


def write_evidence(prop, tier, seed, coverage, wall, violations, assumptions):
    ev = {'property_id': prop, 'tier': tier, 'seed': int(seed), 'level': 'proof',
          'coverage': coverage, 'assumptions': assumptions, 'wall_s': round(wall, 2),
          'violations': int(violations)}
    evdir = os.environ.get('VERIF_EVIDENCE_DIR') or os.path.join(ROOT, 'evidence')     # development runs against mutants write elsewhere
    os.makedirs(evdir, exist_ok=True)
    with open(os.path.join(evdir, prop + '.json'), 'w') as f:
        json.dump(ev, f, indent=1, sort_keys=True, default=str)
