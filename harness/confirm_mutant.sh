#!/bin/bash
# usage: confirm_mutant.sh <dir with patch.diff demo.py meta.json> ; development aid
# confirms in a scratch worktree: suite passes with the patch, demo fails with it and passes without
d="$1"; id=$(basename "$d")
wt=/tmp/mut/confirm_$id
git -C /repo worktree remove --force $wt 2>/dev/null
git -C /repo worktree add -q --detach $wt HEAD || exit 2
cd $wt
res="ok"
git apply "$d/patch.diff" || { echo "$id: PATCH-DOES-NOT-APPLY"; git -C /repo worktree remove --force $wt; exit 1; }
suite=$(/venv/bin/python -m pytest -q -p no:cacheprovider -n 6 2>&1 | tail -1)
echo "$suite" | grep -q "100 passed" || res="suite-fails($suite)"
PYTHONPATH=$wt /venv/bin/python "$d/demo.py" > /tmp/mut/confirm_$id.with.log 2>&1; with=$?
git checkout -q -- .
PYTHONPATH=$wt /venv/bin/python "$d/demo.py" > /tmp/mut/confirm_$id.without.log 2>&1; without=$?
cd /; git -C /repo worktree remove --force $wt
echo "$id: $res demo_with=$with demo_without=$without"
