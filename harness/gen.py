"""Seeded generator of portfolio specs (JSON DSL).  Every random choice comes from the
single random.Random handed in, so a case replays exactly from (seed, index, profile)."""
import random, copy
import pandas as pd

STARTS = ['2021-01-04 00:00', '2021-02-10 06:00', '2021-06-01 00:00', '2022-11-30 12:00']
DST_STARTS = ['2021-03-27 20:00', '2021-10-30 21:00', '2021-03-28 00:00', '2021-10-31 00:00']


def k8(rng, lo, hi):
    """number with 3 binary digits in [lo, hi]"""
    return rng.randint(int(lo * 8), int(hi * 8)) / 8.0


def fmt(t):
    t = pd.Timestamp(t)
    if t.tzinfo is not None:          # aware instants (cfg 'aware'): ISO text with the UTC offset, so repeated DST hours stay distinct
        return t.isoformat()
    return t.strftime('%Y-%m-%d %H:%M')


def freq_td(freq):
    try:
        return pd.Timedelta(1, freq)
    except Exception:
        return pd.Timedelta(freq)


def grid_T(g):
    pts = pd.date_range(start=pd.Timestamp(g['start'], tz=g.get('tz')), end=pd.Timestamp(g['end'], tz=g.get('tz')),
                        freq=g['freq'], tz=g.get('tz'))
    return len(pts) - 1


class Unsafe(Exception):
    pass


def check_safe(t, tz):
    """wall-clock time that exists exactly once in the zone"""
    if tz is None or t is None:
        return
    if pd.Timestamp(t).tzinfo is not None:
        return
    try:
        pd.Timestamp(pd.Timestamp(t).strftime('%Y-%m-%d %H:%M:%S'), tz=tz)
    except Exception:
        raise Unsafe(str(t))


def gen_grid(rng, cfg):
    if cfg.get('grids'):
        g = dict(rng.choice(cfg['grids']))
        g['T'] = grid_T(g)
        return g
    while True:
        try:
            return gen_grid0(rng, cfg)
        except Unsafe:
            continue


def gen_grid0(rng, cfg):
    freq = rng.choice(cfg.get('freqs', ['h', 'h', '2h', '30min', 'd']))
    tz = rng.choice(cfg.get('tzs', [None, None, None, 'CET']))
    T = rng.randint(*cfg.get('T', (3, 10)))
    if tz is not None and rng.random() < cfg.get('p_dst', 0.5) and freq in ('h', '30min', '2h'):
        start = rng.choice(DST_STARTS)
    elif tz is not None and rng.random() < cfg.get('p_dst', 0.5) and freq == 'd':
        start = rng.choice(['2021-03-26 00:00', '2021-10-29 00:00', '2021-03-27 00:00', '2021-10-30 00:00'])     # 23 h / 25 h days ahead
    else:
        start = rng.choice(STARTS)
    unit = rng.choice(cfg.get('units', ['h', 'h', 'd']))
    end = (pd.Timestamp(start, tz=tz) + T * freq_td(freq))
    if rng.random() < cfg.get('p_unaligned_end', 0.1):
        end = end + freq_td(freq) / 2
    if tz is not None:
        end = end.tz_localize(None)
    check_safe(end, tz)
    g = {'start': start, 'end': fmt(end), 'freq': freq, 'unit': unit, 'tz': tz}
    g['T'] = grid_T(g)
    if tz is not None and cfg.get('aware'):
        g['aware'] = True       # windows, takes, orders and interval data are given as aware instants
    return g


def grid_points(g):
    """naive wall-clock time points of the grid (for placing windows)"""
    pts = pd.date_range(start=pd.Timestamp(g['start'], tz=g.get('tz')), end=pd.Timestamp(g['end'], tz=g.get('tz')),
                        freq=g['freq'], tz=g.get('tz'))
    if g.get('aware'):
        return list(pts)
    return [p.tz_localize(None) if p.tzinfo is not None else p for p in pts]


def gen_window(rng, g, cfg, aligned_to=None):
    """asset window (start, end) as strings or None; placements: inside, straddling, before, after"""
    if rng.random() > cfg.get('p_window', 0.35):
        return None, None
    pts = grid_points(g)
    T = len(pts) - 1
    step = freq_td(g['freq'])
    kind = rng.choice(cfg.get('window_kinds', ['inside', 'inside', 'left', 'right', 'straddle_l', 'straddle_r']))
    if kind == 'inside' and T >= 2:
        i = rng.randint(0, T - 1)
        j = rng.randint(i + 1, T)
        s, e = pts[i], pts[j]
    elif kind == 'left':
        s, e = None, pts[rng.randint(1, T)]
    elif kind == 'right':
        s, e = pts[rng.randint(0, T - 1)], None
    elif kind == 'straddle_l':
        s, e = pts[0] - 2 * step, pts[rng.randint(1, T)]
    elif kind == 'straddle_r':
        s, e = pts[rng.randint(0, T - 1)], pts[T] + 3 * step
    elif kind == 'before':
        s, e = pts[0] - 5 * step, pts[0] - 2 * step
    elif kind == 'after':
        s, e = pts[T] + step, pts[T] + 4 * step
    elif kind == 'offgrid' and T >= 2:
        i = rng.randint(0, T - 2)
        s, e = pts[i] + step / 2, pts[rng.randint(i + 1, T)] + step / 2
    else:
        return None, None
    check_safe(s, g.get('tz'))
    check_safe(e, g.get('tz'))
    return (None if s is None else fmt(s)), (None if e is None else fmt(e))


def gen_interval_param(rng, g, lo, hi, cfg, with_end=None):
    """interval dictionary covering the horizon (start[, end], values)"""
    pts = grid_points(g)
    T = len(pts) - 1
    ncut = rng.randint(1, min(3, T))
    cuts = sorted(rng.sample(range(1, T), ncut - 1)) if ncut > 1 and T > 1 else []
    starts = [pts[0]] + [pts[c] for c in cuts]
    for t in starts:
        check_safe(t, g.get('tz'))
    vals = [k8(rng, lo, hi) for _ in starts]
    d = {'start': [fmt(t) for t in starts], 'values': vals}
    if with_end is None:
        with_end = rng.random() < 0.6
    if with_end:
        ends = [pts[c] for c in cuts] + [pts[T] + freq_td(g['freq'])]
        if rng.random() < cfg.get('p_gap', 0.0) and T >= 2:
            # the data do not cover the whole horizon: the last interval ends early (NaN for the rest -> must be rejected)
            ends[-1] = pts[rng.randint(max(cuts + [0]) + 1, T)] if max(cuts + [0]) + 1 <= T - 1 else ends[-1]
            if ends[-1] == pts[T]:
                ends[-1] = pts[T - 1] if T - 1 > max(cuts + [0]) else ends[-1]
        for t in ends:
            check_safe(t, g.get('tz'))
        d['end'] = [fmt(t) for t in ends]
    elif len(starts) > 1:
        # without 'end' the last interval ends at last start + twice the last distance (wall clock): an end that is no valid local time
        # is the finding listed under C19 (implicit end in a DST gap) and is generated there only
        check_safe(starts[-1] + 2 * (starts[-1] - starts[-2]), g.get('tz'))
    return d


def gen_cap_param(rng, g, lo, hi, cfg, prices):
    r = rng.random()
    if r < cfg.get('p_cap_dict', 0.25):
        return gen_interval_param(rng, g, lo, hi, cfg)
    if r < cfg.get('p_cap_dict', 0.25) + cfg.get('p_cap_key', 0.15):
        key = 'cap%d' % len(prices)
        prices[key] = [k8(rng, lo, hi) for _ in range(g['T'])]
        return key
    return k8(rng, lo, hi)


def coarse_freq(rng, g, cfg):
    """a coarser asset frequency compatible with the grid (multiples of the grid step that divide T)"""
    if cfg.get('coarse_freqs') and rng.random() <= cfg.get('p_coarse', 0.0):
        return rng.choice(cfg['coarse_freqs'])
    if rng.random() > cfg.get('p_coarse', 0.0) or g['freq'] not in ('h', '30min', '15min'):
        return None
    T = g['T']
    base = {'h': 60, '30min': 30, '15min': 15}[g['freq']]
    cands = [m for m in (2, 3, 4) if T % m == 0 or cfg.get('coarse_any', False)]
    if not cands:
        return None
    m = rng.choice(cands)
    mins = base * m
    return ('%dh' % (mins // 60)) if mins % 60 == 0 else ('%dmin' % mins)


def periodicity(rng, g, cfg):
    if rng.random() > cfg.get('p_periodic', 0.0) or g['freq'] not in ('h', '30min'):
        return None, None
    T = g['T']
    base = {'h': 60, '30min': 30}[g['freq']]
    cands = [m for m in (2, 3, 4) if T >= 2 * m]
    if not cands:
        return None, None
    m = rng.choice(cands)
    mins = base * m
    per = ('%dh' % (mins // 60)) if mins % 60 == 0 else ('%dmin' % mins)
    dur = None
    if rng.random() < 0.4:
        dm = mins * 2
        dur = ('%dh' % (dm // 60)) if dm % 60 == 0 else ('%dmin' % dm)
    return per, dur


def common(rng, g, cfg, a, allow_freq=True):
    s, e = gen_window(rng, g, cfg)
    if s is not None:
        a['start'] = s
    if e is not None:
        a['end'] = e
    if rng.random() < cfg.get('p_wacc', 0.3):
        a['wacc'] = rng.choice(cfg.get('waccs', [0.05, 0.1, 0.5]))
    if allow_freq:
        f = coarse_freq(rng, g, cfg)
        if f is not None and cfg.get('coarse_windows') and rng.random() < cfg.get('p_coarse_window', 0.5):
            # a coarse asset with its own window: starts up to one coarse step before the horizon or inside it, lasts a whole number of
            # coarse steps (no incomplete last coarse interval) and may end inside or after the horizon
            pts = grid_points(g)
            T = len(pts) - 1
            step = freq_td(g['freq'])
            m = int(round(freq_td(f) / step))
            k0 = rng.randint(-(m - 1), max(0, T - m))
            if rng.random() < cfg.get('p_coarse_before', 0.0):
                k0 = -rng.randint(1, 3 * m - 1)      # begins before the horizon, by any number of fine steps
            if rng.random() < cfg.get('p_coarse_early', 0.25):
                k0 -= m * rng.randint(1, 2)          # running since one or two whole coarse steps before the horizon
            q = rng.randint(1, max(1, (T - k0) // m + 1))
            s0 = pts[0] + k0 * step
            e0 = s0 + q * m * step
            try:
                check_safe(s0, g.get('tz')); check_safe(e0, g.get('tz'))
                a['start'], a['end'], a['freq'] = fmt(s0), fmt(e0), f
                a.pop('periodicity', None)
                return a
            except Unsafe:
                pass
        if f is not None and 'start' not in a and 'end' not in a:
            a['freq'] = f
        else:
            per, dur = periodicity(rng, g, cfg)
            if per is not None and 'start' not in a and 'end' not in a:
                a['periodicity'] = per
                if dur is not None:
                    a['periodicity_duration'] = dur
    return a


def new_price(rng, g, prices, lo=-2, hi=12):
    key = 'p%d' % len(prices)
    prices[key] = [k8(rng, lo, hi) for _ in range(g['T'])]
    return key


def gen_simple_contract(rng, g, cfg, name, node, prices, market=False):
    a = {'kind': 'SimpleContract', 'name': name, 'nodes': [node]}
    a['price'] = new_price(rng, g, prices) if (market or rng.random() < 0.85) else None
    if market:
        a['min_cap'] = -k8(rng, 20, 40)
        a['max_cap'] = k8(rng, 20, 40)
        if rng.random() < cfg.get('p_spread', 0.4):
            a['extra_costs'] = k8(rng, 0, 2)
        return a
    r = rng.random()
    if r < 0.5:
        a['min_cap'] = gen_cap_param(rng, g, -10, 0, cfg, prices)
        a['max_cap'] = gen_cap_param(rng, g, 0, 10, cfg, prices)
    elif r < 0.75:
        a['min_cap'] = k8(rng, 0, 3)
        a['max_cap'] = gen_cap_param(rng, g, 3, 10, cfg, prices)
    else:
        a['min_cap'] = gen_cap_param(rng, g, -10, -3, cfg, prices)
        a['max_cap'] = -k8(rng, 0, 3)
    r = rng.random()
    if r < 0.35:
        a['extra_costs'] = k8(rng, 0, 3)
    elif r < 0.5:
        a['extra_costs'] = gen_interval_param(rng, g, 0, 3, cfg)
    common(rng, g, cfg, a)
    return a


def gen_take(rng, g, cfg, lo, hi):
    """one or two take periods; placements relative to the horizon"""
    pts = grid_points(g)
    T = len(pts) - 1
    step = freq_td(g['freq'])
    n = rng.randint(1, 2)
    st, en, va = [], [], []
    for _ in range(n):
        kind = rng.choice(cfg.get('take_kinds', ['inside', 'inside', 'whole', 'straddle_r', 'straddle_l', 'outside']))
        if kind == 'inside' and T >= 2:
            i = rng.randint(0, T - 1)
            j = rng.randint(i + 1, T)
            s, e = pts[i], pts[j]
        elif kind == 'whole':
            s, e = pts[0], pts[T]
        elif kind == 'straddle_r':
            s, e = pts[rng.randint(0, T - 1)], pts[T] + rng.randint(1, 4) * step
        elif kind == 'straddle_l':
            s, e = pts[0] - rng.randint(1, 4) * step, pts[rng.randint(1, T)]
        elif kind == 'outside':
            s, e = pts[T] + 2 * step, pts[T] + 6 * step
        else:
            s, e = pts[0], pts[T]
        check_safe(s, g.get('tz'))
        check_safe(e, g.get('tz'))
        st.append(fmt(s))
        en.append(fmt(e))
        va.append(k8(rng, lo, hi))
    return {'start': st, 'end': en, 'values': va}


def gen_contract(rng, g, cfg, name, node, prices):
    a = gen_simple_contract(rng, g, cfg, name, node, prices)
    a['kind'] = 'Contract'
    # keep takes loose enough to stay feasible most of the time
    r = rng.random()
    if r < 0.6:
        a['max_take'] = gen_take(rng, g, cfg, 2, 30)
    if r > 0.4:
        a['min_take'] = gen_take(rng, g, cfg, -30, -2) if rng.random() < 0.5 else gen_take(rng, g, cfg, -4, 1)
    return a


def gen_transport(rng, g, cfg, name, n1, n2, prices, ext=False):
    a = {'kind': 'ExtendedTransport' if ext else 'Transport', 'name': name, 'nodes': [n1, n2]}
    if rng.random() < 0.85:
        a['min_cap'] = 0.0 if rng.random() < 0.8 else k8(rng, 0, 1)
        a['max_cap'] = k8(rng, 2, 10)
    else:
        a['min_cap'] = -k8(rng, 2, 10)
        a['max_cap'] = 0.0
    a['efficiency'] = rng.choice([1.0, 1.0, 0.5, 0.75, 0.875, 2.0])
    r = rng.random()
    if r < 0.4:
        a['costs_const'] = k8(rng, 0, 2)
    if 0.3 < r < 0.6:
        a['costs_time_series'] = new_price(rng, g, prices, 0, 3)
    if ext:
        if rng.random() < 0.6:
            a['max_take'] = gen_take(rng, g, cfg, 2, 30)
        if rng.random() < 0.3 and a['min_cap'] >= 0:
            a['min_take'] = gen_take(rng, g, cfg, 0, 1)
    common(rng, g, cfg, a)
    return a


def gen_storage(rng, g, cfg, name, nodes, prices):
    a = {'kind': 'Storage', 'name': name, 'nodes': nodes}
    a['size'] = k8(rng, 2, 20)
    a['cap_in'] = k8(rng, 1, 6)
    a['cap_out'] = k8(rng, 1, 6)
    lvl = k8(rng, 0, min(a['size'], 4))
    a['start_level'] = lvl if rng.random() < 0.5 else 0.0
    a['end_level'] = a['start_level'] if rng.random() < 0.8 else min(a['size'], k8(rng, 0, 2))
    a['eff_in'] = rng.choice([1.0, 1.0, 0.5, 0.875, 0.75])
    if rng.random() < cfg.get('p_inflow', 0.3):
        a['inflow'] = k8(rng, 0, 1)
    r = rng.random()
    if r < 0.3:
        a['cost_in'] = k8(rng, 0, 1)
    if 0.2 < r < 0.5:
        a['cost_out'] = k8(rng, 0, 1)
    if rng.random() < 0.3:
        a['cost_store'] = k8(rng, 0, 1)
    if rng.random() < cfg.get('p_storage_price', 0.1):
        a['price'] = new_price(rng, g, prices)
    if rng.random() < cfg.get('p_no_simult', 0.0):
        a['no_simult_in_out'] = True
    if rng.random() < cfg.get('p_max_store', 0.0):
        # a holding duration of one to three grid steps (in main time units); where the step length is not an exact float
        # the duration is put between two step boundaries (a comparison exactly on a boundary could flip by rounding)
        su = freq_td(g['freq']) / freq_td(g.get('unit', 'h'))
        k = rng.randint(1, 3)
        a['max_store_duration'] = float(k * su) if float(su).is_integer() or su in (0.5, 0.25) else float((k + 0.5) * su)
    if rng.random() < cfg.get('p_blocks', 0.0) and g['freq'] in ('h', '30min'):
        a['block_size'] = rng.choice(['2h', '3h', '4h'])
    common(rng, g, cfg, a)
    if 'block_size' in a:
        a.pop('freq', None)
    return a


def gen_multi(rng, g, cfg, name, nodes, prices):
    if rng.random() < cfg.get('p_dupnode', 0.0):
        # the same node twice (e.g. own consumption booked as a separate factor at the power node)
        nodes = list(nodes) + [rng.choice(nodes)]
    a = {'kind': 'MultiCommodityContract', 'name': name, 'nodes': nodes}
    a['price'] = new_price(rng, g, prices)
    a['min_cap'] = -k8(rng, 0, 5) if rng.random() < 0.5 else 0.0
    a['max_cap'] = k8(rng, 1, 8)
    a['factors_commodities'] = [1.0] + [rng.choice([1.0, 0.5, -0.5, 0.25, 2.0, -1.0]) for _ in nodes[1:]]
    if rng.random() < 0.3:
        a['extra_costs'] = k8(rng, 0, 2)
    if rng.random() < 0.3:
        a['max_take'] = gen_take(rng, g, cfg, 2, 30)
    common(rng, g, cfg, a)
    return a


def gen_orderbook(rng, g, cfg, name, node, prices):
    pts = grid_points(g)
    T = len(pts) - 1
    step = freq_td(g['freq'])
    n = rng.randint(1, 5)
    st, en, ca, pr = [], [], [], []
    for _ in range(n):
        kind = rng.choice(cfg.get('order_kinds', ['inside', 'inside', 'inside', 'straddle', 'outside', 'offgrid']))
        if kind == 'inside' or T < 2:
            i = rng.randint(0, T - 1)
            j = rng.randint(i + 1, T)
            s, e = pts[i], pts[j]
        elif kind == 'straddle':
            s, e = pts[rng.randint(0, T - 1)], pts[T] + 3 * step
        elif kind == 'outside':
            s, e = (pts[T] + step, pts[T] + 3 * step) if rng.random() < 0.5 else (pts[0] - 4 * step, pts[0] - step)
        else:
            i = rng.randint(0, T - 2)
            s, e = pts[i] + step / 2, pts[rng.randint(i + 1, T)] + step / 2
        check_safe(s, g.get('tz'))
        check_safe(e, g.get('tz'))
        st.append(fmt(s))
        en.append(fmt(e))
        ca.append(rng.choice([-1, 1]) * k8(rng, 1, 6))
        pr.append(k8(rng, 0, 12))
    a = {'kind': 'OrderBook', 'name': name, 'nodes': [node],
         'orders': {'start': st, 'end': en, 'capa': ca, 'price': pr}}
    if rng.random() < cfg.get('p_full_exec', 0.0):
        a['full_exec'] = True
    if rng.random() < cfg.get('p_wacc', 0.3):
        a['wacc'] = rng.choice([0.05, 0.1])
    return a


def gen_scaled(rng, g, cfg, name, nodes, prices):
    """ScaledAsset over a base asset whose variables are all dispatch variables"""
    k = rng.choice(['SimpleContract', 'SimpleContract', 'Transport', 'Storage', 'Contract'])
    sub = dict(cfg, p_coarse=0.0, p_periodic=0.0, p_no_simult=0.0, p_max_store=0.0, p_blocks=0.0, p_window=cfg.get('p_window_scaled_base', 0.2),
               window_kinds=['inside', 'left', 'right'])
    if k in ('Transport',) and len(nodes) < 2:
        k = 'SimpleContract'
    bn = name + '_base'
    if k == 'SimpleContract':
        base = gen_simple_contract(rng, g, sub, bn, rng.choice(nodes), prices)
    elif k == 'Contract':
        base = gen_contract(rng, g, sub, bn, rng.choice(nodes), prices)
    elif k == 'Transport':
        n1, n2 = rng.sample(nodes, 2)
        base = gen_transport(rng, g, sub, bn, n1, n2, prices)
    else:
        base = gen_storage(rng, g, sub, bn, [rng.choice(nodes)], prices)
    a = {'kind': 'ScaledAsset', 'name': name, 'base': base, 'nodes': base['nodes']}
    mode = rng.choice(['fixed', 'free', 'free'])
    a['norm_scale'] = rng.choice([1.0, 2.0, 0.5, 4.0])
    if mode == 'fixed':
        a['min_scale'] = a['max_scale'] = rng.choice([0.5, 1.0, 2.0, 3.0])
    else:
        a['min_scale'] = rng.choice([0.0, 0.0, 0.5])
        a['max_scale'] = a['min_scale'] + rng.choice([1.0, 2.0, 4.0])
    a['fix_costs'] = rng.choice([0.0, 0.125, 1.0, 2.5])
    if rng.random() < cfg.get('p_wacc_scaled', 0.0):
        a['wacc'] = rng.choice([0.5, 2.0])          # a discount rate on the scaled asset itself (the base asset has its own)
    if rng.random() < cfg.get('p_window_scaled', 0.25):
        # the scaled asset's own life time (fixed costs count for its duration only)
        s0, e0 = gen_window(rng, g, dict(cfg, p_window=1.0, window_kinds=['inside', 'left', 'right']))
        if s0 is not None:
            a['start'] = s0
        if e0 is not None:
            a['end'] = e0
    return a


def _cmp_ge(x, y):
    """x >= y for time stamps given as text or Timestamp (False when they cannot be compared: naive against aware)"""
    try:
        return pd.Timestamp(x) >= pd.Timestamp(y)
    except TypeError:
        return False


def gen_structured(rng, g, cfg, name, nodes, prices):
    """StructuredAsset wrapping a small inner portfolio with one internal node and one or two external nodes"""
    ne = 2 if (len(nodes) >= 2 and rng.random() < cfg.get('p_struct_two_ext', 0.4)) else 1
    ext = rng.sample(nodes, ne)
    inner_node = name + '_in'
    sub = dict(cfg, p_coarse=0.0, p_periodic=0.0, p_no_simult=0.0, p_max_store=0.0, p_blocks=0.0, p_window=cfg.get('p_window_inner', 0.2),
               window_kinds=cfg.get('inner_window_kinds', ['inside', 'left', 'right']))
    assets = []
    for k, e in enumerate(ext):
        # flows between the internal node and every external node, in either direction
        n1, n2 = (inner_node, e) if rng.random() < 0.6 else (e, inner_node)
        assets.append(gen_transport(rng, g, sub, '%s_t%d' % (name, k), n1, n2, prices))
    r = rng.random()
    if r < 0.5:
        assets.append(gen_storage(rng, g, sub, name + '_s', [inner_node], prices))
    assets.append(gen_simple_contract(rng, g, sub, name + '_c', inner_node, prices, market=(r > 0.3)))
    if rng.random() < 0.4:
        assets.append(gen_simple_contract(rng, g, sub, name + '_x', rng.choice(ext), prices))
    if rng.random() < cfg.get('p_struct_scaled', 0.0):
        # a sized connection: a scaled asset whose first node is an external node of the structure
        e_ = rng.choice(ext)
        sc = gen_scaled(rng, g, dict(sub, p_window_scaled=0.0, p_window_scaled_base=0.0), name + '_z', [e_, inner_node], prices)
        if sc['nodes'][0] != e_ and len(sc['nodes']) == 1:
            sc['base']['nodes'] = [e_]; sc['nodes'] = [e_]
        assets.append(sc)
    rng.shuffle(assets)
    a = {'kind': 'StructuredAsset', 'name': name, 'nodes': ext, 'assets': assets}
    if rng.random() < cfg.get('p_struct_inside', 0.0) and len(grid_points(g)) >= 5:
        # an own life time inside the horizon; every wrapped asset has an explicit window (partly wider than the structure's), so the joint
        # life time is the intersection
        pts = grid_points(g)
        T = len(pts) - 1
        step = freq_td(g['freq'])
        i = rng.randint(0, T // 2)
        j = rng.randint(i + 1, T)
        try:
            check_safe(pts[i], g.get('tz')); check_safe(pts[j], g.get('tz'))
            check_safe(pts[0] - step, g.get('tz')); check_safe(pts[T] + step, g.get('tz'))
            a['start'], a['end'] = fmt(pts[i]), fmt(pts[j])
            for b in assets:
                # (a wrapped asset living entirely outside the structure's life time would leave the inner portfolio without any variable:
                #  the set-up then fails as listed under C14 - portfolio without variables; such windows are widened)
                if b.get('start') and _cmp_ge(b['start'], pts[j]):
                    b.pop('start')
                if b.get('end') and _cmp_ge(pts[i], b['end']):
                    b.pop('end')
                if b.get('kind') == 'ScaledAsset':
                    bb = b['base']
                    if bb.get('start') and _cmp_ge(bb['start'], pts[j]):
                        bb.pop('start')
                    if bb.get('end') and _cmp_ge(pts[i], bb['end']):
                        bb.pop('end')
            for b in assets:
                if not b.get('start'):
                    s_ = rng.choice([pts[0] - step, pts[0], pts[rng.randint(0, T - 1)]])
                    try:
                        check_safe(s_, g.get('tz'))
                    except Unsafe:
                        s_ = pts[0] - step
                    b['start'] = fmt(s_)
                if not b.get('end'):
                    b['end'] = fmt(rng.choice([pts[T] + step, pts[T]]))
        except Unsafe:
            a.pop('start', None); a.pop('end', None)
    elif rng.random() < cfg.get('p_struct_window', 0.3):
        # an own life time that covers the whole horizon (so it must not change anything)
        pts = grid_points(g)
        step = freq_td(g['freq'])
        s0, e0 = pts[0] - rng.randint(0, 2) * step, pts[-1] + rng.randint(0, 3) * step
        try:
            check_safe(s0, g.get('tz')); check_safe(e0, g.get('tz'))
            if rng.random() < 0.7:
                a['end'] = fmt(e0)
            if rng.random() < 0.5:
                a['start'] = fmt(s0)
        except Unsafe:
            pass
    return a


def gen_plant(rng, g, cfg, name, power, heat, fuel, prices):
    """Plant (heat is None) or CHPAsset: unit commitment parameters, optionally with start / shutdown ramp profiles"""
    a = {'kind': 'Plant' if heat is None else 'CHPAsset', 'name': name,
         'nodes': [power] + ([heat] if heat is not None else []) + ([fuel] if fuel is not None else [])}
    a['price'] = new_price(rng, g, prices, 0, 6) if rng.random() < 0.7 else None
    a['min_cap'] = k8(rng, 0.5, 3) if rng.random() < 0.85 else 0.0
    a['max_cap'] = a['min_cap'] + k8(rng, 1, 6)
    if rng.random() < 0.6:
        a['ramp'] = max(a['min_cap'], k8(rng, 1, 5))
        if rng.random() < cfg.get('p_ramp0', 0.0):
            a['ramp'] = 0.0            # no change of output allowed from step to step while running
    r = rng.random()
    if r < 0.45:
        a['min_runtime'] = rng.randint(2, 4)
    if 0.3 < r < 0.8:
        a['min_downtime'] = rng.randint(2, 4)
    if rng.random() < 0.5:
        a['time_already_running'] = rng.choice([1, 2, 5])
        a['time_already_off'] = 0
        a['last_dispatch'] = k8(rng, max(a['min_cap'], 0.5), a['max_cap'])
    else:
        a['time_already_running'] = 0
        a['time_already_off'] = rng.choice([1, 2, 5])
        a['last_dispatch'] = 0.0
    if rng.random() < 0.5:
        a['start_costs'] = k8(rng, 0.5, 6)
    if rng.random() < 0.4:
        a['running_costs'] = k8(rng, 0, 2)
    if fuel is not None:
        a['fuel_efficiency'] = rng.choice([0.5, 0.25, 1.0, 0.625])
        if rng.random() < 0.5:
            a['start_fuel'] = k8(rng, 0.25, 3)
        if rng.random() < 0.5:
            a['consumption_if_on'] = k8(rng, 0.125, 1)
    if heat is not None:
        if rng.random() < cfg.get('p_cf_dict', 0.3):
            a['conversion_factor_power_heat'] = gen_interval_param(rng, g, 0.25, 1.0, dict(cfg, p_gap=0.0), with_end=True)
            a['conversion_factor_power_heat']['values'] = [max(v, 0.25) for v in a['conversion_factor_power_heat']['values']]
        else:
            a['conversion_factor_power_heat'] = rng.choice([0.25, 0.5, 1.0, 0.75])
        if rng.random() < 0.7:
            a['max_share_heat'] = rng.choice([0.5, 1.0, 2.0, 0.25])
    if rng.random() < cfg.get('p_profile', 0.0):
        # start / shutdown ramp profiles for the virtual output (MW per step after the start / before turning off), in the frequency of the grid
        def prof(k):
            lo = [k8(rng, 0.125, max(a['min_cap'], 0.5)) for _ in range(k)]
            return lo, [v + k8(rng, 0, 1) for v in lo]
        S, Dn = rng.choice([(1, 0), (2, 0), (0, 1), (1, 1), (2, 1), (1, 2)])
        if S:
            a['start_ramp_lower_bounds'], hi = prof(S)
            if rng.random() < 0.6:
                a['start_ramp_upper_bounds'] = hi
        if Dn:
            a['shutdown_ramp_lower_bounds'], hi = prof(Dn)
            if rng.random() < 0.6:
                a['shutdown_ramp_upper_bounds'] = hi
        a['ramp_freq'] = g['freq']
        if rng.random() < cfg.get('p_ramp_other_freq', 0.0):
            # profiles given in another frequency than the grid's: interpolated (grid finer) or averaged (profile finer)
            other = {'h': ['30min', '2h', '15min'], '30min': ['h', '15min'], '15min': ['h', '30min'], '2h': ['h', '30min']}.get(g['freq'])
            if other:
                a['ramp_freq'] = rng.choice(other)
        if rng.random() < 0.5:
            a['profile_as_array'] = True
        if rng.random() < cfg.get('p_cap_var', 0.5):
            # a maximum capacity that changes over the horizon (never below the minimum capacity)
            mc = gen_interval_param(rng, g, a['min_cap'] + 0.5, a['min_cap'] + 7, dict(cfg, p_gap=0.0), with_end=True)
            mc['values'] = [max(v, a['min_cap'] + 0.5) for v in mc['values']]
            a['max_cap'] = mc
            if 'ramp' not in a:
                a['ramp'] = max(a['min_cap'], k8(rng, 1, 5))
        if a.get('time_already_running'):
            a['time_already_running'] = rng.choice([1, 2, 5])
    s, e = gen_window(rng, g, dict(cfg, p_window=cfg.get('p_window_plant', 0.15), window_kinds=['inside', 'left', 'right']))
    if s is not None:
        a['start'] = s
    if e is not None:
        a['end'] = e
    return a


def gen_plant_portfolio(rng, cfg):
    """a plant or CHP with markets at its nodes (power market, heat sink, fuel supply)"""
    g = gen_grid(rng, cfg)
    prices = {}
    chp = rng.random() < cfg.get('p_chp', 0.5)
    fuel = 'F' if rng.random() < cfg.get('p_fuel', 0.6) else None
    heat = 'H' if chp else None
    assets = [gen_plant(rng, g, cfg, 'unit', 'P', heat, fuel, prices)]
    assets.append({'kind': 'SimpleContract', 'name': 'power_mkt', 'nodes': ['P'], 'price': new_price(rng, g, prices, -2, 10), 'min_cap': -50.0, 'max_cap': 50.0})
    if heat:
        hs = {'kind': 'SimpleContract', 'name': 'heat_sink', 'nodes': ['H'], 'price': new_price(rng, g, prices, 0, 6), 'min_cap': -k8(rng, 1, 8), 'max_cap': 0.0}
        if rng.random() < 0.3:
            hs['max_cap'] = hs['min_cap'] = -k8(rng, 0.25, 1)       # a heat demand that must be met (from the unit or not at all: add a back-up)
            assets.append({'kind': 'SimpleContract', 'name': 'heat_backup', 'nodes': ['H'], 'price': new_price(rng, g, prices, 8, 14), 'min_cap': 0.0, 'max_cap': 10.0})
        assets.append(hs)
    if fuel:
        assets.append({'kind': 'SimpleContract', 'name': 'fuel_mkt', 'nodes': ['F'], 'price': new_price(rng, g, prices, 0, 3), 'min_cap': 0.0, 'max_cap': 200.0})
    if rng.random() < 0.3:
        assets.append(gen_storage(rng, g, dict(cfg, p_window=0.0), 'sto', ['P'], prices))
    rng.shuffle(assets)
    return {'grid': g, 'prices': prices, 'assets': assets, 'opts': {}}


def gen_many_plants(seed, n, cfg, tag=''):
    out = []
    for i in range(n):
        rng = random.Random('%s/%s/%d' % (seed, tag, i))
        while True:
            try:
                sp = gen_plant_portfolio(rng, cfg)
                break
            except Unsafe:
                continue
        sp['id'] = '%s%d' % (tag, i)
        sp['seed'] = '%s/%s/%d' % (seed, tag, i)
        out.append(sp)
    return out


NAMES = ['a', 'b1', 'c', 'dd', 'e_5', 'f', 'g', 'h2', 'k', 'm']


def gen_portfolio(rng, cfg):
    """a random portfolio spec.  cfg['kinds'] = weights of asset kinds."""
    g = gen_grid(rng, cfg)
    prices = {}
    nn = rng.randint(*cfg.get('nodes', (1, 3)))
    nodes = ['N%d' % i for i in range(nn)]
    assets = []
    used = 0

    def nm():
        nonlocal used
        used += 1
        return NAMES[(used - 1) % len(NAMES)] + ('' if used <= len(NAMES) else str(used))

    # a market at (almost) every node keeps the problem feasible
    for n in nodes:
        if rng.random() < cfg.get('p_market', 0.9):
            assets.append(gen_simple_contract(rng, g, cfg, nm(), n, prices, market=True))
    kinds = cfg.get('kinds', {'SimpleContract': 2, 'Contract': 2, 'Transport': 2, 'Storage': 2,
                              'MultiCommodityContract': 1, 'OrderBook': 1, 'ExtendedTransport': 1})
    pool = [k for k, w in kinds.items() for _ in range(w)]
    na = rng.randint(*cfg.get('n_assets', (1, 4)))
    for _ in range(na):
        k = rng.choice(pool)
        if k in ('Transport', 'ExtendedTransport', 'MultiCommodityContract') and nn < 2:
            k = 'SimpleContract'
        if k == 'SimpleContract':
            assets.append(gen_simple_contract(rng, g, cfg, nm(), rng.choice(nodes), prices))
        elif k == 'Contract':
            assets.append(gen_contract(rng, g, cfg, nm(), rng.choice(nodes), prices))
        elif k in ('Transport', 'ExtendedTransport'):
            n1, n2 = rng.sample(nodes, 2)
            assets.append(gen_transport(rng, g, cfg, nm(), n1, n2, prices, ext=(k == 'ExtendedTransport')))
        elif k == 'Storage':
            if nn >= 2 and rng.random() < 0.3:
                ns = rng.sample(nodes, 2)
            else:
                ns = [rng.choice(nodes)]
            assets.append(gen_storage(rng, g, cfg, nm(), ns, prices))
        elif k == 'MultiCommodityContract':
            ns = rng.sample(nodes, rng.randint(2, min(3, nn)))
            assets.append(gen_multi(rng, g, cfg, nm(), ns, prices))
        elif k == 'OrderBook':
            assets.append(gen_orderbook(rng, g, cfg, nm(), rng.choice(nodes), prices))
        elif k == 'ScaledAsset':
            assets.append(gen_scaled(rng, g, cfg, nm(), nodes, prices))
        elif k == 'StructuredAsset':
            assets.append(gen_structured(rng, g, cfg, nm(), nodes, prices))
    rng.shuffle(assets)
    return {'grid': g, 'prices': prices, 'assets': assets, 'opts': {}}


def gen_many(seed, n, cfg, tag=''):
    out = []
    for i in range(n):
        rng = random.Random('%s/%s/%d' % (seed, tag, i))
        while True:
            try:
                sp = gen_portfolio(rng, cfg)
                break
            except Unsafe:
                continue
        sp['id'] = '%s%d' % (tag, i)
        sp['seed'] = '%s/%s/%d' % (seed, tag, i)
        out.append(sp)
    return out
