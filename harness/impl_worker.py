"""Runs the IMPLEMENTATION (/repo/eaopack via PYTHONPATH) on specs and dumps observables.
usage: impl_worker.py <probe> <in.json> <out.json>"""
import sys, os, json, io, contextlib, traceback, zlib
import numpy as np
import pandas as pd
import warnings
warnings.filterwarnings('ignore')
import eaopack as eao
from build import *
import probes


def main():
    probe, fi, fo = sys.argv[1:4]
    specs = json.load(open(fi))
    fn = getattr(probes, 'probe_' + probe)
    out = []
    for sp in specs:
        buf = io.StringIO()
        try:
            with contextlib.redirect_stdout(buf):
                r = fn(sp)
        except Exception as e:
            r = {'status': 'probe_crash', 'error': repr(e), 'trace': traceback.format_exc()[-2000:]}
        r['id'] = sp['id']
        out.append(r)
    json.dump(out, open(fo, 'w'))


if __name__ == '__main__':
    main()
