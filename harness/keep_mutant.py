"""usage: keep_mutant.py <dir> <confirm line> [caught_by...]: copies a confirmed mutant into /verif/seeded/<id>/"""
import sys, os, json, shutil
d = sys.argv[1].rstrip('/')
mid = os.path.basename(d)
dst = os.path.join('/verif/seeded', mid)
os.makedirs(dst, exist_ok=True)
for f in ('patch.diff', 'demo.py'):
    shutil.copy(os.path.join(d, f), os.path.join(dst, f))
meta = json.load(open(os.path.join(d, 'meta.json')))
meta['breaks_property'] = meta.get('property', mid.split('_')[0])
meta['confirmed'] = {'how': 'harness/confirm_mutant.sh in a scratch worktree of /repo: unedited suite 100 passed with the patch; demo.py exits 1 with the patch and 0 without',
                     'result': sys.argv[2]}
meta['ran'] = 'harness/mutant_test.sh seeded/%s/patch.diff <checks>' % mid
meta['caught_by'] = sys.argv[3:]
json.dump(meta, open(os.path.join(dst, 'meta.json'), 'w'), indent=1)
print('kept', mid)
