TB = ('Trusted: Coq 8.16.1 kernel and vm_compute (no native_compute, no axioms: Print Assumptions of every theorem is '
      'recorded in the evidence file); the hand-written model is tied to /repo only by the differential correspondence '
      'run of this check on sampled inputs; calendar (pandas), IEEE rounding and native solvers are oracles outside the model. ')

check('C01',
      'Theorem C01_nodal_balance (all mappings / node lists / step lists / points, any size): a point satisfying the nodal rows built '
      'from the mapping makes the reported dispatch (factors applied) sum to zero at every node and step; residual form for solver '
      'output. nodal_crows and dispatch_out are compared with the N rows of Portfolio.setup_optim_problem and the dispatch table of '
      'io.extract_output on generated portfolios (monolithic and split) at box points and at the solver\'s x; the solver\'s x is '
      'checked against the model rows inside Coq; nodal sums of the real dispatch table are evaluated on every case.',
      TB + 'Structured assets are covered by the same rows (skip list) and exercised under C16.',
      'Coq proof (induction over lists) + differential correspondence + in-Coq validation of solver output', 'DESIGN.md 5 C01')
check('C03',
      'The native solver cannot be proved. Proved for all problems: soundness of the executable checkers check_primal_eps, '
      'check_opt (weak duality with box bounds, sound for ANY multiplier vector), check_farkas. Every answer of optimize() on '
      'generated portfolios and synthetic problems (all row classes, duplicated mapping rows, boolean flags with non-0/1 bounds; all '
      'installed solvers in the thorough tier) is decided by these checkers inside Coq: bounds, rows, reported value, optimality '
      '(LP), 0/1 flags, and infeasibility when failure is reported.',
      TB + 'Optimality of MIP answers is only certified for feasibility/integrality/value (no branch-and-bound certificate yet); '
      'results flagged inaccurate make no claim.',
      'Coq-verified certificate checking (weak duality / Farkas) of every solver answer', 'DESIGN.md 5 C03')
check('C04',
      'Theorem C04_value_accounting (all problems, mappings, points): for a well-formed mapping the DCF table sums to -c.x and each '
      'asset total is minus the cost of its own variables. Well-formedness is decided on the implementation\'s own (c, mapping) by '
      'the executable wf_mapb (proved sound), so the identity holds for every x of that problem; dcf_asset is compared with the DCF '
      'table of extract_output at box points; value / -c.x / table sums are evaluated on the real results (monolithic and split, '
      'periodic, coarse, order books).',
      TB, 'Coq proof + per-instance well-formedness certificate + differential correspondence', 'DESIGN.md 5 C04')
check('C07',
      'Theorems about the assembly (any number of assets): vectors are the concatenation of the assets\' vectors, every mapping row '
      'points to the variable with the asset\'s own cost/bounds, the assembled mapping is well formed, exactly one nodal row per '
      '(node, step) with dispatch. The model assembly applied to the implementation\'s own stand-alone asset problems is compared '
      'with Portfolio.setup_optim_problem (c, l, u, rows, mapping, nodal record); wf_lp, l<=u, wf_map, unmapped-variable and '
      'uniqueness checks are evaluated in Coq on the implementation\'s problem.',
      TB, 'Coq proof + compositional differential correspondence + executable well-formedness checks', 'DESIGN.md 5 C07')
check('C18',
      'Theorem C18_nodal_price (all problems): if check_opt accepts (x, y) with y_N = -price then for every injection d of either sign '
      'the re-optimised value is at most value + eps + price*d. Per instance the multipliers of the nodal rows are read from the '
      'price table of extract_output and check_opt is evaluated in Coq; additionally sampled injections are re-optimised through the '
      'implementation.',
      TB + 'LP portfolios only (the implementation reports no duals for MIPs).',
      'Coq proof (right-hand-side sensitivity from weak duality) + per-instance dual certificate', 'DESIGN.md 5 C18')
