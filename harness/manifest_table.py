TB = ('Trusted: Coq 8.16.1 kernel and vm_compute (no native_compute, no axioms: Print Assumptions of every theorem is '
      'recorded in the evidence file); the hand-written model is tied to /repo only by the differential correspondence '
      'run of this check on sampled inputs; calendar (pandas), IEEE rounding and native solvers are oracles outside the model. ')

check('C01',
      'Theorem C01_nodal_balance (all mappings / node lists / step lists / points, any size): a point satisfying the nodal rows built '
      'from the mapping makes the reported dispatch (factors applied) sum to zero at every node and step; residual form for solver '
      'output. nodal_crows and dispatch_out are compared with the N rows of Portfolio.setup_optim_problem and the dispatch table of '
      'io.extract_output on generated portfolios (monolithic and split) at box points and at the solver\'s x; the solver\'s x is '
      'checked against the model rows inside Coq; nodal sums of the real dispatch table are evaluated on every case.',
      TB + 'Structured assets are covered by the same rows (skip list) and exercised under C16.',
      'Coq proof (induction over lists) + differential correspondence + in-Coq validation of solver output', 'DESIGN.md 4 C01')
check('C03',
      'The native solver cannot be proved. Proved for all problems: soundness of the executable checkers check_primal_eps, '
      'check_opt (weak duality with box bounds, sound for ANY multiplier vector), check_farkas. Every answer of optimize() on '
      'generated portfolios and synthetic problems (all row classes, duplicated mapping rows, boolean flags with non-0/1 bounds; all '
      'installed solvers in the thorough tier) is decided by these checkers inside Coq: bounds, rows, reported value, optimality '
      '(LP), 0/1 flags, and infeasibility when failure is reported. Theorem C03_translation_equivalent: bounds as two vector constraints '
      'plus rows grouped by class U/L/S/N have exactly the feasible points of the assembled problem; C03_boolean_variables: a variable '
      'is boolean iff its first mapping row carries the flag; both are compared on every instance with what cvxpy actually receives '
      '(Problem.solve wrapped inside the harness process).',
      TB + 'Optimality of MIP answers is only certified for feasibility/integrality/value (no branch-and-bound certificate yet); '
      'results flagged inaccurate make no claim.',
      'Coq-verified certificate checking (weak duality / Farkas) of every solver answer', 'DESIGN.md 4 C03')
check('C04',
      'Theorem C04_value_accounting (all problems, mappings, points): for a well-formed mapping the DCF table sums to -c.x and each '
      'asset total is minus the cost of its own variables. Well-formedness is decided on the implementation\'s own (c, mapping) by '
      'the executable wf_mapb (proved sound), so the identity holds for every x of that problem; dcf_asset is compared with the DCF '
      'table of extract_output at box points; value / -c.x / table sums are evaluated on the real results (monolithic and split, '
      'periodic, coarse, order books).',
      TB, 'Coq proof + per-instance well-formedness certificate + differential correspondence', 'DESIGN.md 4 C04')
check('C07',
      'Theorems about the assembly (any number of assets): vectors are the concatenation of the assets\' vectors, every mapping row '
      'points to the variable with the asset\'s own cost/bounds, the assembled mapping is well formed, exactly one nodal row per '
      '(node, step) with dispatch. The model assembly applied to the implementation\'s own stand-alone asset problems is compared '
      'with Portfolio.setup_optim_problem (c, l, u, rows, mapping, nodal record); wf_lp, l<=u, wf_map, unmapped-variable and '
      'uniqueness checks are evaluated in Coq on the implementation\'s problem.',
      TB, 'Coq proof + compositional differential correspondence + executable well-formedness checks', 'DESIGN.md 4 C07')
check('C18',
      'Theorem C18_nodal_price (all problems): if check_opt accepts (x, y) with y_N = -price then for every injection d of either sign '
      'the re-optimised value is at most value + eps + price*d. Per instance the multipliers of the nodal rows are read from the '
      'price table of extract_output and check_opt is evaluated in Coq; additionally sampled injections are re-optimised through the '
      'implementation.',
      TB + 'LP portfolios only (the implementation reports no duals for MIPs).',
      'Coq proof (right-hand-side sensitivity from weak duality) + per-instance dual certificate', 'DESIGN.md 4 C18')
check('C05',
      'Theorems C05_storage_physics / C05_level_rows (every storage, any number of steps of any length, inflow, efficiency, one or two '
      'nodes, window): every feasible point of the problem the model builder returns keeps the physical level in [0,size], ends at '
      'the end level and respects rate x step length (C05_level_within_size_at_every_step: for a storage the constructor accepts, i.e. end level '
      'within [0,size], at every step including the last; the builder refuses the others like the implementation since fix efdd1c0); '
      'C05_no_simultaneous for the binary mode rows; C05_holding_duration (start level 0, no inflow: every window longer than the duration contains a step with level <= 0). The storage builder is compared '
      'with Storage.setup_optim_problem (c, l, u, rows, mapping; incl. no_simult, max_store_duration, coarse frequency, windows, '
      'price), Storage.fill_level with the model level at box points; on every solved portfolio the physical level, rates, end level, '
      'reported fill level / charge / discharge, exclusivity and holding duration are recomputed from the returned x.',
      TB + 'Time blocks: C05_time_blocks (start = end level, no inflow) with the level rows compared for block sizes of fixed duration; anchored block sizes and blocks with MIP options: implementation oracle only; max_store_duration with non-zero start/end level or '
      'inflow and block_size with inflow or start != end level are known findings of the unchanged tree.',
      'Coq proof (cumulative-sum rows => level bounds) + differential correspondence + implementation oracle', 'DESIGN.md 4 C05')
check('C19',
      'Theorems on the grid model (any points): dt = elapsed time / unit, dt > 0 for increasing points, Dt = prefix sums, restricted '
      'grid = index-consistent subset of [s,e) in order with the sub-arrays, coarse groups cover every fine step of a spanned window '
      'and coarse dt is the sum, a restricted grid restricted again is the grid restricted to the intersection of the windows (indices of '
      'the original grid), values_to_grid gives the value of the unique containing interval / None outside / rejects overlap. '
      'Grid.v is compared with Timegrid (timepoints, dt, Dt, I, restricted and coarse grids, values_to_grid incl. rejection) on DST '
      'and anchored-frequency grids in four zones; the calendar hypotheses (strictly increasing, first point = start, before end) and '
      'price pass-through are evaluated on the implementation on every case.',
      TB + 'pd.date_range / tz database are the calendar oracle (evaluated independently in harness/modelspec.py).',
      'Coq proof + differential correspondence + hypothesis checks on the implementation', 'DESIGN.md 4 C19')
check('C08',
      'Theorems (any grid, any asset list): the restricted grid is exactly the set of horizon steps in [start,end); a window missing the '
      'horizon selects nothing; an empty asset problem anywhere in the asset list leaves the whole portfolio problem unchanged; a take '
      'period without step emits no row, otherwise its right-hand side is value x covered / period duration; an order without step '
      'appended to any order book adds one [0,1] variable with zero cost and no mapping row, and such a variable changes neither the '
      'optimum nor the optimal points of the rest. The model builders are compared with the implementation on windowed assets (inside, '
      'straddling, off-grid, before, after), takes and orders; on the implementation every generated portfolio is rebuilt with an '
      'outside asset / order / order book / take period and the two problems are compared structurally (costs, bounds, rows, mapping, '
      'value), dispatch outside each asset window is checked at box points and optima, and take rows are recomputed independently.',
      TB + 'Assets with a coarser frequency are excluded from the window oracle (their windows are the subject of the C19 known finding).',
      'Coq proof + differential correspondence + metamorphic implementation oracle (with/without outside element)', 'DESIGN.md 4 C08')
check('C20',
      'Theorems about the order-book problem (any number of orders, any grid): every feasible point executes each order at a fraction in '
      '[0,1]; the reported dispatch at a step is the sum over orders covering it of fraction x capacity x step length; the cost of an '
      'order is capacity x price x discounted covered duration; every mapping row carries the full-execution flag; an order without a '
      'step is inert. The builder is compared with OrderBook.setup_optim_problem (incl. DST grids, straddling / off-grid / outside '
      'orders, full_exec, wacc); on every solved portfolio the fractions, 0/1 flags, delivery per step, payment per order and the cash '
      'flow are recomputed from the output tables and the calendar, and the optimum is compared with an independently written '
      'formulation (one execution variable per order, harness/ref.py, HiGHS) in which EAO\'s dispatch must be feasible.',
      TB + 'The independent formulation is supporting evidence and the failing-input search, not a proof.',
      'Coq proof + differential correspondence + implementation oracle + independent reference formulation', 'DESIGN.md 4 C20')
check('C02',
      'PARTIAL proof, composition proved for three asset classes. Proved for all inputs and sizes (Props/C02.v): (1) composition '
      '(Reference.v): for any list of asset problems each realising a textbook object (admissible states, discounted cost, flows into '
      'nodes) the assembled portfolio problem and the textbook program - all assets admissible, flows balanced at every node and step, '
      'cost additive - have the same optimum; a feasible point decodes to a feasible state that costs no more and has exactly the '
      'reported flows, every feasible state is reached by a feasible point of its cost, an optimal point decodes to an optimal state '
      'and value = - cost; (2) instances: the model builders of Transport, Storage (one or two variables per step, charging efficiency, '
      'in / out / holding costs, inflow, start / end level, two nodes) and SimpleContract (single variable or in/out split with a '
      'non-negative spread) and Contract (the same plus min / max take rows: volume of the period\'s steps against the prorated value) '
      'on a fine grid realise the textbook transport / storage (level recursion in [0,size], end level, rate x step length) / contract; '
      'MultiCommodityContract (the contract delivering into several nodes with factors) and ExtendedTransport (transport + take rows on the '
      'quantity leaving node 1) likewise; a boolean test of the instance hypotheses is proved sufficient (RefCorr.v) and evaluated on every '
      'generated portfolio of these classes; (3) building blocks for all classes: in/out split, limits = rate x step length, transport '
      'flows, level recursion, holding cost by Abel summation, take prorating, portfolio = direct sum + nodal rows; (4) coarser asset '
      'frequency (RefCoarse.v): any unit whose mapping is extended to the minor steps realises the textbook object with flows spread in '
      'proportion to the step lengths, and the builders of SimpleContract, Transport and Storage on a coarse grid are exactly such units '
      '(prices averaged over the minor steps). Not proved: '
      'instances for periodic assets, take periods on a coarse frequency and the storage binaries; the '
      'discount factor itself (irrational power, data). Decided per instance: every model builder is compared with the implementation; '
      'for portfolios of the covered classes Coq evaluates the textbook program on EAO\'s result (value = - textbook cost, reported '
      'dispatch = textbook flows, nodal balance); for all classes EAO\'s optimum is compared with the optimum of an independently '
      'written textbook LP (harness/ref.py, HiGHS) in which EAO\'s returned dispatch must be feasible.',
      TB + 'The independent formulation harness/ref.py is supporting evidence and the failing-input search, not a proof; its own correctness is trusted.',
      'Coq proof (composition + three instances; other classes: building blocks) + differential correspondence + textbook program evaluated in Coq + independent reference LP per instance', 'DESIGN.md 4 C02')
check('C15',
      'Theorems (any problem, any mapping with any number of rows per variable, any window, any previous point): exactly the variables '
      'having a mapping row at a step of the window get l = u = previous value, every other bound, the costs, rows and mapping are '
      'untouched; every feasible point of the rebuilt problem carries the previous values on the window; if the previous point was '
      'optimal it stays optimal and nothing new becomes feasible, so the optimum is unchanged. The model fix_window applied to the '
      'implementation\'s own problem is compared with Portfolio.setup_optim_problem(fix_time_window=...) for mask, index and date '
      'windows (incl. dates in the repeated hour of a DST switch, coarse-frequency / periodic / transport / multi-commodity / scaled / '
      'structured assets); on the implementation the pinned set is recomputed from the mapping, and the problem is re-optimised with '
      'unchanged prices (value and window values unchanged) and with changed prices (window values unchanged, other bounds free).',
      TB + 'A date window means all steps whose time point is not after the date (the behaviour of the unchanged tree).',
      'Coq proof + differential correspondence + implementation oracle (re-optimisation)', 'DESIGN.md 4 C15')
check('C14',
      'Theorems (any number of intervals of any size): the interval problems form a direct sum, the concatenation of interval optima is '
      'optimal for it and its value is the sum of the interval optima; the whole is feasible iff every interval is; the re-based '
      'mapping points into its own variable block and to steps of the original grid; any point passing the primal check of the '
      'unsplit problem is bounded by a certified unsplit optimum. Per instance on the implementation: number and step ranges of the '
      'intervals from the calendar, mapping steps per interval, dispatch rows equal to the unsplit problem, split value = sum of '
      'independently optimised intervals, the concatenated solution mapped onto the unsplit variables respects its limits, split = '
      'unsplit for uncoupled portfolios and split <= unsplit for coupling through takes / storages with start = end level, the latter '
      'certified in Coq (check_opt for the unsplit optimum, check_primal_eps for the concatenated point). Partial last intervals, '
      'day splits with main unit d and discounting, DST grids, twin assets meeting at a split boundary are generated.',
      TB + 'That the unsplit problem of an uncoupled portfolio is this direct sum up to variable order is checked structurally per '
      'instance, not proved. Order books, scaled and structured assets are excluded from the comparison with the unsplit problem '
      '(their variables are duplicated per interval); coarse-frequency and periodic assets are not combined with splitting.',
      'Coq proof (direct sum) + per-instance certificates in Coq + implementation oracle', 'DESIGN.md 4 C14')
check('C09',
      'Theorems (any portfolio): under any renaming of assets, nodes (injective) and variable names the assembled problem (costs, '
      'bounds, asset rows, nodal rows) is literally unchanged and the mapping is the relabelled mapping; dispatch and cash flows of '
      'every asset / node / step are the old numbers under the new labels for every point x; swapping two blocks of a direct sum '
      'keeps feasibility, value and optimality. On the implementation every generated portfolio (incl. scaled and structured assets, '
      'order books, coarse / periodic assets) is rebuilt with adversarial names (numeric, digit-led, prefix- and suffix-related, with '
      'blanks and punctuation) and with a permuted asset list: the problems must be identical / have the same per-asset blocks, the '
      'optimum, the dispatch and cash-flow tables must agree under the relabelling; the implementation\'s renamed mapping is compared '
      'in Coq with Rename.rename_map of its base mapping (the hypothesis of the equivariance theorems).',
      TB + 'For a permuted asset list only value, status and per-asset blocks are compared (optimal dispatch need not be unique); the '
      'general statement for permutations with nodal coupling is checked per instance, the theorem covers block swaps of direct sums.',
      'Coq proof (equivariance) + differential correspondence + metamorphic implementation oracle', 'DESIGN.md 4 C09')
check('C12',
      'Theorems (any grid points, hence any step lengths, any positive unit factor k): step lengths in a unit k times as long are the old '
      'ones divided by k; a rate multiplied by k gives the same per-step limit / cost; a duration divided by k compares with the step '
      'lengths as before; the discount exponent (cumulative time x unit) is unit free; the step lengths add up to the elapsed time '
      'between first and last point; the total limit of a constant rate is rate x total time. On the implementation every generated '
      'portfolio (contracts in all parameter forms, transports, storages with inflow / holding cost / holding duration, order books, '
      'scaled assets, coarse and periodic assets, DST nights, daily grids over DST switches in CET and US/Eastern) is rebuilt in '
      'another main unit with rates, holding costs, durations and fixed costs re-expressed: cost vector, bounds, rows, right-hand '
      'sides, mapping factors and optimum must agree to 1e-9; limits of constant-rate assets must add up to rate x elapsed calendar '
      'time; the model builders are compared with the implementation in both units.',
      TB + 'Durations are generated strictly between step boundaries: a comparison sitting exactly on a boundary may flip by floating-point '
      'rounding when the duration is divided by 24 or 60, which is outside the exact model. Plant / CHP ramps and run times are '
      'covered under C06.',
      'Coq proof + metamorphic implementation oracle (unit change) + differential correspondence', 'DESIGN.md 4 C12')
check('C13',
      'Theorems (any problem, any leader map, any merged point): a merged point stands for the fine point in which every variable '
      'carries the value of its group leader; that point satisfies the equalities; merged rows evaluate on it exactly as the fine rows '
      '(summed columns), the merged objective equals the fine objective (summed costs), merged limits are the means of the group '
      'limits - so the periodic problem is the fine problem with the equalities added and the limits averaged. For coarse assets the '
      'mapping spreads a coarse variable over its minor steps with weights dt_minor/dt_major that add up to one at a constant rate. '
      'Per instance: the labels / leader map, merged vectors and minor-grid rows of the model builders are compared with the '
      'implementation for every asset type accepting the options (one and two variables per step, transports with two rows per '
      'variable, storages, multi-commodity); on the implementation the dispatch at box points and optima is checked for constant rate '
      'inside coarse intervals and repetition across periods within durations, and the optimum is compared with the independently '
      'written fine-grid LP with exactly those equalities (harness/ref.py), incl. day-coarse assets over 23 h / 25 h DST days and '
      'daily periods within anchored weeks.',
      TB + 'Claim domain: coarse assets with constant limits and no take periods, merged assets without holding cost and discounting '
      '(the documented averaging covers limits and prices only).',
      'Coq proof (merge as value-preserving substitution) + differential correspondence + independent reference LP', 'DESIGN.md 4 C13')
check('C16',
      'Theorem C16_scaled_fixed_equiv (every base problem whose variables are all dispatch variables, any sizes, S > 0, 0 <= s in '
      '[min,max]): (x, s) is feasible for the scaled problem iff x is feasible for the base problem with all bounds and right-hand '
      'sides multiplied by s/S, and the value is the base value less s x cost rate x duration; the bounds the code adds are shown to '
      'be implied by the tie rows. Theorem C16_structured_flatten_equiv (any asset list, node lists, steps): the portfolio consisting '
      'of the structured asset has exactly the feasible points and values of the flat portfolio; at external nodes the outer nodal '
      'rows are the inner dispatch rows. Per instance: the builders of scaled and structured assets are compared with the '
      'implementation (incl. one or two external nodes); every generated portfolio is re-solved with scaled assets held at fixed '
      'scales and compared with the plain portfolio whose base assets carry capacities x s/S (value less fixed costs), free-scale '
      'optima are compared with fixed-scale optima (>= all sampled, = at the reported scale), and portfolios with structured assets '
      'are compared with their flattened versions.',
      TB + 'Base assets with binary or other internal variables are rejected by the code and by the model (C16_scaled_bool_partial). '
      'For structured assets inside larger portfolios the equivalence is checked per instance (values), the theorem covers the '
      'portfolio consisting of the structured asset.',
      'Coq proof + differential correspondence + metamorphic implementation oracle', 'DESIGN.md 4 C16')
check('C17',
      'Theorems: for every problem, future mask, sample costs and extended point the rows of scenario i of the extended problem '
      'evaluate exactly as the original rows on (present of the point + future block i), i.e. the scenarios share the present '
      'decision; on this two-stage structure, for any feasibility relation and any values: the optimum is at most the mean of the '
      'scenario optima, at least the expected value of every present decision with feasible recourse, and equal to the deterministic '
      'optimum when all scenarios coincide; the worst case of the robust solution is at least that of every feasible point and at '
      'most the smallest scenario optimum. Per instance: SLP.slp_lp applied to the implementation\'s base problem, mask and sample '
      'cost vectors is compared with the output of make_slp (costs, bounds, rows); on the implementation the two-stage optimum is '
      'compared with the mean of independently optimised scenarios, with the expected value of fixing the present to each scenario '
      'solution (recourse re-optimised through fix_time_window) and with the deterministic optimum for identical samples; the robust '
      'solution\'s worst case is evaluated with cost vectors of freshly built scenario problems (create_cost_samples with and '
      'without grid argument) against every scenario solution and the scenario optima.',
      TB + 'That the bounds and scaled costs of the extended problem realise the two-stage reading is checked by correspondence, not '
      'proved (index arithmetic of the duplicated future block).',
      'Coq proof (two-stage / epigraph bounds, row structure) + differential correspondence + implementation oracle', 'DESIGN.md 4 C17')
check('C10',
      'Theorem C10_portfolio_is_pure (Purity.v): in the state machine of the state the code really mutates - the grid reference of every '
      'asset and the restricted grid / discount factors cached on the shared grid object - every problem built along EVERY sequence of '
      'set_timegrid, set-up with grid, set-up without grid and portfolio set-up, from every state, is the one fresh objects give; the '
      'behaviour before the repair of the tree is refuted by a three-step sequence. The model is tied to the code by operation '
      'sequences on real shared objects (portfolio / single-asset set-ups with and without grid argument, other horizons, shifted '
      'starts, other time zone, other prices, split set-up, fixed windows with a re-used dictionary, serialisation in between): '
      'every problem built is compared field by field with the problem freshly built objects give, and the user\'s parameter '
      'dictionaries and price arrays are compared with copies taken beforehand.',
      TB + 'Only the state enumerated in Purity.v is modelled; a new hidden cache in the Python would show as a difference in the '
      'sequence runs, not in the theorem. After a set-up that raised, only set-ups that are handed their grid are compared. '
      'set_timegrid on a wrapper (scaled / structured asset) does not reach the wrapped assets and is not compared.',
      'Coq proof (state machine invariant over all operation sequences) + operation-sequence differential check on the implementation', 'DESIGN.md 4 C10')
check('C11',
      'The model is REGENERATED from /repo on every run: harness/classtable.py walks eaopack with ast and emits coq/ClassTable.v (per '
      'class: constructor keywords incl. **kwargs forwarding, parameters without default, every attribute any method assigns to self, '
      'the keys the serialiser pops; for Timegrid / Portfolio the keys written). Theorem C11_every_class_loadable (finite table, decided '
      'by vm_compute): for every asset class every saved key is accepted by the constructor, every required parameter is saved, every '
      'constructor parameter is stored under its own name and none is popped - except LinkedAsset, whose failure is proved '
      '(C11_linked_asset_refuted) and listed as known finding; C11_timegrid_keys: start, end, frequency, main unit and time zone are '
      'written and are constructor keywords. On the implementation every generated portfolio (all asset types of the generator in all '
      'parameter forms, scaled assets with own life time, structured assets, order books; grids with freq != unit, three zones) plus '
      'Plant, CHPAsset, LinkedAsset objects are saved, loaded and saved again, fresh and after a set-up: JSON equal, own grid equal '
      '(points, zone, unit, dt), identical problems on the original and on a second grid (dates also as numpy arrays of several units, '
      'date indices, stamps in UTC / fixed offsets; generated plants and CHP units). Value layer (hand-written model Codec.v of '
      'json_serialize_objects / json_deserialize_objects for numbers, strings, dates, naive and zone-aware stamps, numeric arrays, date '
      'arrays of any unit, date indices, lists and dictionaries to any depth): C11_value_round_trip (loading what was saved gives the '
      'normal form: date arrays in nanoseconds, all else unchanged), C11_save_load_save (saving the loaded object reproduces the same '
      'JSON), C11_load_is_stable; per instance the text EAO writes is compared with ser v, the object EAO loads with deser of that '
      'text and with norm v, and the second text with the first.',
      TB + 'The translator is trusted to read the sources correctly (fails closed on constructs it does not interpret: recorded as '
      'c_problems and make the class not loadable). The text form of a time stamp / day (strftime / strptime) and the float repr round '
      'trip are represented by leaves of the model and exercised by the correspondence run only.',
      'Coq proof over a model generated from the source (ast translator) + hand-written codec model with correspondence + round-trip oracle on the implementation', 'DESIGN.md 4 C11')
check('C06',
      'PARTIAL proof. Proved for any number of steps and any durations (Props/C06.v, rows as Plant.v emits them, row shapes proved): the '
      'on/off patterns admitting start flags that satisfy the start and run-time rows are EXACTLY those in which every run begun inside '
      'the horizon lasts at least the minimum run time or reaches the end; the down-time rows hold EXACTLY for the patterns in which '
      'every stop (incl. a stop in the first step of a unit declared running) lasts the minimum down time or reaches the end; off => '
      'zero output and on => min <= power + factor x heat <= max; the output changes by at most the ramp between steps and in the '
      'first step relative to the last dispatch; start flags dominate the transitions and the flags set exactly at the transitions '
      'keep every row satisfied (so positive start costs / fuel charge exactly the transitions); heat <= share x power; the fuel '
      'factors give output / efficiency + running + start consumption; the same run-length statements are proved for the row lists '
      'the model builder emits (PlantRows.v: pl_rows_start / pl_rows_rt / pl_rows_dt evaluate to exactly these inequalities); start / '
      'shutdown ramp profiles (PlantProfiles.v): j steps after a flagged start (j+1 steps before a flagged shutdown) the j-th profile '
      'values bound the output instead of the capacities, without a flag in reach the capacities apply, and with the separation row the '
      'start and shutdown flags are exactly the transitions; profiles given in another frequency than the grid (Ramp.v: interpolation / '
      'time-weighted averaging as in _convert_ramp) stay within the range of the given profile and cover the same time. The model builder Plant.v (Plant and CHPAsset with on / start / shutdown '
      'binaries, capacity rows with profile terms, ramp rows and their release during profiles, start / shutdown definition, run-time, '
      'down-time, heat rows, initial-state bounds and rows, fuel mapping, time-varying capacity) is compared with the implementation, '
      'also on a second set-up of the same objects; on the implementation every optimised plant portfolio is checked from x (capacity '
      'or profile window, ramps incl. first step, start flags, run lengths incl. declared initial state and profile lengths, heat '
      'share, fuel drawn, cash flow), and for T <= 6 all 2^T on/off patterns are pinned through bounds and their feasibility compared '
      'with the run-length specification (units without profiles).',
      TB + 'Not modelled: separate heat profiles; the release of the ramp '
      'rows during profiles is proved on the named release terms the builder emits (ramp binds without a flag in reach, row implied with one); the link between the abstract row inequalities and the list of rows Plant.v '
      'emits is by the row-shape lemmas and the correspondence run, not one theorem about the builder. Durations are converted to steps '
      'by the documented rounding up (harness side).',
      'Coq proof (run-length characterisation of the rows, partial) + differential correspondence + pattern enumeration on the implementation', 'DESIGN.md 4 C06')
