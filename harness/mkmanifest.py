"""writes MANIFEST.json from the per-property table below (run by hand after adding a check)"""
import json, os
ROOT = os.path.dirname(os.path.dirname(os.path.abspath(__file__)))

CHECKS = {}
NA = {}


def check(pid, text, note, technique, ref):
    CHECKS[pid] = {
        'property_id': pid,
        'quick_cmd': '/venv/bin/python harness/check.py %s --tier quick' % pid,
        'thorough_cmd': '/venv/bin/python harness/check.py %s --tier thorough' % pid,
        'evidence_file': 'evidence/%s.json' % pid,
        'replay_cmd_template': '/venv/bin/python harness/replay.py {path}',
        'engine': 'coq-model',
        'level_claimed': {'category': 'proof', 'text': text, 'design_ref': ref},
        'level_note': note,
        'technique': technique}


exec(open(os.path.join(ROOT, 'harness', 'manifest_table.py')).read())

props = [json.loads(l)['id'] for l in open(os.path.join(ROOT, 'properties.jsonl'))]
for p in props:
    if p not in CHECKS and p not in NA:
        NA[p] = 'check not built yet in this session (work in progress); the property is expressible in the model, see DESIGN.md section 5'
m = {
    'version': 1,
    'setup_cmd': 'bash setup.sh',
    'hooks': {'guard': 'EAO_VERIF',
              'enable': 'no hooks are needed: every observation point is public API; the harness sets EAO_VERIF=1 but no code in /repo reads it',
              'baseline_off_cmd': 'cd /repo && /venv/bin/python -m pytest -q -p no:cacheprovider --timeout=900',
              'source_commits': [], 'add_only': True},
    'engines': [
        {'name': 'coq-model', 'path': 'coq/', 'serves_properties': sorted(CHECKS),
         'kind_free_text': 'hand-written Gallina model of EAO over Q with theorems (Coq 8.16.1), evaluated by vm_compute on generated case files'},
        {'name': 'harness', 'path': 'harness/', 'serves_properties': sorted(CHECKS),
         'kind_free_text': 'seeded differential correspondence between the model and /repo, implementation-level property oracles, Coq-checked certificates for solver output'}],
    'checks': [CHECKS[p] for p in props if p in CHECKS],
    'not_applicable': [{'property_id': p, 'reason': NA[p]} for p in props if p in NA],
    'notes': 'All checks: /venv/bin/python harness/check.py <id> --tier quick|thorough; VERIF_SEED seeds every random choice. See DESIGN.md.'}
json.dump(m, open(os.path.join(ROOT, 'MANIFEST.json'), 'w'), indent=1)
print('checks:', sorted(CHECKS), 'not claimed:', sorted(NA))
