"""spec -> Coq terms of the model (Grid.v / Assets.v).  The calendar is resolved HERE with pandas
(date_range, time zones), independently of eaopack's Timegrid: the model only sees instants."""
import numpy as np
import pandas as pd
import common as C


def tstamp(t, tz):
    t = pd.Timestamp(t)
    if t.tzinfo is None and tz is not None:
        t = t.tz_localize(tz)
    return t


def inst(t, tz):
    """seconds since the epoch (naive times are read as UTC)"""
    t = tstamp(t, tz)
    return int(t.value // 10 ** 9)


def unit_secs(unit):
    return int(pd.Timedelta(1, unit).total_seconds())


def grid_pts(g):
    tz = g.get('tz')
    pts = pd.date_range(start=tstamp(g['start'], tz), end=tstamp(g['end'], tz), freq=g['freq'], tz=tz)
    return [int(p.value // 10 ** 9) for p in pts]


def grid_term(g):
    tz = g.get('tz')
    return '(Build_grid %s %s %s %s)' % (C.lst([C.z(p) for p in grid_pts(g)]), C.z(inst(g['start'], tz)),
                                         C.z(inst(g['end'], tz)), C.z(unit_secs(g.get('unit', 'h'))))


def discount(g, wacc):
    """discount factors per step of the full grid (floats), from the calendar points"""
    pts = np.asarray(grid_pts(g), dtype=float)
    dt = (pts[1:] - pts[:-1]) / unit_secs(g.get('unit', 'h'))
    Dt = np.cumsum(dt)
    d = (1. + wacc) ** (1. / 365.)
    return 1. / d ** (Dt * unit_secs(g.get('unit', 'h')) / 86400.0)


def rgrid_term(g, a, G='G'):
    """restricted grid of asset a (expression of type option rgrid)"""
    tz = g.get('tz')
    s = inst(a['start'], tz) if a.get('start') else inst(g['start'], tz)
    e = inst(a['end'], tz) if a.get('end') else inst(g['end'], tz)
    disc = C.qvec(discount(g, a.get('wacc', 0) or 0))
    if a.get('freq') and a['freq'] != g['freq']:
        cp = pd.date_range(start=tstamp(a.get('start') or g['start'], tz), end=tstamp(a.get('end') or g['end'], tz),
                           freq=a['freq'], tz=tz)
        return '(coarse %s %s %s)' % (G, disc, C.lst([C.z(int(p.value // 10 ** 9)) for p in cp]))
    return '(Some (restrict %s %s %s %s))' % (G, disc, C.z(s), C.z(e))


def implicit_ends(p, tz):
    """instants of the interval ends of an interval dictionary; without 'end' the documented convention applies: an interval ends
    where the next one starts, the last one lasts twice the distance of the last two starts (computed on the time stamps as
    given: wall-clock arithmetic for naive stamps, which are localised afterwards), a single start is valid for ever (None)"""
    if 'end' in p:
        return [inst(t, tz) for t in p['end']]
    st = [pd.Timestamp(t) for t in p['start']]
    if len(st) == 1:
        return [None]
    last = st[-1] + 2 * (st[-1] - st[-2])
    return [inst(t, tz) for t in st[1:]] + [inst(last, tz)]


def param_term(p, spec, g):
    tz = g.get('tz')
    if p is None:
        raise ValueError('None param')
    if isinstance(p, (int, float)):
        return '(PConst %s)' % C.q(float(p))
    if isinstance(p, str):
        return '(PKey %s)' % C.qvec(spec['prices'][p])
    if isinstance(p, dict) and 'start' in p:
        st = [inst(t, tz) for t in p['start']]
        en = implicit_ends(p, tz)
        return '(PDict %s)' % C.lst(['(%s, %s, %s)' % (C.z(s), 'None' if e is None else 'Some %s' % C.z(e), C.q(float(v))) for s, e, v in zip(st, en, p['values'])])
    raise ValueError('param form %r' % (p,))


def price_term(key, spec):
    return 'None' if key is None else '(Some %s)' % C.qvec(spec['prices'][key])


def takes_term(tk, g):
    tz = g.get('tz')
    if tk is None:
        return '[]'
    return C.lst(['(%s, %s, %s)' % (C.z(inst(s, tz)), C.z(inst(e, tz)), C.q(float(v)))
                  for s, e, v in zip(tk['start'], tk['end'], tk['values'])])


def periodic_term(g, a):
    """(periods, durations) instants as pandas computes them in __make_periodic__, or None"""
    if not a.get('periodicity'):
        return 'None'
    tz = g.get('tz')
    pts = pd.date_range(start=tstamp(g['start'], tz), end=tstamp(g['end'], tz), freq=g['freq'], tz=tz)
    tp = pts[:-1]
    fp = a['periodicity']
    fd = a.get('periodicity_duration')

    def td(f):
        try:
            return pd.Timedelta(1, f)
        except Exception:
            return pd.Timedelta(f)
    periods = pd.date_range(tp[0] - td(fp), tp[-1] + td(fp), freq=fp, tz=tz)
    if fd is None:
        durations = [tp[0], tp[-1] + (tp[-1] - tp[0])]
    else:
        durations = pd.date_range(tp[0] - td(fd), tp[-1] + td(fd), freq=fd, tz=tz)
    f = lambda l: C.lst([C.z(int(pd.Timestamp(p).value // 10 ** 9)) for p in l])
    return '(Some (%s, %s))' % (f(periods), f(durations))


def asset_term(a, spec, G='G'):
    """expression of type option aprob for the asset's stand-alone problem"""
    g = spec['grid']
    k = a['kind']
    rg = rgrid_term(g, a, G)
    per = periodic_term(g, a)
    if k in ('SimpleContract', 'Contract', 'MultiCommodityContract'):
        cp = '(Build_contract_p %s %s %s %s %s %s)' % (
            C.s(a['name']), C.s(a['nodes'][0]), price_term(a.get('price'), spec),
            param_term(a.get('min_cap', 0.0), spec, g), param_term(a.get('max_cap', 0.0), spec, g),
            param_term(a.get('extra_costs', 0.0), spec, g))
        if k == 'SimpleContract':
            return '(build_simple_contract %s %s %s %s)' % (G, rg, cp, per)
        mx, mn = takes_term(a.get('max_take'), g), takes_term(a.get('min_take'), g)
        if k == 'Contract':
            return '(build_contract %s %s %s %s %s %s)' % (G, rg, cp, mx, mn, per)
        return '(build_multi %s %s %s %s %s %s %s %s)' % (G, rg, cp, mx, mn, per, C.lst([C.s(n) for n in a['nodes']]),
                                                         C.qvec(a['factors_commodities']))
    if k in ('Transport', 'ExtendedTransport'):
        tp = '(Build_transport_p %s %s %s %s %s %s %s %s)' % (
            C.s(a['name']), C.s(a['nodes'][0]), C.s(a['nodes'][1]), price_term(a.get('costs_time_series'), spec),
            C.q(float(a.get('costs_const', 0.0))), C.q(float(a.get('min_cap', 0.0))), C.q(float(a.get('max_cap', 0.0))),
            C.q(float(a.get('efficiency', 1.0))))
        if k == 'Transport':
            return '(build_transport %s %s %s %s)' % (G, rg, tp, per)
        return '(build_ext_transport %s %s %s %s %s %s)' % (G, rg, tp, takes_term(a.get('max_take'), g),
                                                          takes_term(a.get('min_take'), g), per)
    if k == 'Storage':
        md = a.get('max_store_duration')
        sp = '(Build_storage_p %s %s %s %s %s %s %s %s %s %s %s %s %s %s %s)' % (
            C.s(a['name']), C.lst([C.s(n) for n in a['nodes']]), C.q(float(a['size'])), C.q(float(a['cap_in'])),
            C.q(float(a['cap_out'])), C.q(float(a.get('start_level', 0.0))), C.q(float(a.get('end_level', 0.0))),
            C.q(float(a.get('cost_in', 0.0))), C.q(float(a.get('cost_out', 0.0))), C.q(float(a.get('cost_store', 0.0))),
            C.q(float(a.get('eff_in', 1.0))), C.q(float(a.get('inflow', 0.0))), price_term(a.get('price'), spec),
            C.b(a.get('no_simult_in_out', False)), 'None' if md is None else '(Some %s)' % C.q(float(md)))
        return '(build_storage %s %s %s %s)' % (G, rg, sp, per)
    if k in ('Plant', 'CHPAsset'):
        import math
        chp = k == 'CHPAsset' and not a.get('_no_heat')
        nodes = a['nodes']
        heat = nodes[1] if chp else None
        fuel = nodes[-1] if len(nodes) > (2 if chp else 1) else None
        cp = '(Build_contract_p %s %s %s %s %s %s)' % (
            C.s(a['name']), C.s(nodes[0]), price_term(a.get('price'), spec),
            param_term(a.get('min_cap', 0.0), spec, g), param_term(a.get('max_cap', 0.0), spec, g),
            param_term(a.get('extra_costs', 0.0), spec, g))
        step_units = freq_td_(g['freq']) / freq_td_(g.get('unit', 'h'))
        st = lambda v: C.nat(int(math.ceil((v or 0) / step_units - 1e-12)))
        opt_s = lambda v: 'None' if v is None else '(Some %s)' % C.s(v)
        srl = a.get('start_ramp_lower_bounds') or []
        sdl = a.get('shutdown_ramp_lower_bounds') or []
        rf = a.get('ramp_freq') or g.get('unit', 'h')
        if rf != g['freq'] and (srl or sdl):
            # profile in another frequency than the grid's: Ramp.convert_ramp; ct = grid step in profile steps (exact ratio)
            from fractions import Fraction
            ct = Fraction(int(freq_td_(g['freq']).total_seconds()), int(freq_td_(rf).total_seconds()))
            pv = lambda w: '(convert_ramp %s (%d # %d))' % (C.qvec([float(v) for v in w]), ct.numerator, ct.denominator) if w else '[]'
        else:
            pv = lambda w: C.qvec([float(v) for v in w])
        prof = ' '.join(pv(w) for w in (srl, a.get('start_ramp_upper_bounds') or srl, sdl, a.get('shutdown_ramp_upper_bounds') or sdl))
        pp = '(Build_plant_p %s %s %s %s %s %s %s %s %s %s %s %s %s %s %s %s ' % (
            opt_s(heat), opt_s(fuel), 'None' if a.get('ramp') is None else '(Some %s)' % C.q(float(a['ramp'])), C.q(float(a.get('last_dispatch', 0.0))),
            param_term(a.get('start_costs', 0.0), spec, g), param_term(a.get('running_costs', 0.0), spec, g),
            st(a.get('min_runtime', 0)), st(a.get('time_already_running', 0)), st(a.get('min_downtime', 0)), st(a.get('time_already_off', 0)),
            C.b(not (isinstance(a.get('min_cap', 0.0), (int, float)) and a.get('min_cap', 0.0) == 0)),
            param_term(a.get('conversion_factor_power_heat', 1.0), spec, g),
            'None' if a.get('max_share_heat') is None else '(Some %s)' % param_term(a['max_share_heat'], spec, g),
            param_term(a.get('start_fuel', 0.0), spec, g), param_term(a.get('fuel_efficiency', 1.0), spec, g),
            param_term(a.get('consumption_if_on', 0.0), spec, g)) + '%s %s)' % (prof, C.q(float(step_units)))
        return '(build_plant %s %s %s %s %s %s)' % (G, rg, cp, takes_term(a.get('max_take'), g), takes_term(a.get('min_take'), g), pp)
    if k == 'OrderBook':
        tz = g.get('tz')
        o = a['orders']
        orders = C.lst(['(Build_order %s %s %s %s)' % (C.z(inst(s, tz)), C.z(inst(e, tz)), C.q(float(c)), C.q(float(p)))
                        for s, e, c, p in zip(o['start'], o['end'], o['capa'], o['price'])])
        return '(build_orderbook %s %s %s %s %s)' % (C.s(a['name']), C.s(a['nodes'][0]), C.b(a.get('full_exec', False)),
                                                     rgrid_term(g, {'wacc': a.get('wacc', 0)}, G), orders)
    if k == 'ScaledAsset':
        base = asset_term(a['base'], spec, G)
        srg = rgrid_term(g, {'start': a.get('start'), 'end': a.get('end'), 'wacc': 0}, G)
        return '(build_scaled %s %s %s %s %s %s %s %s)' % (
            C.s(a['name']), C.s(a['base']['nodes'][0]), C.q(float(a.get('min_scale', 0.0))), C.q(float(a.get('max_scale', 1.0))),
            C.q(float(a.get('norm_scale', 1.0))), C.q(float(a.get('fix_costs', 0.0))), srg, base)
    if k == 'StructuredAsset':
        inner_nodes = []
        for b in a['assets']:
            for n in b['nodes']:
                if n not in inner_nodes:
                    inner_nodes.append(n)
        tz = spec['grid'].get('tz')
        inner = []
        for b in a['assets']:
            # joint life time (calendar resolution): where both name a start (end), the later (earlier) one counts
            b = dict(b)
            if a.get('start') and b.get('start') and inst(a['start'], tz) > inst(b['start'], tz):
                b['start'] = a['start']
            if a.get('end') and b.get('end') and inst(a['end'], tz) < inst(b['end'], tz):
                b['end'] = a['end']
            inner.append(b)
        return '(build_struct %s %s %s %s %s)' % (G, C.s(a['name']), C.lst([C.s(n) for n in inner_nodes]),
                                                  C.lst([C.s(n) for n in a['nodes']]),
                                                  C.lst([asset_term(b, spec, G) for b in inner]))
    raise ValueError('asset kind %s not modelled' % k)


def portfolio_nodes(spec):
    out = []
    for a in spec['assets']:
        for n in a['nodes']:
            if n not in out:
                out.append(n)
    return out


def portfolio_term(spec, G='G'):
    return '(build_portfolio %s %s %s)' % (G, C.lst([C.s(n) for n in portfolio_nodes(spec)]),
                                           C.lst([asset_term(a, spec, G) for a in spec['assets']]))


def freq_td_(f):
    """pandas Timedelta of a frequency string like 'h', '2h', '30min', 'd'"""
    try:
        return pd.Timedelta(1, f)
    except Exception:
        return pd.Timedelta(f)


def uspec_term(a, spec, G='G'):
    """C02: the asset as a `uspec` of RefCorr.v (model problem + textbook object), or None when the instance theorems of
    Reference.v do not cover it (coarse / periodic grid, takes, binary options, other classes)"""
    g = spec['grid']
    k = a['kind']
    if a.get('periodicity'):
        return None
    coarse = bool(a.get('freq') and a['freq'] != g['freq'])
    if coarse and (k not in ('SimpleContract', 'Transport', 'Storage') or a.get('block_size')):
        return None            # RefCoarse.v: contracts, transports and storages on a coarser frequency (no take periods)
    tz = g.get('tz')
    s = inst(a['start'], tz) if a.get('start') else inst(g['start'], tz)
    e = inst(a['end'], tz) if a.get('end') else inst(g['end'], tz)
    rg = '(restrict %s %s %s %s)' % (G, C.qvec(discount(g, a.get('wacc', 0) or 0)), C.z(s), C.z(e))
    if coarse:
        rg = '(match %s with Some r_ => r_ | None => %s end)' % (rgrid_term(g, a, G), rg)
    if k == 'SimpleContract':
        cp = '(Build_contract_p %s %s %s %s %s %s)' % (
            C.s(a['name']), C.s(a['nodes'][0]), price_term(a.get('price'), spec),
            param_term(a.get('min_cap', 0.0), spec, g), param_term(a.get('max_cap', 0.0), spec, g),
            param_term(a.get('extra_costs', 0.0), spec, g))
        return '(USimple %s %s)' % (rg, cp)
    if k == 'MultiCommodityContract':
        cp = '(Build_contract_p %s %s %s %s %s %s)' % (
            C.s(a['name']), C.s(a['nodes'][0]), price_term(a.get('price'), spec),
            param_term(a.get('min_cap', 0.0), spec, g), param_term(a.get('max_cap', 0.0), spec, g),
            param_term(a.get('extra_costs', 0.0), spec, g))
        return '(UMulti %s %s %s %s %s %s)' % (rg, cp, takes_term(a.get('max_take'), g), takes_term(a.get('min_take'), g),
                                               C.lst([C.s(n) for n in a['nodes']]), C.qvec(a['factors_commodities']))
    if k == 'Contract':
        cp = '(Build_contract_p %s %s %s %s %s %s)' % (
            C.s(a['name']), C.s(a['nodes'][0]), price_term(a.get('price'), spec),
            param_term(a.get('min_cap', 0.0), spec, g), param_term(a.get('max_cap', 0.0), spec, g),
            param_term(a.get('extra_costs', 0.0), spec, g))
        return '(UContract %s %s %s %s)' % (rg, cp, takes_term(a.get('max_take'), g), takes_term(a.get('min_take'), g))
    if k == 'Transport':
        tp = '(Build_transport_p %s %s %s %s %s %s %s %s)' % (
            C.s(a['name']), C.s(a['nodes'][0]), C.s(a['nodes'][1]), price_term(a.get('costs_time_series'), spec),
            C.q(float(a.get('costs_const', 0.0))), C.q(float(a.get('min_cap', 0.0))), C.q(float(a.get('max_cap', 0.0))),
            C.q(float(a.get('efficiency', 1.0))))
        return '(UTransport %s %s)' % (rg, tp)
    if k == 'ExtendedTransport':
        tp = '(Build_transport_p %s %s %s %s %s %s %s %s)' % (
            C.s(a['name']), C.s(a['nodes'][0]), C.s(a['nodes'][1]), price_term(a.get('costs_time_series'), spec),
            C.q(float(a.get('costs_const', 0.0))), C.q(float(a.get('min_cap', 0.0))), C.q(float(a.get('max_cap', 0.0))),
            C.q(float(a.get('efficiency', 1.0))))
        return '(UExtTransport %s %s %s %s)' % (rg, tp, takes_term(a.get('max_take'), g), takes_term(a.get('min_take'), g))
    if k == 'Storage' and not a.get('no_simult_in_out') and a.get('max_store_duration') is None and not a.get('block_size'):
        sp = '(Build_storage_p %s %s %s %s %s %s %s %s %s %s %s %s %s false None)' % (
            C.s(a['name']), C.lst([C.s(n) for n in a['nodes']]), C.q(float(a['size'])), C.q(float(a['cap_in'])),
            C.q(float(a['cap_out'])), C.q(float(a.get('start_level', 0.0))), C.q(float(a.get('end_level', 0.0))),
            C.q(float(a.get('cost_in', 0.0))), C.q(float(a.get('cost_out', 0.0))), C.q(float(a.get('cost_store', 0.0))),
            C.q(float(a.get('eff_in', 1.0))), C.q(float(a.get('inflow', 0.0))), price_term(a.get('price'), spec))
        return '(UStorage %s %s)' % (rg, sp)
    return None
