#!/bin/bash
# usage: mutant_test.sh <patch.diff> <prop> [<prop> ...]   -- development aid (not a registered command)
# applies the patch to /repo, runs the quick checks, ALWAYS restores /repo
set -u
patch="$1"; shift
cd /repo
if ! git diff --quiet; then echo "/repo is dirty"; exit 2; fi
git apply "$patch" || { echo "patch does not apply"; exit 2; }
trap 'git -C /repo checkout -- . ' EXIT
cd /verif
for p in "$@"; do
  out=$(/venv/bin/python harness/check.py "$p" --tier quick 2>&1 | grep -E "VIOLATION|KNOWN" | cut -c1-160 | head -3)
  if echo "$out" | grep -q VIOLATION; then echo "$p: CAUGHT  $(echo "$out" | grep VIOLATION | head -1)"; else echo "$p: missed"; fi
done
