"""Probe functions: each takes a spec, drives the real EAO code and returns JSON-able observables."""
import math, zlib, copy
import numpy as np
import pandas as pd
import eaopack as eao
from eaopack.optimization import OptimProblem, Results
from build import *


def seed_of(spec, salt=''):
    return zlib.crc32((str(spec.get('seed', spec['id'])) + salt).encode()) & 0x7fffffff


def random_x(op, rs):
    """a random point of the box (multiples of 1/8 of the width, so everything stays dyadic)"""
    l = np.asarray(op.l, dtype=float)
    u = np.asarray(op.u, dtype=float)
    k = rs.randint(0, 9, size=len(l)) / 8.0
    return l + (u - l) * k


def tables(portf, op, res, prices=None):
    out = eao.io.extract_output(portf, op, res, prices)
    t = {}
    for k in ('dispatch', 'DCF', 'internal_variables', 'prices'):
        t[k] = dump_table(out.get(k)) if out.get(k) is not None else None
    sp = out.get('special')
    if sp is not None and len(sp) > 0:
        t['special'] = [[str(r['asset']), str(r['variable']), str(r['name']), fnum(r['value']), fnum(r['costs'])]
                        for r in sp.to_dict('records')]
    else:
        t['special'] = []
    try:
        t['summary_value'] = fnum(out['summary'].loc['value', 'Values'])
    except Exception:
        t['summary_value'] = None
    return t


def dump_duals(d):
    if d is None:
        return None
    return {k: (None if v is None else [float(e) for e in np.atleast_1d(v)]) for k, v in d.items()}


def asset_info(portf):
    return [{'name': a.name, 'nodes': list(a.node_names), 'cls': type(a).__name__} for a in portf.assets]


def probe_portfolio(spec):
    """set up, optimise and decode a portfolio (monolithic; optionally split)"""
    o = {}
    opts = spec.get('opts', {})
    try:
        portf = mk_portfolio(spec)
        tg = mk_grid(spec['grid'])
        prices = mk_prices(spec)
        op = portf.setup_optim_problem(prices, tg)
    except Exception as e:
        return {'status': 'setup_error', 'error': repr(e)[:300]}
    o['status'] = 'ok'
    o['problem'] = dump_problem(op)
    o['nodes'] = list(portf.nodes.keys())
    o['T'] = int(tg.T)
    o['I'] = [int(i) for i in tg.I]
    o['assets'] = asset_info(portf)
    rs = np.random.RandomState(seed_of(spec, 'x'))
    xr = random_x(op, rs)
    o['xr'] = [float(v) for v in xr]
    try:
        o['out_r'] = tables(portf, op, FakeResults(xr, value=float(-op.c @ xr)))
    except Exception as e:
        o['out_r'] = None
        o['out_r_error'] = repr(e)[:300]
    if not opts.get('no_solve'):
        try:
            res = op.optimize(**opts.get('optimize', {}))
        except Exception as e:
            res = None
            o['solve_error'] = repr(e)[:300]
        if res is None:
            o['solve'] = 'crash'
        elif isinstance(res, str):
            o['solve'] = res
        else:
            o['solve'] = 'optimal'
            o['x'] = [float(v) for v in res.x]
            o['value'] = float(res.value)
            o['duals'] = dump_duals(res.duals)
            try:
                o['out'] = tables(portf, op, res)
            except Exception as e:
                o['out'] = None
                o['out_error'] = repr(e)[:300]
    if opts.get('split'):
        try:
            portf2 = mk_portfolio(spec)
            tg2 = mk_grid(spec['grid'])
            ops = portf2.setup_split_optim_problem(mk_prices(spec), tg2, interval_size=opts['split'])
            o['split'] = {'ops': [dump_problem(p) for p in ops.ops], 'mapping': dump_mapping(ops.mapping),
                          'c': [float(v) for v in ops.c],
                          'map_nodal_restr': None if ops.map_nodal_restr is None else [[int(t), str(n)] for t, n in ops.map_nodal_restr]}
            rs2 = np.random.RandomState(seed_of(spec, 'xs'))
            xs = np.hstack([random_x(p, rs2) for p in ops.ops]) if ops.ops else np.zeros(0)
            o['split']['xr'] = [float(v) for v in xs]
            o['split']['out_r'] = tables(portf2, ops, FakeResults(xs, value=float(-ops.c @ xs)))
            if not opts.get('no_solve'):
                res = ops.optimize()
                if isinstance(res, str):
                    o['split']['solve'] = res
                else:
                    o['split']['solve'] = 'optimal'
                    o['split']['x'] = [float(v) for v in res.x]
                    o['split']['value'] = float(res.value)
                    o['split']['duals'] = dump_duals(res.duals)
                    o['split']['out'] = tables(portf2, ops, res)
        except Exception as e:
            o['split'] = {'error': repr(e)[:300]}
    return o
