"""Probe functions: each takes a spec, drives the real EAO code and returns JSON-able observables."""
import math, zlib, copy
import numpy as np
import pandas as pd
import eaopack as eao
from eaopack.optimization import OptimProblem, Results
from build import *


def seed_of(spec, salt=''):
    return zlib.crc32((str(spec.get('seed', spec['id'])) + salt).encode()) & 0x7fffffff


def random_x(op, rs):
    """a random point of the box (multiples of 1/8 of the width, so everything stays dyadic)"""
    l = np.asarray(op.l, dtype=float)
    u = np.asarray(op.u, dtype=float)
    k = rs.randint(0, 9, size=len(l)) / 8.0
    return l + (u - l) * k


def tables(portf, op, res, prices=None):
    out = eao.io.extract_output(portf, op, res, prices)
    t = {}
    for k in ('dispatch', 'DCF', 'internal_variables', 'prices'):
        t[k] = dump_table(out.get(k)) if out.get(k) is not None else None
    sp = out.get('special')
    if sp is not None and len(sp) > 0:
        t['special'] = [[str(r['asset']), str(r['variable']), str(r['name']), fnum(r['value']), fnum(r['costs'])]
                        for r in sp.to_dict('records')]
    else:
        t['special'] = []
    try:
        t['summary_value'] = fnum(out['summary'].loc['value', 'Values'])
    except Exception:
        t['summary_value'] = None
    try:
        t['dispatch_index'] = [_inst(x) for x in out['dispatch'].index]       # the time points the rows of the table are labelled with
    except Exception:
        t['dispatch_index'] = None
    return t


def dump_duals(d):
    if d is None:
        return None
    return {k: (None if v is None else [float(e) for e in np.atleast_1d(v)]) for k, v in d.items()}


def asset_info(portf):
    return [{'name': a.name, 'nodes': list(a.node_names), 'cls': type(a).__name__} for a in portf.assets]


def probe_portfolio(spec):
    """set up, optimise and decode a portfolio (monolithic; optionally split)"""
    o = {}
    opts = spec.get('opts', {})
    for pre in opts.get('prelude', []):
        # other portfolios set up earlier in the same process (same node and asset names): the result below must not depend on them
        try:
            mk_portfolio(pre).setup_optim_problem(mk_prices(pre), mk_grid(pre['grid']))
        except Exception:
            pass
    try:
        portf = mk_portfolio(spec)
        tg = mk_grid(spec['grid'])
        prices = mk_prices(spec)
        if opts.get('warmup'):
            # an earlier use of the same objects (other prices): a later set-up must not depend on it
            try:
                pw = {k: (v[::-1] * 0.5 + 1.0 if k.startswith('p') else v) for k, v in prices.items()}
                op0 = portf.setup_optim_problem(pw, tg)
                if opts['warmup'] == 'solve':
                    op0.optimize()
            except Exception as e:
                o['warmup_error'] = repr(e)[:200]
        if opts.get('warmup_shift'):
            # the same objects were set up before on another window of the same length and frequency (rolling horizon)
            try:
                g0 = dict(spec['grid'])
                d0 = (pd.Timestamp(g0['end']) - pd.Timestamp(g0['start'])) * int(opts['warmup_shift'])
                g0['start'] = str(pd.Timestamp(g0['start']) + d0)
                g0['end'] = str(pd.Timestamp(g0['end']) + d0)
                tg0 = mk_grid(g0)
                if tg0.T == tg.T:
                    portf.setup_optim_problem(prices, tg0)
                    o['warmup_shift_done'] = True
            except Exception as e:
                o['warmup_error'] = repr(e)[:200]
        skw = {'skip_nodes': list(opts['skip_nodes'])} if opts.get('skip_nodes') else {}
        op = portf.setup_optim_problem(prices, tg, **skw)
    except Exception as e:
        return {'status': 'setup_error', 'error': repr(e)[:300]}
    o['status'] = 'ok'
    o['problem'] = dump_problem(op)
    o['nodes'] = list(portf.nodes.keys())
    o['T'] = int(tg.T)
    o['I'] = [int(i) for i in tg.I]
    o['assets'] = asset_info(portf)
    rs = np.random.RandomState(seed_of(spec, 'x'))
    xr = random_x(op, rs)
    o['xr'] = [float(v) for v in xr]
    try:
        o['out_r'] = tables(portf, op, FakeResults(xr, value=float(-op.c @ xr)))
    except Exception as e:
        o['out_r'] = None
        o['out_r_error'] = repr(e)[:300]
    if not opts.get('no_solve'):
        try:
            kw = dict(opts.get('optimize', {}))
            if opts.get('robust'):
                # robust target over perturbed price scenarios; the reported value is documented to be that of the original prices
                ps = [{k: (v * f if k.startswith('p') else v) for k, v in prices.items()} for f in (0.5, 1.5, 0.75)][:int(opts['robust'])]
                kw.update(target='robust', samples=portf.create_cost_samples(ps, tg))
            if opts.get('soft_first'):
                op.optimize(make_soft_problem=True)       # the relaxed problem is looked at first, on the same object
            res = op.optimize(**kw)
        except Exception as e:
            res = None
            o['solve_error'] = repr(e)[:300]
        if res is None:
            o['solve'] = 'crash'
        elif isinstance(res, str):
            o['solve'] = res
        else:
            o['solve'] = 'optimal'
            o['x'] = [float(v) for v in res.x]
            o['value'] = float(res.value)
            o['duals'] = dump_duals(res.duals)
            try:
                # solving must leave the problem as it was assembled (the rows are what enforces the balance)
                after = dump_problem(op)
                o['problem_changed_by_optimize'] = [k for k in ('c', 'l', 'u', 'b', 'cType', 'rows') if after[k] != o['problem'][k]]
            except Exception as e:
                o['problem_changed_by_optimize'] = ['dump failed: ' + repr(e)[:100]]
            try:
                o['out'] = tables(portf, op, res)
                if opts.get('extract_twice'):
                    # the result object is decoded a second time (e.g. once plain, once with the input prices): same tables expected
                    o['out_first'] = o['out']
                    o['out'] = tables(portf, op, res)
            except Exception as e:
                o['out'] = None
                o['out_error'] = repr(e)[:300]
    if opts.get('refix') and o.get('solve') == 'optimal':
        # rolling use: the first steps are fixed to this solution, but the portfolio has changed meanwhile (other transport losses /
        # commodity factors): the result may be a failure, never an unbalanced solution
        try:
            import copy as _cp
            sp2 = _cp.deepcopy(spec)
            pr4 = mk_prices(spec)
            if opts.get('refix_mode') == 'prices':
                # the same portfolio, re-optimised with new prices behind the fixed window
                pr4 = {kk: (v[::-1] * 0.75 + 0.5 if kk.startswith('p') else v) for kk, v in pr4.items()}
            for a in (sp2['assets'] if opts.get('refix_mode') != 'prices' else []):
                if a['kind'] in ('Transport', 'ExtendedTransport'):
                    a['efficiency'] = a.get('efficiency', 1.0) * 0.5
                if a['kind'] == 'MultiCommodityContract':
                    a['factors_commodities'] = [a['factors_commodities'][0]] + [f * 0.5 for f in a['factors_commodities'][1:]]
            pf4 = mk_portfolio(sp2)
            tg4 = mk_grid(spec['grid'])
            k4 = max(1, int(opts['refix']) % max(tg4.T, 1))
            fw = {'I': np.arange(tg4.T) < k4, 'x': np.asarray(o['x'], float)}
            op4 = pf4.setup_optim_problem(pr4, tg4, fix_time_window=fw)
            prob4 = dump_problem(op4)
            r4 = op4.optimize()
            o['refix'] = {'solve': r4 if isinstance(r4, str) else 'optimal', 'k': k4}
            if not isinstance(r4, str):
                o['refix'].update(problem=prob4, duals=dump_duals(r4.duals))
                o['refix'].update(value=float(r4.value), x=[float(v) for v in r4.x], c=[float(v) for v in op4.c], mapping=dump_mapping(op4.mapping),
                                  out=tables(pf4, op4, r4))
        except Exception as e:
            o['refix'] = {'solve': 'crash', 'error': repr(e)[:300]}
    if opts.get('slp'):
        # two-stage problem over price samples (stoch_lin_prog.make_slp), optimised and decoded through the same output function
        try:
            from eaopack.stoch_lin_prog import make_slp
            pf3 = mk_portfolio(spec)
            tg3 = mk_grid(spec['grid'])
            pr3 = mk_prices(spec)
            op3 = pf3.setup_optim_problem(pr3, tg3)
            kf = max(1, min(tg3.T - 1, tg3.T // 2))
            samples = []
            for f in (0.5, 1.5, 1.25)[:int(opts['slp'])]:
                d = {}
                for k, v in pr3.items():
                    w = np.asarray(v, float).copy()
                    if k.startswith('p'):
                        w[kf:] = w[kf:] * f
                    d[k] = w
                samples.append(d)
            slp = make_slp(op3, pf3, tg3, tg3.timepoints[kf], samples)
            r3 = slp.optimize()
            o['slp'] = {'solve': r3 if isinstance(r3, str) else 'optimal'}
            if not isinstance(r3, str):
                o['slp'].update(value=float(r3.value), x=[float(v) for v in r3.x], c=[float(v) for v in slp.c],
                                mapping=dump_mapping(slp.mapping), out=tables(pf3, slp, r3))
        except Exception as e:
            o['slp'] = {'solve': 'crash', 'error': repr(e)[:300]}
    if opts.get('rename_in_place') and o.get('solve') == 'optimal':
        # the study is relabelled IN PLACE (Node.name / asset.name of the existing objects) and a new Portfolio is built from the same assets
        try:
            seen_nodes = {}
            def walk(assets):
                for a_ in assets:
                    yield a_
                    if hasattr(a_, 'portfolio'):
                        yield from walk(a_.portfolio.assets)
                    if hasattr(a_, 'base_asset'):
                        yield from walk([a_.base_asset])
            for a_ in walk(portf.assets):
                for n_ in (a_.nodes if isinstance(a_.nodes, (list, tuple)) else [a_.nodes]):
                    seen_nodes[id(n_)] = n_
            for n_ in seen_nodes.values():
                n_.name = 'renamed_' + n_.name + '_x'
            pf5 = Portfolio(list(portf.assets))
            op5 = pf5.setup_optim_problem(mk_prices(spec), mk_grid(spec['grid']))
            r5 = op5.optimize()
            o['renamed_in_place'] = {'solve': r5 if isinstance(r5, str) else 'optimal', 'value': None if isinstance(r5, str) else float(r5.value),
                                     'nodes': list(pf5.nodes.keys())}
        except Exception as e:
            o['renamed_in_place'] = {'solve': 'crash', 'error': repr(e)[:300]}
    if opts.get('struct_regrid'):
        # a structured asset that was used on this grid is put on the next horizon (set_timegrid) and set up WITHOUT handing a grid over:
        # its problem is that of fresh objects set up on the new grid
        o['regrid'] = []
        try:
            g1 = dict(spec['grid'])
            d1 = pd.Timestamp(g1['end']) - pd.Timestamp(g1['start'])
            g1['start'], g1['end'] = str(pd.Timestamp(g1['start']) + d1), str(pd.Timestamp(g1['end']) + d1)
            for k_, a_ in enumerate(portf.assets):
                if type(a_).__name__ != 'StructuredAsset':
                    continue
                rec = {'name': a_.name}
                try:
                    tgB = mk_grid(g1)
                    a_.set_timegrid(tgB)
                    pa = dump_problem(a_.setup_optim_problem(mk_prices(spec)))
                    fresh = mk_portfolio(spec).assets[k_]
                    pb = dump_problem(fresh.setup_optim_problem(mk_prices(spec), mk_grid(g1)))
                    rec['same'] = all(pa[key] == pb[key] for key in ('c', 'l', 'u', 'b', 'cType', 'rows'))
                    rec['sizes'] = [len(pa['c']), len(pb['c'])]
                except Exception as e:
                    rec['error'] = repr(e)[:200]
                o['regrid'].append(rec)
        except Exception as e:
            o['regrid_error'] = repr(e)[:200]
    if opts.get('inner_standalone'):
        # the portfolio wrapped by a structured asset is an ordinary Portfolio object: optimised on its own AFTER it was used inside
        # the structure it must balance all of its nodes (also those that are external nodes of the structure)
        o['inner'] = []
        for a_ in portf.assets:
            if type(a_).__name__ != 'StructuredAsset':
                continue
            try:
                pi_ = a_.portfolio
                opi = pi_.setup_optim_problem(mk_prices(spec), mk_grid(spec['grid']))
                ri = opi.optimize()
                if not isinstance(ri, str):
                    o['inner'].append({'name': a_.name, 'nodes': list(pi_.nodes.keys()), 'assets': asset_info(pi_), 'T': int(opi.timegrid.T) if hasattr(opi, 'timegrid') and opi.timegrid is not None else int(tg.T),
                                       'out': tables(pi_, opi, ri)})
            except Exception as e:
                o['inner'].append({'name': a_.name, 'error': repr(e)[:200]})
    if opts.get('split'):
        try:
            portf2 = mk_portfolio(spec)
            tg2 = mk_grid(spec['grid'])
            if opts.get('split_warmup_shift'):
                # rolling use: the same portfolio object was set up on the neighbouring horizon before
                try:
                    g0 = dict(spec['grid'])
                    d0 = (pd.Timestamp(g0['end']) - pd.Timestamp(g0['start'])) * int(opts['split_warmup_shift'])
                    g0['start'] = str(pd.Timestamp(g0['start']) + d0)
                    g0['end'] = str(pd.Timestamp(g0['end']) + d0)
                    portf2.setup_optim_problem(mk_prices(spec), mk_grid(g0))
                except Exception as e:
                    o['split_warmup_error'] = repr(e)[:200]
            pr_split = mk_prices(spec)
            if opts.get('price_frame_offgrid'):
                import build as _b
                pr_split = _b.mk_price_frame(spec)        # the time series itself is handed to the split set-up
            ops = portf2.setup_split_optim_problem(pr_split, tg2, interval_size=opts['split'], **skw)
        except Exception as e:
            o['split'] = {'setup_error': repr(e)[:300]}
            return o
        sd = {'ops': [dump_problem(p) for p in ops.ops], 'mapping': dump_mapping(ops.mapping),
              'c': [float(v) for v in ops.c],
              'map_nodal_restr': None if ops.map_nodal_restr is None else [[int(t), str(n)] for t, n in ops.map_nodal_restr]}
        o['split'] = sd
        rs2 = np.random.RandomState(seed_of(spec, 'xs'))
        xs = np.hstack([random_x(p, rs2) for p in ops.ops]) if ops.ops else np.zeros(0)
        sd['xr'] = [float(v) for v in xs]
        try:
            sd['out_r'] = tables(portf2, ops, FakeResults(xs, value=float(-ops.c @ xs)))
        except Exception as e:
            sd['out_r'] = None
            sd['out_r_error'] = repr(e)[:300]
        if not opts.get('no_solve'):
            okw = dict(opts.get('optimize', {}))
            try:
                res = ops.optimize(**okw)
            except Exception as e:
                res = None
                sd['solve_error'] = repr(e)[:300]
            if res is None:
                sd['solve'] = 'crash'
            elif isinstance(res, str):
                sd['solve'] = res
            else:
                sd['solve'] = 'optimal'
                sd['x'] = [float(v) for v in res.x]
                sd['value'] = float(res.value)
                # every interval optimised on its own (C14: the split value is the sum of the interval optima)
                iv = []
                for p in ops.ops:
                    try:
                        r1 = p.optimize(**okw)
                        iv.append(None if isinstance(r1, str) else float(r1.value))
                    except Exception:
                        iv.append(None)
                sd['interval_values'] = iv
                # the same split problem optimised once more: same result
                try:
                    r_again = ops.optimize(**okw)
                    sd['again'] = r_again if isinstance(r_again, str) else {'value': float(r_again.value), 'x': [float(v) for v in r_again.x]}
                except Exception as e:
                    sd['again'] = 'crash: ' + repr(e)[:200]
                sd['duals'] = dump_duals(res.duals)
                try:
                    sd['out'] = tables(portf2, ops, res)
                except Exception as e:
                    sd['out'] = None
                    sd['out_error'] = repr(e)[:300]
    return o


def _raised_in(e):
    """'eaopack' when the innermost frame of the exception lies in eaopack's own code, 'third-party' when it was raised inside
    cvxpy / a solver interface / an import of a missing package"""
    import traceback
    tb = traceback.extract_tb(e.__traceback__)
    return 'eaopack' if tb and '/eaopack/' in tb[-1].filename else 'third-party'


# ------------------------------------------------------------------ C03: optimise arbitrary problems
def problem_from_lp(d):
    """synthetic OptimProblem from a dict c,l,u,rows,b,cType,mapping"""
    import scipy.sparse as sp
    n = len(d['c'])
    A = sp.lil_matrix((len(d['rows']), n))
    for i, (cols, vals) in enumerate(d['rows']):
        for j, v in zip(cols, vals):
            A[i, j] += v
    mp = pd.DataFrame(d['mapping'])
    mp = mp.set_index('index')
    mp.index.name = None
    return OptimProblem(c=np.asarray(d['c'], float), l=np.asarray(d['l'], float), u=np.asarray(d['u'], float),
                        A=A if len(d['rows']) else None, b=np.asarray(d['b'], float) if len(d['rows']) else None,
                        cType=d['cType'] if len(d['rows']) else None, mapping=mp)


def farkas_multipliers(p):
    """multipliers proving infeasibility of the LP relaxation (phase-1 LP solved with HiGHS), or None"""
    from scipy.optimize import linprog
    n = len(p['c'])
    rows, rhs, owner, sgn = [], [], [], []
    for i, ((cols, vals), t, b) in enumerate(zip(p['rows'], p['cType'], p['b'])):
        a = np.zeros(n + 1)
        for j, v in zip(cols, vals):
            a[j] += v
        if t in 'USN':
            r = a.copy(); r[n] = -1.0
            rows.append(r); rhs.append(b); owner.append(i); sgn.append(1.0)
        if t in 'LSN':
            r = -a.copy(); r[n] = -1.0
            rows.append(r); rhs.append(-b); owner.append(i); sgn.append(-1.0)
    if not rows:
        return None
    c = np.zeros(n + 1); c[n] = 1.0
    bounds = [(l, u) for l, u in zip(p['l'], p['u'])] + [(0, None)]
    r = linprog(c, A_ub=np.asarray(rows), b_ub=np.asarray(rhs), bounds=bounds, method='highs')
    if r.status != 0 or r.fun <= 1e-7:
        return None
    lam = -np.asarray(r.ineqlin.marginals)
    y = np.zeros(len(p['rows']))
    for k, (i, s) in enumerate(zip(owner, sgn)):
        y[i] += s * lam[k]
    return [float(v) for v in y]


def probe_optim(spec):
    o = {}
    opts = spec.get('opts', {})
    try:
        if 'lp' in spec:
            op = problem_from_lp(spec['lp'])
        else:
            portf = mk_portfolio(spec)
            op = portf.setup_optim_problem(mk_prices(spec), mk_grid(spec['grid']))
    except Exception as e:
        return {'status': 'setup_error', 'error': repr(e)[:300]}
    o['status'] = 'ok'
    o['problem'] = dump_problem(op)
    mp = op.mapping
    if 'bool' in mp:
        o['bools'] = [int(i) for i in mp.loc[(~mp.index.duplicated(keep='first')) & (mp['bool'].fillna(False).astype(bool))].index.values]
    else:
        o['bools'] = []
    o['runs'] = []
    # observe what is handed to the solver (no hook in /repo: cvxpy's Problem.solve is wrapped inside this process)
    import cvxpy as _cvx
    seen = {}
    _orig_solve = _cvx.Problem.solve

    def _spy(self, *a, **k):
        seen['constraints'] = list(self.constraints)
        seen['variables'] = self.variables()
        return _orig_solve(self, *a, **k)
    _cvx.Problem.solve = _spy
    for kw in opts.get('solvers', [{}]):
        r = {'kw': kw}
        try:
            seen.clear()
            if kw.get('robust'):
                # robust target over scaled / shifted copies of the cost vector; the reported value is documented to be that of the
                # problem's own costs at the returned point
                rs_ = np.random.RandomState(len(op.c) + int(kw['robust']))
                fin_ = np.isfinite(op.l) & np.isfinite(op.u)      # (costs of open-ended variables keep their sign: the scenario problems stay bounded)
                smp = [op.c * f + fin_ * rs_.randint(-4, 5, size=len(op.c)) / 8.0 for f in (0.5, 1.5, 0.75)][:int(kw['robust'])]
                res = op.optimize(target='robust', samples=smp)
            else:
                res = op.optimize(**kw)
            if seen.get('constraints') is not None and 'translation' not in o and not kw.get('make_soft_problem') and not kw.get('robust'):
                o['translation'] = _dump_translation(seen)
        except Exception as e:
            r['solve'] = 'crash'
            r['error'] = repr(e)[:300]
            r['where'] = _raised_in(e)
            o['runs'].append(r)
            continue
        if isinstance(res, str):
            r['solve'] = res
            if res != 'inaccurate':
                r['farkas'] = farkas_multipliers(o['problem'])
        else:
            r['solve'] = 'optimal'
            r['x'] = [float(v) for v in res.x]
            r['value'] = float(res.value)
            r['duals'] = dump_duals(res.duals)
        o['runs'].append(r)
    if 'lp2' in spec:
        # the same object with other bounds / right-hand sides of the same shape, solved again
        d2 = spec['lp2']
        op.l = np.asarray(d2['l'], float)
        op.u = np.asarray(d2['u'], float)
        if len(d2['rows']):
            op.b = np.asarray(d2['b'], float)
        o['problem2'] = dump_problem(op)
        o['runs2'] = []
        for kw in opts.get('solvers', [{}]):
            if kw.get('make_soft_problem') or kw.get('robust'):
                continue
            r = {'kw': kw}
            try:
                res = op.optimize(**kw)
            except Exception as e:
                r['solve'] = 'crash'
                r['error'] = repr(e)[:300]
                r['where'] = _raised_in(e)
                o['runs2'].append(r)
                continue
            if isinstance(res, str):
                r['solve'] = res
                if res != 'inaccurate':
                    r['farkas'] = farkas_multipliers(o['problem2'])
            else:
                r['solve'] = 'optimal'
                r['x'] = [float(v) for v in res.x]
                r['value'] = float(res.value)
                r['duals'] = dump_duals(res.duals)
            o['runs2'].append(r)
    _cvx.Problem.solve = _orig_solve
    return o


def _dump_translation(seen):
    """constraint groups after the two bound constraints: kind, rows (A as sparse rows, b), and the boolean variable indices"""
    import scipy.sparse as sp
    groups = []
    cons = seen['constraints']
    out = {'n_constraints': len(cons), 'groups': groups, 'problems': []}
    for con in cons[2:]:
        name = type(con).__name__
        a0, a1 = con.args[0], con.args[1]

        def split(e):
            # (matrix, None) for  A @ x ;  (None, vector) for a constant
            if type(e).__name__ == 'MulExpression':
                return sp.csr_matrix(e.args[0].value), None
            if type(e).__name__ == 'Constant' or not e.variables():
                return None, np.atleast_1d(np.asarray(e.value, dtype=float))
            return None, None
        m0, c0 = split(a0)
        m1, c1 = split(a1)
        if name == 'Equality' and m0 is not None and c1 is not None:
            kind, A, b = 'EQ', m0, c1
        elif name == 'Inequality' and m0 is not None and c1 is not None:
            kind, A, b = 'LE', m0, c1            # A x <= b
        elif name == 'Inequality' and c0 is not None and m1 is not None:
            kind, A, b = 'GE', m1, c0            # b <= A x
        else:
            out['problems'].append('constraint not understood: ' + name)
            continue
        groups.append({'kind': kind, 'rows': dump_rows(A), 'b': [float(v) for v in b]})
    # bounds: x <= u and l <= x
    try:
        out['bound_u'] = [float(v) for v in np.atleast_1d(cons[0].args[1].value)]
        out['bound_l'] = [float(v) for v in np.atleast_1d(cons[1].args[0].value)]
    except Exception as e:
        out['problems'].append('bounds not understood: ' + repr(e)[:80])
    bools = []
    for v in seen['variables']:
        bi = getattr(v, 'boolean_idx', None)
        if v.attributes.get('boolean') and bi is not None:
            try:
                bools += [int(i) for i in np.atleast_1d(bi[0])]
            except Exception:
                bools += [int(i[0]) if isinstance(i, tuple) else int(i) for i in bi]
    out['bools'] = sorted(set(bools))
    return out


# ------------------------------------------------------------------ C18: nodal prices
def probe_prices(spec):
    o = probe_portfolio(dict(spec, opts=dict(spec.get('opts', {}), extract_twice=True)))
    if o.get('status') != 'ok' or o.get('solve') != 'optimal' or not o.get('duals'):
        return o
    portf = mk_portfolio(spec)
    tg = mk_grid(spec['grid'])
    sk_ = spec.get('opts', {}).get('skip_nodes')
    op = portf.setup_optim_problem(mk_prices(spec), tg, **({'skip_nodes': list(sk_)} if sk_ else {}))
    rs = np.random.RandomState(seed_of(spec, 'inj'))
    nidx = [i for i, t in enumerate(op.cType) if t == 'N']
    o['injections'] = []
    rec = list(op.map_nodal_restr or [])
    if not nidx or not rec:
        return o
    # the nodal row of (step, node) is identified through the mapping, not through its position
    rows = o['problem']['rows']
    mp = op.mapping
    for _ in range(int(spec.get('opts', {}).get('n_inj', 3))):
        k = int(rs.randint(0, len(rec)))
        t, node = rec[k]
        want = sorted(set(int(i) for i in mp.index[(mp['type'] == 'd') & (mp['node'] == node) & (mp['time_step'] == t)]))
        cand = [i for i in nidx if sorted(rows[i][0]) == want]
        d = float(rs.choice([-2.0, -0.5, -0.125, 0.125, 0.5, 2.0]))
        if len(cand) != 1:
            o['injections'].append({'k': k, 'step': int(t), 'node': str(node), 'd': d, 'value': None, 'status': 'no unique nodal row'})
            continue
        i = cand[0]
        b0 = op.b[i]
        # an injection is a VOLUME d delivered into the node: it enters the balance like a dispatch variable with factor 1 fixed at d.
        # The weight such a variable has in this row is read off the row itself (coefficient / mapping factor of its entries; 1 as documented)
        j0 = want[0]
        sel = mp[(mp.index == j0) & (mp['type'] == 'd') & (mp['node'] == node) & (mp['time_step'] == t)]
        f0 = float(sel['disp_factor'].fillna(1.0).sum()) if 'disp_factor' in sel.columns else float(len(sel))
        cj = dict(zip(rows[i][0], rows[i][1])).get(j0, 0.0)
        w_ = cj / f0 if f0 != 0 and cj != 0 else 1.0
        op.b[i] = b0 - w_ * d          # sum disp + d = 0
        try:
            r = op.optimize(**dict(spec.get('opts', {}).get('optimize', {})))
        finally:
            op.b[i] = b0
        o['injections'].append({'k': k, 'step': int(t), 'node': str(node), 'd': d,
                                'value': None if isinstance(r, str) else float(r.value), 'status': r if isinstance(r, str) else 'optimal'})
    return o
    for _ in range(int(spec.get('opts', {}).get('n_inj', 3))):
        k = int(rs.randint(0, len(nidx)))
        d = float(rs.choice([-2.0, -0.5, -0.125, 0.125, 0.5, 2.0]))
        b0 = op.b[nidx[k]]
        op.b[nidx[k]] = b0 - d          # sum disp + d = 0
        try:
            r = op.optimize(**dict(spec.get('opts', {}).get('optimize', {})))
        finally:
            op.b[nidx[k]] = b0
        t, node = op.map_nodal_restr[k]
        o['injections'].append({'k': k, 'step': int(t), 'node': str(node), 'd': d,
                                'value': None if isinstance(r, str) else float(r.value), 'status': r if isinstance(r, str) else 'optimal'})
    return o


# ------------------------------------------------------------------ stand-alone asset problems
def probe_assets(spec):
    """every asset of the spec set up on its own (fresh objects per asset)"""
    o = {'status': 'ok', 'assets': []}
    tz = spec['grid'].get('tz')
    for a in spec['assets']:
        r = {'name': a['name'], 'kind': a['kind']}
        try:
            pool = {}
            obj = mk_asset(a, pool, tz)
            tg = mk_grid(spec['grid'])
            op = obj.setup_optim_problem(mk_prices(spec), tg)
            r['status'] = 'ok'
            r['problem'] = dump_problem(op)
            r['T'] = int(tg.T)
            rs = np.random.RandomState(seed_of(spec, 'a' + a['name']))
            xr = random_x(op, rs)
            r['xr'] = [float(v) for v in xr]
            try:
                r['dcf'] = [float(v) for v in obj.dcf(op, FakeResults(xr))]
            except Exception as e:
                r['dcf_error'] = repr(e)[:200]
            if a['kind'] == 'Storage':
                try:
                    r['fill_level'] = [float(v) for v in obj.fill_level(op, FakeResults(xr))]
                except Exception as e:
                    r['fill_level_error'] = repr(e)[:200]
        except Exception as e:
            r['status'] = 'setup_error'
            r['error'] = repr(e)[:300]
        o['assets'].append(r)
    return o


# ------------------------------------------------------------------ C19: time grid and interval data
def _inst(t):
    return int(pd.Timestamp(t).value // 10 ** 9)


def probe_grid(spec):
    o = {'status': 'ok'}
    g = spec['grid']
    try:
        tg = mk_grid(g)
    except Exception as e:
        return {'status': 'setup_error', 'error': repr(e)[:200]}
    o['T'] = int(tg.T)
    o['tp'] = [_inst(t) for t in tg.timepoints]
    o['start'] = _inst(tg.start)
    o['end'] = _inst(tg.end)
    o['dt'] = [float(v) for v in tg.dt]
    o['Dt'] = [float(v) for v in tg.Dt]
    o['I'] = [int(i) for i in tg.I]
    o['windows'] = []
    for w in spec.get('windows', []):
        r = {}
        try:
            tg.set_restricted_grid(ts(w.get('start')), ts(w.get('end')), w.get('freq'))
            rg = tg.restricted
            r['status'] = 'ok'
            r['I'] = [int(i) for i in rg.I]
            r['tp'] = [_inst(t) for t in rg.timepoints]
            r['dt'] = [float(v) for v in rg.dt]
            r['Dt'] = [float(v) for v in rg.Dt]
            if hasattr(rg, 'I_minor_in_major'):
                r['minor'] = [[int(i) for i in grp] for grp in rg.I_minor_in_major]
        except Exception as e:
            r['status'] = 'error'
            r['error'] = repr(e)[:200]
        ws = spec.get('windows', [])
        w2 = ws[(ws.index(w) + 1) % len(ws)]
        if r.get('status') == 'ok' and not w.get('freq') and not w2.get('freq') and len(r['I']) > 0:
            # the restricted grid restricted once more (with the next window of the list)
            try:
                rg.set_restricted_grid(ts(w2.get('start')), ts(w2.get('end')))
                r['nested'] = {'status': 'ok', 'I': [int(i) for i in rg.restricted.I], 'tp': [_inst(t) for t in rg.restricted.timepoints]}
            except Exception as e:
                r['nested'] = {'status': 'error', 'error': repr(e)[:200]}
        o['windows'].append(r)
    o['ivals'] = []
    for p in spec.get('ivals', []):
        r = {}
        try:
            d = mk_param(p)
            keep = {k: list(v) for k, v in d.items()}
            v = tg.values_to_grid(d)
            r['status'] = 'ok'
            r['values'] = [fnum(e) for e in v]
            r['input_unchanged'] = all(list(d[k]) == keep[k] for k in keep) and set(d) == set(keep)
        except ValueError as e:
            r['status'] = 'ValueError'
            r['error'] = str(e)[:100]
        except Exception as e:
            r['status'] = 'error'
            r['error'] = repr(e)[:200]
        o['ivals'].append(r)
    # already gridded price arrays pass through unchanged
    try:
        arr = {'a': np.arange(tg.T) * 0.375 - 1.0, 'b': np.cos(np.arange(tg.T))}
        pg = tg.prices_to_grid(arr)
        o['prices_pass'] = bool(all(np.array_equal(np.asarray(pg[k].values, float), arr[k]) for k in arr) and len(pg) == tg.T)
    except Exception as e:
        o['prices_pass'] = False
        o['prices_error'] = repr(e)[:200]
    # ... in every form a user may hold gridded data in: frames / series with the default index, an explicit integer or float index
    o['prices_forms'] = {}
    if tg.T >= 1:
        base = {'a': np.arange(tg.T) * 0.375 - 1.0, 'b': np.cos(np.arange(tg.T))}
        forms = {'frame, default index': lambda: pd.DataFrame(base),
                 'frame, integer index': lambda: pd.DataFrame(base, index=np.arange(tg.T)),
                 'frame, float index': lambda: pd.DataFrame(base, index=np.arange(tg.T, dtype=float)),
                 'frame from concatenated parts': lambda: pd.concat([pd.DataFrame(base).iloc[:tg.T // 2], pd.DataFrame(base).iloc[tg.T // 2:]]),
                 # (pieces produced separately, each with its own default labels 0.., glued without ignore_index)
                 'frame glued from separately numbered parts': lambda: pd.concat([pd.DataFrame({k: v[:tg.T // 2] for k, v in base.items()}),
                                                                                  pd.DataFrame({k: v[tg.T // 2:] for k, v in base.items()})]),
                 'dict of series': lambda: {k: pd.Series(v) for k, v in base.items()},
                 'dict of lists': lambda: {k: list(v) for k, v in base.items()}}
        for nm, mk in forms.items():
            try:
                pg = tg.prices_to_grid(mk())
                o['prices_forms'][nm] = bool(len(pg) == tg.T and all(np.allclose(np.asarray(pg[k].values, float), base[k], rtol=0, atol=1e-12) for k in base))
            except Exception as e:
                o['prices_forms'][nm] = 'error: ' + repr(e)[:150]
    return o


# ------------------------------------------------------------------ C02 / C20 / C13 / C16: independent reference formulation
def probe_reference(spec):
    """EAO's optimum next to the optimum of the independently written textbook LP (harness/ref.py), and EAO's dispatch
    checked for feasibility in the reference model"""
    import ref
    o = probe_portfolio(dict(spec, opts=dict(spec.get('opts', {}), split=None)))
    try:
        lp, flows = ref.build(spec)
        st, val, x = lp.solve()
        o['ref'] = {'status': st, 'value': val, 'nvars': len(lp.lb), 'nrows': len(lp.rows)}
    except Exception as e:
        o['ref'] = {'status': 'rejected', 'error': repr(e)[:200]}
        return o
    if o.get('status') == 'ok' and o.get('solve') == 'optimal' and o.get('out') and st == 'optimal':
        disp = {}
        multi = len(o['nodes']) > 1
        for a in o['assets']:
            for n in a['nodes']:
                col = a['name'] if not multi else '%s (%s)' % (a['name'], n)
                if col in o['out']['dispatch']:
                    disp[(a['name'], n)] = o['out']['dispatch'][col]
        try:
            st2, v2 = ref.check_dispatch(spec, disp)
            o['ref']['eao_dispatch_in_reference'] = st2
            o['ref']['value_of_eao_dispatch'] = v2
        except Exception as e:
            o['ref']['eao_dispatch_in_reference'] = 'error: ' + repr(e)[:200]
    return o


# ------------------------------------------------------------------ C15: fixing a time window
def probe_fixwindow(spec):
    o = {}
    opts = spec.get('opts', {})
    fx = opts['fix']
    try:
        portf = mk_portfolio(spec)
        tg = mk_grid(spec['grid'])
        prices = mk_prices(spec)
        skw = {'skip_nodes': list(opts['skip_nodes'])} if opts.get('skip_nodes') else {}
        op = portf.setup_optim_problem(prices, tg, **skw)
        res = op.optimize()
    except Exception as e:
        return {'status': 'setup_error', 'error': repr(e)[:300]}
    if isinstance(res, str):
        return {'status': 'base not solved', 'solve': res}
    o['status'] = 'ok'
    o['problem'] = dump_problem(op)
    o['T'] = int(tg.T)
    o['x'] = [float(v) for v in res.x]
    o['value'] = float(res.value)
    T = tg.T
    rs = np.random.RandomState(seed_of(spec, 'fix'))
    k = int(fx.get('k', 0)) % max(T, 1)
    if fx['mode'] == 'prefix':
        I = np.arange(T) <= k
        steps = [t for t in range(T) if t <= k]
    elif fx['mode'] == 'subset':
        I = rs.rand(T) < 0.5
        steps = [t for t in range(T) if I[t]]
    elif fx['mode'] == 'boollist':
        # the mask as a plain python list of booleans
        m = (np.arange(T) <= k) if k % 2 else (rs.rand(T) < 0.5)
        I = [bool(v) for v in m]
        steps = [t for t in range(T) if I[t]]
    elif fx['mode'] == 'index':
        steps = sorted(set(int(v) for v in rs.randint(0, T, size=max(1, T // 2))))
        if int(fx.get('k', 0)) % 3 == 0:
            steps = [0]                   # rolling optimisation: only the first, realised step
        I = list(steps) if int(fx.get('k', 0)) % 2 else np.array(steps, dtype=int)
    else:  # date: all steps whose time point is not after the date
        d = tg.timepoints[k]
        I = d
        steps = [t for t in range(T) if tg.timepoints[t].value <= d.value]
    o['steps'] = steps
    o['mode'] = fx['mode']

    def rebuilt(pr):
        p2 = mk_portfolio(spec)
        tg2 = mk_grid(spec['grid'])
        fw = {'I': I.copy() if isinstance(I, np.ndarray) else I, 'x': res.x.copy()}
        op2 = p2.setup_optim_problem(pr, tg2, fix_time_window=fw, **skw)
        return op2
    try:
        op2 = rebuilt(mk_prices(spec))
        o['fixed'] = dump_problem(op2)
        r2 = op2.optimize(**({'make_soft_problem': True} if fx.get('soft') else {}))
        o['solve2'] = r2 if isinstance(r2, str) else 'optimal'
        if not isinstance(r2, str):
            o['x2'] = [float(v) for v in r2.x]
            o['value2'] = float(r2.value)
    except Exception as e:
        o['fixed_error'] = repr(e)[:300]
        return o
    if fx['mode'] == 'date':
        # rolling use: ONE dictionary with a fix date, used on this grid and then on the grid moved on by some steps (same length)
        try:
            g2 = dict(spec['grid'])
            stp = pd.Timedelta(tg.timepoints[1] - tg.timepoints[0]) if T > 1 else pd.Timedelta(1, 'h')
            shift = 1 + k % 2
            g2['start'] = str((pd.Timestamp(spec['grid']['start']) + shift * stp))[:16]
            g2['end'] = str((pd.Timestamp(spec['grid']['end']) + shift * stp))[:16]
            fw = {'I': I, 'x': np.zeros(5000)}
            pa = mk_portfolio(spec)
            pa.setup_optim_problem(mk_prices(spec), mk_grid(spec['grid']), fix_time_window=fw)
            unchanged = fw['I'] is I or (not isinstance(fw['I'], np.ndarray) and fw['I'] == I)
            fw['x'] = np.ones(5000)
            opa = pa.setup_optim_problem(mk_prices(spec), mk_grid(g2), fix_time_window=fw)
            pb = mk_portfolio(spec)
            opb = pb.setup_optim_problem(mk_prices(spec), mk_grid(g2), fix_time_window={'I': I, 'x': np.ones(5000)})
            o['reuse'] = {'dict_unchanged': bool(unchanged), 'same_bounds': bool(np.array_equal(opa.l, opb.l) and np.array_equal(opa.u, opb.u))}
        except Exception as e:
            o['reuse'] = {'error': repr(e)[:200]}
    try:
        pr3 = {kk: (v[::-1] * 0.75 + 0.5 if kk.startswith('p') else v) for kk, v in mk_prices(spec).items()}   # capacities given by key stay
        op3 = rebuilt(pr3)
        r3 = op3.optimize()
        o['solve3'] = r3 if isinstance(r3, str) else 'optimal'
        if not isinstance(r3, str):
            o['x3'] = [float(v) for v in r3.x]
        o['fixed3_lu'] = [[float(v) for v in op3.l], [float(v) for v in op3.u]]
    except Exception as e:
        o['fixed3_error'] = repr(e)[:300]
    return o


# ------------------------------------------------------------------ C17: stochastic and robust problems
def probe_slp(spec):
    from eaopack.stoch_lin_prog import make_slp
    import copy as _copy
    o = {}
    so = spec['opts']['slp']
    try:
        portf = mk_portfolio(spec)
        tg = mk_grid(spec['grid'])
        prices = mk_prices(spec)
        op = portf.setup_optim_problem(prices, tg)
    except Exception as e:
        return {'status': 'setup_error', 'error': repr(e)[:300]}
    T = tg.T
    kf = max(1, min(T - 1, int(so['kf'])))          # first future step
    start_future = tg.timepoints[kf]
    rs = np.random.RandomState(seed_of(spec, 'slp'))
    if so.get('n') == 'nvars':
        so = dict(so, n=min(len(op.c), 14))          # as many scenarios as variables
    o['n_samples'] = int(so['n'])
    samples = []
    for s in range(int(so['n'])):
        d = {}
        if so.get('explicit'):
            # scenarios written out in the spec (future part of every price key)
            for k, v in prices.items():
                w = v.copy()
                if k in so['explicit'][s]:
                    w[kf:] = np.asarray(so['explicit'][s][k], float)[kf:]
                d[k] = w
            samples.append(d)
            continue
        for k, v in prices.items():
            w = v.copy()
            if k.startswith('p') and so.get('ordered'):
                # low / base / high scenarios of one price curve (the present is shared): cost vectors ordered entry by entry
                w[kf:] = np.abs(w[kf:]) * [0.5, 1.5, 1.0, 2.0][s % 4]
            elif k.startswith('p') and so.get('near_neutral'):
                # one scenario in which all prices nearly coincide (trading between the assets is almost neutral: differences of 1/1000),
                # the others with large differences
                keys_ = sorted(q for q in prices if q.startswith('p'))
                if s == 0:
                    w[kf:] = 5.0 + 0.001 * keys_.index(k) + 0.0 * w[kf:]
                else:
                    w[kf:] = np.abs(w[kf:]) * [4.0, 0.25][(s + keys_.index(k)) % 2] + 1.0
            elif k.startswith('p') and so.get('decades'):
                # scenarios whose prices differ by an order of magnitude (scarcity prices, another currency unit)
                w[kf:] = w[kf:] * [10.0, 0.125, 3.0][s % 3] + rs.randint(-8, 9, size=T - kf) / 4.0
            elif k.startswith('p') and not so.get('identical'):
                w[kf:] = np.round((w[kf:] * rs.choice([0.5, 0.75, 1.25, 1.5, 2.0]) + rs.randint(-8, 9, size=T - kf) / 4.0) * 8) / 8.0
            d[k] = w
        samples.append(d)
    o['status'] = 'ok'
    o['T'] = int(T)
    o['kf'] = kf
    o['base'] = dump_problem(op)
    mp = op.mapping
    first = mp[~mp.index.duplicated(keep='first')]
    o['future'] = [bool(v) for v in (first['time_step'] >= kf).values] if len(first) == len(op.c) else None
    scen = [prices] + samples

    def solve(p):
        r = p.optimize()
        return r

    # per-scenario problems and optima
    o['scen'] = []
    xs = []
    for pr in scen:
        try:
            pf = mk_portfolio(spec)
            opi = pf.setup_optim_problem(pr, mk_grid(spec['grid']))
            r = solve(opi)
            if isinstance(r, str):
                o['scen'].append({'solve': r}); xs.append(None)
            else:
                o['scen'].append({'solve': 'optimal', 'value': float(r.value), 'c': [float(v) for v in opi.c]}); xs.append(np.asarray(r.x))
        except Exception as e:
            o['scen'].append({'solve': 'crash', 'error': repr(e)[:200]}); xs.append(None)
    # the two-stage problem
    try:
        pf = mk_portfolio(spec)
        tg2 = mk_grid(spec['grid'])
        op2 = pf.setup_optim_problem(mk_prices(spec), tg2)
        cs = pf.create_cost_samples(price_samples=samples, timegrid=tg2)
        o['cost_samples'] = [[float(v) for v in c] for c in cs]
        slp = make_slp(op2, pf, tg2, start_future, samples)
        o['slp_mapping'] = dump_mapping(slp.mapping)
        o['slp'] = {'c': [float(v) for v in slp.c], 'l': [float(v) for v in slp.l], 'u': [float(v) for v in slp.u],
                    'rows': dump_rows(slp.A), 'b': [float(v) for v in slp.b], 'cType': str(slp.cType), 'ncols': int(slp.A.shape[1])}
        r = solve(slp)
        o['slp']['solve'] = r if isinstance(r, str) else 'optimal'
        if not isinstance(r, str):
            o['slp']['value'] = float(r.value)
            o['slp']['x'] = [float(v) for v in r.x]
    except Exception as e:
        o['slp_error'] = repr(e)[:300]
    # expected value of fixing the present to scenario k's solution (recourse re-optimised in every scenario)
    o['fixed'] = []
    for k, xk in enumerate(xs):
        if xk is None or k >= 3:
            continue
        vals = []
        for pr in scen:
            try:
                pf = mk_portfolio(spec)
                tgf = mk_grid(spec['grid'])
                fw = {'I': np.arange(T) < kf, 'x': xk.copy()}
                opf = pf.setup_optim_problem(pr, tgf, fix_time_window=fw)
                r = solve(opf)
                vals.append(None if isinstance(r, str) else float(r.value))
            except Exception as e:
                vals.append(None)
        o['fixed'].append({'k': k, 'values': vals})
    # robust target over the samples
    try:
        pf = mk_portfolio(spec)
        tgr = mk_grid(spec['grid'])
        opr = pf.setup_optim_problem(mk_prices(spec), tgr)
        if so.get('robust_without_grid'):
            csr = pf.create_cost_samples(price_samples=samples)      # the grid was set by the set-up above
        else:
            csr = pf.create_cost_samples(price_samples=samples, timegrid=tgr)
        r = opr.optimize(target='robust', samples=csr)
        o['robust'] = {'solve': r if isinstance(r, str) else 'optimal'}
        if not isinstance(r, str):
            o['robust']['x'] = [float(v) for v in r.x]
            o['robust']['value'] = float(r.value)
        o['robust']['cost_samples'] = [[float(v) for v in c] for c in csr]
    except Exception as e:
        o['robust'] = {'solve': 'crash', 'error': repr(e)[:300]}
    o['xs'] = [None if x is None else [float(v) for v in x] for x in xs]
    return o


# ------------------------------------------------------------------ C10: purity of set-up (operation sequences on shared objects)
def _grid_prices(spec, gi, j, T):
    """price / capacity arrays for grid variant gi (length T), variant j (0 = base, 1 = perturbed prices)"""
    out = {}
    for k, v in spec.get('prices', {}).items():
        rs = np.random.RandomState(zlib.crc32(('%s/%s/%d' % (spec.get('seed', ''), k, gi)).encode()) & 0x7fffffff)
        if gi == 0:
            base = np.asarray(v, dtype=float)
        else:
            lo, hi = (min(v), max(v)) if len(v) else (0.0, 1.0)
            base = np.round(rs.uniform(lo, hi, size=T) * 8) / 8.0 if T > 0 else np.zeros(0)
        if len(base) != T:        # grid 0 of the spec always fits; defensive
            base = np.resize(base, T) if T > 0 else np.zeros(0)
        if j == 1 and k.startswith('p'):
            base = base[::-1] * 0.5 + 1.0
        out[k] = base.copy()
    return out


def _dump_any(op):
    if hasattr(op, 'ops'):          # split problem
        return {'split': [dump_problem(p) for p in op.ops], 'c': [float(v) for v in op.c], 'mapping': dump_mapping(op.mapping)}
    return dump_problem(op)


def _snapshot_params(assets):
    import copy as _c
    snap = []
    for a in assets:
        d = {}
        for k, v in vars(a).items():
            if isinstance(v, dict):
                d[k] = _c.deepcopy(v)
        snap.append(d)
    return snap


def _params_changed(assets, snap):
    bad = []
    for a, d in zip(assets, snap):
        for k, v0 in d.items():
            v1 = getattr(a, k, None)
            def eq(p, q):
                if hasattr(p, '__len__') and not isinstance(p, str):
                    return hasattr(q, '__len__') and len(p) == len(q) and all(x == y for x, y in zip(list(p), list(q)))
                return bool(p == q) or (p is None and q is None)
            try:
                same = isinstance(v1, dict) and set(v1) == set(v0) and all(eq(v1[kk], v0[kk]) for kk in v0)
            except Exception:
                same = False
            if not same:
                bad.append([a.name, k, str(v0)[:200], str(v1)[:200]])
    return bad


def probe_purity(spec):
    import datetime as _dt
    ops = spec['opts']['ops']
    grids = spec['opts']['grids']
    o = {'status': 'ok', 'steps': []}
    tz0 = spec['grid'].get('tz')

    def fresh_objects():
        pf = mk_portfolio(spec)
        gs = [mk_grid(g) for g in grids]
        import build as _b
        _b._TZ[0] = tz0
        return pf, gs

    try:
        portf, G = fresh_objects()
    except Exception as e:
        return {'status': 'setup_error', 'error': repr(e)[:300]}
    snap = _snapshot_params(portf.assets)
    Ts = [g.T for g in G]
    prices_used = {}
    fixdict = None
    last_pgrid = None                      # grid index last given to the portfolio
    agrid = {}                             # asset index -> grid index last set
    ahow = {}                              # ... and how: 'set' (set_timegrid) or 'setup' (a set-up that was handed the grid)

    as_frame = bool(spec['opts'].get('price_frame'))

    def rep(gi):
        # with 'price_frame' the user holds ONE frame of positional prices per horizon length and uses it on every grid of that length
        return min(k for k in range(len(Ts)) if Ts[k] == Ts[gi]) if as_frame else gi

    def fresh_prices(gi, j):
        d = _grid_prices(spec, rep(gi), j, Ts[gi])
        return pd.DataFrame(d) if as_frame and d and Ts[gi] > 0 else d

    def prices(gi, j):
        key = (rep(gi), j)
        if key not in prices_used:
            prices_used[key] = (fresh_prices(gi, j), fresh_prices(gi, j))
        return prices_used[key][0]

    def run(f):
        try:
            return {'ok': True, 'problem': _dump_any(f())}
        except Exception as e:
            return {'ok': False, 'error': type(e).__name__ + ': ' + str(e)[:160]}

    for st in ops:
        kind = st['op']
        rec = {'op': st}
        if kind == 'P':
            gi, j = st['g'], st['p']
            rec['reused'] = run(lambda: portf.setup_optim_problem(prices(gi, j), G[gi]))
            def fr():
                pf, gs = fresh_objects()
                return pf.setup_optim_problem(fresh_prices(gi, j), gs[gi])
            rec['fresh'] = run(fr)
            last_pgrid = gi
            for k in range(len(portf.assets)):
                agrid[k] = gi
                ahow[k] = 'setup'
        elif kind == 'Psk':
            # a set-up that leaves the balance of one node out (skip_nodes): part of the history only, later set-ups must not depend on it
            gi = st['g']
            # (as for 'P': the grid handed over counts as the grid set previously, whether or not the set-up went through)
            last_pgrid = gi
            for k in range(len(portf.assets)):
                agrid[k] = gi
                ahow[k] = 'setup'
            try:
                portf.setup_optim_problem(prices(gi, 0), G[gi], skip_nodes=[list(portf.nodes.keys())[st.get('k', 0) % max(len(portf.nodes), 1)]])
            except Exception as e:
                # a set-up that stopped half way leaves some assets with the grid and others without: no defined "grid set previously"
                rec['error'] = repr(e)[:200]
                last_pgrid = None
                agrid.clear()
                ahow.clear()
        elif kind == 'Pn':
            if last_pgrid is None:
                continue
            gi, j = last_pgrid, st['p']
            rec['reused'] = run(lambda: portf.setup_optim_problem(prices(gi, j)))
            def fr():
                pf, gs = fresh_objects()
                return pf.setup_optim_problem(fresh_prices(gi, j), gs[gi])
            rec['fresh'] = run(fr)
            # the portfolio hands its own grid to every asset: that is 'the grid set previously' of each asset from here on
            for k in range(len(portf.assets)):
                agrid[k] = gi
                ahow[k] = 'setup'
        elif kind == 'S':
            gi, j = st['g'], st['p']
            rec['reused'] = run(lambda: portf.setup_split_optim_problem(prices(gi, j), G[gi], interval_size=st['size']))
            def fr():
                pf, gs = fresh_objects()
                return pf.setup_split_optim_problem(fresh_prices(gi, j), gs[gi], interval_size=st['size'])
            rec['fresh'] = run(fr)
            last_pgrid = gi
            for k in range(len(portf.assets)):
                agrid[k] = gi
                ahow[k] = 'setup'
        elif kind == 'A':
            k, gi, j = st['k'] % len(portf.assets), st['g'], st['p']
            rec['reused'] = run(lambda: portf.assets[k].setup_optim_problem(prices(gi, j), G[gi]))
            def fr():
                pf, gs = fresh_objects()
                return pf.assets[k].setup_optim_problem(fresh_prices(gi, j), gs[gi])
            rec['fresh'] = run(fr)
            agrid[k] = gi
            ahow[k] = 'setup'
        elif kind == 'At':
            k, gi = st['k'] % len(portf.assets), st['g']
            try:
                portf.assets[k].set_timegrid(G[gi])
                agrid[k] = gi
                ahow[k] = 'set'
            except Exception as e:
                rec['error'] = repr(e)[:200]
        elif kind == 'An':
            k, j = st['k'] % len(portf.assets), st['p']
            if k not in agrid:
                continue
            if ahow.get(k) == 'set' and type(portf.assets[k]).__name__ in ('ScaledAsset', 'StructuredAsset', 'LinkedAsset'):
                continue      # set_timegrid of a wrapper does not reach the wrapped assets: no defined meaning without an earlier set-up
            gi = agrid[k]
            rec['reused'] = run(lambda: portf.assets[k].setup_optim_problem(prices(gi, j)))
            def fr():
                pf, gs = fresh_objects()
                if ahow.get(k) == 'set':
                    pf.assets[k].set_timegrid(gs[gi])
                else:
                    pf.assets[k].setup_optim_problem(_grid_prices(spec, gi, 0, Ts[gi]), gs[gi])
                return pf.assets[k].setup_optim_problem(fresh_prices(gi, j))
            rec['fresh'] = run(fr)
        elif kind == 'F':
            gi, j = st['g'], st['p']
            kk = st['k'] % max(Ts[gi], 1)
            if fixdict is None:
                o['fix'] = {'g': gi, 'k': kk, 'date': bool(st.get('date', True))}
                fixdict = {'I': G[gi].timepoints[kk].to_pydatetime() if o['fix']['date'] else (np.arange(Ts[gi]) <= kk), 'x': np.zeros(5000)}
            fx = o['fix']
            rec['reused'] = run(lambda: portf.setup_optim_problem(prices(gi, j), G[gi], fix_time_window=fixdict))
            def fr():
                pf, gs = fresh_objects()
                fw = {'I': gs[fx['g']].timepoints[fx['k']].to_pydatetime() if fx['date'] else (np.arange(Ts[fx['g']]) <= fx['k']), 'x': np.zeros(5000)}
                return pf.setup_optim_problem(fresh_prices(gi, j), gs[gi], fix_time_window=fw)
            rec['fresh'] = run(fr)
            last_pgrid = gi
            for k in range(len(portf.assets)):
                agrid[k] = gi
                ahow[k] = 'setup'
        elif kind == 'J':
            try:
                eao.serialization.to_json(portf)
            except Exception as e:
                rec['error'] = repr(e)[:200]
        if 'reused' in rec and not rec['reused']['ok'] and kind in ('P', 'S', 'F', 'A'):
            # a failed set-up leaves the objects half way (e.g. pointing to an interval grid): what 'the grid set previously'
            # means is undefined from here on; only set-ups that are handed their grid are compared afterwards
            agrid.clear(); ahow.clear(); last_pgrid = None
        o['steps'].append(rec)
    o['params_changed'] = _params_changed(portf.assets, snap)
    o['prices_changed'] = [[list(k), kk] for k, (used, ref0) in prices_used.items() for kk in used if not np.array_equal(np.asarray(used[kk]), np.asarray(ref0[kk]))]
    o['prices_changed'] += [[list(k), 'index of the price frame'] for k, (used, ref0) in prices_used.items()
                            if isinstance(used, pd.DataFrame) and not (type(used.index) is type(ref0.index) and used.index.equals(ref0.index))]
    return o


# ------------------------------------------------------------------ C11: JSON round trip
def _special_objects():
    """asset types the spec DSL does not generate"""
    n, g, h = Node('N'), Node('G'), Node('H')
    out = {}
    out['Plant'] = lambda: Plant(name='pl', nodes=[Node('N'), Node('G')], min_cap=1., max_cap=5., fuel_efficiency=0.5, start_costs=1.0, ramp=2.0, min_runtime=2, price='p0',
                                 start_fuel=0.25, consumption_if_on=0.125, running_costs=0.5)
    out['CHPAsset'] = lambda: CHPAsset(name='chp', nodes=[Node('N'), Node('H'), Node('G')], min_cap=1., max_cap=5., fuel_efficiency=0.5,
                                      conversion_factor_power_heat=0.25, max_share_heat=0.5, start_costs=2.0, min_downtime=2, time_already_off=1, price='p0')
    out['CHPAsset_with_min_load_costs'] = lambda: CHPAsset_with_min_load_costs(name='chp2', nodes=[Node('N'), Node('H')], min_cap=1., max_cap=5., min_load_threshhold=2., min_load_costs=1., price='p0')
    def linked():
        a1 = SimpleContract(name='a1', nodes=Node('N'), min_cap=0, max_cap=3, price='p0')
        a2 = Storage(name='a2', nodes=Node('N'), size=2, cap_in=1, cap_out=1)
        return LinkedAsset(name='li', nodes=[Node('N')], portfolio=Portfolio([a1, a2]), asset1_variable=(a1, 'disp', Node('N')),
                           asset2_variable=(a2, 'disp', Node('N')), asset2_time_already_running='time_already_running')
    out['LinkedAsset'] = linked
    def nested_grids():
        # a portfolio with its own grid wrapping (in a structured asset) a portfolio that was used stand-alone on a finer grid before
        inner = Portfolio([SimpleContract(name='a1', nodes=Node('N'), min_cap=-3, max_cap=3, price='p0'), Storage(name='a2', nodes=Node('N'), size=2, cap_in=1, cap_out=1)])
        inner.set_timegrid(Timegrid(pd.Timestamp('2021-01-04 00:00'), pd.Timestamp('2021-01-04 06:00'), freq='15min', timezone='CET'))
        st = StructuredAsset(name='st', nodes=[Node('N')], portfolio=inner)
        pf = Portfolio([st, SimpleContract(name='m', nodes=Node('N'), min_cap=-5, max_cap=5, price='p0')])
        pf.set_timegrid(Timegrid(pd.Timestamp('2021-01-04 00:00'), pd.Timestamp('2021-01-04 08:00'), freq='h'))
        return pf
    out['Portfolio_wrapping_a_portfolio_with_another_grid'] = nested_grids
    def dst_portfolio(which):
        def make():
            pf = Portfolio([SimpleContract(name='a1', nodes=Node('N'), min_cap=-3, max_cap=3, price='p0'), Storage(name='a2', nodes=Node('N'), size=2, cap_in=1, cap_out=1)])
            second = pd.Timestamp('2021-10-31 02:00:00+01:00').tz_convert('CET')      # the second pass of the repeated hour
            if which == 'start':
                pf.set_timegrid(Timegrid(second, pd.Timestamp('2021-10-31 12:00', tz='CET'), freq='h', timezone='CET'))
            else:
                pf.set_timegrid(Timegrid(pd.Timestamp('2021-10-30 20:00', tz='CET'), second, freq='h', timezone='CET'))
            return pf
        return make
    out['Portfolio_grid_starts_in_repeated_hour'] = dst_portfolio('start')
    out['Portfolio_grid_ends_in_repeated_hour'] = dst_portfolio('end')
    return out


def _same_json(a, b):
    return json.loads(a) == json.loads(b)


def probe_json(spec):
    import json as _json
    from eaopack.serialization import to_json, load_from_json
    o = {'status': 'ok', 'objects': []}
    g = spec['grid']
    g2 = spec['opts'].get('grid2') or g
    objs = []
    try:
        if spec['opts'].get('special'):
            objs.append((spec['opts']['special'], _special_objects()[spec['opts']['special']]))
        else:
            def whole():
                pf = mk_portfolio(spec)
                pf.set_timegrid(mk_grid(g))
                return pf
            objs.append(('Portfolio', whole))
            tz = g.get('tz')
            for a in spec['assets']:
                objs.append((a['kind'] + ':' + a['name'], (lambda a=a: mk_asset(a, {}, tz))))
    except Exception as e:
        return {'status': 'setup_error', 'error': repr(e)[:300]}

    def problem(obj, grid):
        tg = mk_grid(grid)
        T = tg.T
        pr = {k: np.asarray(v, float) if len(v) == T else np.resize(np.asarray(v, float), T) for k, v in mk_prices(spec).items()}
        pr.setdefault('p0', np.arange(T) * 0.5 + 1.0)
        return dump_problem(obj.setup_optim_problem(pr, tg))

    for label, make in objs:
        r = {'label': label}
        try:
            obj = make()
        except Exception as e:
            r['construct_error'] = repr(e)[:200]
            o['objects'].append(r)
            continue
        for phase in ('new', 'after set-up'):
            ph = {}
            try:
                if phase == 'after set-up':
                    try:
                        problem(obj, g)          # computed attributes now exist on the object
                    except Exception as e:
                        ph['skipped'] = 'set-up of the original raises ' + type(e).__name__
                        r[phase] = ph
                        continue
                twin = None
                if label.startswith('Portfolio') and g.get('tz') and not spec['opts'].get('special'):
                    # another portfolio of the same session whose grid covers the same instants in another zone is saved and loaded first
                    try:
                        tzt = {'CET': 'Europe/Berlin', 'Europe/Berlin': 'CET'}.get(g['tz'], 'UTC')
                        st_, en_ = [pd.Timestamp(v).tz_localize(g['tz']).tz_convert(tzt).tz_localize(None) for v in (g['start'], g['end'])]
                        gt = dict(g, start=str(st_), end=str(en_), tz=tzt)
                        def twin_pf():
                            pf_ = mk_portfolio(spec)
                            pf_.set_timegrid(mk_grid(gt))
                            return pf_
                        t0 = load_from_json(to_json(twin_pf()))
                        twin = tzt
                        import build as _b
                        _b._TZ[0] = g.get('tz')
                    except Exception:
                        twin = None
                s1 = to_json(obj)
                ph['saved'] = True
                obj2 = load_from_json(s1)
                ph['loaded'] = True
                if twin:
                    try:
                        t1_ = load_from_json(to_json(twin_pf()))
                        ph['twin_grid_zone_kept'] = bool(str(t1_.timegrid.tz) == twin)
                        import build as _b
                        _b._TZ[0] = g.get('tz')
                    except Exception as e:
                        ph['twin_grid_zone_kept'] = 'error: ' + repr(e)[:100]
                s2 = to_json(obj2)
                ph['resave_equal'] = bool(_json.loads(s1) == _json.loads(s2))
                if label.startswith('Portfolio'):
                    t1, t2 = obj.timegrid, getattr(obj2, 'timegrid', None)
                    ph['grid_equal'] = bool(t2 is not None and len(t1.timepoints) == len(t2.timepoints) and all(x == y for x, y in zip(t1.timepoints, t2.timepoints))
                                            and str(t1.tz) == str(t2.tz) and t1.main_time_unit == t2.main_time_unit and list(t1.dt) == list(t2.dt))
                    def own(x):
                        try:
                            return dump_problem(x.setup_optim_problem(mk_prices(spec)))
                        except Exception as e:
                            return 'error: ' + type(e).__name__
                    ph['own_grid_problem_equal'] = bool(own(obj) == own(obj2))
                for gi, grid in enumerate((g, g2)):
                    try:
                        p1 = problem(make() if phase == 'new' else obj, grid)
                    except Exception as e:
                        p1 = 'error: ' + type(e).__name__
                    try:
                        p2 = problem(obj2, grid)
                    except Exception as e:
                        p2 = 'error: ' + type(e).__name__
                    ph['problem_equal_%d' % gi] = bool(p1 == p2)
                    if p1 != p2:
                        ph['problem_diff_%d' % gi] = [k for k in ('c', 'l', 'u', 'b', 'cType', 'rows', 'mapping') if isinstance(p1, dict) and isinstance(p2, dict) and p1[k] != p2[k]] or [str(p1)[:80], str(p2)[:80]]
            except Exception as e:
                ph['error'] = type(e).__name__ + ': ' + str(e)[:200]
            r[phase] = ph
        o['objects'].append(r)
    return o


# ------------------------------------------------------------------ C06: plant / CHP unit commitment
def probe_plant(spec):
    o = probe_portfolio(spec)
    if o.get('status') != 'ok':
        return o
    # admissible on/off patterns of the unit alone (no ramp: the claim is about run times and the initial state)
    o['patterns'] = None
    try:
        ua = [a for a in spec['assets'] if a['kind'] in ('Plant', 'CHPAsset')][0]
        ub = dict(ua)
        ub.pop('ramp', None)
        unit = mk_asset(ub, {}, spec['grid'].get('tz'))
        tg = mk_grid(spec['grid'])
        op = unit.setup_optim_problem(mk_prices(spec), tg)
        mp = op.mapping
        on = mp[(mp['var_name'] == 'bool_on')]
        on = on[~on.index.duplicated(keep='first')]
        T = len(on)
        if 1 <= T <= int(spec['opts'].get('max_pattern_T', 6)):
            idx = [int(i) for i in on.index]
            o['pattern_steps'] = [int(t) for t in on['time_step'].values]
            l0, u0 = op.l.copy(), op.u.copy()
            pats = {}
            for m in range(2 ** T):
                bits = [(m >> k) & 1 for k in range(T)]
                op.l[:] = l0; op.u[:] = u0
                clash = False
                for j, b in zip(idx, bits):
                    if b < l0[j] - 1e-9 or b > u0[j] + 1e-9:
                        clash = True
                    op.l[j] = op.u[j] = float(b)
                if clash:
                    pats[''.join(map(str, bits))] = False
                    continue
                r = op.optimize()
                pats[''.join(map(str, bits))] = not isinstance(r, str)
            o['patterns'] = pats
    except Exception as e:
        o['patterns_error'] = repr(e)[:300]
    return o


# ------------------------------------------------------------------ C11: the value layer of the serialiser (Codec.v)
def _mk_value(d):
    """python object from a value description (the forms asset parameters take)"""
    import datetime as _dt
    k = d['k']
    if k == 'num':
        return float(d['v'])
    if k == 'str':
        return d['v']
    if k == 'bool':
        return bool(d['v'])
    if k == 'none':
        return None
    if k == 'date':
        return (_dt.date(1970, 1, 1) + _dt.timedelta(days=d['v']))
    if k == 'stamp':
        t = pd.Timestamp(d['v'], unit='s')
        if d.get('tz'):
            t = t.tz_localize('UTC').tz_convert(d['tz'])
        return t if d.get('as') != 'datetime' else t.to_pydatetime()
    if k == 'arr':
        return np.asarray(d['v'], dtype=float)
    if k == 'datearr':
        return np.asarray(d['v'], dtype='int64').astype('datetime64[%s]' % d['unit'])
    if k == 'index':
        ix = pd.DatetimeIndex([pd.Timestamp(t, unit='s') for t in d['v']])
        if d.get('tz'):
            ix = ix.tz_localize('UTC').tz_convert(d['tz'])
        if d.get('freq'):
            ix = pd.DatetimeIndex(ix, freq=d['freq'])
        return ix
    if k == 'list':
        return [_mk_value(e) for e in d['v']]
    if k == 'dict':
        return {kk: _mk_value(e) for kk, e in d['v']}
    raise ValueError(k)


def _describe(obj):
    """value description of a python object (what load_from_json returned)"""
    import datetime as _dt
    if obj is None:
        return {'k': 'none'}
    if isinstance(obj, bool):
        return {'k': 'bool', 'v': obj}
    if isinstance(obj, (int, float)):
        return {'k': 'num', 'v': float(obj)}
    if isinstance(obj, str):
        return {'k': 'str', 'v': obj}
    if isinstance(obj, pd.Timestamp) or isinstance(obj, _dt.datetime):
        t = pd.Timestamp(obj)
        if t.tzinfo is None:
            return {'k': 'stamp', 'v': int(t.value // 10 ** 9), 'tz': None}
        return {'k': 'stamp', 'v': int(t.tz_convert('UTC').tz_localize(None).value // 10 ** 9), 'tz': str(t.tzinfo)}
    if isinstance(obj, _dt.date):
        return {'k': 'date', 'v': (obj - _dt.date(1970, 1, 1)).days}
    if isinstance(obj, pd.DatetimeIndex):
        tz = None if obj.tz is None else str(obj.tz)
        vals = [int((t.tz_convert('UTC').tz_localize(None) if t.tzinfo is not None else t).value // 10 ** 9) for t in obj]
        return {'k': 'index', 'v': vals, 'tz': tz, 'freq': obj.freqstr}
    if isinstance(obj, np.ndarray):
        if np.issubdtype(obj.dtype, np.datetime64):
            unit = np.datetime_data(obj.dtype)[0]
            return {'k': 'datearr', 'unit': unit, 'v': [int(v) for v in obj.astype('int64')]}
        return {'k': 'arr', 'v': [float(v) for v in obj]}
    if isinstance(obj, list):
        return {'k': 'list', 'v': [_describe(e) for e in obj]}
    if isinstance(obj, dict):
        return {'k': 'dict', 'v': [[kk, _describe(e)] for kk, e in obj.items()]}
    return {'k': 'unknown', 'v': repr(obj)[:80]}


def probe_codec(spec):
    import json as _json
    from eaopack.serialization import to_json, load_from_json
    o = {'status': 'ok', 'cases': []}
    for d in spec['values']:
        r = {}
        try:
            obj = _mk_value(d)
            s1 = to_json(obj)
            r['j1'] = _json.loads(s1)
            obj2 = load_from_json(s1)
            r['loaded'] = _describe(obj2)
            s2 = to_json(obj2)
            r['j2'] = _json.loads(s2)
            r['same_text'] = bool(s1 == s2)
        except Exception as e:
            r['error'] = repr(e)[:300]
        o['cases'].append(r)
    return o
