#!/bin/bash
# usage: process_mutant.sh <dir with patch.diff demo.py meta.json> <prop> [<prop> ...]   -- development aid (not a registered command)
# 1. confirms the mutant in a scratch worktree (suite passes, demo fails with / passes without the patch)
# 2. runs the quick checks against a second scratch worktree carrying the patch (VERIF_REPO), so /repo is never touched
# 3. if confirmed, copies it to /verif/seeded/<id>/ with the list of checks that caught it
d="${1%/}"; shift
id=$(basename "$d")
conf=$(bash /verif/harness/confirm_mutant.sh "$d" | tail -1)
echo "$conf"
case "$conf" in *"ok demo_with=1 demo_without=0"*) ;; *) echo "$id: NOT CONFIRMED"; exit 1;; esac
wt=/tmp/mut/run_$id
git -C /repo worktree remove --force $wt 2>/dev/null
git -C /repo worktree add -q --detach $wt HEAD || exit 2
git -C $wt apply "$d/patch.diff" || exit 2
caught=()
cd /verif
for p in "$@"; do
  out=$(VERIF_REPO=$wt VERIF_TAG=_$id VERIF_EVIDENCE_DIR=/verif/build/evidence_mut /venv/bin/python harness/check.py "$p" --tier quick 2>&1 | grep -E "^VIOLATION" | head -2)
  if [ -n "$out" ]; then
    echo "$id vs $p: CAUGHT  $(echo "$out" | head -1 | cut -c1-150)"
    kind=$(echo "$out" | head -1 | sed 's/.*replay=[^ ]*\/\([a-z-]*\)_[0-9a-f]*\.json.*/\1/')
    nf=""; echo "$out" | head -1 | grep -q no-failing-input-found && nf=" (no failing input found)"
    caught+=("$p: $kind$nf")
  else
    echo "$id vs $p: missed"
  fi
done
git -C /repo worktree remove --force $wt
rm -rf /verif/build/impl/*_$id* /verif/build/cases/*_$id*
/venv/bin/python /verif/harness/keep_mutant.py "$d" "$conf" "${caught[@]}"
