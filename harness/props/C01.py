"""C01 nodal balance."""
import random
import common as C
import gen
from props import util

THEOREMS = ['C01_nodal_balance', 'C01_nodal_balance_eps']

CFG = {'p_dupnode': 0.3, 'p_coarse': 0.2, 'p_periodic': 0.15, 'T': (3, 8), 'n_assets': (1, 4), 'nodes': (1, 3),
       'kinds': {'SimpleContract': 1, 'Contract': 1, 'Transport': 3, 'Storage': 2, 'MultiCommodityContract': 3, 'OrderBook': 3, 'ExtendedTransport': 1, 'ScaledAsset': 3, 'StructuredAsset': 3}}


def case_expr(o, prob, mp, x, xr, tab_r, solved, nvar=None):
    """Coq expression for one (problem, mapping) pair"""
    nrows = [(r, b) for r, t, b in zip(prob['rows'], prob['cType'], prob['b']) if t == 'N']
    # the portfolio's own nodal rows are the last ones (a structured asset brings the nodal rows of its
    # inner nodes along as ordinary asset rows)
    k = len(prob.get('map_nodal_restr', []))
    nrows = nrows[len(nrows) - k:] if k <= len(nrows) else nrows
    impl_rows = C.lst([C.crow(r[0], r[1], 'N', b) for r, b in nrows])
    rec = C.lst(['(%s, %s)' % (C.nat(t), C.s(n)) for t, n in prob.get('map_nodal_restr', [])])
    tab = C.lst(['(%s, %s, %s)' % (C.s(a), C.s(n), C.qvec(v)) for a, n, v in tab_r])
    eps = C.q(1e-6 * (1 + max([abs(v) for v in x] + [0])))
    return '(c01_case %s %s [] %s %s %s %s %s %s %s %s %s)' % (
        C.nat(len(prob['c']) if nvar is None else nvar), C.lst([C.s(n) for n in o['nodes']]),
        C.lst([C.nat(i) for i in o['I']]), C.mapping(mp), impl_rows, rec,
        C.qvec(xr), tab, C.b(solved), C.qvec(x), eps)


def force_gap(specs, seed):
    """every asset touching the first node of the portfolio gets a window so that the node has dispatch variables early and late in the
    horizon but none in between (an outage of everything connected to the node)"""

    out = []
    for k, sp in enumerate(specs):
        rng = random.Random('%s/gap/%d' % (seed, k))
        pts = gen.grid_points(sp['grid'])
        T = len(pts) - 1
        n0 = sp['assets'][0]['nodes'][0]
        touching = [a for a in sp['assets'] if n0 in a['nodes']]
        if T < 3 or len(touching) < 2:
            continue
        i = rng.randint(1, T - 2)
        j = rng.randint(i + 1, T - 1)
        sides = ['l', 'r'] + [rng.choice('lr') for _ in touching[2:]]
        rng.shuffle(sides)
        for a, side in zip(touching, sides):
            a.pop('start', None); a.pop('end', None)
            if side == 'l':
                a['end'] = gen.fmt(pts[i])
            else:
                a['start'] = gen.fmt(pts[j])
        out.append(sp)
    return out


def run(ctx):
    if not ctx.proof_gate(THEOREMS):
        return
    n = 60 if ctx.tier == 'quick' else 400
    specs = util.corpus(ctx.prop) + gen.gen_many(ctx.seed, n, CFG, 'c01_')
    util.add_split(specs)
    specs += util.orderbook_tail_specs(ctx.seed, 10 if ctx.tier == 'quick' else 60, 'c01ob_')
    specs += util.split_twin_specs(ctx.seed, 12 if ctx.tier == 'quick' else 80, 'c01tw_')
    # nodes served only by windowed assets: steps without any dispatch at a node (gaps) between steps with dispatch
    specs += gen.gen_many(ctx.seed, n // 3, dict(CFG, p_market=0.3, p_window=0.9, window_kinds=['inside', 'inside', 'left', 'right'], nodes=(2, 3), n_assets=(3, 6),
                                                 p_coarse=0.0, p_periodic=0.0), 'c01gap_')
    specs += force_gap(gen.gen_many(ctx.seed, n // 3, dict(CFG, p_dupnode=0.0, p_coarse=0.0, p_periodic=0.0, p_window=0.0, T=(4, 8), n_assets=(3, 5), nodes=(2, 3),
                                                           kinds={'SimpleContract': 3, 'Contract': 1, 'Transport': 3, 'Storage': 2, 'MultiCommodityContract': 3}), 'c01out_'), ctx.seed)
    # badly scaled but legal data (tiny volumes, huge prices), and conversion factors of the order 1e-6 (kW -> GW links)
    base = gen.gen_many(ctx.seed, n // 3, dict(CFG, p_coarse=0.0, p_periodic=0.0, kinds={'SimpleContract': 2, 'Contract': 1, 'Transport': 3, 'Storage': 2, 'MultiCommodityContract': 2}), 'c01sc_')
    specs += util.rescaled(base[:len(base) // 2], 2.0 ** 20, 2.0 ** -10)
    tiny = base[len(base) // 2:]
    for sp in tiny:
        for a in sp['assets']:
            if a['kind'] == 'Transport':
                a['efficiency'] = 2.0 ** -20
                a['max_cap'] = abs(a.get('max_cap', 1.0)) * 2.0 ** 20 if a.get('max_cap', 0) > 0 else a.get('max_cap', 0)
            if a['kind'] == 'MultiCommodityContract':
                a['factors_commodities'] = [a['factors_commodities'][0]] + [f * 2.0 ** -21 for f in a['factors_commodities'][1:]]
        sp['id'] += '_tiny'
    specs += tiny
    # mixed scales: a tiny fixed demand (1 MWh in GW units) next to 'unlimited' capacities and prices per GWh
    mixed = util.rescaled(gen.gen_many(ctx.seed, n // 4, dict(CFG, p_coarse=0.0, p_periodic=0.0, T=(6, 9), nodes=(2, 2), p_market=1.0,
                                                              kinds={'Transport': 3, 'Storage': 3}), 'c01mx_'), 2.0 ** 20, 2.0 ** 7)
    for sp in mixed:
        node = sp['assets'][-1]['nodes'][-1]
        sp['assets'].append({'kind': 'SimpleContract', 'name': 'tiny_demand', 'nodes': [node], 'min_cap': -2.0 ** -10, 'max_cap': -2.0 ** -10})
        for a in sp['assets']:
            if a['kind'] == 'Storage':
                a['eff_in'] = 0.875
        sp['id'] = sp['id'].replace('_resc', '_mixed')
    util.add_split(mixed)
    specs += mixed
    # ... and the classical form of it: a site with a demand of 1 MWh per hour modelled in GW / GWh with prices per GWh (the default
    # solver cannot reach its usual accuracy on these: whatever is handed back as a solution has to balance; no solution is fine)
    import pandas as _pd
    for k_ in range(4 if ctx.tier == 'quick' else 12):
        r_ = random.Random('%s/c01gw/%d' % (ctx.seed, k_))
        T_ = r_.choice([24, 36, 48])
        g_ = {'start': '2021-01-01 00:00', 'freq': 'h', 'unit': 'h', 'tz': None, 'T': T_}
        g_['end'] = (_pd.Timestamp(g_['start']) + _pd.Timedelta(hours=T_)).strftime('%Y-%m-%d %H:%M')
        lvl = r_.choice([1.0e6, 2.0e6, 5.0e5])
        sp_ = {'grid': g_, 'prices': {'p0': [lvl * (1.0 + r_.random()) for _ in range(T_)]}, 'opts': {}, 'id': 'c01gw_%d' % k_, 'seed': '%s/c01gw/%d' % (ctx.seed, k_),
               'assets': [{'kind': 'SimpleContract', 'name': 'supply', 'nodes': ['grid'], 'price': 'p0', 'min_cap': -1.0e3, 'max_cap': 1.0e3},
                          {'kind': 'SimpleContract', 'name': 'demand', 'nodes': ['site'], 'min_cap': 1.0e-3, 'max_cap': 1.0e-3},
                          {'kind': 'Transport', 'name': 'line', 'nodes': ['grid', 'site'], 'min_cap': 0.0, 'max_cap': 1.0e3, 'efficiency': 0.9},
                          {'kind': 'Storage', 'name': 'battery', 'nodes': ['site'], 'size': 3.0e3, 'cap_in': 1.0e3, 'cap_out': 1.0e3, 'eff_in': 0.9, 'start_level': 0.0, 'end_level': 0.0}]}
        if k_ % 2:
            sp_['opts']['split'] = 'd'
        specs.append(sp_)
    # everything fixed (must-take profiles, fixed loads): balanced by construction or not -- a failure is fine, an unbalanced solution is not
    fx = gen.gen_many(ctx.seed, n // 4, dict(CFG, p_coarse=0.0, p_periodic=0.0, p_window=0.0, nodes=(1, 2), n_assets=(1, 3), p_market=1.0,
                                             kinds={'SimpleContract': 3, 'Transport': 1}), 'c01fix_')
    for sp in fx:
        for a in sp['assets']:
            if a['kind'] == 'SimpleContract':
                a['min_cap'] = a['max_cap'] = gen.k8(random.Random(sp['id'] + a['name']), -3, 3)
            elif a['kind'] == 'Transport':
                a['min_cap'] = a['max_cap'] = abs(gen.k8(random.Random(sp['id'] + a['name']), 0, 2))
    specs += fx
    # the first steps fixed to an earlier solution after the portfolio has changed (losses, commodity factors)
    rf = gen.gen_many(ctx.seed, n // 3, dict(CFG, p_coarse=0.0, p_periodic=0.0, nodes=(2, 3), kinds={'SimpleContract': 2, 'Transport': 4, 'MultiCommodityContract': 3, 'Storage': 1}), 'c01rf_')
    for i, sp in enumerate(rf):
        sp['opts']['refix'] = 2 + i % 4
    specs += rf
    # the relaxed ("soft") problem of portfolios with binary variables: order books with full execution, storages that may not charge
    # and discharge at once, plants with fuel consumption when on
    soft = gen.gen_many(ctx.seed, n // 3, dict(CFG, p_coarse=0.0, p_periodic=0.0, p_full_exec=1.0, p_no_simult=0.8, T=(4, 8), n_assets=(1, 3),
                                               kinds={'OrderBook': 4, 'Storage': 2, 'SimpleContract': 2, 'Transport': 1}), 'c01soft_')
    soft += gen.gen_many_plants(ctx.seed, n // 4, dict(CFG, freqs=['h'], units=['h'], tzs=[None], T=(4, 8), p_unaligned_end=0.0, p_profile=0.0, p_fuel=1.0), 'c01softp_')
    for sp in soft:
        sp['opts']['optimize'] = {'make_soft_problem': True}
    specs += soft
    # node names that are another name plus digits, on horizons with two-digit step numbers (labels such as 'hub1'+'12' / 'hub11'+'2')

    from props.C09 import rename_assets, asset_names, node_names
    dig = gen.gen_many(ctx.seed, n // 3, dict(CFG, nodes=(2, 3), T=(13, 16), freqs=['h'], p_coarse=0.0, p_periodic=0.0, n_assets=(2, 4), p_unaligned_end=0.0,
                                              kinds={'SimpleContract': 2, 'Transport': 4, 'Storage': 1, 'MultiCommodityContract': 1}), 'c01dig_')
    for sp in dig:
        rng = random.Random(str(sp['seed']) + '/names')
        pool = rng.choice([['hub1', 'hub11', 'hub111'], ['N1', 'N11', 'N12'], ['1', '11', '12']])
        rng.shuffle(pool)
        nn = node_names(sp['assets'])
        if len(nn) <= len(pool):
            rename_assets(sp['assets'], {a: a for a in asset_names(sp['assets'])}, dict(zip(nn, pool)))
    specs += dig
    # the portfolio wrapped by a structured asset, optimised on its own afterwards
    inner = gen.gen_many(ctx.seed, n // 3, dict(CFG, p_coarse=0.0, p_periodic=0.0, nodes=(2, 3), p_struct_window=0.0, p_window_inner=0.0,
                                                kinds={'StructuredAsset': 4, 'SimpleContract': 1, 'Transport': 1}), 'c01in_')
    for sp in inner:
        sp['opts']['inner_standalone'] = True
    specs += inner
    specs = ctx.specs(specs)
    res = C.run_impl('portfolio', specs)
    exprs, owners = [], []
    for sp, o in zip(specs, res):
        ctx.count('status:' + str(o.get('status')))
        if o.get('status') != 'ok':
            ctx.count('setup_error:' + str(o.get('error'))[:60])
            continue
        for a in sp['assets']:
            ctx.count('kind:' + a['kind'])
        ctx.count('solve:' + str(o.get('solve')))
        # ---- oracle on the implementation: nodal sums of the REPORTED dispatch (solver's x)
        runs = []
        if o.get('solve') == 'optimal' and o.get('out'):
            runs.append(('monolithic', o['out']['dispatch']))
        if isinstance(o.get('split'), dict) and o['split'].get('solve') == 'optimal' and o['split'].get('out'):
            runs.append(('split', o['split']['out']['dispatch']))
        if o.get('problem_changed_by_optimize'):
            ctx.violation('impl-violation', {'spec': sp, 'observed': {'fields of the problem changed by optimize()': o['problem_changed_by_optimize']},
                                             'expected': 'the rows the solver worked on are the assembled ones (nodal rows untouched)'}, trigger={'what': 'problem changed by optimize'})
        q = o.get('refix')
        if isinstance(q, dict):
            ctx.count('refix:' + str(q.get('solve')))
            if q.get('solve') == 'optimal' and q.get('out'):
                runs.append(('first steps fixed after a change of the portfolio', q['out']['dispatch']))
        for inn in o.get('inner') or []:
            if inn.get('out'):
                ctx.cov['impl_oracle_evaluations'] += 1
                ctx.count('wrapped portfolio optimised on its own')
                bad = util.nodal_imbalance(inn, inn['out']['dispatch'])
                if bad:
                    ctx.violation('impl-violation', {'spec': sp, 'mode': 'portfolio wrapped by %s, optimised on its own afterwards' % inn['name'], 'observed': bad,
                                                     'expected': 'dispatch at every node and step sums to zero'}, trigger={'mode': 'inner stand-alone'})
        for mode, disp in runs:
            ctx.cov['impl_oracle_evaluations'] += 1
            bad = util.nodal_imbalance(o, disp)
            if bad:
                ctx.violation('impl-violation', {'spec': sp, 'mode': mode, 'observed': bad,
                                                 'expected': 'dispatch at every node and step sums to zero'},
                              trigger={'mode': mode})
        # ---- correspondence + validation in Coq
        prob = o['problem']
        if o.get('out_r') is None:
            ctx.broken('correspondence-broken', {'spec': sp, 'theorem_or_correspondence': 'extract_output on a box point raised', 'error': o.get('out_r_error')})
            continue
        tab_r = util.dispatch_table(o, o['out_r']['dispatch'])
        solved = o.get('solve') == 'optimal'
        exprs.append(case_expr(o, prob, prob['mapping'], o.get('x') or [], o['xr'], tab_r, solved))
        owners.append((sp, 'monolithic'))
        ctx.sample({'spec': sp, 'mode': 'monolithic'})
        s = o.get('split')
        if isinstance(s, dict) and ('setup_error' in s or s.get('out_r') is None):
            ctx.count('split_error:' + str(s.get('setup_error') or s.get('out_r_error'))[:60])
        elif isinstance(s, dict):
            # concatenated mapping with original steps and re-based indices; rows checked via the model's rows
            cat = {'c': s['c'], 'rows': [], 'cType': '', 'b': [], 'map_nodal_restr': s['map_nodal_restr']}
            # impl rows of the split problem: interval rows shifted by the interval's variable offset
            off = 0
            for p in s['ops']:
                own = [(r, b) for r, t, b in zip(p['rows'], p['cType'], p['b']) if t == 'N']
                k = len(p.get('map_nodal_restr', []))
                own = own[len(own) - k:] if k <= len(own) else own
                for r, b in own:
                    cat['rows'].append([[j + off for j in r[0]], r[1]])
                    cat['cType'] += 'N'
                    cat['b'].append(b)
                off += len(p['c'])
            tab_s = util.dispatch_table(o, s['out_r']['dispatch'])
            exprs.append(case_expr(o, cat, s['mapping'], s.get('x') or [], s['xr'], tab_s, s.get('solve') == 'optimal'))
            owners.append((sp, 'split'))
            ctx.count('mode:split')
    vals = C.run_coq_exprs('C01', 'Num LP Cert Mapping Corr', exprs, chunk=6)
    names = ['nodal rows = model rows', '(step,node) record', 'dispatch table = model dispatch_out', 'solver x satisfies model nodal rows (eps)']
    for (sp, mode), v in zip(owners, vals):
        ctx.cov['correspondence']['cases'] += 1
        ctx.cov['correspondence']['components_compared'] += 3
        ctx.cov['instances_validated'] += 1
        for nm, ok in zip(names, v):
            if not ok:
                ctx.cov['correspondence']['disagreements'] += 1
                if mode == 'split' and nm == names[0]:
                    # order of nodal rows in a split problem is per interval: compare as sets is done in thorough replay
                    pass
                ctx.broken('correspondence-broken' if nm != names[3] else 'validator-rejected',
                           {'spec': sp, 'mode': mode, 'theorem_or_correspondence': nm})
