"""C02: the assembled LP means what the asset documentation says (reference equivalence)."""
import common as C
import gen
import modelspec as M
from props import util
from props.C20 import ref_oracle

THEOREMS = ['C02_split_range', 'C02_split_cost', 'C02_contract_limits', 'C02_transport_flows', 'C02_storage_recursion',
            'C02_holding_cost', 'C02_take_prorated', 'C02_portfolio_blocks',
            'C02_lp_to_reference', 'C02_reference_to_lp', 'C02_optimum_is_reference_optimum', 'C02_every_point_is_blocks',
            'C02_transport_unit', 'C02_storage_unit', 'C02_contract_unit', 'C02_contract_takes_unit', 'C02_multi_unit', 'C02_ext_transport_unit', 'C02_generated_portfolio_under_theorems',
            'C02_coarse_unit', 'C02_coarse_contract_builder', 'C02_coarse_transport_builder', 'C02_coarse_storage_builder', 'C02_coarse_unit_is_builder']
REF_NAMES = ['hypotheses of the instance theorems hold for every asset (unit_hyps_c)', 'asset names distinct', 'x has one entry per model variable',
             'EAO value = - textbook cost of the decoded solution', 'reported dispatch = textbook flows of the decoded solution',
             'textbook flows balance at every node and step']
CFG = {'p_coarse': 0.0, 'p_periodic': 0.0, 'T': (3, 9), 'n_assets': (1, 4), 'nodes': (1, 3), 'p_window': 0.4, 'p_wacc': 0.5, 'p_market': 0.9,
       'p_inflow': 0.4, 'p_spread': 0.6, 'p_storage_price': 0.0, 'tzs': [None, None, None, 'CET'], 'units': ['h', 'h', 'd', 'min'],
       'kinds': {'SimpleContract': 2, 'Contract': 3, 'Transport': 2, 'Storage': 4, 'MultiCommodityContract': 2, 'ExtendedTransport': 2}}


def run(ctx):
    if not ctx.proof_gate(THEOREMS, ['Ref.vo', 'Reference.vo', 'RefCoarse.vo', 'RefCorr.vo']):
        return
    n = 80 if ctx.tier == 'quick' else 600
    specs = util.corpus(ctx.prop) + gen.gen_many(ctx.seed, n, CFG, 'c02_')
    # longer horizons on DST / daily grids: step lengths differ, discounting matters
    specs += gen.gen_many(ctx.seed, n // 4, dict(CFG, T=(10, 30), freqs=['h', 'd', '2h'], tzs=['CET', None], p_dst=0.8, p_wacc=0.9), 'c02L_')
    # steps of unequal length (daily steps across a clock change) with holding costs and discounting
    dst = gen.gen_many(ctx.seed, n // 5, dict(CFG, freqs=['d'], tzs=['CET'], p_dst=1.0, T=(4, 8), p_unaligned_end=0.0, p_wacc=0.9, n_assets=(1, 2), kinds={'Storage': 1}), 'c02dst_')
    for sp in dst:
        for a in sp['assets']:
            if a['kind'] == 'Storage':
                a['cost_store'] = a.get('cost_store') or 0.375
    specs += dst
    # take periods whose values are numpy arrays (the documented form), on objects that were set up before (other prices)
    arr = gen.gen_many(ctx.seed, n // 4, dict(CFG, kinds={'ExtendedTransport': 4, 'Contract': 3, 'MultiCommodityContract': 1, 'SimpleContract': 1}, nodes=(2, 3), n_assets=(1, 3)), 'c02arr_')
    for k_, sp in enumerate(arr):
        for a in sp['assets']:
            for key in ('max_take', 'min_take'):
                if isinstance(a.get(key), dict):
                    a[key]['as_array'] = True
        sp['opts']['warmup'] = 'solve' if k_ % 2 else 'setup'
    specs += arr
    specs = ctx.specs(specs)
    res = C.run_impl('reference', specs)
    parts = C.run_impl('assets', specs)
    for sp, o in zip(specs, res):
        ctx.count('status:' + str(o.get('status')))
        if o.get('status') != 'ok':
            ctx.count('setup_error:' + str(o.get('error'))[:50])
        for a in sp['assets']:
            ctx.count('kind:' + a['kind'])
            for k in ('extra_costs', 'max_take', 'min_take', 'inflow', 'cost_store', 'cost_in', 'wacc', 'start', 'end'):
                if a.get(k):
                    ctx.count('feature:' + k)
        ctx.count('grid:%s/%s/%s' % (sp['grid']['freq'], sp['grid']['unit'], sp['grid']['tz']))
        ref_oracle(ctx, sp, o, 'optimum of the textbook formulation (rate x step length, discounting by elapsed years, level recursion, prorated takes)')
        ctx.sample({'spec': sp})
    util.asset_corr(ctx, specs, parts, 'C02')
    # ---- the composition theorems applied: portfolios made only of classes covered by the instance theorems (fine grid).  Coq evaluates
    # the hypotheses of the theorems on the model of the portfolio (so C02_optimum_is_reference_optimum speaks about it) and the textbook
    # program -- cost, flows, nodal balance -- on what the implementation returned
    cov = gen.gen_many(ctx.seed, n // 2, dict(CFG, kinds={'SimpleContract': 2, 'Contract': 3, 'Transport': 2, 'Storage': 4, 'MultiCommodityContract': 2, 'ExtendedTransport': 2}, p_storage_price=0.2), 'c02t_')
    # assets on a coarser frequency (RefCoarse.v): contracts, transports, storages next to fine assets of every covered class
    cov += gen.gen_many(ctx.seed, n // 2, dict(CFG, p_coarse=0.7, freqs=['h', '30min'], T=(4, 9), p_window=0.0, p_storage_price=0.2,
                                               kinds={'SimpleContract': 3, 'Contract': 1, 'Transport': 3, 'Storage': 4, 'MultiCommodityContract': 1}), 'c02co_')
    pool = [sp for sp in specs if not sp['id'].startswith('c02L_')] + ctx.specs(cov)
    have = {sp['id']: o for sp, o in zip(specs, res)}
    todo = [sp for sp in pool if sp['id'] not in have]
    for sp, o in zip(todo, C.run_impl('reference', todo)):
        have[sp['id']] = o
    exprs, owners = [], []
    for sp in pool:
        o = have[sp['id']]
        terms = [M.uspec_term(a, sp, 'G') for a in sp['assets']]
        if any(t is None for t in terms):
            ctx.count('composition: portfolio has a class outside the instance theorems')
            continue
        if o.get('status') != 'ok' or o.get('solve') != 'optimal' or not o.get('out'):
            ctx.count('composition: not solved')
            continue
        tab = util.dispatch_table(o, o['out']['dispatch'])
        exprs.append('(let G := %s in c02_ref_case G %s %s %s %s %s %s %s)' % (
            M.grid_term(sp['grid']), C.lst(terms), C.lst([C.s(x) for x in o['nodes']]), C.lst([C.nat(i) for i in o['I']]),
            C.qvec(o['x']), C.q(o['value']), C.lst(['(%s, %s, %s)' % (C.s(a), C.s(nn), C.qvec(v)) for a, nn, v in tab]), C.q(2e-6)))
        owners.append(sp)
        ctx.count('composition: evaluated')
    vals = C.run_coq_exprs('C02r', 'Num LP Cert Mapping Dcf Grid Assets StorageProofs Portfolio Ref Reference RefCoarse Corr RefCorr', exprs, chunk=6)
    for sp, v in zip(owners, vals):
        ctx.cov['correspondence']['cases'] += 1
        ctx.cov['correspondence']['components_compared'] += len(REF_NAMES)
        ctx.cov['instances_validated'] += 1
        for nm, ok in zip(REF_NAMES, v):
            if not ok:
                ctx.cov['correspondence']['disagreements'] += 1
                ctx.broken('validator-rejected', {'spec': sp, 'theorem_or_correspondence': 'textbook program of Reference.v on the implementation result: ' + nm})
