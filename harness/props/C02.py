"""C02: the assembled LP means what the asset documentation says (reference equivalence)."""
import common as C
import gen
from props import util
from props.C20 import ref_oracle

THEOREMS = ['C02_split_range', 'C02_split_cost', 'C02_contract_limits', 'C02_transport_flows', 'C02_storage_recursion',
            'C02_holding_cost', 'C02_take_prorated', 'C02_portfolio_blocks']
CFG = {'p_coarse': 0.0, 'p_periodic': 0.0, 'T': (3, 9), 'n_assets': (1, 4), 'nodes': (1, 3), 'p_window': 0.4, 'p_wacc': 0.5, 'p_market': 0.9,
       'p_inflow': 0.4, 'p_spread': 0.6, 'p_storage_price': 0.0, 'tzs': [None, None, None, 'CET'], 'units': ['h', 'h', 'd', 'min'],
       'kinds': {'SimpleContract': 2, 'Contract': 3, 'Transport': 2, 'Storage': 4, 'MultiCommodityContract': 2, 'ExtendedTransport': 2}}


def run(ctx):
    if not ctx.proof_gate(THEOREMS, ['Ref.vo']):
        return
    n = 80 if ctx.tier == 'quick' else 600
    specs = util.corpus(ctx.prop) + gen.gen_many(ctx.seed, n, CFG, 'c02_')
    # longer horizons on DST / daily grids: step lengths differ, discounting matters
    specs += gen.gen_many(ctx.seed, n // 4, dict(CFG, T=(10, 30), freqs=['h', 'd', '2h'], tzs=['CET', None], p_dst=0.8, p_wacc=0.9), 'c02L_')
    specs = ctx.specs(specs)
    res = C.run_impl('reference', specs)
    parts = C.run_impl('assets', specs)
    for sp, o in zip(specs, res):
        ctx.count('status:' + str(o.get('status')))
        if o.get('status') != 'ok':
            ctx.count('setup_error:' + str(o.get('error'))[:50])
        for a in sp['assets']:
            ctx.count('kind:' + a['kind'])
            for k in ('extra_costs', 'max_take', 'min_take', 'inflow', 'cost_store', 'cost_in', 'wacc', 'start', 'end'):
                if a.get(k):
                    ctx.count('feature:' + k)
        ctx.count('grid:%s/%s/%s' % (sp['grid']['freq'], sp['grid']['unit'], sp['grid']['tz']))
        ref_oracle(ctx, sp, o, 'optimum of the textbook formulation (rate x step length, discounting by elapsed years, level recursion, prorated takes)')
        ctx.sample({'spec': sp})
    util.asset_corr(ctx, specs, parts, 'C02')
