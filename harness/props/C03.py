"""C03: the optimiser returns a feasible, optimal point of the assembled problem."""
import random
import common as C
import gen
from props import util

THEOREMS = ['C03_primal_check_sound', 'C03_weak_duality', 'C03_optimality_check_sound', 'C03_infeasibility_check_sound',
            'C03_translation_equivalent', 'C03_boolean_variables']
CFG = {'p_coarse': 0.1, 'p_periodic': 0.1, 'T': (3, 7), 'n_assets': (1, 4), 'nodes': (1, 3), 'p_market': 0.8,
       'p_no_simult': 0.15, 'p_full_exec': 0.3,
       'kinds': {'SimpleContract': 1, 'Contract': 3, 'Transport': 2, 'Storage': 3,
                 'MultiCommodityContract': 1, 'OrderBook': 2, 'ExtendedTransport': 2}}


def k8(rng, lo, hi):
    return rng.randint(int(lo * 8), int(hi * 8)) / 8.0


def gen_lp(rng, i):
    """synthetic problem mixing all row classes, duplicated mapping rows, boolean flags"""
    n = rng.randint(2, 6)
    m = rng.randint(1, 6)
    l = [k8(rng, -4, 0) for _ in range(n)]
    u = [lj + k8(rng, 0, 6) for lj in l]
    c = [k8(rng, -3, 3) for _ in range(n)]
    mip = rng.random() < 0.35
    bools = []
    if mip:
        for j in range(n):
            if rng.random() < 0.4:
                bools.append(j)
                l[j] = 0.0
                u[j] = 1.0 if rng.random() < 0.7 else float(rng.randint(2, 3))   # flag with non-0/1 bounds
    x0 = [lj + (uj - lj) * rng.randint(0, 8) / 8.0 for lj, uj in zip(l, u)]
    for j in bools:
        x0[j] = float(rng.randint(0, 1))
    rows, b, ct = [], [], ''
    infeasible = rng.random() < 0.15
    if rng.random() < 0.2:
        # a row without entries (e.g. a user restriction whose time-varying factor is zero): 0 <op> rhs, satisfiable or not
        t = rng.choice('ULSN')
        ok = rng.random() < 0.5
        rhs = {'U': 1.0 if ok else -1.0, 'L': -1.0 if ok else 1.0, 'S': 0.0 if ok else 0.5, 'N': 0.0 if ok else -0.5}[t]
        rows.append([[], []]); b.append(rhs); ct += t
    for r in range(m):
        k = rng.randint(1, min(3, n))
        cols = sorted(rng.sample(range(n), k))
        vals = [rng.choice([-2, -1, -0.5, 0.5, 1, 2, 0.25]) for _ in cols]
        ax = sum(v * x0[j] for j, v in zip(cols, vals))
        t = rng.choice('UULLSN')
        if t == 'U':
            rhs = ax + k8(rng, 0, 2)
        elif t == 'L':
            rhs = ax - k8(rng, 0, 2)
        else:
            rhs = ax
        rows.append([cols, vals]); b.append(rhs); ct += t
    if infeasible:
        j = rng.randrange(n)
        rows.append([[j], [1.0]]); b.append(u[j] + 1.0); ct += 'L'
    mp = []
    for j in range(n):
        mp.append({'index': j, 'asset': 'a', 'node': 'N', 'type': 'd', 'time_step': j % 3, 'disp_factor': 1.0,
                   'var_name': 'v', 'bool': j in bools})
        if rng.random() < 0.3:   # duplicated mapping row; only the first row's flag counts (optimization.py:221)
            mp.append({'index': j, 'asset': 'a', 'node': 'M', 'type': 'd', 'time_step': j % 3, 'disp_factor': 0.5,
                       'var_name': 'v', 'bool': (j in bools) if rng.random() < 0.7 else (j not in bools)})
    if rng.random() < 0.3:
        # a variable without any mapping row (zero cost, in no row) somewhere in front: positions in the mapping are no variable numbers then
        j0 = rng.randint(0, max(0, n - 2))
        c.insert(j0, 0.0); l.insert(j0, 0.0); u.insert(j0, 1.0); x0.insert(j0, 0.0)
        rows = [[[j + 1 if j >= j0 else j for j in cols], vals] for cols, vals in rows]
        bools = [j + 1 if j >= j0 else j for j in bools]
        for r in mp:
            if r['index'] >= j0:
                r['index'] += 1
        n += 1
    lp = {'c': c, 'l': l, 'u': u, 'rows': rows, 'b': b, 'cType': ct, 'mapping': mp}
    sp = {'id': 'lp%d' % i, 'seed': 'lp%d' % i, 'lp': lp, 'opts': {}}
    r = rng.random()
    if r >= 0.88:
        # every variable pinned (l == u), e.g. an interval inside a fixed window: feasible iff the pinned point satisfies rows and flags
        for j in range(n):
            l[j] = u[j] = x0[j]
        k_ = rng.random()
        if k_ < 0.4 and rows:
            q = rng.randrange(len(rows))
            if rows[q][0]:
                b[q] = b[q] + (1.0 if ct[q] in 'LSN' else -1.0)       # the pinned point violates this row
        elif k_ < 0.7 and bools:
            j = rng.choice(bools)
            l[j] = u[j] = 0.5                                         # a flag pinned at a fraction
        return sp
    if r < 0.25:
        # open-ended bounds (e.g. a purchase-only contract without capacity limit); the cost keeps the problem bounded
        for j in rng.sample([j for j in range(n) if j not in bools], min(2, n - len(bools))):
            if rng.random() < 0.6:
                u[j] = float('inf'); c[j] = abs(c[j])
            else:
                l[j] = float('-inf'); c[j] = -abs(c[j])
    elif r < 0.55 and not infeasible:
        # the same problem object is changed afterwards (bounds and right-hand sides of the same shape, x0 stays feasible) and solved again
        u2 = [x0[j] if rng.random() < 0.4 else u[j] for j in range(n)]
        l2 = [x0[j] if rng.random() < 0.2 else l[j] for j in range(n)]
        b2 = []
        for (cols, vals), t, bb in zip(rows, ct, b):
            ax = sum(v * x0[j] for j, v in zip(cols, vals))
            b2.append(ax if (cols and t in 'UL' and rng.random() < 0.6) else bb)
        sp['lp2'] = dict(lp, l=l2, u=u2, b=b2)
    return sp


def duals_to_y(prob, du):
    """multiplier vector for Cert.dual_bound from cvxpy's duals (signs found by experiment: U +, L -, S +, N +;
    any vector is admissible input to the sound checker)"""
    idx = {k: 0 for k in 'ULSN'}
    sign = {'U': 1.0, 'L': -1.0, 'S': 1.0, 'N': 1.0}
    y = []
    for t in prob['cType']:
        arr = du.get(t)
        v = 0.0
        if arr is not None and idx[t] < len(arr):
            v = sign[t] * arr[idx[t]]
        idx[t] += 1
        y.append(v)
    return y


def run(ctx):
    if not ctx.proof_gate(THEOREMS):
        return
    n = 40 if ctx.tier == 'quick' else 300
    nl = 60 if ctx.tier == 'quick' else 500
    specs = util.corpus(ctx.prop) + gen.gen_many(ctx.seed, n, CFG, 'c03_')
    rng = random.Random('%d/c03lp' % ctx.seed)
    specs += [gen_lp(rng, i) for i in range(nl)]
    solvers = [{}]
    if ctx.tier == 'thorough':
        # "all solver choices available in the installation"
        import importlib.util
        solvers = [{}, {'solver': 'SCIPY'}, {'solver': 'CLARABEL'}, {'solver': 'SCIP'}]
        if importlib.util.find_spec('ortools') is not None:
            solvers.append({'interface': 'ortools'})
        else:
            ctx.count('interface ortools: package not installed here (not exercised)')
    for sp in specs:
        sp['opts']['solvers'] = solvers
    for sp in specs[1::4]:
        # robust target: the returned point is feasible and the reported value is that of the problem's own cost vector
        sp['opts']['solvers'] = solvers + [{'robust': 2}]
    for sp in specs[::3]:
        # the relaxed problem is solved first on the same object; the regular solve afterwards must still be a MIP solve
        sp['opts']['solvers'] = [{'make_soft_problem': True}] + solvers
    ob = gen.gen_many(ctx.seed, n // 3, dict(CFG, p_full_exec=1.0, kinds={'OrderBook': 4, 'SimpleContract': 2}), 'c03ob_')
    for sp in ob:
        pts = gen.grid_points(sp['grid'])
        st = gen.freq_td(sp['grid']['freq'])
        for a in sp['assets']:
            if a['kind'] == 'OrderBook':
                o_ = a['orders']
                o_['start'].insert(0, gen.fmt(pts[0] - 5 * st)); o_['end'].insert(0, gen.fmt(pts[0] - 2 * st)); o_['capa'].insert(0, 2.0); o_['price'].insert(0, 1.0)
        sp['opts']['solvers'] = solvers
    specs += ob
    # units with a minimum load: the relaxed ("soft") problem has fractional flags tied to the dispatch by rows
    pl = gen.gen_many_plants(ctx.seed, n // 2, dict(CFG, freqs=['h'], units=['h'], tzs=[None], T=(4, 8), p_unaligned_end=0.0, p_profile=0.0, p_coarse=0.0, p_periodic=0.0, p_window=0.0), 'c03pl_')
    for sp in pl:
        sp['opts']['solvers'] = [{'make_soft_problem': True}] + solvers
    specs += pl
    specs = ctx.specs(specs)
    res = C.run_impl('optim', specs)
    # ---- split optimisation of portfolios with binary variables: the concatenated result against the direct sum of the interval problems
    spl = gen.gen_many(ctx.seed, n // 2, dict(CFG, p_coarse=0.0, p_periodic=0.0, p_full_exec=0.8, p_no_simult=0.6, freqs=['h'], T=(6, 9),
                                              kinds={'OrderBook': 3, 'Storage': 3, 'SimpleContract': 2, 'Transport': 1}), 'c03s_')
    for sp in spl:
        sp['opts']['split'] = '3h'
    spl = [sp for sp in ctx.specs(spl) if 'split' in sp.get('opts', {})]
    sexprs, sowners = [], []
    for sp, o in zip(spl, C.run_impl('portfolio', spl) if spl else []):
        sr = o.get('split') if o.get('status') == 'ok' else None
        if not isinstance(sr, dict) or 'setup_error' in sr:
            continue
        ctx.count('split solve:' + str(sr.get('solve')))
        if sr.get('solve') != 'optimal':
            continue
        rows, ct, bb, cc, ll, uu, bools, off = [], '', [], [], [], [], [], 0
        for p_ in sr['ops']:
            for r in p_['rows']:
                rows.append([[j + off for j in r[0]], r[1]])
            ct += p_['cType']; bb += p_['b']; cc += p_['c']; ll += p_['l']; uu += p_['u']
            seen_ = set()
            for m in p_['mapping']:
                if m['index'] not in seen_:
                    seen_.add(m['index'])
                    if m['bool']:
                        bools.append(m['index'] + off)
            off += len(p_['c'])
        big = {'c': cc, 'l': ll, 'u': uu, 'rows': rows, 'b': bb, 'cType': ct}
        eps = 2e-6 * (1 + abs(sr['value']) + max([abs(v) for v in bb] + [0]))
        sexprs.append('(c03_case %s %s %s %s %s %s)' % (C.lp(big), C.qvec(sr['x']), C.qvec([0.0] * len(bb)), C.q(sr['value']), C.q(eps), C.lst([C.nat(j) for j in bools])))
        sowners.append(sp)
    for sp, v in zip(sowners, C.run_coq_exprs('C03s', 'Num LP Cert Mapping Dcf Corr', sexprs, chunk=6)):
        ctx.cov['instances_validated'] += 1
        for k, nm in ((0, 'returned x within bounds and rows (eps)'), (1, 'reported value = -c.x'), (3, 'boolean flags are 0/1')):
            if not v[k]:
                ctx.violation('validator-rejected', {'spec': sp, 'mode': 'split', 'expected': nm, 'theorem_or_correspondence': 'Cert.' + ['check_primal_eps', 'value', 'check_opt', 'bools'][k]},
                              trigger={'what': 'split: ' + nm})
    exprs, owners = [], []
    ref_val = {}
    fexprs, fowners = [], []
    texprs, towners = [], []
    res_of = {}
    BIG = 2.0 ** 40

    def finite(prob):
        """the problem with open-ended bounds replaced by a far-away finite stand-in (feasibility of a returned point is unaffected;
        optimality is not certified for such problems)"""
        import math
        if not any(math.isinf(v) for v in prob['l'] + prob['u']):
            return prob, False
        return dict(prob, l=[-BIG if math.isinf(v) else v for v in prob['l']], u=[BIG if math.isinf(v) else v for v in prob['u']]), True

    for sp, o in zip(specs, res):
        ctx.count('status:' + str(o.get('status')))
        if o.get('status') != 'ok':
            continue
        prob, openended = finite(o['problem'])
        if openended:
            ctx.count('problem with open-ended bounds')
        tr = o.get('translation')
        if tr is not None:
            if tr['problems']:
                ctx.broken('correspondence-broken', {'spec': sp, 'theorem_or_correspondence': 'constraints handed to cvxpy not understood: %s' % tr['problems']})
            else:
                # bounds are handed over as they are; rows by class
                if tr.get('bound_u') != o['problem']['u'] or tr.get('bound_l') != o['problem']['l']:
                    ctx.violation('impl-violation', {'spec': sp, 'observed': {'bounds handed to the solver': [tr.get('bound_l'), tr.get('bound_u')]}, 'expected': [o['problem']['l'], o['problem']['u']]},
                                  trigger={'what': 'bounds handed to the solver differ'})
                gk = {'LE': 'GLe', 'GE': 'GGe', 'EQ': 'GEq'}
                obs = C.lst(['(Build_cgroup %s %s)' % (gk[g['kind']], C.lst(['(%s, %s)' % (C.srow(r[0], r[1]), C.q(float(b))) for r, b in zip(g['rows'], g['b'])])) for g in tr['groups']])
                texprs.append('(c03_translate_case %s %s %s %s)' % (C.lp(prob), C.mapping(prob['mapping']), obs, C.lst([C.nat(j) for j in tr['bools']])))
                towners.append(sp)
        ismip = len(o['bools']) > 0
        ctx.count('mip' if ismip else 'lp')
        runs = [(r, prob, openended) for r in o['runs']]
        if o.get('runs2'):
            p2, open2 = finite(o['problem2'])
            runs += [(r, p2, open2) for r in o['runs2']]
            ctx.count('problem object changed and solved again')
        for r, prob, openended in runs:
            ctx.count('solve:%s' % r['solve'])
            if r['solve'] == 'optimal':
                scale = 1 + abs(r['value']) + max([abs(v) for v in prob['b']] + [0])
                eps = 2e-6 * scale
                other = bool(r['kw'].get('solver') or r['kw'].get('interface'))
                if other and ref_val.get(id(prob)) is not None and r['value'] < ref_val[id(prob)] - 2e-6 * scale:
                    # (the default solver's point is the witness: feasible - checked below - and better)
                    ctx.violation('impl-violation', {'spec': sp, 'run': r['kw'], 'observed': {'value': r['value'], 'value of the default solver on the same problem': ref_val[id(prob)]},
                                                     'expected': 'no feasible point has a better value'}, trigger={'what': 'worse than the default solver'})
                if not other and not r['kw']:
                    ref_val[id(prob)] = r['value']
                if r.get('duals') and (not ismip or r['kw'].get('make_soft_problem')) and not openended and not r['kw'].get('robust') and not other:
                    y = duals_to_y(prob, r['duals'])
                    have_y = True
                else:
                    y, have_y = [0.0] * len(prob['b']), False
                soft = bool(r['kw'].get('make_soft_problem'))
                exprs.append('(c03_case %s %s %s %s %s %s)' % (C.lp(prob), C.qvec(r['x']), C.qvec(y), C.q(r['value']),
                                                               C.q(eps), C.lst([] if soft else [C.nat(j) for j in o['bools']])))
                owners.append((sp, r, have_y))
                res_of[id(r)] = prob
                ctx.sample({'spec': sp if 'lp' in sp else {'id': sp['id'], 'assets': sp['assets'], 'grid': sp['grid']}, 'run': r['kw']})
            elif r['solve'] in ('not successful', 'infeasible'):
                if r.get('farkas') is not None:
                    fexprs.append('(c03_infeasible %s %s)' % (C.lp(prob), C.qvec(r['farkas'])))
                    fowners.append((sp, r))
                elif not ismip:
                    # the LP relaxation has a feasible point according to HiGHS: search found a feasible problem reported as failed
                    ctx.violation('impl-violation', {'spec': sp, 'run': r['kw'], 'observed': 'optimize() reported failure',
                                                     'expected': 'problem has a feasible point (phase-1 LP optimum 0)'},
                                  trigger={'what': 'failure-on-feasible'})
                else:
                    ctx.count('mip failure without LP certificate (not decided)')
            elif r['solve'] == 'crash' and (r['kw'].get('solver') or r['kw'].get('interface')) and r.get('where') == 'third-party':
                # an exception from inside cvxpy / the chosen solver's interface (solver not MIP-capable, open-ended bounds not accepted,
                # interface errors): neither success nor failure is reported, the property makes no claim
                ctx.count('chosen solver raised inside cvxpy / its interface (no claim): %s' % str(r['kw']))
            elif r['solve'] == 'crash':
                ctx.violation('impl-violation', {'spec': sp, 'run': r['kw'], 'observed': r.get('error'),
                                                 'expected': 'optimize() returns Results or a status'},
                              trigger={'what': 'crash', 'error': str(r.get('error'))[:40]})
    vals = C.run_coq_exprs('C03', 'Num LP Cert Mapping Dcf Corr', exprs, chunk=8)
    names = ['returned x within bounds and rows (eps)', 'reported value = -c.x', 'no feasible point is better (dual certificate)', 'boolean flags are 0/1']
    for (sp, r, have_y), v in zip(owners, vals):
        ctx.cov['instances_validated'] += 1
        for k, (nm, ok) in enumerate(zip(names, v)):
            if k == 2 and not have_y:
                continue   # MIP / no duals: optimality not certified here (see level_note)
            if not ok:
                trig = {'what': nm}
                if k == 0:
                    # which rows does the returned point violate?  (python floats; only used to recognise the listed finding)
                    prob = res_of[id(r)]
                    viol = []
                    for (cols, vals), t, bb in zip(prob['rows'], prob['cType'], prob['b']):
                        ax = sum(v * r['x'][j] for j, v in zip(cols, vals))
                        tol = 1e-5 * (1 + abs(bb))
                        if (t == 'U' and ax > bb + tol) or (t == 'L' and ax < bb - tol) or (t in 'SN' and abs(ax - bb) > tol):
                            viol.append(len(cols))
                    inbox = all(l - 1e-6 <= xv <= u + 1e-6 for l, u, xv in zip(prob['l'], prob['u'], r['x']))
                    if viol and all(n == 0 for n in viol) and inbox and r['kw'].get('solver') in (None, 'SCIP') and any(m['bool'] for m in prob['mapping']):
                        trig = {'what': 'MIP with a row without entries that cannot hold: accepted by the SCIP interface'}
                ctx.violation('validator-rejected', {'spec': sp, 'run': r['kw'], 'observed': {'x': r['x'], 'value': r['value']},
                                                     'expected': nm, 'theorem_or_correspondence': 'Cert.' + ['check_primal_eps', 'value', 'check_opt', 'bools'][k]},
                              trigger=trig)
    if fexprs:
        fv = C.run_coq_exprs('C03f', 'Num LP Cert Mapping Dcf Corr', fexprs, chunk=10)
        for (sp, r), ok in zip(fowners, fv):
            ctx.cov['instances_validated'] += 1
            ctx.count('failure certified infeasible' if ok else 'failure: farkas certificate rejected')
            if not ok:
                ctx.broken('validator-rejected', {'spec': sp, 'theorem_or_correspondence': 'check_farkas on reported failure'})
    if texprs:
        tv = C.run_coq_exprs('C03t', 'Num LP Cert Mapping Dcf Corr Translate', texprs, chunk=10)
        for sp, v in zip(towners, tv):
            ctx.cov['correspondence']['components_compared'] += 2
            for nm, ok in zip(['row groups handed to the solver = Translate.translate', 'boolean variables = Translate.bool_vars'], v):
                if not ok:
                    ctx.cov['correspondence']['disagreements'] += 1
                    ctx.broken('correspondence-broken', {'spec': sp, 'theorem_or_correspondence': 'optimize() vs Translate.v: ' + nm})
    ctx.cov['correspondence']['cases'] = len(exprs) + len(fexprs) + len(texprs)
