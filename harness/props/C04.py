"""C04 value accounting."""
import common as C
import gen
from props import util

THEOREMS = ['C04_value_accounting', 'C04_asset_total', 'C04_wf_check_sound']
CFG = {'p_full_exec': 0.3, 'p_no_simult': 0.2, 'p_coarse': 0.25, 'p_periodic': 0.25, 'T': (3, 8), 'n_assets': (1, 4), 'nodes': (1, 3), 'p_wacc': 0.5,
       'kinds': {'SimpleContract': 2, 'Contract': 2, 'Transport': 2, 'Storage': 2, 'MultiCommodityContract': 1, 'OrderBook': 3, 'ExtendedTransport': 1, 'ScaledAsset': 3, 'StructuredAsset': 2}}


def dcf_table(o, dcf):
    return [(a['name'], [0.0 if v is None else v for v in dcf[a['name']]]) for a in o['assets'] if a['name'] in dcf]


def case_expr(o, c, mp, xr, dcf):
    tab = C.lst(['(%s, %s)' % (C.s(a), C.qvec(v)) for a, v in dcf_table(o, dcf)])
    return '(c04_case %s %s %s %s %s %s)' % (C.nat(o['T']), C.qvec(c), C.lst([C.s(a['name']) for a in o['assets']]),
                                             C.mapping(mp), C.qvec(xr), tab)


def accounting_oracle(ctx, sp, o, mode, c, mp, x, value, out):
    """on the implementation: value = -c.x = sum of the DCF table; per asset total = -sum c_i x_i over its variables"""
    ctx.cov['impl_oracle_evaluations'] += 1
    tol = 1e-6 * (1 + abs(value) + sum(abs(ci * xi) for ci, xi in zip(c, x)))
    cx = -sum(ci * xi for ci, xi in zip(c, x))
    tot = sum((v or 0.0) for col in out['DCF'].values() for v in col)
    bad = {}
    if abs(cx - value) > tol:
        bad['value_vs_minus_cx'] = [value, cx]
    if abs(tot - value) > tol:
        bad['dcf_sum_vs_value'] = [tot, value]
    if out.get('summary_value') is not None and abs(out['summary_value'] - value) > tol:
        bad['summary_vs_value'] = [out['summary_value'], value]
    owner = {}
    for r in mp:
        owner.setdefault(r['index'], r['asset'])
    for a in o['assets']:
        if a['name'] not in out['DCF']:
            continue
        mine = -sum(c[i] * x[i] for i, an in owner.items() if an == a['name'])
        got = sum((v or 0.0) for v in out['DCF'][a['name']])
        if abs(mine - got) > tol:
            bad['asset_total:' + a['name']] = [got, mine]
    if bad:
        ctx.violation('impl-violation', {'spec': sp, 'mode': mode, 'observed': bad,
                                         'expected': 'value = -c.x = sum of DCF table; asset totals = -c_a.x_a'},
                      trigger={'mode': mode})


def run(ctx):
    if not ctx.proof_gate(THEOREMS):
        return
    n = 60 if ctx.tier == 'quick' else 400
    specs = util.corpus(ctx.prop) + gen.gen_many(ctx.seed, n, CFG, 'c04_')
    util.add_split(specs)
    specs += util.orderbook_tail_specs(ctx.seed, 10 if ctx.tier == 'quick' else 60, 'c04ob_')
    # robust target (reported value = value under the original prices), also for portfolios with binary variables
    rob = gen.gen_many(ctx.seed, n // 3, dict(CFG, p_coarse=0.0, p_periodic=0.0, p_full_exec=0.6, p_no_simult=0.4), 'c04r_')
    for sp in rob:
        sp['opts']['robust'] = 2
    specs += rob
    # large cost coefficients (prices in EUR/GWh): value and cash-flow table must still agree after the solve
    specs += util.rescaled(gen.gen_many(ctx.seed, n // 4, dict(CFG, p_coarse=0.0, p_periodic=0.0), 'c04sc_'), 2.0 ** 22, 1.0)
    # two-stage problem over price samples, decoded by the same output function
    slp = gen.gen_many(ctx.seed, n // 4, dict(CFG, p_coarse=0.0, p_periodic=0.0, p_full_exec=0.0, p_no_simult=0.0, T=(4, 8),
                                              kinds={'SimpleContract': 2, 'Contract': 2, 'Transport': 2, 'Storage': 3, 'MultiCommodityContract': 1}), 'c04slp_')
    for i, sp in enumerate(slp):
        sp['opts']['slp'] = 1 + i % 3
    specs += slp
    # rolling re-optimisation: the first steps fixed to the previous solution, new prices behind the window
    rf = gen.gen_many(ctx.seed, n // 3, dict(CFG, p_coarse=0.0, p_periodic=0.0), 'c04rf_')
    for i, sp in enumerate(rf):
        sp['opts']['refix'] = 2 + i % 4
        sp['opts']['refix_mode'] = 'prices'
    specs += rf
    # relaxed ("soft") problems of portfolios with binary variables (order books, storages, plants): fractional former binaries
    soft = gen.gen_many(ctx.seed, n // 3, dict(CFG, p_coarse=0.0, p_periodic=0.0, p_full_exec=1.0, p_no_simult=0.8, T=(4, 8), n_assets=(1, 3),
                                               kinds={'OrderBook': 4, 'Storage': 2, 'SimpleContract': 2, 'Transport': 1}), 'c04soft_')
    soft += gen.gen_many_plants(ctx.seed, n // 4, dict(CFG, freqs=['h'], units=['h'], tzs=[None], T=(4, 8), p_unaligned_end=0.0, p_profile=0.0, p_coarse=0.0, p_periodic=0.0), 'c04softp_')
    for sp in soft:
        sp['opts']['optimize'] = {'make_soft_problem': True}
    specs += soft
    # a wrapped asset may carry the name of an asset of the outer portfolio (names are unique per portfolio only)
    import random
    from props.C09 import asset_names
    same = gen.gen_many(ctx.seed, n // 3, dict(CFG, p_coarse=0.0, p_periodic=0.0, n_assets=(2, 4), kinds={'StructuredAsset': 4, 'SimpleContract': 2, 'Storage': 1, 'Transport': 1}), 'c04nm_')
    for sp in same:
        rng = random.Random(str(sp['seed']) + '/same')
        st = [a for a in sp['assets'] if a['kind'] == 'StructuredAsset']
        outer = [a for a in sp['assets'] if a['kind'] not in ('StructuredAsset', 'ScaledAsset')]
        if st and outer:
            inner = rng.choice(rng.choice(st)['assets'])
            if inner['kind'] != 'ScaledAsset':
                rng.choice(outer)['name'] = inner['name']
    specs += same
    # split problems (the value of a second optimize() on the same object is the same value again)
    spl = gen.gen_many(ctx.seed, n // 4, dict(CFG, p_coarse=0.0, p_periodic=0.0, freqs=['h'], tzs=[None], T=(6, 10), p_unaligned_end=0.0), 'c04sp_')
    for sp in spl:
        sp['opts']['split'] = '3h'
    specs += spl
    # periodic contracts / transports without restrictions of their own (two variables per step, or a periodicity duration), followed by other assets
    per = gen.gen_many(ctx.seed, n // 3, dict(CFG, p_coarse=0.0, p_periodic=1.0, p_spread=0.9, n_assets=(2, 4), freqs=['h'], T=(6, 10),
                                              kinds={'SimpleContract': 4, 'Transport': 2, 'Storage': 1}), 'c04per_')
    specs += per
    specs = ctx.specs(specs)
    res = C.run_impl('portfolio', specs)
    exprs, owners = [], []
    for sp, o in zip(specs, res):
        ctx.count('status:' + str(o.get('status')))
        if o.get('status') != 'ok':
            continue
        s_ = o.get('split')
        if isinstance(s_, dict) and s_.get('solve') == 'optimal' and isinstance(s_.get('again'), dict):
            ag = s_['again']
            ctx.cov['impl_oracle_evaluations'] += 1
            if len(ag['x']) != len(s_['x']) or abs(ag['value'] - s_['value']) > 1e-6 * (1 + abs(s_['value'])):
                ctx.violation('impl-violation', {'spec': sp, 'mode': 'split problem optimised a second time', 'observed': {'value': [s_['value'], ag['value']], 'entries of x': [len(s_['x']), len(ag['x'])]},
                                                 'expected': 'the reported value is minus cost times the returned vector of THIS run'}, trigger={'what': 'second optimize of a split problem'})
        for a in sp['assets']:
            ctx.count('kind:' + a['kind'])
        prob = o['problem']
        if o.get('out_r') is None:
            ctx.violation('impl-violation', {'spec': sp, 'mode': 'monolithic', 'observed': o.get('out_r_error'),
                                             'expected': 'extract_output works for a point of the box'}, trigger={'mode': 'monolithic'})
            continue
        accounting_oracle(ctx, sp, o, 'monolithic-boxpoint', prob['c'], prob['mapping'], o['xr'],
                          -sum(ci * xi for ci, xi in zip(prob['c'], o['xr'])), o['out_r'])
        if o.get('solve') == 'optimal' and o.get('out'):
            accounting_oracle(ctx, sp, o, 'monolithic', prob['c'], prob['mapping'], o['x'], o['value'], o['out'])
        exprs.append(case_expr(o, prob['c'], prob['mapping'], o['xr'], o['out_r']['DCF']))
        owners.append((sp, 'monolithic'))
        ctx.sample({'spec': sp, 'mode': 'monolithic'})
        q = o.get('slp')
        if isinstance(q, dict):
            ctx.count('slp:' + str(q.get('solve')))
            if q.get('solve') == 'crash':
                ctx.violation('impl-violation', {'spec': sp, 'mode': 'slp', 'observed': q.get('error'), 'expected': 'make_slp / optimize / extract_output work'}, trigger={'mode': 'slp-crash'})
            elif q.get('solve') == 'optimal':
                accounting_oracle(ctx, sp, o, 'slp', q['c'], q['mapping'], q['x'], q['value'], q['out'])
        q = o.get('refix')
        if isinstance(q, dict):
            ctx.count('refix:' + str(q.get('solve')))
            if q.get('solve') == 'crash':
                ctx.violation('impl-violation', {'spec': sp, 'mode': 'fixed window', 'observed': q.get('error'), 'expected': 'set-up with a fixed window, optimisation and output work'},
                              trigger={'mode': 'refix-crash'})
            elif q.get('solve') == 'optimal':
                accounting_oracle(ctx, sp, o, 'fixed window, new prices', q['c'], q['mapping'], q['x'], q['value'], q['out'])
        s = o.get('split')
        if isinstance(s, dict) and ('setup_error' in s or s.get('out_r') is None):
            ctx.count('split_error:' + str(s.get('setup_error') or s.get('out_r_error'))[:60])
        elif isinstance(s, dict):
            accounting_oracle(ctx, sp, o, 'split-boxpoint', s['c'], s['mapping'], s['xr'],
                              -sum(ci * xi for ci, xi in zip(s['c'], s['xr'])), s['out_r'])
            if s.get('solve') == 'optimal' and s.get('out'):
                accounting_oracle(ctx, sp, o, 'split', s['c'], s['mapping'], s['x'], s['value'], s['out'])
            exprs.append(case_expr(o, s['c'], s['mapping'], s['xr'], s['out_r']['DCF']))
            owners.append((sp, 'split'))
            ctx.count('mode:split')
    vals = C.run_coq_exprs('C04', 'Num LP Cert Mapping Dcf Corr', exprs, chunk=6)
    names = ['wf_mapb on the implementation problem (hypothesis of C04_value_accounting)', 'DCF table = model dcf_asset']
    for (sp, mode), v in zip(owners, vals):
        ctx.cov['correspondence']['cases'] += 1
        ctx.cov['correspondence']['components_compared'] += 1
        ctx.cov['instances_validated'] += 1
        for nm, ok in zip(names, v):
            if not ok:
                ctx.cov['correspondence']['disagreements'] += 1
                ctx.broken('correspondence-broken' if nm == names[1] else 'validator-rejected',
                           {'spec': sp, 'mode': mode, 'theorem_or_correspondence': nm})
