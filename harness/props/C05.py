"""C05 storage physics."""
import re
import numpy as np
import common as C
import gen
import modelspec as M
from props import util

THEOREMS = ['C05_storage_physics', 'C05_level_within_size_at_every_step', 'C05_builder_refuses_end_level_outside_size', 'C05_level_rows', 'C05_time_blocks', 'C05_time_blocks_start_differs_from_end_refuted', 'C05_holding_duration', 'C05_holding_duration_level_zero', 'C05_holding_duration_with_start_level_refuted', 'C05_no_simultaneous']
CFG = {'p_coarse': 0.2, 'p_periodic': 0.0, 'T': (3, 9), 'n_assets': (1, 3), 'nodes': (1, 3), 'p_window': 0.4, 'p_market': 1.0,
       'p_inflow': 0.5, 'p_no_simult': 0.25, 'p_max_store': 0.2, 'p_storage_price': 0.15, 'p_blocks': 0.15,
       'kinds': {'Storage': 6, 'Transport': 1, 'SimpleContract': 1}}
IMPORTS = 'Num LP Cert Mapping Dcf Grid Assets StorageProofs Periodic Portfolio Corr Build'


def step_lengths(g):
    pts = np.asarray(M.grid_pts(g), dtype=float)
    return (pts[1:] - pts[:-1]) / M.unit_secs(g.get('unit', 'h'))


def physical(a, mp, x, dt, T):
    """charge, discharge, level per main-grid step recomputed from x through the storage's mapping rows"""
    ch, di, act = np.zeros(T), np.zeros(T), np.zeros(T, bool)
    for r in mp:
        if r['asset'] != a['name'] or r['type'] != 'd':
            continue
        f = 1.0 if r['disp_factor'] is None else r['disp_factor']
        v = x[r['index']] * f
        t = r['time_step']
        act[t] = True
        ch[t] += max(0.0, -v)
        di[t] += max(0.0, v)
    lvl = a.get('start_level', 0.0) + np.cumsum(a.get('eff_in', 1.0) * ch - di + a.get('inflow', 0.0) * dt * act)
    return ch, di, lvl, act


def storage_oracle(ctx, sp, o, mode, mp, x, out, dt):
    T = o['T']
    for a in sp['assets']:
        if a['kind'] != 'Storage':
            continue
        ctx.cov['impl_oracle_evaluations'] += 1
        ch, di, lvl, act = physical(a, mp, np.asarray(x), dt, T)
        if not act.any():
            continue
        tol = 1e-5 * (1 + a['size'] + abs(lvl).max())
        bad = {}
        steps = np.where(act)[0]
        last = steps[-1]
        if not a.get('freq'):
            from props.C08 import asset_steps
            own = asset_steps(sp['grid'], a)
            if sorted(int(t) for t in steps) != own:
                bad['storage has variables at other steps than those of its own window'] = [[int(t) for t in steps], own]
        if (lvl[steps] < -tol).any() or (lvl[steps] > a['size'] + tol).any():
            bad['level outside [0,size]'] = [float(v) for v in lvl]
        if abs(lvl[last] - a.get('end_level', 0.0)) > tol:
            bad['level at last active step != end level'] = [float(lvl[last]), a.get('end_level', 0.0)]
        if (ch > a['cap_in'] * dt + tol).any() or (di > a['cap_out'] * dt + tol).any():
            bad['rate limit exceeded'] = [[float(v) for v in ch], [float(v) for v in di]]
        iv = out.get('internal_variables') or {}
        rep = iv.get(a['name'] + '_fill_level')
        if rep is not None:
            rep = np.asarray([np.nan if v is None else v for v in rep])
            if (abs(rep[steps] - lvl[steps]) > tol).any():
                bad['reported fill level != physical level'] = [[float(v) for v in rep], [float(v) for v in lvl]]
        rc, rd = iv.get(a['name'] + '_charge'), iv.get(a['name'] + '_discharge')
        if rc is not None and (abs(np.asarray(rc, float) - ch) > tol).any():
            bad['reported charge'] = [rc, [float(v) for v in ch]]
        if rd is not None and (abs(np.asarray(rd, float) + di) > tol).any():
            bad['reported discharge'] = [rd, [float(v) for v in di]]
        trig = {'mode': mode}
        if a.get('max_store_duration') is not None and (a.get('start_level', 0.0) > 0 or a.get('inflow', 0.0) > 0 or a.get('end_level', 0.0) > 0):
            trig = {'what': 'max_store_duration with start/end level or inflow > 0'}
        if a.get('block_size') and (a.get('inflow', 0.0) != 0 or a.get('start_level', 0.0) != a.get('end_level', 0.0)):
            trig = {'what': 'block_size with inflow or start level != end level'}
        if a.get('no_simult_in_out') and mode != 'boxpoint' and ((ch > tol) & (di > tol)).any():
            bad['simultaneous charge and discharge'] = [[float(v) for v in ch], [float(v) for v in di]]
        if a.get('max_store_duration') is not None and mode != 'boxpoint' and not a.get('freq'):
            # (a storage on a coarser frequency of its own has a level per coarse step only; spreading its dispatch evenly over the fine steps
            # is a reporting convention, the holding duration is not judged on the fine steps)
            # longest run (in main time units) with non-zero level
            run, worst = 0.0, 0.0
            for t in steps:
                run = run + dt[t] if lvl[t] > tol else 0.0
                worst = max(worst, run)
            if worst > a['max_store_duration'] + 1e-9:
                key = 'level non-zero longer than max_store_duration'
                bad[key] = [worst, a['max_store_duration']]
        if mode == 'boxpoint':
            # a box point need not satisfy the rows: only the reporting identities are checked
            bad = {k: v for k, v in bad.items() if k.startswith('reported')}
        if bad:
            ctx.violation('impl-violation', {'spec': sp, 'mode': mode, 'asset': a['name'], 'observed': bad,
                                             'expected': 'physical level in [0,size], end level, rates, truthful report'}, trigger=trig)


def run(ctx):
    if not ctx.proof_gate(THEOREMS):
        return
    n = 60 if ctx.tier == 'quick' else 400
    specs = util.corpus(ctx.prop) + gen.gen_many(ctx.seed, n, CFG, 'c05_')
    # steps of unequal length (daily steps across a clock change: 23 h / 25 h days) with a maximum holding duration
    specs += gen.gen_many(ctx.seed, n // 4, dict(CFG, freqs=['d'], tzs=['CET'], p_dst=1.0, T=(4, 8), p_max_store=0.8, p_coarse=0.0, p_blocks=0.0,
                                                 p_unaligned_end=0.0, kinds={'Storage': 1}, n_assets=(1, 2)), 'c05dst_')
    # a storage on a weekly frequency of its own on a daily grid across a clock change: minor steps of unequal length inside one coarse step
    wk = [{'start': s0, 'end': e0, 'freq': 'd', 'unit': u, 'tz': 'CET'} for s0, e0 in (('2021-03-22 00:00', '2021-04-05 00:00'), ('2021-10-25 00:00', '2021-11-08 00:00')) for u in ('h', 'd')]
    specs += gen.gen_many(ctx.seed, 4 if ctx.tier == 'quick' else 24, dict(CFG, grids=wk, p_coarse=1.0, coarse_freqs=['7d'], p_window=0.0, p_max_store=0.0, p_no_simult=0.0, p_blocks=0.0,
                                                                           kinds={'Storage': 1}, n_assets=(1, 2)), 'c05wk_')
    # the portfolio was set up (and solved) before with the same grid object: storages with windows next to assets with other windows
    warm = gen.gen_many(ctx.seed, n // 3, dict(CFG, p_window=0.9, n_assets=(2, 4), p_coarse=0.3, p_blocks=0.0, kinds={'Storage': 3, 'Transport': 1, 'SimpleContract': 2}), 'c05warm_')
    for k_, sp in enumerate(warm):
        sp['opts']['warmup'] = 'solve' if k_ % 2 else 'setup'
    specs += warm
    # storages on a coarser frequency with their own window: first coarse step only partly inside the horizon, or running since before it
    specs += gen.gen_many(ctx.seed, n // 3, dict(CFG, p_coarse=1.0, coarse_windows=True, coarse_any=False, p_coarse_early=0.3, freqs=['h', '30min'], T=(4, 9), p_blocks=0.0, p_max_store=0.0,
                                                 kinds={'Storage': 1}, n_assets=(1, 2)), 'c05cw_')
    # time blocks with a start level > 0 (= end level) and a size that binds inside the blocks
    import random as _rnd
    blk = gen.gen_many(ctx.seed, n // 3, dict(CFG, p_blocks=1.0, p_inflow=0.0, p_coarse=0.0, p_max_store=0.0, freqs=['h', '30min'], T=(6, 12), kinds={'Storage': 1}, n_assets=(1, 2)), 'c05blk_')
    for sp in blk:
        rng = _rnd.Random(str(sp['seed']) + '/blk')
        for a in sp['assets']:
            if a['kind'] == 'Storage' and a.get('block_size'):
                a.pop('inflow', None)
                a['start_level'] = a['end_level'] = gen.k8(rng, 1, 3)
                a['size'] = a['start_level'] + gen.k8(rng, 0.5, 2)
    specs += blk
    # parameters written as whole numbers (int) with an end level in between; a holding duration of zero (nothing may be kept)
    whole = gen.gen_many(ctx.seed, n // 3, dict(CFG, p_blocks=0.0, p_inflow=0.0, p_coarse=0.0, p_max_store=0.0, kinds={'Storage': 1}, n_assets=(1, 2)), 'c05int_')
    for k_, sp in enumerate(whole):
        rng = _rnd.Random(str(sp['seed']) + '/int')
        for a in sp['assets']:
            if a['kind'] == 'Storage':
                a.pop('inflow', None)
                if k_ % 3 < 2:
                    a['size'] = int(rng.randint(4, 12))
                    a['start_level'] = int(rng.randint(0, 3))
                    a['end_level'] = a['start_level'] + rng.choice([0.5, -0.5, 1.5]) if a['start_level'] >= 1 else 0.5
                    # an end level at the size, and one outside [0, size]: the constructor refuses it (repo fix efdd1c0; before it the last
                    # level row forced the level above the size) - the model's builder refuses exactly the same storages
                    r_ = rng.random()
                    if r_ < 0.15:
                        a['end_level'] = a['size']
                    elif r_ < 0.3:
                        a['end_level'] = a['size'] + rng.choice([0.5, 1, 0.125])
                    elif r_ < 0.4:
                        a['end_level'] = -rng.choice([0.5, 1, 0.125])
                    elif r_ < 0.45:
                        a['start_level'] = a['size'] + 1       # refused as well (start level above the size)
                        a['end_level'] = a['size']
                else:
                    a['start_level'] = a['end_level'] = 0.0
                    a['max_store_duration'] = 0
    specs += whole
    specs = ctx.specs(specs)
    res = C.run_impl('portfolio', specs)
    parts = C.run_impl('assets', specs)
    exprs, owners = [], []
    lexprs, lowners = [], []
    bexprs, bowners = [], []
    for sp, o, pa in zip(specs, res, parts):
        ctx.count('status:' + str(o.get('status')))
        dt = step_lengths(sp['grid'])
        if o.get('status') == 'ok':
            ctx.count('solve:' + str(o.get('solve')))
            prob = o['problem']
            if o.get('out_r'):
                storage_oracle(ctx, sp, o, 'boxpoint', prob['mapping'], o['xr'], o['out_r'], dt)
            if o.get('solve') == 'optimal' and o.get('out'):
                storage_oracle(ctx, sp, o, 'optimal', prob['mapping'], o['x'], o['out'], dt)
        # correspondence of the stand-alone storage problems and of the reported level
        G = M.grid_term(sp['grid'])
        for a, r in zip(sp['assets'], pa['assets']):
            if a['kind'] != 'Storage':
                continue
            for k in ('eff_in', 'inflow', 'no_simult_in_out', 'max_store_duration', 'freq', 'start', 'end', 'block_size'):
                if a.get(k):
                    ctx.count('storage:' + k)
            if a.get('block_size'):
                # level rows of the blocks against StorageBlocks.st_block_rows (block sizes of fixed duration, no MIP option); the other
                # parts of the problem do not depend on the blocks
                m_ = re.fullmatch(r'(\d+)(h|min)', a['block_size'])
                if m_ and r['status'] == 'ok' and not a.get('no_simult_in_out') and a.get('max_store_duration') is None and not a.get('freq'):
                    tz = sp['grid'].get('tz')
                    term = M.asset_term(a, sp, G)
                    rg = M.rgrid_term(sp['grid'], a, G)
                    spt = term[term.index('(Build_storage_p'):term.rindex(')') - len(M.periodic_term(sp['grid'], a)) - 1]
                    s_ = M.inst(a['start'], tz) if a.get('start') else M.inst(sp['grid']['start'], tz)
                    e_ = M.inst(a['end'], tz) if a.get('end') else M.inst(sp['grid']['end'], tz)
                    B_ = int(m_.group(1)) * (3600 if m_.group(2) == 'h' else 60)
                    bexprs.append('(c05_block_case %s %s %s %s %s %s)' % (rg, spt, C.z(s_), C.z(e_), C.z(B_), C.lp(r['problem'])))
                    bowners.append((sp, a))
                    ctx.count('storage:block_size (level rows compared with StorageBlocks.st_block_rows)')
                else:
                    ctx.count('storage:block_size (rows not modelled; implementation oracle only)')
                continue
            ok = r['status'] == 'ok'
            P = C.lp(r['problem']) if ok else '(Build_lp [] [] [] [])'
            mp = C.mapping(r['problem']['mapping']) if ok else '[]'
            exprs.append('(asset_case %s %s %s %s)' % (M.asset_term(a, sp, G), C.b(ok), P, mp))
            owners.append((sp, a))
            ctx.sample({'grid': sp['grid'], 'storage': a})
            if ok and r.get('fill_level') is not None and not a.get('freq'):
                term = M.asset_term(a, sp, G)
                # storage parameters term = third argument of build_storage
                rg = M.rgrid_term(sp['grid'], a, G)
                spt = term[term.index('(Build_storage_p'):term.rindex(')') - len(M.periodic_term(sp['grid'], a)) - 1]
                lexprs.append('(c05_level_case %s %s %s %s)' % (rg, spt, C.qvec(r['xr']), C.qvec(r['fill_level'])))
                lowners.append((sp, a))
    vals = C.run_coq_exprs('C05', IMPORTS, exprs, chunk=8)
    names = ['accepted/rejected alike', 'c', 'l', 'u', 'rows', 'mapping']
    for (sp, a), v in zip(owners, vals):
        ctx.cov['correspondence']['cases'] += 1
        ctx.cov['correspondence']['components_compared'] += 5
        for nm, ok in zip(names, v):
            if not ok:
                ctx.cov['correspondence']['disagreements'] += 1
                ctx.broken('correspondence-broken', {'spec': sp, 'asset': a, 'theorem_or_correspondence': 'Storage.setup_optim_problem vs Assets.storage: ' + nm})
    if bexprs:
        bv = C.run_coq_exprs('C05b', IMPORTS + ' StorageBlocks', bexprs, chunk=8)
        for (sp, a), v in zip(bowners, bv):
            ctx.cov['correspondence']['cases'] += 1
            ctx.cov['correspondence']['components_compared'] += 2
            for nm, ok in zip(['level rows of the time blocks', 'block boundaries form blocks'], v):
                if not ok:
                    ctx.cov['correspondence']['disagreements'] += 1
                    ctx.broken('correspondence-broken', {'spec': sp, 'asset': a, 'theorem_or_correspondence': 'Storage.setup_optim_problem vs StorageBlocks.st_block_rows: ' + nm})
    if lexprs:
        lv = C.run_coq_exprs('C05l', IMPORTS, lexprs, chunk=10)
        for (sp, a), ok in zip(lowners, lv):
            ctx.cov['correspondence']['cases'] += 1
            ctx.cov['correspondence']['components_compared'] += 1
            if not ok:
                ctx.cov['correspondence']['disagreements'] += 1
                ctx.broken('correspondence-broken', {'spec': sp, 'asset': a, 'theorem_or_correspondence': 'Storage.fill_level vs StorageProofs.level at a box point'})
