"""C06: plant / CHP unit commitment: run time, down time, ramps, starts, heat and fuel."""
import math
import numpy as np
import common as C
import gen
import modelspec as M
from props import util
from props.C08 import asset_steps

THEOREMS = ['C06_min_runtime_exact', 'C06_min_downtime_exact', 'C06_capacity_when_on_off', 'C06_ramp_between_steps', 'C06_first_step_ramp',
            'C06_start_flags', 'C06_heat_share', 'C06_fuel_balance', 'C06_plant_downtime_rows_exact', 'C06_plant_runtime_rows_sound',
            'C06_cap_row_shape', 'C06_capacity_outside_profiles', 'C06_start_profile_bounds', 'C06_shutdown_profile_bounds',
            'C06_start_shutdown_flags_exact', 'C06_ramp_down_applies', 'C06_ramp_down_released', 'C06_ramp_up_applies', 'C06_ramp_up_released',
            'C06_profile_conversion_within', 'C06_profile_conversion_length',
            'C06_profile_conversion_exact_at_knots', 'C06_profile_conversion_exact_means']
CFG = {'freqs': ['h', 'h', '2h'], 'units': ['h'], 'tzs': [None], 'T': (4, 8), 'p_unaligned_end': 0.0, 'p_inflow': 0.0}


def steps_of(hours, g):
    """a duration in main time units as a number of grid steps (rounded up, as documented)"""
    step = gen.freq_td(g['freq']) / gen.freq_td(g.get('unit', 'h'))
    return int(math.ceil(hours / step - 1e-12))


def runlength_ok(on, R, D, tar, toff):
    """the specification: on/off pattern over the unit's steps respects minimum run time R, minimum down time D (in steps)
    and the declared initial state (running for tar steps / off for toff steps)"""
    T = len(on)
    prev = 1 if tar > 0 else 0
    # initial obligations
    if tar > 0 and R > tar:
        if any(on[t] == 0 for t in range(min(T, R - tar))):
            return False
    if toff > 0 and D > toff:
        if any(on[t] == 1 for t in range(min(T, D - toff))):
            return False
    for s in range(T):
        before = on[s - 1] if s > 0 else prev
        if before == 0 and on[s] == 1 and R > 1:          # switched on at s
            if any(on[t] == 0 for t in range(s, min(T, s + R))):
                return False
        if before == 1 and on[s] == 0 and D > 1:          # switched off at s
            if any(on[t] == 1 for t in range(s, min(T, s + D))):
                return False
    return True


def resample(w, ct):
    """profile w (one value per profile step) on grid steps that are ct profile steps long (documented behaviour of ramp_freq)"""
    import math
    if not w:
        return []
    n = len(w)
    if ct < 1:
        m = int(math.ceil(n / ct - 1e-12))
        return [float(np.interp((j + 1) * ct, [i + 1 for i in range(n)], w)) for j in range(m)]
    m = int(math.ceil(n / ct - 1e-12))
    val = lambda u: w[min(int(math.floor(u + 1e-12)), n - 1)]          # piecewise constant, last value kept
    out = []
    for i in range(m):
        a_, b_ = i * ct, (i + 1) * ct
        cuts = sorted(set([a_, b_] + [float(k) for k in range(int(math.ceil(a_)), int(math.floor(b_)) + 1)]))
        out.append(sum((q - p) * val((p + q) / 2) for p, q in zip(cuts[:-1], cuts[1:])) / (b_ - a_))
    return out


def unit_oracle(ctx, sp, o):
    g = sp['grid']
    a = [x for x in sp['assets'] if x['kind'] in ('Plant', 'CHPAsset')][0]
    P, x = o['problem'], o['x']
    pts = M.grid_pts(g)
    us = M.unit_secs(g.get('unit', 'h'))
    steps = asset_steps(g, a)
    if not steps:
        return
    dt = {t: (pts[t + 1] - pts[t]) / us for t in steps}
    chp = a['kind'] == 'CHPAsset' and not a.get('_no_heat')
    power = a['nodes'][0]
    heat = a['nodes'][1] if chp else None
    fuel = a['nodes'][-1] if len(a['nodes']) > (2 if chp else 1) else None
    var = {}
    for r in P['mapping']:
        if r['asset'] != a['name']:
            continue
        key = (r['var_name'], r['node'] if r['var_name'] == 'disp' else None)
        if r['var_name'] == 'disp' and r['node'] == fuel and fuel is not None:
            continue
        var.setdefault(key, {})[r['time_step']] = r['index']
    import ref
    tp = pts[:-1]
    cfv = ref.pvec(a.get('conversion_factor_power_heat', 1.0), sp, tp, default=1.0) if chp else np.zeros(len(tp))
    p = {t: x[var[('disp', power)][t]] for t in steps}
    h = {t: (x[var[('disp', heat)][t]] if chp else 0.0) for t in steps}
    v = {t: p[t] + cfv[t] * h[t] for t in steps}
    has_on = ('bool_on', None) in var
    has_start = ('bool_start', None) in var
    for nm in ('bool_on', 'bool_start', 'bool_shutdown'):
        if (nm, None) in var and set(var[(nm, None)]) != set(steps):
            ctx.violation('impl-violation', {'spec': sp, 'unit': a, 'observed': {'steps named for ' + nm: sorted(var[(nm, None)]), 'steps of the unit': steps},
                                             'expected': 'one binary per step of the unit, mapped to that step (running and start fuel are booked through this mapping)'},
                          trigger={'what': 'binary variables mapped to other steps'})
            return
    maxc = ref.pvec(a['max_cap'], sp, tp)
    tol = 1e-6 * (1 + float(np.nanmax(maxc)) * max(dt.values()))
    on = {t: (x[var[('bool_on', None)][t]] if has_on else (1.0 if v[t] > tol else 0.0)) for t in steps}
    st = {t: (x[var[('bool_start', None)][t]] if has_start else None) for t in steps}
    bad = {}
    onb = [int(round(on[t])) for t in steps]
    # ---- start / shutdown ramp profiles (given in the frequency of the grid): bounds in MW x nominal step length
    srl = list(a.get('start_ramp_lower_bounds') or [])
    srh = list(a.get('start_ramp_upper_bounds') or srl)
    sdl = list(a.get('shutdown_ramp_lower_bounds') or [])
    sdh = list(a.get('shutdown_ramp_upper_bounds') or sdl)
    rf = a.get('ramp_freq') or g.get('unit', 'h')
    if rf != g['freq']:
        # profile given in another frequency: re-sampled to grid steps, independently of eaopack - the profile as a function of time
        # (value j holds at (j, j+1] profile steps, i.e. is reached at the END of profile step j) is interpolated linearly where the
        # grid is finer and averaged over each grid step where the profile is finer
        srl, srh, sdl, sdh = [resample(w, gen.freq_td(g['freq']) / gen.freq_td(rf)) for w in (srl, srh, sdl, sdh)]
    S, Dn = len(srl), len(sdl)
    conv = gen.freq_td(g['freq']) / gen.freq_td(g.get('unit', 'h'))
    tar0 = steps_of(a.get('time_already_running', 0), g)
    prev0 = 1 if tar0 > 0 else 0
    window = {}          # position in steps -> (lower, upper, what): the profile taking precedence there
    rel_up, rel_lo = set(), set()     # positions whose upward / downward ramp limit is released by a profile
    if S or Dn:
        for k in range(len(steps)):
            before = onb[k - 1] if k > 0 else prev0
            if before == 0 and onb[k] == 1:
                for j in range(S):
                    if k + j < len(steps):
                        window[k + j] = (srl[j] * conv, srh[j] * conv, 'start profile step %d' % j)
                        rel_up.add(k + j)
            if before == 1 and onb[k] == 0:
                for j in range(Dn):
                    if k - 1 - j >= 0:
                        window[k - 1 - j] = (sdl[j] * conv, sdh[j] * conv, 'shutdown profile step %d' % j)
                for j in range(Dn + 1):
                    rel_lo.add(k - j)
        if 0 < tar0 < S:
            for i in range(S - tar0):
                if i < len(steps):
                    window[i] = (srl[tar0 + i] * conv, srh[tar0 + i] * conv, 'start profile step %d (started before the horizon)' % (tar0 + i))
                    rel_up.add(i)
    # ---- capacity when on / off
    for k, t in enumerate(steps):
        if abs(on[t] - round(on[t])) > 1e-6:
            bad['on flag not 0/1'] = [t, on[t]]
        lo, hi = a['min_cap'] * dt[t], maxc[t] * dt[t]
        if round(on[t]) == 0 and abs(v[t]) > tol and has_on:
            bad['output while off'] = [t, v[t]]
        if k in window and round(on[t]) == 1:
            wl, wh, what = window[k]
            if v[t] < wl - tol or v[t] > wh + tol:
                bad['output outside the declared ' + what.split(' step')[0]] = [t, v[t], wl, wh, what]
        elif round(on[t]) == 1 and (v[t] < lo - tol or v[t] > hi + tol):
            bad['output outside [min_cap, max_cap] while on'] = [t, v[t], lo, hi]
        if p[t] < -tol or h[t] < -tol:
            bad['negative output'] = [t, p[t], h[t]]
    # ---- ramp
    if a.get('ramp') is not None:
        rp = a['ramp'] * dt[steps[0]]
        tar = a.get('time_already_running', 0)
        last = a.get('last_dispatch', 0.0) * dt[steps[0]]
        seq = [last] + [v[t] for t in steps]
        for k in range(1, len(seq)):
            if k == 1 and steps[0] != 0:
                continue            # the unit's window starts inside the horizon: 'last dispatch' refers to the horizon start
            up, down = seq[k] - seq[k - 1], seq[k - 1] - seq[k]
            if (k - 1) in rel_up:
                up = 0.0
            if (k - 1) in rel_lo:
                down = 0.0
            if max(up, down) > rp + tol:
                bad['change of output above the ramp' + (' (first step vs last dispatch)' if k == 1 else '')] = [steps[k - 1], seq[k - 1], seq[k], rp]
                break
    # ---- starts
    tar = a.get('time_already_running', 0)
    toff = a.get('time_already_off', 0)
    prev = 1 if tar > 0 else 0
    if has_start:
        for k, t in enumerate(steps):
            before = onb[k - 1] if k > 0 else prev
            trans = 1 if (before == 0 and onb[k] == 1) else 0
            if st[t] < trans - 1e-6:
                bad['start not flagged at an off-to-on transition'] = [t, st[t]]
            # a spurious start flag is excluded by optimality only where it really costs something
            fuel_price = min([sp['prices'][b['price']][t] for b in sp['assets'] if b['kind'] == 'SimpleContract' and fuel in b['nodes'] and b.get('price')] or [0.0]) if fuel else 0.0
            charged = (a.get('start_costs') or 0) > 0 or (fuel is not None and (a.get('start_fuel') or 0) > 0 and fuel_price > 0)
            if charged and st[t] > trans + 1e-6:
                bad['start flagged (and charged) without transition'] = [t, st[t]]
    # ---- run times
    R = steps_of(a.get('min_runtime', 0), g) + S + Dn        # start and shutdown ramp time do not count towards the minimum run time
    D = steps_of(a.get('min_downtime', 0), g)
    tarS, toffS = steps_of(tar, g), steps_of(toff, g)
    if has_on and steps[0] == 0 and not runlength_ok(onb, R, D, tarS, toffS):
        bad['on/off pattern violates minimum run time / down time / initial state'] = {'pattern': onb, 'min_runtime': R, 'min_downtime': D, 'already_running': tarS, 'already_off': toffS}
    # ---- heat share
    if chp:
        for t in steps:
            ms = a.get('max_share_heat')
            if ms is not None and h[t] > ms * p[t] + tol:
                bad['heat above its allowed share of power'] = [t, h[t], p[t], ms]
    # ---- fuel
    if fuel is not None and o.get('out'):
        col = util.colname(o, a['name'], fuel)
        rep = o['out']['dispatch'].get(col)
        if rep is not None:
            eff = a.get('fuel_efficiency', 1.0)
            for t in steps:
                want = -(p[t] + cfv[t] * h[t]) / eff
                if has_on:
                    want -= (a.get('consumption_if_on') or 0.0) * dt[t] * on[t]
                if has_start:
                    want -= (a.get('start_fuel') or 0.0) * st[t]
                if abs((rep[t] or 0.0) - want) > 1e-6 * (1 + abs(want)):
                    bad['fuel drawn differs from output / efficiency + running + start consumption'] = [t, rep[t], want]
                    break
    # ---- cash flows: price on the virtual output, running costs while on, start costs at starts
    if o.get('out') and a['name'] in o['out']['DCF'] and not a.get('wacc'):
        pr = np.asarray(sp['prices'][a['price']], float) if a.get('price') else np.zeros(len(tp))
        want = -sum(pr[t] * (p[t] + cfv[t] * h[t]) + (a.get('running_costs') or 0.0) * dt[t] * (on[t] if has_on else 0.0)
                    + (a.get('start_costs') or 0.0) * (st[t] if has_start else 0.0) for t in steps)
        got = sum(vv or 0.0 for vv in o['out']['DCF'][a['name']])
        if abs(got - want) > 1e-6 * (1 + abs(want)):
            bad['cash flow differs from price x output + running + start costs'] = [got, want]
    if bad:
        ctx.violation('impl-violation', {'spec': sp, 'unit': a, 'observed': bad, 'expected': 'C06'}, trigger={'what': sorted(bad)[0]})


def pattern_oracle(ctx, sp, o):
    pats = o.get('patterns')
    if not pats:
        return
    g = sp['grid']
    a = [x for x in sp['assets'] if x['kind'] in ('Plant', 'CHPAsset')][0]
    if o.get('pattern_steps', [1])[0] != 0 or a.get('start_ramp_lower_bounds') or a.get('shutdown_ramp_lower_bounds'):
        return          # with profiles a pattern can also fail for its continuous part (profile values vs capacities / ramp)
    R, D = steps_of(a.get('min_runtime', 0), g), steps_of(a.get('min_downtime', 0), g)
    tar, toff = steps_of(a.get('time_already_running', 0), g), steps_of(a.get('time_already_off', 0), g)
    ctx.cov['impl_oracle_evaluations'] += len(pats)
    wrong = {}
    for s, ok in pats.items():
        want = runlength_ok([int(ch) for ch in s], R, D, tar, toff)
        if want != ok:
            wrong[s] = {'implementation admits': ok, 'specification admits': want}
    if wrong:
        ctx.violation('impl-violation', {'spec': sp, 'unit': a, 'observed': {'patterns': dict(list(wrong.items())[:6]), 'min_runtime': R, 'min_downtime': D, 'already_running': tar, 'already_off': toff},
                                         'expected': 'the admissible on/off patterns are exactly those respecting minimum run time, down time and the declared initial state'},
                      trigger={'what': 'admissible patterns'})


def run(ctx):
    if not ctx.proof_gate(THEOREMS, ['PlantProofs.vo', 'Plant.vo', 'PlantRows.vo', 'PlantProfiles.vo', 'Ramp.vo', 'Build.vo']):
        return
    n = 60 if ctx.tier == 'quick' else 400
    specs = util.corpus(ctx.prop) + gen.gen_many_plants(ctx.seed, n, CFG, 'c06_')
    # start / shutdown ramp profiles; every second portfolio was set up before (same objects, other prices)
    prof = gen.gen_many_plants(ctx.seed, n // 2, dict(CFG, p_profile=1.0, freqs=['h', '2h', '30min'], T=(5, 9)), 'c06p_')
    # minimum run / down times of at most one main time unit that span several steps, nothing else asking for start variables
    sd = gen.gen_many_plants(ctx.seed, n // 4, dict(CFG, freqs=['15min', '30min'], units=['h'], T=(6, 10), p_profile=0.0, p_fuel=0.3), 'c06sd_')
    for i_, sp in enumerate(sd):
        for a in sp['assets']:
            if a['kind'] in ('Plant', 'CHPAsset'):
                a.pop('start_costs', None); a.pop('start_fuel', None)
                a['min_runtime'] = [1, 0.5, 1][i_ % 3] if sp['grid']['freq'] == '15min' else 1
                if i_ % 2:
                    a['min_downtime'] = 1
                a['time_already_running'] = 0; a['time_already_off'] = 2; a['last_dispatch'] = 0.0
    prof += sd
    # daily steps across a clock change (23 h / 25 h days): running consumption, costs and limits follow the length of EACH step
    prof += gen.gen_many_plants(ctx.seed, n // 4, dict(CFG, freqs=['d'], units=['h'], tzs=['CET'], p_dst=1.0, T=(4, 7), p_profile=0.0, p_fuel=1.0), 'c06dst_')
    # a declared ramp of zero (output may not change while running)
    prof += gen.gen_many_plants(ctx.seed, n // 4, dict(CFG, p_ramp0=1.0, p_profile=0.3), 'c06r0_')
    # profiles given in another frequency than the grid's (interpolated / averaged: Ramp.v)
    prof += gen.gen_many_plants(ctx.seed, n // 2, dict(CFG, p_profile=1.0, p_ramp_other_freq=1.0, freqs=['h', '30min', '15min'], T=(6, 10)), 'c06rf_')
    for i, sp in enumerate(prof):
        if i % 2:
            sp['opts']['warmup'] = 'setup'
    specs += prof
    # a CHP asset declared without heat node (the form Plant uses internally)
    for sp in specs:
        a = [x for x in sp['assets'] if x['kind'] in ('Plant', 'CHPAsset')]
        if a and a[0]['kind'] == 'Plant' and sp['id'].startswith('c06') and int(sp['id'].split('_')[-1]) % 4 == 1:
            a[0]['kind'], a[0]['_no_heat'] = 'CHPAsset', True
    # horizons shorter than what is left of the minimum run time / down time
    short = gen.gen_many_plants(ctx.seed, n // 4, dict(CFG, T=(2, 3), freqs=['h']), 'c06s_')
    for sp in short:
        a = [x for x in sp['assets'] if x['kind'] in ('Plant', 'CHPAsset')][0]
        if a.get('time_already_running'):
            a['min_runtime'] = a['time_already_running'] + sp['grid']['T'] + 2
            a['start_costs'] = a.get('start_costs') or 2.5
        else:
            a['min_downtime'] = a['time_already_off'] + sp['grid']['T'] + 2
    specs += short
    for i, sp in enumerate(specs):
        sp['opts'].setdefault('max_pattern_T', 6 if (i % 3 == 0) else 0)
    specs = ctx.specs(specs)
    res = C.run_impl('plant', specs)
    parts = C.run_impl('assets', specs)
    for sp, o in zip(specs, res):
        ctx.count('status:' + str(o.get('status')))
        if o.get('status') != 'ok':
            ctx.count('setup_error:' + str(o.get('error'))[:60])
            continue
        ctx.count('solve:' + str(o.get('solve')))
        a = [x for x in sp['assets'] if x['kind'] in ('Plant', 'CHPAsset')][0]
        ctx.count('kind:' + a['kind'] + ('+fuel' if len(a['nodes']) > (2 if (a['kind'] == 'CHPAsset' and not a.get('_no_heat')) else 1) else '') + (' (_no_heat)' if a.get('_no_heat') else ''))
        for k in ('ramp', 'min_runtime', 'min_downtime', 'start_costs', 'start_fuel', 'consumption_if_on', 'max_share_heat', 'time_already_running', 'start_ramp_lower_bounds', 'shutdown_ramp_lower_bounds'):
            if a.get(k):
                ctx.count('feature:' + k)
        if o.get('solve') == 'optimal' and o.get('x'):
            ctx.cov['impl_oracle_evaluations'] += 1
            unit_oracle(ctx, sp, o)
        pattern_oracle(ctx, sp, o)
        if o.get('patterns'):
            ctx.count('pattern sets enumerated')
        ctx.sample({'spec': sp})
    util.asset_corr(ctx, specs, parts, 'C06', want=lambda a: a['kind'] in ('Plant', 'CHPAsset'))
