"""C07: the variable mapping is a faithful description of the assembled problem."""
import common as C
import gen
from props import util

THEOREMS = ['C07_assembled_wf', 'C07_vectors_are_the_assets', 'C07_row_points_to_own_variable', 'C07_row_points_shifted',
            'C07_assembled_mapping_wf', 'C07_nodal_rows_exact', 'C07_nodal_rows_unique']
CFG = {'p_gap': 0.2, 'p_cap_dict': 0.35, 'p_coarse': 0.2, 'p_periodic': 0.2, 'T': (3, 8), 'n_assets': (1, 5), 'nodes': (1, 3), 'p_window': 0.5,
       'p_no_simult': 0.2, 'p_max_store': 0.15, 'p_full_exec': 0.2,
       'window_kinds': ['inside', 'left', 'right', 'straddle_l', 'straddle_r', 'before', 'after', 'offgrid'],
       'kinds': {'SimpleContract': 2, 'Contract': 2, 'Transport': 2, 'Storage': 3, 'MultiCommodityContract': 2, 'OrderBook': 3, 'ExtendedTransport': 1, 'ScaledAsset': 3, 'StructuredAsset': 2}}

NAMES = ['assembled c = assets c', 'assembled l', 'assembled u', 'assembled rows = embedded asset rows + nodal rows',
         'assembled mapping = shifted asset mappings', '(step,node) record of nodal rows',
         'wf_lp of the implementation problem', 'l <= u', 'wf_map of the implementation problem',
         'unmapped variables have zero cost and empty columns', 'one nodal row per (node, step)']


def impl_wf_oracle(o):
    """the property evaluated directly on the implementation's problem (python, floats)"""
    import math
    p = o['problem']
    n = len(p['c'])
    bad = {}
    if not (len(p['l']) == n and len(p['u']) == n and p['ncols'] == n):
        bad['lengths'] = [len(p['c']), len(p['l']), len(p['u']), p['ncols']]
        return bad
    if any(math.isnan(v) for v in p['c'] + p['l'] + p['u'] + p['b']):
        bad['nan'] = True
    if any(l > u for l, u in zip(p['l'], p['u'])):
        bad['l>u'] = [i for i, (l, u) in enumerate(zip(p['l'], p['u'])) if l > u][:5]
    names = [a['name'] for a in o['assets']]
    owner = {}
    for r in p['mapping']:
        if not (0 <= r['index'] < n):
            bad['row points outside'] = r
        if r['asset'] not in names:
            bad['unknown asset'] = r
        if not (0 <= r['time_step'] < o['T']):
            bad['step off grid'] = r
        if owner.setdefault(r['index'], r['asset']) != r['asset']:
            bad['variable shared by assets'] = r
    used = set(j for cols, vals in p['rows'] for j, v in zip(cols, vals) if v != 0.0)
    for v in range(n):
        if v not in owner and (p['c'][v] != 0.0 or v in used):
            bad['unmapped variable with cost/column'] = v
    rec = [tuple(e) for e in p.get('map_nodal_restr', [])]
    if len(rec) != len(set(rec)):
        bad['duplicate nodal row'] = True
    need = set((r['time_step'], r['node']) for r in p['mapping'] if r['type'] == 'd' and r['node'] is not None)
    if set(rec) != need:
        bad['nodal rows != (node,step) with dispatch'] = [sorted(need - set(rec))[:3], sorted(set(rec) - need)[:3]]
    return bad


def run(ctx):
    if not ctx.proof_gate(THEOREMS):
        return
    n = 60 if ctx.tier == 'quick' else 400
    specs = util.corpus(ctx.prop) + gen.gen_many(ctx.seed, n, CFG, 'c07_')
    specs += util.orderbook_tail_specs(ctx.seed, 10 if ctx.tier == 'quick' else 60, 'c07ob_', split=False)
    for sp in specs:
        sp['opts']['no_solve'] = True
    specs = ctx.specs(specs)
    res = C.run_impl('portfolio', specs)
    parts = C.run_impl('assets', specs)
    exprs, owners = [], []
    for sp, o, pa in zip(specs, res, parts):
        ctx.count('status:' + str(o.get('status')))
        if o.get('status') != 'ok':
            ctx.count('setup_error:' + str(o.get('error'))[:50])
            continue
        for a in sp['assets']:
            ctx.count('kind:' + a['kind'])
        ctx.cov['impl_oracle_evaluations'] += 1
        bad = impl_wf_oracle(o)
        if bad:
            ctx.violation('impl-violation', {'spec': sp, 'observed': bad, 'expected': 'well-formed problem and mapping'},
                          trigger={'what': sorted(bad)[0]})
            if 'nan' in bad or 'lengths' in bad:
                continue        # not expressible as a rational problem; already reported
        if any(r['status'] != 'ok' for r in pa['assets']):
            ctx.count('asset alone fails but portfolio works')
            continue
        prob = o['problem']
        aps = C.lst(['(Build_aprob %s %s)' % (C.lp(r['problem']), C.mapping(r['problem']['mapping'])) for r in pa['assets']])
        rec = C.lst(['(%s, %s)' % (C.nat(t), C.s(nn)) for t, nn in prob.get('map_nodal_restr', [])])
        exprs.append('(c07_case %s %s %s %s %s %s %s %s)' % (
            C.nat(o['T']), C.lst([C.s(x) for x in o['nodes']]), C.lst([C.s(a['name']) for a in o['assets']]),
            C.lst([C.nat(i) for i in o['I']]), aps, C.lp(prob), C.mapping(prob['mapping']), rec))
        owners.append(sp)
        ctx.sample({'spec': sp})
    vals = C.run_coq_exprs('C07', 'Num LP Cert Mapping Dcf Grid Assets Periodic Portfolio Corr Build', exprs, chunk=5)
    for sp, v in zip(owners, vals):
        ctx.cov['correspondence']['cases'] += 1
        ctx.cov['correspondence']['components_compared'] += 6
        ctx.cov['instances_validated'] += 1
        for nm, ok in zip(NAMES, v):
            if not ok:
                ctx.cov['correspondence']['disagreements'] += 1
                ctx.broken('correspondence-broken' if NAMES.index(nm) < 6 else 'validator-rejected',
                           {'spec': sp, 'theorem_or_correspondence': nm})
