"""C07: the variable mapping is a faithful description of the assembled problem."""
import common as C
import gen
from props import util

THEOREMS = ['C07_assembled_wf', 'C07_vectors_are_the_assets', 'C07_row_points_to_own_variable', 'C07_row_points_shifted',
            'C07_assembled_mapping_wf', 'C07_nodal_rows_exact', 'C07_nodal_rows_unique',
            'C07_transport_builder_wf', 'C07_storage_builder_wf', 'C07_contract_builder_wf', 'C07_split_rows_point_into_their_interval']
CFG = {'p_gap': 0.2, 'p_cap_dict': 0.35, 'p_coarse': 0.2, 'p_periodic': 0.2, 'T': (3, 8), 'n_assets': (1, 5), 'nodes': (1, 3), 'p_window': 0.5,
       'p_no_simult': 0.2, 'p_max_store': 0.15, 'p_full_exec': 0.2,
       'window_kinds': ['inside', 'left', 'right', 'straddle_l', 'straddle_r', 'before', 'after', 'offgrid'],
       'kinds': {'SimpleContract': 2, 'Contract': 2, 'Transport': 2, 'Storage': 3, 'MultiCommodityContract': 2, 'OrderBook': 3, 'ExtendedTransport': 1, 'ScaledAsset': 3, 'StructuredAsset': 2}}

NAMES = ['assembled c = assets c', 'assembled l', 'assembled u', 'assembled rows = embedded asset rows + nodal rows',
         'assembled mapping = shifted asset mappings', '(step,node) record of nodal rows',
         'wf_lp of the implementation problem', 'l <= u', 'wf_map of the implementation problem',
         'unmapped variables have zero cost and empty columns', 'one nodal row per (node, step)']


def impl_wf_oracle(o):
    """the property evaluated directly on the implementation's problem (python, floats)"""
    import math
    p = o['problem']
    n = len(p['c'])
    bad = {}
    if not (len(p['l']) == n and len(p['u']) == n and p['ncols'] == n):
        bad['lengths'] = [len(p['c']), len(p['l']), len(p['u']), p['ncols']]
        return bad
    if any(math.isnan(v) for v in p['c'] + p['l'] + p['u'] + p['b']):
        bad['nan'] = True
    if any(l > u for l, u in zip(p['l'], p['u'])):
        bad['l>u'] = [i for i, (l, u) in enumerate(zip(p['l'], p['u'])) if l > u][:5]
    names = [a['name'] for a in o['assets']]
    owner = {}
    for r in p['mapping']:
        if not (0 <= r['index'] < n):
            bad['row points outside'] = r
        if r['asset'] not in names:
            bad['unknown asset'] = r
        if not (0 <= r['time_step'] < o['T']):
            bad['step off grid'] = r
        if owner.setdefault(r['index'], r['asset']) != r['asset']:
            bad['variable shared by assets'] = r
    used = set(j for cols, vals in p['rows'] for j, v in zip(cols, vals) if v != 0.0)
    for v in range(n):
        if v not in owner and (p['c'][v] != 0.0 or v in used):
            bad['unmapped variable with cost/column'] = v
    rec = [tuple(e) for e in p.get('map_nodal_restr', [])]
    if len(rec) != len(set(rec)):
        bad['duplicate nodal row'] = True
    need = set((r['time_step'], r['node']) for r in p['mapping'] if r['type'] == 'd' and r['node'] is not None)
    if set(rec) != need:
        bad['nodal rows != (node,step) with dispatch'] = [sorted(need - set(rec))[:3], sorted(set(rec) - need)[:3]]
    return bad


def coarse_steps_oracle(sp, a, prob):
    """an asset with an own coarser frequency (and no own window): every dispatch variable is mapped to exactly the grid steps of one
    coarse interval (calendar resolved by pandas here, independently of the implementation)"""
    import pandas as pd
    import modelspec as M
    g = sp['grid']
    tz = g.get('tz')
    if not a.get('freq') or a['freq'] == g['freq'] or a.get('start') or a.get('end') or a['kind'] in ('ScaledAsset', 'StructuredAsset'):
        return None
    fine = M.grid_pts(g)[:-1]
    cp = [int(p.value // 10 ** 9) for p in pd.date_range(start=M.tstamp(g['start'], tz), end=M.tstamp(g['end'], tz), freq=a['freq'], tz=tz)]
    groups = [frozenset(t for t, x in enumerate(fine) if lo <= x < hi) for lo, hi in zip(cp[:-1], cp[1:])]
    groups = [gr for gr in groups if gr]
    byvar = {}
    for r in prob['mapping']:
        if r['type'] == 'd':
            byvar.setdefault((r['index'], r['node']), set()).add(r['time_step'])
    bad = {('variable %d at %s' % k): sorted(v) for k, v in byvar.items() if frozenset(v) not in groups}
    return bad or None


def run(ctx):
    if not ctx.proof_gate(THEOREMS, ['Build.vo', 'Split.vo']):
        return
    n = 60 if ctx.tier == 'quick' else 400
    specs = util.corpus(ctx.prop) + gen.gen_many(ctx.seed, n, CFG, 'c07_')
    specs += util.orderbook_tail_specs(ctx.seed, 10 if ctx.tier == 'quick' else 60, 'c07ob_', split=False)
    # coarse steps of unequal length: daily assets on an hourly grid across a clock change (23 h and 25 h days)
    days = [{'start': s, 'end': e, 'freq': 'h', 'unit': u, 'tz': 'CET'} for s, e in (('2021-03-27 00:00', '2021-03-29 00:00'), ('2021-10-30 00:00', '2021-11-01 00:00'),
                                                                                   ('2021-03-28 00:00', '2021-03-30 00:00')) for u in ('h', 'd')]
    specs += gen.gen_many(ctx.seed, 4 if ctx.tier == 'quick' else 24, dict(CFG, grids=days, p_coarse=0.8, coarse_freqs=['d'], p_window=0.0, p_periodic=0.0, p_gap=0.0, n_assets=(1, 3),
                                                                           p_max_store=0.0, p_full_exec=0.0,
                                                                           kinds={'SimpleContract': 2, 'Contract': 1, 'Transport': 1, 'Storage': 1, 'MultiCommodityContract': 1}), 'c07day_')
    # earlier set-ups in the same process (portfolios in which some node has no dispatch at all, or other assets of the same names)
    seq = gen.gen_many(ctx.seed, 12 if ctx.tier == 'quick' else 80, dict(CFG, nodes=(2, 3)), 'c07seq_')
    pre = gen.gen_many(ctx.seed, len(seq), dict(CFG, nodes=(2, 3), n_assets=(2, 4), p_window=1.0, window_kinds=['before', 'after', 'before', 'inside'], p_coarse=0.0, p_periodic=0.0,
                                                kinds={'SimpleContract': 3, 'Storage': 1, 'Transport': 1}), 'c07pre_')
    for sp, p in zip(seq, pre):
        # in every second prelude everything connected to one node lies before the horizon
        if int(sp['id'].split('_')[-1]) % 2 == 0:
            pts = gen.grid_points(p['grid'])
            st = gen.freq_td(p['grid']['freq'])
            dark = sp['assets'][0]['nodes'][0]
            if any(dark not in a['nodes'] for a in p['assets']):
                for a in p['assets']:
                    if dark in a['nodes']:
                        a['start'], a['end'] = gen.fmt(pts[0] - 5 * st), gen.fmt(pts[0] - 2 * st)
                        a.pop('freq', None); a.pop('periodicity', None); a.pop('periodicity_duration', None)
        sp['opts']['prelude'] = [p]
    specs += seq
    # plants / CHP units with fuel: which binary variables exist depends on several parameters (start costs, run times, start fuel,
    # consumption when on); c, l, u, rows and mapping must agree on them
    specs += gen.gen_many_plants(ctx.seed, n // 3, dict(CFG, freqs=['h'], units=['h'], tzs=[None], T=(4, 8), p_unaligned_end=0.0, p_fuel=0.9, p_profile=0.2, p_gap=0.0, p_cap_dict=0.0), 'c07p_')
    # node names of different lengths (second node of a two-node storage / heat and fuel node of a CHP longer than the first one)
    from props.C09 import rename_assets, asset_names, node_names
    import random as _rn
    nml = gen.gen_many(ctx.seed, n // 4, dict(CFG, nodes=(2, 3), p_coarse=0.0, p_periodic=0.0, p_gap=0.0, kinds={'Storage': 4, 'Transport': 2, 'MultiCommodityContract': 1, 'SimpleContract': 1}), 'c07nl_')
    nml += gen.gen_many_plants(ctx.seed, n // 4, dict(CFG, freqs=['h'], units=['h'], tzs=[None], T=(4, 7), p_unaligned_end=0.0, p_fuel=0.8, p_chp=0.8, p_profile=0.0, p_gap=0.0, p_cap_dict=0.0), 'c07nlp_')
    for sp in nml:
        r_ = _rn.Random(str(sp['seed']) + '/len')
        nn = node_names(sp['assets'])
        pool = ['el', 'heat_node', 'gas_supply_node', 'x', 'north_hub'][:max(len(nn), 1)]
        if r_.random() < 0.3:
            pool = pool[::-1]
        rename_assets(sp['assets'], {a: a for a in asset_names(sp['assets'])}, dict(zip(nn, pool)))
    specs += nml
    for sp in specs:
        sp['opts']['no_solve'] = True
    # split set-up: every interval problem and the joint mapping must be as faithful as a single problem
    spl = gen.gen_many(ctx.seed, 14 if ctx.tier == 'quick' else 100, dict(CFG, p_coarse=0.0, p_periodic=0.0, freqs=['h'], T=(6, 10), tzs=[None], p_unaligned_end=0.0,
                                                                          window_kinds=['inside', 'left', 'right']), 'c07s_')
    spl += util.orderbook_tail_specs(ctx.seed, 6 if ctx.tier == 'quick' else 40, 'c07sob_', split=True)
    for sp in spl:
        sp['opts']['split'] = '3h'
        sp['opts']['no_solve'] = True
    spl = [sp for sp in util.corpus(ctx.prop) if sp['opts'].get('split')] + spl
    spl = [sp for sp in ctx.specs(spl) if sp.get('opts', {}).get('split')]
    from props.C14 import interval_ranges
    sm_exprs, sm_owners = [], []
    for sp, o in zip(spl, C.run_impl('portfolio', spl) if spl else []):
        s_ = o.get('split') if o.get('status') == 'ok' else None
        if not isinstance(s_, dict) or 'setup_error' in s_:
            continue
        ctx.count('split problems checked')
        ctx.cov['impl_oracle_evaluations'] += 1
        bad = {}
        rng_ = interval_ranges(sp, sp['opts']['split'])
        off, expect = 0, []
        if len(rng_) != len(s_['ops']):
            bad['number of intervals'] = [len(s_['ops']), len(rng_)]
        for k_, p_ in enumerate(s_['ops']):
            nloc = len(p_['c'])
            if any(not (0 <= r['index'] < nloc) for r in p_['mapping']):
                bad['mapping of interval problem %d points outside its variables' % k_] = [sorted(set(r['index'] for r in p_['mapping']))[-3:], nloc]
            elif k_ < len(rng_):
                for r in p_['mapping']:
                    if 0 <= r['time_step'] < len(rng_[k_]):
                        expect.append((r['index'] + off, r['asset'], str(r['node']), r['type'], rng_[k_][r['time_step']], r['var_name']))
            off += nloc
        got = [(r['index'], r['asset'], str(r['node']), r['type'], r['time_step'], r['var_name']) for r in s_['mapping']]
        if len(s_['c']) != off:
            bad['cost vector of the split problem'] = [len(s_['c']), off]
        if not bad and sorted(got) != sorted(expect):
            bad['joint mapping != interval mappings shifted to their variables and to the steps of the whole grid'] = {
                'only joint': [g_ for g_ in sorted(got) if g_ not in expect][:3], 'only expected': [e_ for e_ in sorted(expect) if e_ not in got][:3]}
        if bad:
            ctx.violation('impl-violation', {'spec': sp, 'mode': 'split', 'observed': bad, 'expected': 'well-formed interval problems; joint mapping names the variables of the concatenated problem'},
                          trigger={'what': 'split: ' + sorted(bad)[0][:40]})
        e_ = util.split_map_expr(sp, s_)
        if e_:
            sm_exprs.append(e_)
            sm_owners.append(sp)
    specs = ctx.specs(specs)
    res = C.run_impl('portfolio', specs)
    parts = C.run_impl('assets', specs)
    exprs, owners = [], []
    for sp, o, pa in zip(specs, res, parts):
        ctx.count('status:' + str(o.get('status')))
        if o.get('status') != 'ok':
            ctx.count('setup_error:' + str(o.get('error'))[:50])
            continue
        for a in sp['assets']:
            ctx.count('kind:' + a['kind'])
        ctx.cov['impl_oracle_evaluations'] += 1
        bad = impl_wf_oracle(o)
        if bad:
            ctx.violation('impl-violation', {'spec': sp, 'observed': bad, 'expected': 'well-formed problem and mapping'},
                          trigger={'what': sorted(bad)[0]})
            if 'nan' in bad or 'lengths' in bad:
                continue        # not expressible as a rational problem; already reported
        for a, r in zip(sp['assets'], pa['assets']):
            if r['status'] == 'ok':
                cb = coarse_steps_oracle(sp, a, r['problem'])
                if cb:
                    ctx.violation('impl-violation', {'spec': sp, 'asset': a, 'observed': cb, 'expected': 'the steps named for a variable are the grid steps of its coarse interval'},
                                  trigger={'what': 'coarse steps'})
        if any(r['status'] != 'ok' for r in pa['assets']):
            ctx.count('asset alone fails but portfolio works')
            continue
        prob = o['problem']
        aps = C.lst(['(Build_aprob %s %s)' % (C.lp(r['problem']), C.mapping(r['problem']['mapping'])) for r in pa['assets']])
        rec = C.lst(['(%s, %s)' % (C.nat(t), C.s(nn)) for t, nn in prob.get('map_nodal_restr', [])])
        exprs.append('(c07_case %s %s %s %s %s %s %s %s)' % (
            C.nat(o['T']), C.lst([C.s(x) for x in o['nodes']]), C.lst([C.s(a['name']) for a in o['assets']]),
            C.lst([C.nat(i) for i in o['I']]), aps, C.lp(prob), C.mapping(prob['mapping']), rec))
        owners.append(sp)
        ctx.sample({'spec': sp})
    # the stand-alone asset problems and mappings against the model builders (the assembled problem is compared with these parts below)
    util.asset_corr(ctx, specs, parts, 'C07a')
    vals = C.run_coq_exprs('C07', 'Num LP Cert Mapping Dcf Grid Assets Periodic Portfolio Corr Build', exprs, chunk=5)
    for sp, v in zip(owners, vals):
        ctx.cov['correspondence']['cases'] += 1
        ctx.cov['correspondence']['components_compared'] += 6
        ctx.cov['instances_validated'] += 1
        for nm, ok in zip(NAMES, v):
            if not ok:
                ctx.cov['correspondence']['disagreements'] += 1
                ctx.broken('correspondence-broken' if NAMES.index(nm) < 6 else 'validator-rejected',
                           {'spec': sp, 'theorem_or_correspondence': nm})
    vals = C.run_coq_exprs('C07s', 'Num LP Cert Mapping Dcf Grid Assets Periodic Portfolio Corr Build', sm_exprs, chunk=5)
    for sp, v in zip(sm_owners, vals):
        ctx.cov['correspondence']['cases'] += 1
        ctx.cov['correspondence']['components_compared'] += 2
        for nm, ok in zip(util.SPLIT_MAP_NAMES, v):
            if not ok:
                ctx.cov['correspondence']['disagreements'] += 1
                ctx.broken('correspondence-broken', {'spec': sp, 'theorem_or_correspondence': 'Portfolio.setup_split_optim_problem vs Split.split_map: ' + nm})
    # the two-stage problem make_slp assembles from a portfolio problem: its mapping (one copy of every future variable per sample) against
    # SLPProofs.slp_map; assets with several mapping rows per variable stored apart (second node of a transport, commodity factors)
    import random as _rnd
    slp = gen.gen_many(ctx.seed, 10 if ctx.tier == 'quick' else 60, dict(CFG, p_coarse=0.2, p_periodic=0.0, p_gap=0.0, T=(4, 7), nodes=(2, 3), n_assets=(2, 4),
                                                                        kinds={'Transport': 4, 'MultiCommodityContract': 2, 'SimpleContract': 2, 'Storage': 1}), 'c07slp_')
    for sp in slp:
        rng = _rnd.Random(str(sp['seed']) + '/slp')
        sp['opts']['slp'] = {'n': rng.randint(1, 3), 'kf': rng.randint(1, sp['grid']['T'] - 1), 'identical': False, 'robust_without_grid': False}
    slp = ctx.specs(slp)
    mexprs, mowners = [], []
    for sp, o in zip(slp, C.run_impl('slp', slp) if slp else []):
        if o.get('status') != 'ok' or o.get('slp_mapping') is None or o.get('future') is None or 'cost_samples' not in o:
            continue
        ctx.count('two-stage problems checked')
        nv = len(o['slp']['c'])
        if any(not (0 <= r['index'] < nv) for r in o['slp_mapping']):
            ctx.violation('impl-violation', {'spec': sp, 'observed': {'mapping of the two-stage problem points outside its variables': [max(r['index'] for r in o['slp_mapping']), nv]},
                                             'expected': 'every mapping row points to an existing variable'}, trigger={'what': 'slp mapping index'})
        mexprs.append('(c17_map_case %s %s %s %s %s)' % (C.mapping(o['base']['mapping']), C.lst([C.b(b) for b in o['future']]), C.nat(len(o['cost_samples'])),
                                                        C.nat(len(o['base']['c'])), C.mapping(o['slp_mapping'])))
        mowners.append(sp)
    for sp, ok in zip(mowners, C.run_coq_exprs('C07m', 'Num LP Cert Mapping Dcf Grid Assets Periodic Portfolio Corr Build', mexprs, chunk=6)):
        ctx.cov['correspondence']['cases'] += 1
        if not ok:
            ctx.cov['correspondence']['disagreements'] += 1
            ctx.broken('correspondence-broken', {'spec': sp, 'theorem_or_correspondence': 'make_slp mapping vs SLPProofs.slp_map (C17_extended_mapping_wf / _matches_columns)'})
