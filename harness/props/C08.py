"""C08: only what lies inside the horizon and inside an asset's window matters."""
import random, copy
import numpy as np
import common as C
import gen
import modelspec as M
from props import util

THEOREMS = ['C08_window_steps', 'C08_outside_selects_nothing', 'C08_empty_asset_inert', 'C08_empty_asset_inert_anywhere',
            'C08_take_outside_inert', 'C08_take_prorated', 'C08_order_outside_inert', 'C08_order_outside_append',
            'C08_free_variable_inert', 'C08_earlier_horizon_keeps_window']
CFG = {'p_inflow': 0.6, 'p_coarse': 0.3, 'coarse_windows': True, 'coarse_any': True, 'p_periodic': 0.0, 'T': (3, 9), 'n_assets': (1, 4), 'nodes': (1, 3), 'p_window': 0.6, 'p_market': 0.9,
       'window_kinds': ['inside', 'inside', 'left', 'right', 'straddle_l', 'straddle_r', 'before', 'after', 'offgrid'],
       'take_kinds': ['inside', 'whole', 'straddle_r', 'straddle_l', 'outside', 'outside'],
       'order_kinds': ['inside', 'inside', 'straddle', 'outside', 'outside', 'offgrid'],
       'kinds': {'SimpleContract': 2, 'Contract': 3, 'Transport': 2, 'Storage': 2, 'MultiCommodityContract': 1, 'OrderBook': 3,
                 'ExtendedTransport': 2, 'ScaledAsset': 1}}


def outside_window(rng, g):
    pts = gen.grid_points(g)
    step = gen.freq_td(g['freq'])
    T = len(pts) - 1
    r = rng.random()
    if r < 0.4:
        s, e = pts[0] - rng.randint(3, 6) * step, pts[0] - rng.randint(0, 2) * step     # ends at or before the first point
    elif r < 0.8:
        s, e = pts[T] + rng.randint(0, 2) * step, pts[T] + rng.randint(3, 6) * step     # starts at or after the horizon end
    else:
        s, e = pts[T - 1] + step / 2, pts[T] + 2 * step                                 # after the last point, before the end
    gen.check_safe(s, g.get('tz'))
    gen.check_safe(e, g.get('tz'))
    return gen.fmt(s), gen.fmt(e)


def add_outside(sp):
    """variant of the spec with one element that lies entirely outside the horizon; returns (variant, description)"""
    while True:
        try:
            return add_outside0(sp)
        except gen.Unsafe:
            sp = dict(sp, seed=str(sp['seed']) + "'")


def add_outside0(sp):
    rng = random.Random(str(sp['seed']) + '/outside')
    v = copy.deepcopy(sp)
    g = v['grid']
    s, e = outside_window(rng, g)
    nodes = M.portfolio_nodes(sp)
    choices = ['asset', 'asset']
    if any(a['kind'] == 'OrderBook' for a in v['assets']):
        choices += ['order', 'order']
    else:
        choices += ['orderbook']
    if any(a['kind'] in ('Contract', 'ExtendedTransport', 'MultiCommodityContract') for a in v['assets']):
        choices += ['take', 'take']
    what = rng.choice(choices)
    pos = rng.randint(0, len(v['assets']))
    if what == 'asset':
        k = rng.choice(['SimpleContract', 'Storage', 'Transport', 'Contract'])
        if k == 'Transport' and len(nodes) < 2:
            k = 'SimpleContract'
        sub = dict(CFG, p_window=0.0)
        if k == 'SimpleContract':
            a = gen.gen_simple_contract(rng, g, sub, 'zz_out', rng.choice(nodes), v['prices'])
        elif k == 'Contract':
            a = gen.gen_contract(rng, g, sub, 'zz_out', rng.choice(nodes), v['prices'])
        elif k == 'Storage':
            a = gen.gen_storage(rng, g, sub, 'zz_out', [rng.choice(nodes)], v['prices'])
            a['end_level'] = a['start_level']
        else:
            n1, n2 = rng.sample(nodes, 2)
            a = gen.gen_transport(rng, g, sub, 'zz_out', n1, n2, v['prices'])
        a['start'], a['end'] = s, e
        v['assets'].insert(pos, a)
        d = {'what': 'asset', 'kind': k, 'pos': pos, 'name': 'zz_out', 'window': [s, e]}
    elif what == 'orderbook':
        a = {'kind': 'OrderBook', 'name': 'zz_out', 'nodes': [rng.choice(nodes)],
             'orders': {'start': [s], 'end': [e], 'capa': [gen.k8(rng, 1, 5)], 'price': [gen.k8(rng, 0, 9)]}}
        v['assets'].insert(pos, a)
        d = {'what': 'orderbook', 'pos': pos, 'name': 'zz_out', 'window': [s, e]}
    elif what == 'order':
        obs = [i for i, a in enumerate(v['assets']) if a['kind'] == 'OrderBook']
        i = rng.choice(obs)
        o = v['assets'][i]['orders']
        o['start'].append(s); o['end'].append(e); o['capa'].append(rng.choice([-1, 1]) * gen.k8(rng, 1, 5)); o['price'].append(gen.k8(rng, 0, 9))
        d = {'what': 'order', 'asset': v['assets'][i]['name'], 'window': [s, e]}
    else:
        cs = [i for i, a in enumerate(v['assets']) if a['kind'] in ('Contract', 'ExtendedTransport', 'MultiCommodityContract')]
        i = rng.choice(cs)
        key = rng.choice(['max_take', 'min_take'])
        val = gen.k8(rng, 0, 1) if key == 'max_take' else (gen.k8(rng, 5, 9) if v['assets'][i]['kind'] != 'ExtendedTransport' else gen.k8(rng, 0, 1))
        tk = v['assets'][i].get(key)
        if tk is None:
            tk = {'start': [], 'end': [], 'values': []}
            v['assets'][i][key] = tk
        # a binding value: were the period not ignored, it would change the optimum or make the problem infeasible
        tk['start'].append(s); tk['end'].append(e); tk['values'].append(val)
        d = {'what': 'take', 'asset': v['assets'][i]['name'], 'key': key, 'window': [s, e]}
    v['id'] = sp['id'] + '+out'
    return v, d


def asset_steps(g, a):
    """steps of the horizon inside the asset's [start, end), from the calendar (independent of eaopack)"""
    tz = g.get('tz')
    pts = M.grid_pts(g)[:-1]
    lo = M.inst(a['start'], tz) if a.get('start') else None
    hi = M.inst(a['end'], tz) if a.get('end') else None
    gs, ge = M.inst(g['start'], tz), M.inst(g['end'], tz)
    return [i for i, p in enumerate(pts) if (lo is None or lo <= p) and (hi is None or p < hi) and gs <= p < ge]


def window_oracle(ctx, sp, o, mode, disp):
    """dispatch of every asset is zero outside its window clipped to the horizon"""
    for a in sp['assets']:
        if a['kind'] in ('OrderBook', 'ScaledAsset'):
            continue
        if a['kind'] == 'StructuredAsset':
            # joint life time: a side of the structure's window binds where every wrapped asset names that side, too
            a = dict(a, start=a.get('start') if all(b.get('start') for b in a['assets']) else None,
                     end=a.get('end') if all(b.get('end') for b in a['assets']) else None)
            if not (a['start'] or a['end']):
                continue
        ctx.cov['impl_oracle_evaluations'] += 1
        inside = set(asset_steps(sp['grid'], a))
        for n in a['nodes']:
            col = util.colname(o, a['name'], n)
            if col not in disp:
                continue
            bad = [(t, v) for t, v in enumerate(disp[col]) if v is not None and abs(v) > 1e-9 and t not in inside]
            if bad:
                ctx.violation('impl-violation', {'spec': sp, 'mode': mode, 'asset': a['name'], 'observed': {'dispatch outside the window (step, value)': bad[:5], 'window steps': sorted(inside)},
                                                 'expected': 'asset dispatched only within [start, end) clipped to the horizon'}, trigger={'what': 'dispatch outside window'})
                break


def take_oracle(ctx, sp, pa):
    """take rows of the stand-alone contract problems: a row exists iff the period contains a step of the asset, covers exactly
    those steps, and its right-hand side is the value prorated by covered duration / period duration"""
    g = sp['grid']
    tz = g.get('tz')
    pts = M.grid_pts(g)
    us = M.unit_secs(g.get('unit', 'h'))
    for a, r in zip(sp['assets'], pa['assets']):
        if a['kind'] not in ('Contract', 'ExtendedTransport', 'MultiCommodityContract') or r['status'] != 'ok':
            continue
        if a.get('freq') or a.get('periodicity') or not (a.get('max_take') or a.get('min_take')):
            continue
        ctx.cov['impl_oracle_evaluations'] += 1
        steps = asset_steps(g, a)
        ext = a['kind'] == 'ExtendedTransport'
        exp = []
        for key, ty in (('max_take', 'L' if ext else 'U'), ('min_take', 'U' if ext else 'L')):
            tk = a.get(key)
            if not tk:
                continue
            for s0, e0, v in zip(tk['start'], tk['end'], tk['values']):
                lo, hi = M.inst(s0, tz), M.inst(e0, tz)
                cov = [t for t in steps if lo <= pts[t] < hi]
                if not cov:
                    continue
                covered = sum(pts[t + 1] - pts[t] for t in cov) / us
                exp.append((ty, (-v if ext else v) * covered / ((hi - lo) / us), cov))
        P = r['problem']
        step_of = {}
        for m in P['mapping']:
            step_of.setdefault(m['index'], m['time_step'])
        got = [(t, b, sorted(set(step_of.get(j) for j in row[0]))) for row, t, b in zip(P['rows'], P['cType'], P['b'])]
        ok = len(got) == len(exp) and all(t1 == t2 and abs(b1 - b2) <= 1e-9 * (1 + abs(b2)) and c1 == c2 for (t1, b1, c1), (t2, b2, c2) in zip(got, exp))
        if not ok:
            ctx.violation('impl-violation', {'spec': sp, 'asset': a, 'observed': {'take rows (type, rhs, steps)': got}, 'expected': {'take rows (type, rhs, steps)': exp}},
                          trigger={'what': 'take rows'})


def extended(sp, k):
    """the same portfolio on a horizon that begins k steps earlier; every asset is given the original horizon as its window where it had
    none (so nothing is active in the added steps), price / capacity arrays are padded in front"""
    import pandas as pd
    v = copy.deepcopy(sp)
    g = v['grid']
    step = gen.freq_td(g['freq'])
    s0 = pd.Timestamp(g['start'])
    for a in v['assets']:
        for b in [a] + ([a['base']] if a['kind'] == 'ScaledAsset' else []) + (a['assets'] if a['kind'] == 'StructuredAsset' else []):
            b.setdefault('start', g['start'])
            b.setdefault('end', g['end'])
    w = copy.deepcopy(v)
    w['grid'] = dict(g, start=gen.fmt(s0 - k * step), T=g['T'] + k)
    w['prices'] = {key: [arr[0]] * k + list(arr) for key, arr in v['prices'].items()}
    v['id'] = sp['id'] + '+win'
    w['id'] = sp['id'] + '+ext'
    return v, w


def extension_oracle(ctx, sp, k, ow, oe):
    """horizon steps in which no asset is active change neither the optimum nor the dispatch inside the windows"""
    ctx.cov['impl_oracle_evaluations'] += 1
    payload = {'spec': sp, 'steps added in front': k}
    if ow.get('status') != 'ok' or ow.get('solve') != 'optimal':
        return
    if oe.get('status') != 'ok':
        ctx.violation('impl-violation', dict(payload, observed='set-up fails on the longer horizon: ' + str(oe.get('error')), expected='same portfolio, same result'),
                      trigger={'what': 'longer horizon breaks set-up'})
        return
    bad = {}
    if oe.get('solve') != 'optimal':
        bad['solver status on the longer horizon'] = oe.get('solve')
    elif abs(oe['value'] - ow['value']) > 1e-6 * (1 + abs(ow['value'])):
        bad['optimal value'] = {'horizon = windows': ow['value'], 'horizon begins earlier': oe['value']}
    elif oe.get('out'):
        for col, vals in oe['out']['dispatch'].items():
            if any(abs(x or 0.0) > 1e-7 * (1 + abs(ow['value'])) for x in vals[:k]):
                bad['dispatch in the added steps'] = [col, vals[:k]]
                break
    if bad:
        ctx.violation('impl-violation', dict(payload, observed=bad, expected='steps before every window change neither value nor dispatch'),
                      trigger={'what': 'horizon extension: ' + sorted(bad)[0]})


def block_sizes(pa):
    return [len(r['problem']['c']) if r['status'] == 'ok' else None for r in pa['assets']]


def inert_oracle(ctx, sp, va, d, ob, ov, pb, pv):
    """the variant problem is the base problem plus (possibly) free zero-cost variables"""
    ctx.cov['impl_oracle_evaluations'] += 1
    if ob.get('status') != 'ok':
        return
    payload = {'spec': va, 'base_spec': sp, 'outside_element': d}
    if ov.get('status') != 'ok':
        ctx.violation('impl-violation', dict(payload, observed='set-up fails with the outside element: ' + str(ov.get('error')),
                                             expected='elements outside the horizon are inert'), trigger={'what': 'outside ' + d['what'] + ' breaks set-up'})
        return
    sb, sv = block_sizes(pb), block_sizes(pv)
    if None in sb or None in sv:
        ctx.count('inert: stand-alone asset rejected, structural comparison skipped')
        return
    B, V = ob['problem'], ov['problem']
    # variable map base -> variant through the block sizes of the assets
    names_b = [a['name'] for a in sp['assets']]
    names_v = [a['name'] for a in va['assets']]
    offv = {}
    off = 0
    for nm, k in zip(names_v, sv):
        offv[nm] = (off, k)
        off += k
    vmap, extra = {}, set(range(len(V['c'])))
    off = 0
    for nm, k in zip(names_b, sb):
        o2, k2 = offv[nm]
        if k2 < k:
            ctx.violation('impl-violation', dict(payload, observed={'asset': nm, 'variables base/variant': [k, k2]}, expected='same variables'),
                          trigger={'what': 'variables lost'})
            return
        for j in range(k):
            vmap[off + j] = o2 + j
            extra.discard(o2 + j)
        off += k
    bad = {}
    for j, j2 in vmap.items():
        for key in ('c', 'l', 'u'):
            if abs(B[key][j] - V[key][j2]) > 1e-12 * (1 + abs(B[key][j])):
                bad.setdefault(key, []).append([j, B[key][j], V[key][j2]])
    for j2 in extra:
        if V['c'][j2] != 0.0:
            bad.setdefault('extra variable with cost', []).append([j2, V['c'][j2]])
    canon = lambda P, f: sorted((t, round(b, 9), tuple(sorted((f(j), round(a, 9)) for j, a in zip(r[0], r[1])))) for r, t, b in zip(P['rows'], P['cType'], P['b']))
    rb = canon(B, lambda j: vmap[j])
    rv = canon(V, lambda j: j)
    if rb != rv:
        bad['rows differ'] = {'only base': [r for r in rb if r not in rv][:3], 'only variant': [r for r in rv if r not in rb][:3]}
    mb = sorted((vmap[r['index']], r['asset'], str(r['node']), r['type'], r['time_step'], round(r['disp_factor'] if r['disp_factor'] is not None else 1.0, 9)) for r in B['mapping'])
    mv = sorted((r['index'], r['asset'], str(r['node']), r['type'], r['time_step'], round(r['disp_factor'] if r['disp_factor'] is not None else 1.0, 9)) for r in V['mapping'])
    if mb != mv:
        bad['mapping differs'] = {'only base': [r for r in mb if r not in mv][:3], 'only variant': [r for r in mv if r not in mb][:3]}
    if ob.get('solve') == 'optimal' and ov.get('solve') == 'optimal':
        if abs(ob['value'] - ov['value']) > 1e-6 * (1 + abs(ob['value'])):
            bad['optimal value'] = [ob['value'], ov['value']]
    elif ob.get('solve') != ov.get('solve'):
        bad['solver status'] = [ob.get('solve'), ov.get('solve')]
    if bad:
        ctx.violation('impl-violation', dict(payload, observed=bad, expected='problem with the outside element = problem without it (+ free zero-cost variables)'),
                      trigger={'what': 'outside ' + d['what'] + ' not inert'})


def run(ctx):
    if not ctx.proof_gate(THEOREMS, ['Inert.vo']):
        return
    n = 50 if ctx.tier == 'quick' else 400
    # windows given as aware stamps of another zone than the grid's (the same instants)
    zoned = gen.gen_many(ctx.seed, n // 2, dict(CFG, tzs=['CET', 'US/Eastern'], p_window=0.9, p_coarse=0.0), 'c08tz_')
    for sp in zoned:
        rng = random.Random(str(sp['seed']) + '/zone')
        for a in sp['assets']:
            if (a.get('start') or a.get('end')) and a['kind'] != 'OrderBook':
                a['window_tz'] = rng.choice(['UTC', 'Asia/Tokyo', 'Etc/GMT+5'])
    # assets on a coarser frequency that run since one or two coarse steps before the horizon
    early = gen.gen_many(ctx.seed, n // 3, dict(CFG, p_coarse=1.0, p_coarse_early=0.7, freqs=['h', '30min'], T=(4, 9), n_assets=(1, 2)), 'c08co_')
    # structured assets with a life time of their own inside the horizon, wrapping assets that live longer
    struct = gen.gen_many(ctx.seed, n // 3, dict(CFG, p_coarse=0.0, p_struct_inside=0.8, nodes=(2, 3), kinds={'StructuredAsset': 3, 'SimpleContract': 1, 'Transport': 1}), 'c08st_')
    # plants / CHP units (binary variables per step of their own window) that start inside the horizon
    plants = gen.gen_many_plants(ctx.seed, n // 3, dict(CFG, freqs=['h'], units=['h'], tzs=[None], T=(5, 9), p_unaligned_end=0.0, p_window_plant=0.9, p_profile=0.0,
                                                        p_coarse=0.0, p_periodic=0.0, p_inflow=0.0), 'c08pl_')
    # scaled assets with a life time of their own (fix costs count for the part of it inside the horizon)
    scaled = gen.gen_many(ctx.seed, n // 3, dict(CFG, p_coarse=0.0, p_window_scaled=0.9, kinds={'ScaledAsset': 4, 'SimpleContract': 1}, n_assets=(1, 3)), 'c08sc_')
    specs = ctx.specs(util.corpus(ctx.prop) + gen.gen_many(ctx.seed, n, CFG, 'c08_') + zoned + early + struct + plants + scaled)
    base = [sp for sp in specs if 'base_spec' not in sp and not sp['id'].endswith('+out')]
    pairs = []
    for sp in specs:
        if sp['id'].endswith('+out'):
            continue
        va, d = add_outside(sp)
        pairs.append((sp, va, d))
    allspecs = [p[0] for p in pairs] + [p[1] for p in pairs]
    res = C.run_impl('portfolio', allspecs)
    parts = C.run_impl('assets', allspecs)
    k = len(pairs)
    for i, (sp, va, d) in enumerate(pairs):
        ob, ov, pb, pv = res[i], res[k + i], parts[i], parts[k + i]
        ctx.count('status:' + str(ob.get('status')))
        ctx.count('outside:' + d['what'])
        for a in sp['assets']:
            ctx.count('kind:' + a['kind'])
        if ob.get('status') == 'ok':
            if ob.get('out_r'):
                window_oracle(ctx, sp, ob, 'boxpoint', ob['out_r']['dispatch'])
            if ob.get('solve') == 'optimal' and ob.get('out'):
                window_oracle(ctx, sp, ob, 'optimal', ob['out']['dispatch'])
        inert_oracle(ctx, sp, va, d, ob, ov, pb, pv)
        if pb.get('status') == 'ok':
            take_oracle(ctx, sp, pb)
        if pv.get('status') == 'ok':
            take_oracle(ctx, va, pv)
        ctx.sample({'spec': sp, 'outside_element': d})
    # ---- the horizon begins earlier, nothing is active there (storages in time blocks, units with run-time rows, inflow, discounting ...)
    import random as _rn
    hx = gen.gen_many(ctx.seed, n // 2, dict(CFG, tzs=[None], freqs=['h', '30min'], p_coarse=0.0, p_blocks=0.5, p_window=0.5, window_kinds=['inside', 'left', 'right'], p_wacc=0.0,
                                             kinds={'Storage': 4, 'SimpleContract': 2, 'Contract': 1, 'Transport': 2, 'ScaledAsset': 1}, T=(6, 10), p_unaligned_end=0.0), 'c08hx_')
    hx += gen.gen_many_plants(ctx.seed, n // 4, dict(CFG, freqs=['h'], units=['h'], tzs=[None], T=(5, 8), p_unaligned_end=0.0, p_window_plant=0.5, p_profile=0.0, p_coarse=0.0, p_periodic=0.0,
                                                     p_inflow=0.0, p_wacc=0.0), 'c08hxp_')
    hx = [sp for sp in ctx.specs(hx) if not sp['id'].endswith(('+win', '+ext'))]
    for sp in hx:
        for a in sp['assets']:
            a.pop('wacc', None)          # (discounting counts from the start of the horizon by definition)
            if a['kind'] == 'ScaledAsset':
                a['base'].pop('wacc', None)
    ks = [_rn.Random(str(sp['seed']) + '/ext').randint(1, 5) for sp in hx]
    pairs_x = [extended(sp, k_) for sp, k_ in zip(hx, ks)]
    rx = C.run_impl('portfolio', [p_[0] for p_ in pairs_x] + [p_[1] for p_ in pairs_x]) if hx else []
    for i_, (sp, k_) in enumerate(zip(hx, ks)):
        extension_oracle(ctx, sp, k_, rx[i_], rx[len(hx) + i_])
    # model builders vs. implementation on all these assets (restricted grids, take rows with prorating, orders)
    util.asset_corr(ctx, allspecs, parts, 'C08')
