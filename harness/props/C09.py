"""C09: results do not depend on asset / node names or on the order of assets."""
import random, copy
import common as C
import gen
from props import util

THEOREMS = ['C09_renaming_leaves_the_problem_unchanged', 'C09_dispatch_equivariant', 'C09_cash_flows_equivariant',
            'C09_order_of_blocks', 'C09_order_of_blocks_optimal']
CFG = {'p_coarse': 0.15, 'p_periodic': 0.15, 'T': (3, 8), 'n_assets': (2, 6), 'nodes': (1, 3), 'p_window': 0.3, 'p_market': 0.9,
       'kinds': {'SimpleContract': 2, 'Contract': 2, 'Transport': 2, 'Storage': 2, 'MultiCommodityContract': 2, 'OrderBook': 2,
                 'ExtendedTransport': 1, 'ScaledAsset': 2, 'StructuredAsset': 2}}
# names that are prefixes / suffixes of each other, purely numeric, digit-led ...
ASSET_POOLS = [['1', '11', '111', '2', '12', '21', '1_1', '112', '211', '121', '0', '10', '01', '1111', '22', '221'],
               ['A', '1A', 'A1', 'AA', '11A', 'A11', '1A1', 'a', '1a', 'A_', '_A', 'AAA', '1AA', 'AA1', 'A1A', '2A'],
               ['x', 'xx', 'x x', 'x.x', 'x-', '-x', 'x0', '0x', 'X', 'x_x', 'x__x', 'xxx', 'x,x', 'x;', "x'", 'x#']]
NODE_POOLS = [['1', '11', '2', '12', '21', '0'], ['N', 'NN', 'N1', '1N', 'n', 'N_'], ['node', 'node ', ' node', 'node1', 'nod', 'node_1']]


def asset_names(assets, out=None):
    out = [] if out is None else out
    for a in assets:
        out.append(a['name'])
        if a['kind'] == 'ScaledAsset':
            asset_names([a['base']], out)
        if a['kind'] in ('StructuredAsset', 'LinkedAsset'):
            asset_names(a['assets'], out)
    return out


def node_names(assets, out=None):
    out = [] if out is None else out
    for a in assets:
        for n in a['nodes']:
            if n not in out:
                out.append(n)
        if a['kind'] == 'ScaledAsset':
            node_names([a['base']], out)
        if a['kind'] in ('StructuredAsset', 'LinkedAsset'):
            node_names(a['assets'], out)
    return out


def rename_assets(assets, fa, fn):
    for a in assets:
        a['name'] = fa[a['name']]
        a['nodes'] = [fn[n] for n in a['nodes']]
        if a['kind'] == 'ScaledAsset':
            rename_assets([a['base']], fa, fn)
        if a['kind'] in ('StructuredAsset', 'LinkedAsset'):
            rename_assets(a['assets'], fa, fn)
        if a['kind'] == 'LinkedAsset':
            lk = a['link']
            lk['a1'], lk['a2'] = fa[lk['a1']], fa[lk['a2']]
            for k_ in ('n1', 'n2'):
                if lk.get(k_) is not None:
                    lk[k_] = fn[lk[k_]]


def renamed(sp):
    rng = random.Random(str(sp['seed']) + '/rename')
    v = copy.deepcopy(sp)
    an, nn = asset_names(sp['assets']), node_names(sp['assets'])
    pa, pn = list(rng.choice(ASSET_POOLS)), list(rng.choice(NODE_POOLS))
    rng.shuffle(pa); rng.shuffle(pn)
    while len(pa) < len(an):
        pa.append('%s%d' % (pa[0], len(pa)))
    while len(pn) < len(nn):
        pn.append('%s%d' % (pn[0], len(pn)))
    fa, fn = dict(zip(an, pa)), dict(zip(nn, pn))
    if rng.random() < 0.35:
        # asset and node names live in separate name spaces: a node may be called like an asset attached to it
        a0 = rng.choice(sp['assets'])
        if fa[a0['name']] not in fn.values():
            fn[a0['nodes'][0]] = fa[a0['name']]
    for a in sp['assets']:
        if a['kind'] == 'LinkedAsset' and len(a['assets']) == 2:
            # the two linked assets (named in the link by their names) get names one of which is contained in the other
            free = list(pa)
            short = rng.choice([x for x in free if any(x != y and x in y for y in free)])
            long_ = rng.choice([y for y in free if y != short and short in y])
            n0, n1 = [b['name'] for b in a['assets']]
            if rng.random() < 0.5:
                n0, n1 = n1, n0
            # swap names so that the mapping stays injective
            inv = {v_: k_ for k_, v_ in fa.items()}
            for tgt, nm_ in ((n0, short), (n1, long_)):
                other = inv.get(nm_)
                if other is not None and other != tgt:
                    fa[other] = fa[tgt]
                    inv[fa[tgt]] = other
                fa[tgt] = nm_
                inv[nm_] = tgt
    assert len(set(fa.values())) == len(fa)
    st_ = [a for a in sp['assets'] if a['kind'] == 'StructuredAsset']
    out_ = [a for a in sp['assets'] if a['kind'] not in ('StructuredAsset', 'ScaledAsset', 'LinkedAsset')]
    if st_ and out_ and rng.random() < 0.4:
        # names need to be distinct within ONE portfolio only: an asset of the outer portfolio gets the name of a wrapped asset
        inner_ = [b for b in rng.choice(st_)['assets'] if b['kind'] != 'ScaledAsset']
        if inner_:
            fa[rng.choice(out_)['name']] = fa[rng.choice(inner_)['name']]
    rename_assets(v['assets'], fa, fn)
    v['id'] = sp['id'] + '+ren'
    return v, fa, fn


def linked_specs(seed, n, tag, freq='h'):
    """a market and a LinkedAsset wrapping two plants; the link names its assets by NAME (documented option): the first plant may
    only run while the second one is on"""
    out = []
    for i in range(n):
        rng = random.Random('%s/%s/%d' % (seed, tag, i))
        T = rng.randint(4, 7)
        g = {'start': '2022-03-01 00:00', 'freq': freq, 'unit': 'h', 'tz': None, 'T': T}
        import pandas as pd
        g['end'] = (pd.Timestamp(g['start']) + T * gen.freq_td(freq)).strftime('%Y-%m-%d %H:%M')
        prices = {}
        cfg = {'p_window': 0.0, 'p_wacc': 0.0, 'p_coarse': 0.0, 'p_periodic': 0.0, 'p_profile': 0.0}
        m = gen.gen_simple_contract(rng, g, cfg, 'm', 'N0', prices, market=True)
        prices[m['price']] = [gen.k8(rng, 4, 8) for _ in range(T)]
        inner = []
        for nm_ in ('u', 'w'):
            p = gen.gen_plant(rng, g, cfg, nm_, 'N0', None, None, prices)
            p['min_cap'] = max(p.get('min_cap') or 0.0, 0.5)
            p['max_cap'] = max(p['max_cap'], p['min_cap'] + 1.0)
            p['price'] = None
            p.pop('start', None); p.pop('end', None)      # (own windows of linked assets: see the known finding; witness in corpus/C09)
            # u earns money at the market, w loses money: the link (u only while w is on) decides the optimum
            p['extra_costs'] = gen.k8(rng, 0, 2) if nm_ == 'u' else gen.k8(rng, 9, 14)
            inner.append(p)
        rng.shuffle(inner)
        la = {'kind': 'LinkedAsset', 'name': 'L', 'nodes': ['N0'], 'assets': inner,
              'link': {'a1': 'u', 'v1': rng.choice(['disp', 'bool_on']), 'n1': None, 'a2': 'w', 'v2': 'bool_on', 'n2': None, 'time_back': rng.choice([0, 1, 2]), 'time_forward': rng.choice([0, 0, 1])}}
        if la['link']['v1'] == 'disp':
            la['link']['n1'] = 'N0'
        assets = [m, la]
        rng.shuffle(assets)
        out.append({'grid': g, 'prices': prices, 'assets': assets, 'opts': {}, 'id': '%s%d' % (tag, i), 'seed': '%s/%s/%d' % (seed, tag, i)})
    return out


def permuted(sp):
    rng = random.Random(str(sp['seed']) + '/perm')
    v = copy.deepcopy(sp)
    for a in v['assets']:
        if a['kind'] in ('StructuredAsset', 'LinkedAsset') and len(a['assets']) > 1:
            a['assets'] = a['assets'][::-1] if (rng.random() < 0.5 or len(a['assets']) == 2) else rng.sample(a['assets'], len(a['assets']))     # the wrapped assets in another order, too
    while True:
        rng.shuffle(v['assets'])
        if [a['name'] for a in v['assets']] != [a['name'] for a in sp['assets']] or len(v['assets']) < 2:
            break
    v['id'] = sp['id'] + '+perm'
    return v


def derived_names(sp, fa, fn, base_mapping):
    """labels a structured asset derives from names: internal nodes and variable names"""
    ln, lv = {}, {}
    for a in sp['assets']:
        if a['kind'] not in ('StructuredAsset', 'LinkedAsset'):
            continue
        for n in node_names(a['assets']):
            ln['%s_internal_%s' % (a['name'], n)] = '%s_internal_%s' % (fa[a['name']], fn[n])
        for b in asset_names(a['assets']):
            for r in base_mapping:
                if r['asset'] == a['name'] and r['var_name'].endswith('__' + b):
                    lv[r['var_name']] = r['var_name'][:-len(b)] + fa[b]
    return ln, lv


def tables_equal(ob, ov, fa, fn, bad):
    multi_b, multi_v = len(ob['nodes']) > 1, len(ov['nodes']) > 1
    scale = 1 + abs(ob['value'])
    for a in ob['assets']:
        for n in a['nodes']:
            cb = a['name'] if not multi_b else '%s (%s)' % (a['name'], n)
            cv = fa[a['name']] if not multi_v else '%s (%s)' % (fa[a['name']], fn[n])
            vb, vv = ob['out']['dispatch'].get(cb), ov['out']['dispatch'].get(cv)
            if (vb is None) != (vv is None) or (vb is not None and any(abs((x or 0) - (y or 0)) > 1e-6 * scale for x, y in zip(vb, vv))):
                bad['dispatch of %s at %s' % (a['name'], n)] = [vb, vv]
        vb, vv = ob['out']['DCF'].get(a['name']), ov['out']['DCF'].get(fa[a['name']])
        if (vb is None) != (vv is None) or (vb is not None and any(abs((x or 0) - (y or 0)) > 1e-6 * scale for x, y in zip(vb, vv))):
            bad['cash flows of %s' % a['name']] = [vb, vv]


def run(ctx):
    if not ctx.proof_gate(THEOREMS, ['Rename.vo', 'Build.vo']):
        return
    n = 50 if ctx.tier == 'quick' else 400
    # order books whose last order has no step in the horizon (a variable without mapping row), at any position of the asset list
    specs = ctx.specs(util.corpus(ctx.prop) + gen.gen_many(ctx.seed, n, CFG, 'c09_') + util.orderbook_tail_specs(ctx.seed, 10 if ctx.tier == 'quick' else 60, 'c09ob_', split=False)
                      # structured assets with an own life time wrapping assets with life times of their own
                      + gen.gen_many(ctx.seed, n // 3, dict(CFG, p_struct_window=1.0, p_window_inner=0.8, kinds={'StructuredAsset': 4, 'SimpleContract': 1}), 'c09st_')
                      + linked_specs(ctx.seed, 16 if ctx.tier == 'quick' else 80, 'c09li_')
                      # assets that have no step in the horizon (expired / not yet started) next to assets with restriction rows
                      + gen.gen_many(ctx.seed, n // 3, dict(CFG, p_window=0.7, window_kinds=['before', 'after', 'inside', 'before'], p_coarse=0.0, p_periodic=0.0, n_assets=(3, 5),
                                                            kinds={'Storage': 3, 'Contract': 3, 'SimpleContract': 1, 'ExtendedTransport': 1}), 'c09dead_')
                      # structured assets wrapping assets without a step in the horizon (expired / not yet started), in any position
                      + gen.gen_many(ctx.seed, n // 3, dict(CFG, p_coarse=0.0, p_periodic=0.0, p_window_inner=0.5, inner_window_kinds=['before', 'after', 'inside', 'before'],
                                                            p_struct_window=0.0, nodes=(2, 3), kinds={'StructuredAsset': 4, 'SimpleContract': 1, 'Transport': 1}), 'c09stdead_')
                      # order books with orders outside the horizon next to assets with binary variables
                      + gen.gen_many(ctx.seed, n // 3, dict(CFG, p_coarse=0.0, p_periodic=0.0, p_no_simult=0.9, p_full_exec=0.5, n_assets=(2, 4), T=(4, 7),
                                                            order_kinds=['outside', 'inside', 'inside', 'outside'],
                                                            kinds={'OrderBook': 3, 'Storage': 4, 'SimpleContract': 1}), 'c09mip_'))
    base = [sp for sp in specs if not sp['id'].endswith(('+ren', '+perm'))]
    for i_, sp in enumerate(base):
        # (plain assets only: what in-place renaming means for the internal node labels a structured asset derives is not defined anywhere)
        if i_ % 2 == 0 and not any(a['kind'] in ('LinkedAsset', 'StructuredAsset', 'ScaledAsset') for a in sp['assets']):
            sp['opts']['rename_in_place'] = True
    rens = [renamed(sp) for sp in base]
    perms = [permuted(sp) for sp in base]
    res = C.run_impl('portfolio', base + [r[0] for r in rens] + perms)
    k = len(base)
    exprs, owners = [], []
    for i, sp in enumerate(base):
        ob, (vr, fa, fn), ov, op = res[i], rens[i], res[k + i], res[2 * k + i]
        ctx.count('status:' + str(ob.get('status')))
        if ob.get('status') != 'ok':
            if ov.get('status') == 'ok' or op.get('status') == 'ok':
                ctx.violation('impl-violation', {'spec': sp, 'renamed_spec': vr, 'observed': {'base': ob.get('error'), 'renamed': ov.get('status'), 'permuted': op.get('status')},
                                                 'expected': 'set-up succeeds or fails independently of names and order'}, trigger={'what': 'status depends on names'})
            continue
        for a in sp['assets']:
            ctx.count('kind:' + a['kind'])
        ctx.cov['impl_oracle_evaluations'] += 2
        # ---- renaming
        bad = {}
        if ov.get('status') != 'ok':
            bad['set-up fails after renaming'] = ov.get('error')
        else:
            B, V = ob['problem'], ov['problem']
            for key in ('c', 'l', 'u', 'b', 'cType', 'rows'):
                if B[key] != V[key]:
                    bad['problem differs: ' + key] = True
            if ob.get('solve') != ov.get('solve'):
                bad['solver status'] = [ob.get('solve'), ov.get('solve')]
            elif ob.get('solve') == 'optimal':
                if abs(ob['value'] - ov['value']) > 1e-6 * (1 + abs(ob['value'])):
                    bad['optimal value'] = [ob['value'], ov['value']]
                if ob.get('out') and ov.get('out') and not bad:
                    tables_equal(ob, ov, fa, fn, bad)
            ln, lv = derived_names(sp, fa, fn, B['mapping'])
            pair = lambda d: C.lst(['(%s, %s)' % (C.s(a), C.s(b)) for a, b in d.items()])
            exprs.append('(c09_case %s %s %s %s %s %s %s)' % (pair(fa), pair(dict(fn, **ln)), pair(lv), C.lp(B), C.mapping(B['mapping']), C.lp(V), C.mapping(V['mapping'])))
            owners.append((sp, vr))
        if bad:
            ctx.violation('impl-violation', {'spec': vr, 'base_spec': sp, 'renaming': {'assets': fa, 'nodes': fn}, 'observed': bad,
                                             'expected': 'same problem, same optimum, same tables under the new labels'}, trigger={'what': 'renaming: ' + sorted(bad)[0]})
        # ---- relabelling in place (the objects are kept, their names changed, a new portfolio built from them)
        q = ob.get('renamed_in_place')
        if isinstance(q, dict):
            ctx.cov['impl_oracle_evaluations'] += 1
            if q.get('solve') != ob.get('solve') or (q.get('solve') == 'optimal' and abs(q['value'] - ob['value']) > 1e-6 * (1 + abs(ob['value']))):
                ctx.violation('impl-violation', {'spec': sp, 'observed': {'after renaming the nodes in place': q, 'before': [ob.get('solve'), ob.get('value')]},
                                                 'expected': 'same optimum under the new labels'}, trigger={'what': 'renaming in place'})
        # ---- permutation of the asset list
        bad = {}
        if op.get('status') != 'ok':
            bad['set-up fails after permuting the assets'] = op.get('error')
        elif ob.get('solve') != op.get('solve'):
            bad['solver status'] = [ob.get('solve'), op.get('solve')]
        elif ob.get('solve') == 'optimal' and abs(ob['value'] - op['value']) > 1e-6 * (1 + abs(ob['value'])):
            bad['optimal value'] = [ob['value'], op['value']]
        if op.get('status') == 'ok':
            blk = lambda P: sorted((r['asset'], round(P['c'][r['index']], 9), round(P['l'][r['index']], 9), round(P['u'][r['index']], 9), r['time_step'], str(r['node'])) for r in P['mapping'])
            if blk(ob['problem']) != blk(op['problem']):
                bad['costs / bounds of the asset variables'] = True
            if sorted(ob['problem']['cType']) != sorted(op['problem']['cType']) or sorted(round(v, 9) for v in ob['problem']['b']) != sorted(round(v, 9) for v in op['problem']['b']):
                bad['rows'] = True
        if bad:
            trig = {'what': 'order: ' + sorted(bad)[0]}
            if any(a['kind'] == 'LinkedAsset' and any(b.get('start') or b.get('end') for b in a['assets']) for a in sp['assets']):
                trig = {'what': 'order: linked asset wrapping an asset with its own window'}
            ctx.violation('impl-violation', {'spec': perms[i], 'base_spec': sp, 'observed': bad, 'expected': 'same optimum for every order of the assets'},
                          trigger=trig)
        ctx.sample({'spec': sp, 'renaming': {'assets': fa, 'nodes': fn}})
    vals = C.run_coq_exprs('C09', 'Num LP Cert Mapping Dcf Grid Assets Periodic Portfolio Corr Build', exprs, chunk=6)
    names = ['c identical', 'l identical', 'u identical', 'rows identical', 'mapping = relabelled base mapping (hypothesis of C09_dispatch_equivariant / cash flows)']
    for (sp, vr), v in zip(owners, vals):
        ctx.cov['correspondence']['cases'] += 1
        ctx.cov['correspondence']['components_compared'] += 5
        for nm, ok in zip(names, v):
            if not ok:
                ctx.cov['correspondence']['disagreements'] += 1
                ctx.broken('correspondence-broken', {'spec': vr, 'base_spec': sp, 'theorem_or_correspondence': 'renamed portfolio vs Rename.rename_map of the base problem: ' + nm})
