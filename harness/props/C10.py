"""C10: building a problem is a pure function of parameters, prices and grid."""
import random, copy
import pandas as pd
import common as C
import gen
from props import util

THEOREMS = ['C10_explicit_grid_is_pure', 'C10_without_grid_is_pure', 'C10_portfolio_is_pure']
CFG = {'waccs': [0.05, 0.053, 0.1, 0.5, 0.003], 'p_coarse': 0.15, 'p_periodic': 0.1, 'T': (4, 9), 'n_assets': (1, 4), 'nodes': (1, 3), 'p_window': 0.6, 'p_market': 0.8, 'p_wacc': 0.6,
       'p_cap_dict': 0.5, 'window_kinds': ['inside', 'inside', 'left', 'right', 'straddle_l', 'straddle_r'],
       'freqs': ['h', 'h', '30min'], 'tzs': [None, None, 'CET'],
       'kinds': {'SimpleContract': 2, 'Contract': 3, 'Transport': 2, 'Storage': 2, 'MultiCommodityContract': 1, 'OrderBook': 1,
                 'ExtendedTransport': 2, 'ScaledAsset': 1, 'StructuredAsset': 2}}


def grid_variants(sp, rng):
    """the grid of the spec and others: another horizon, another time zone, a shifted start, coarser and finer steps"""
    g0 = dict(sp['grid'])
    step = gen.freq_td(g0['freq'])
    s0, e0 = pd.Timestamp(g0['start']), pd.Timestamp(g0['end'])
    out = [g0]
    g1 = dict(g0, end=gen.fmt(s0 + rng.randint(1, max(1, g0['T'] - 1)) * step))                      # shorter horizon, same start
    g2 = dict(g0, tz=('CET' if g0.get('tz') is None else None))                                      # other time zone
    g3 = dict(g0, start=gen.fmt(s0 + rng.randint(1, 3) * step), end=gen.fmt(e0 + rng.randint(1, 4) * step))   # shifted, longer
    g4 = dict(g0, freq={'h': '2h', '30min': 'h'}.get(g0['freq'], g0['freq']))                        # coarser steps (may equal an asset's own frequency)
    g5 = dict(g0, freq={'h': '30min', '30min': '15min'}.get(g0['freq'], g0['freq']))                 # finer steps
    g6 = dict(g0, unit={'h': 'min', 'd': 'h', 'min': 'h'}.get(g0.get('unit', 'h'), 'h'))              # another main time unit
    for g in (g1, g2, g3, g4, g5, g6):
        try:
            gen.check_safe(g['start'], g.get('tz')); gen.check_safe(g['end'], g.get('tz'))
            g['T'] = gen.grid_T(g)
            if g['T'] >= 1:
                out.append(g)
        except Exception:
            pass
    return out


def gen_ops(sp, rng, ng):
    na = len(sp['assets'])
    ops = []
    for _ in range(rng.randint(1, 5)):
        k = rng.choice(['P', 'P', 'A', 'A', 'At', 'An', 'Pn', 'S', 'F', 'J', 'Psk'])
        gi = rng.randrange(ng)
        if k in ('P', 'A'):
            ops.append({'op': k, 'k': rng.randrange(na), 'g': gi, 'p': rng.randint(0, 1)})
        elif k == 'At':
            ops.append({'op': 'At', 'k': rng.randrange(na), 'g': gi})
        elif k in ('An', 'Pn'):
            ops.append({'op': k, 'k': rng.randrange(na), 'p': rng.randint(0, 1)})
        elif k == 'Psk':
            ops.append({'op': 'Psk', 'g': gi, 'k': rng.randint(0, 3)})
        elif k == 'S':
            ops.append({'op': 'S', 'g': gi, 'p': 0, 'size': {'h': '3h', '30min': '2h'}[sp['grid']['freq']]})
        elif k == 'F':
            ops.append({'op': 'F', 'g': gi, 'p': 0, 'k': rng.randint(0, 6), 'date': rng.random() < 0.7})
        else:
            ops.append({'op': 'J'})
    # the observations: the portfolio and single assets on the grid of the spec, with and without handing the grid over
    tail = rng.choice([['P'], ['P', 'An'], ['At', 'An'], ['A'], ['P', 'Pn'], ['F'], ['At', 'At2', 'An']])
    k0 = rng.randrange(na)
    for t in tail:
        if t == 'P':
            ops.append({'op': 'P', 'g': 0, 'p': 0})
        elif t == 'A':
            ops.append({'op': 'A', 'k': k0, 'g': 0, 'p': 0})
        elif t == 'At':
            ops.append({'op': 'At', 'k': k0, 'g': 0})
        elif t == 'At2':
            ops.append({'op': 'At', 'k': (k0 + 1) % na, 'g': 0})       # another asset takes the same grid object
        elif t == 'An':
            ops.append({'op': 'An', 'k': k0, 'p': 0})
        elif t == 'Pn':
            ops.append({'op': 'Pn', 'p': 1})
        elif t == 'F':
            ops.append({'op': 'F', 'g': 0, 'p': 0, 'k': rng.randint(0, 6), 'date': True})
    return ops


def same_problem(a, b):
    if ('split' in a) != ('split' in b):
        return 'kind'
    if 'split' in a:
        if len(a['split']) != len(b['split']):
            return 'number of intervals'
        for x, y in zip(a['split'], b['split']):
            r = same_problem(x, y)
            if r:
                return r
        return None if (a['c'] == b['c'] and a['mapping'] == b['mapping']) else 'concatenated c / mapping'
    for key in ('c', 'l', 'u', 'b', 'cType', 'rows', 'mapping'):
        if a[key] != b[key]:
            return key
    return None


def run(ctx):
    if not ctx.proof_gate(THEOREMS, ['Purity.vo']):
        return
    n = 100 if ctx.tier == 'quick' else 800
    specs = util.corpus(ctx.prop) + gen.gen_many(ctx.seed, n, CFG, 'c10_')
    for sp in specs:
        if 'ops' not in sp['opts']:
            rng = random.Random(str(sp['seed']) + '/ops')
            sp['opts']['grids'] = grid_variants(sp, rng)
            for a in sp['assets']:
                # user data as numpy arrays (the form the docstrings name), kept by reference by the assets
                for key in ('max_take', 'min_take', 'min_cap', 'max_cap', 'extra_costs'):
                    if isinstance(a.get(key), dict) and rng.random() < 0.5:
                        a[key]['as_array'] = True
            sp['opts']['ops'] = gen_ops(sp, rng, len(sp['opts']['grids']))
    # assets with an own frequency first set up on a grid of exactly that frequency, then on the finer grid of the spec
    own = gen.gen_many(ctx.seed, n // 5, dict(CFG, freqs=['h'], p_coarse=0.9, coarse_freqs=['2h'], coarse_any=True, p_periodic=0.0, n_assets=(1, 3),
                                              kinds={'SimpleContract': 2, 'Contract': 1, 'Transport': 1, 'Storage': 2}), 'c10f_')
    for sp in own:
        rng = random.Random(str(sp['seed']) + '/ops')
        gs = grid_variants(sp, rng)
        sp['opts']['grids'] = gs
        gi = [i for i, g in enumerate(gs) if g['freq'] == '2h']
        if not gi:
            continue
        k = rng.randrange(len(sp['assets']))
        first = rng.choice([{'op': 'P', 'g': gi[0], 'p': 0}, {'op': 'A', 'k': k, 'g': gi[0], 'p': 0}, {'op': 'At', 'k': k, 'g': gi[0]}])
        sp['opts']['ops'] = [first, {'op': 'P', 'g': 0, 'p': 0}, {'op': 'A', 'k': k, 'g': 0, 'p': 1}]
        specs.append(sp)
    # plants / CHP units with an own start date (and ramp profiles), set up repeatedly
    pl = gen.gen_many_plants(ctx.seed, n // 5, dict(CFG, freqs=['h'], units=['h'], tzs=[None], T=(4, 8), p_unaligned_end=0.0, p_window_plant=0.8, p_profile=0.7, p_inflow=0.0), 'c10p_')
    for sp in pl:
        rng = random.Random(str(sp['seed']) + '/ops')
        for a in sp['assets']:
            if a.get('ramp_freq') and rng.random() < 0.5:
                a['ramp_freq'] = None             # ramps given in the main time unit of whatever grid is used
        sp['opts']['grids'] = [g for g in grid_variants(sp, rng) if g['freq'] == sp['grid']['freq'] and g.get('tz') == sp['grid'].get('tz')]
        sp['opts']['ops'] = gen_ops(sp, rng, len(sp['opts']['grids']))
        sp['opts']['ops'] = [o for o in sp['opts']['ops'] if o['op'] not in ('S', 'F', 'J')]
        other_unit = [i for i, g in enumerate(sp['opts']['grids']) if g.get('unit', 'h') != sp['grid'].get('unit', 'h')]
        if other_unit and int(sp['id'].split('_')[-1]) % 2:
            # the same objects on a grid with another main time unit and back (ramps may be given in "the main time unit of the grid")
            k_ = [i for i, a in enumerate(sp['assets']) if a['kind'] in ('Plant', 'CHPAsset')][0]
            sp['opts']['ops'] = [{'op': 'P', 'g': 0, 'p': 0}, {'op': 'P', 'g': other_unit[0], 'p': 0}, {'op': 'P', 'g': 0, 'p': 1},
                                 {'op': 'A', 'k': k_, 'g': other_unit[0], 'p': 0}, {'op': 'A', 'k': k_, 'g': 0, 'p': 0}]
        specs.append(sp)
    # the user holds ONE frame of positional prices (numeric index) and uses it for split set-ups on several horizons of the same length
    fr = gen.gen_many(ctx.seed, n // 5, dict(CFG, p_coarse=0.0, p_periodic=0.0, freqs=['h'], tzs=[None], T=(6, 9), p_cap_dict=0.0, p_cap_key=0.0,
                                             kinds={'SimpleContract': 3, 'Transport': 2, 'Storage': 2}), 'c10fr_')
    for sp in fr:
        rng = random.Random(str(sp['seed']) + '/ops')
        gs = [g for g in grid_variants(sp, rng) if g['T'] == sp['grid']['T'] and g['freq'] == sp['grid']['freq']]
        # another horizon of the same length: shifted by a whole number of days
        g_next = dict(sp['grid'], start=gen.fmt(pd.Timestamp(sp['grid']['start']) + pd.Timedelta(days=2)), end=gen.fmt(pd.Timestamp(sp['grid']['end']) + pd.Timedelta(days=2)))
        gs.append(g_next)
        sp['opts']['grids'] = gs
        sp['opts']['price_frame'] = True
        sp['opts']['ops'] = [{'op': 'S', 'g': gi, 'p': 0, 'size': '3h'} for gi in [0, len(gs) - 1, 0] + list(range(1, len(gs) - 1))]
        specs.append(sp)
    # structured assets with a life time of their own wrapping assets with life times: set up in one zone, then in another
    stz = gen.gen_many(ctx.seed, n // 6, dict(CFG, tzs=['CET'], freqs=['h'], p_struct_window=1.0, p_window_inner=0.9, p_coarse=0.0, p_periodic=0.0,
                                              kinds={'StructuredAsset': 4, 'SimpleContract': 1}), 'c10st_')
    for sp in stz:
        rng = random.Random(str(sp['seed']) + '/ops')
        gs = grid_variants(sp, rng)
        sp['opts']['grids'] = gs
        other = [i for i, g in enumerate(gs) if g.get('tz') != sp['grid'].get('tz')]
        if other:
            sp['opts']['ops'] = [{'op': 'P', 'g': 0, 'p': 0}, {'op': 'P', 'g': other[0], 'p': 0}, {'op': 'P', 'g': 0, 'p': 1}, {'op': 'A', 'k': 0, 'g': other[0], 'p': 0}]
            specs.append(sp)
    # linked assets (times back / forward given in the main time unit) on grids whose step is not the main time unit, built repeatedly
    from props.C09 import linked_specs
    for fq in ('15min', '30min'):
        for sp in linked_specs(ctx.seed, n // 12, 'c10li%s_' % fq, freq=fq):
            sp['opts']['grids'] = [sp['grid']]
            kl = [k_ for k_, a in enumerate(sp['assets']) if a['kind'] == 'LinkedAsset'][0]
            sp['opts']['ops'] = [{'op': 'P', 'g': 0, 'p': 0}, {'op': 'P', 'g': 0, 'p': 1}, {'op': 'A', 'k': kl, 'g': 0, 'p': 0}, {'op': 'P', 'g': 0, 'p': 0}]
            specs.append(sp)
    specs = ctx.specs(specs)
    res = C.run_impl('purity', specs)
    for sp, o in zip(specs, res):
        ctx.count('status:' + str(o.get('status')))
        if o.get('status') != 'ok':
            continue
        ctx.count('ops:%d' % len(sp['opts']['ops']))
        for a in sp['assets']:
            ctx.count('kind:' + a['kind'])
        for st in o['steps']:
            kind = st['op']['op']
            ctx.count('op:' + kind)
            if 'reused' not in st:
                continue
            ctx.cov['impl_oracle_evaluations'] += 1
            r, f = st['reused'], st['fresh']
            bad = None
            if r['ok'] != f['ok']:
                bad = {'objects used before': r.get('error', 'ok'), 'fresh objects': f.get('error', 'ok')}
            elif r['ok']:
                d = same_problem(r['problem'], f['problem'])
                if d:
                    bad = {'problem differs from the one fresh objects give': d}
            elif r['error'] != f['error']:
                ctx.count('both fail, different message')
            if bad:
                trig = {'what': 'set-up depends on history: ' + kind}
                ctx.violation('impl-violation', {'spec': sp, 'step': st['op'], 'observed': bad, 'expected': 'the same problem as from fresh objects'}, trigger=trig)
        if o.get('params_changed'):
            ctx.violation('impl-violation', {'spec': sp, 'observed': {'user parameter dictionaries altered': o['params_changed'][:3]},
                                             'expected': 'user-supplied dictionaries unchanged'}, trigger={'what': 'parameter dictionary altered'})
        if o.get('prices_changed'):
            ctx.violation('impl-violation', {'spec': sp, 'observed': {'price arrays altered': o['prices_changed'][:3]}, 'expected': 'price data unchanged'},
                          trigger={'what': 'prices altered'})
        ctx.sample({'spec': sp})
    ctx.cov['correspondence']['cases'] = len(specs)
